(** * Val/CoerceComplete.v — C05, static_dynamic_agree: completeness of the static value rules
    (validateCoercion, validateVariableUsage, validateArguments) with respect to the run-time
    coercion (coerceLiteral, CoerceArgumentValues, the default branch of CoerceVariableValues).

    Once a document has passed validation and the variable values have been coerced, the ONLY
    reasons left for a run-time coercion error are
      - a variable whose run-time value is null ([null_variable]),
      - a variable without a run-time value that stands as an item of a list literal
        ([absent_item_variable]),
      - an InputCoercion hook that refuses ([refusing_hook]).
    Proofs only (the predicates are defined in Val/CoerceReasons.v). *)
From Coq Require Import List NArith ZArith Bool.
From ApiFu Require Import Base.Sexp Val.Values Val.MapFacts Val.CoerceModel Val.CoerceSpec Val.CoerceReasons Val.CoerceProofs Val.CoerceRefine Val.CoerceTotal.
Import ListNotations.

(** ** small facts *)
Lemma vc_eq E dt l t a : validate_coercion E dt l t a =
  match l with
  | LVar _ => true
  | LNull => negb (is_nonnull t)
  | _ =>
      match t with
      | StNonNull t' => validate_coercion E dt l t' a
      | StList t' =>
          match l with
          | LList vs => forallb (fun v => validate_coercion E dt v t' false) vs
          | _ => if a then validate_coercion E dt l t' true else false
          end
      | StNamed n =>
          match aget n E with
          | Some (TScalar k) => match scalar_literal dt k l with Some _ => true | None => false end
          | Some (TEnum vals) => match enum_literal vals l with Ok _ => true | _ => false end
          | Some (TInput fields h) =>
              match l with
              | LObject fs =>
                  negb (has_dup (map fst fs))
                  && forallb (fun p : name * lit =>
                                match aget (fst p) fields with
                                | Some fd => validate_coercion E dt (snd p) (in_type fd) true
                                | None => false
                                end) fs
                  && forallb (fun f : name * in_def =>
                                negb (is_nonnull (in_type (snd f)) && match in_default (snd f) with None => true | Some _ => false end)
                                || ahas (fst f) fs) fields
              | _ => false
              end
          | None => false
          end
      end
  end.
Proof. destruct l; destruct t; reflexivity. Qed.

Lemma hh_eq E l t : hook_hit E l t =
  match l with
  | LVar _ => false
  | LNull => false
  | _ =>
      match t with
      | StNonNull t' => hook_hit E l t'
      | StList t' => match l with LList vs => existsb (fun v => hook_hit E v t') vs | _ => hook_hit E l t' end
      | StNamed n =>
          match aget n E with
          | Some (TInput fields h) =>
              match l with
              | LObject fs =>
                  is_hfail h
                  || existsb (fun p : name * lit =>
                                match aget (fst p) fields with
                                | Some fd => hook_hit E (snd p) (in_type fd)
                                | None => false
                                end) fs
              | _ => false
              end
          | _ => false
          end
      end
  end.
Proof. destruct l; destruct t; reflexivity. Qed.

Lemma existsb_false {A} (f : A -> bool) l x : existsb f l = false -> In x l -> f x = false.
Proof.
  intros H Hx. destruct (f x) eqn:F; auto.
  assert (existsb f l = true) by (apply existsb_exists; eauto). congruence.
Qed.

Lemma res_map_no_err {A} (f : A -> res gval) l : Forall (fun x => f x <> Err) l -> res_map f l <> Err.
Proof.
  induction 1 as [|x r Hx _ IH]; simpl; [discriminate|].
  destruct (f x); [|contradiction|discriminate]. destruct (res_map f r); [discriminate|contradiction|discriminate].
Qed.

Lemma res_list_no_err r : r <> Err -> res_list r <> Err.
Proof. destruct r; simpl; [discriminate|contradiction|discriminate]. Qed.

Lemma fold_no_err {A B} (step : res A -> B -> res A) (step_panic : forall b, step Panic b = Panic)
      (Inv : A -> Prop) l : forall a0,
  Inv a0 ->
  (forall a b, In b l -> Inv a -> match step (Ok a) b with Ok a' => Inv a' | Err => False | Panic => True end) ->
  fold_left step l (Ok a0) <> Err.
Proof.
  induction l as [|b r IH]; simpl; intros a0 H0 Hs; [discriminate|].
  pose proof (Hs a0 b (or_introl eq_refl) H0) as S.
  destruct (step (Ok a0) b) as [a1| |]; [|contradiction|].
  - apply IH; auto. intros a b' Hin Ha. apply Hs; auto.
  - rewrite (fold_res_panic _ step_panic). discriminate.
Qed.

Lemma item_vars_sub_list vs x v : In x vs -> In v (item_vars x) -> In v (item_vars (LList vs)).
Proof.
  intros Hx Hv. cbn [item_vars]. apply in_flat_map. exists x. split; auto.
  destruct x; auto. simpl in Hv. contradiction.
Qed.

Lemma item_vars_in_lit_vars : forall l v, In v (item_vars l) -> In v (lit_vars l).
Proof.
  induction l as [n|z|m k|s|b| |n|vs IHl|fs IHf] using lit_ind'; intros v H; simpl in H; try contradiction.
  - cbn [lit_vars]. apply in_flat_map in H as (x & Hx & Hv). apply in_flat_map. exists x. split; auto.
    rewrite Forall_forall in IHl. destruct x; try (apply (IHl _ Hx); exact Hv). exact Hv.
  - cbn [lit_vars]. apply in_flat_map in H as (x & Hx & Hv). apply in_flat_map. exists x. split; auto.
    rewrite Forall_forall in IHf. apply (IHf _ Hx). exact Hv.
Qed.

Lemma find_def_In n defs def : find_def n defs = Some def -> In def defs /\ n = vd_name def.
Proof.
  unfold find_def. intro H. apply find_some in H as [Hin B]. apply bytes_eqb_eq in B. auto.
Qed.

(** ** literals *)
Section Complete.
  Variable fx : fixes.
  Variable E : env.
  Variable dt : bytes -> option bytes.
  Hypothesis HE : env_ok E = true.
  Hypothesis Hfix : fix_null_var fx = true.
  Hypothesis Hio : fix_item_object fx = true.
  Hypothesis Hnn : fix_nn_flag fx = true.
  Variable defs : list vardef.
  Variable vv : cvars.
  Hypothesis Hvv : vv_ok E defs vv.
  (** what a successful CoerceVariableValues guarantees for the variables of [l]: one that is
      non-null or has a default has a run-time value *)
  Definition vars_valued (l : lit) : Prop :=
    forall v def, In v (lit_vars l) -> find_def v defs = Some def ->
                  is_nonnull (vd_type def) = true \/ vd_default def <> None -> ahas v vv = true.

  Lemma hook_no_err h m : is_hfail h = false -> apply_hook h m <> Err.
  Proof. destruct h; simpl; discriminate. Qed.

  (** a variable without a value is never accepted at a non-null location without default *)
  Lemma absent_var_usage vn loc : vars_valued (LVar vn) ->
    usage_ok fx E defs (LVar vn) (Some (StNonNull loc)) false = true -> ahas vn vv = true.
  Proof.
    intro Hdv. cbn [usage_ok]. destruct (find_def vn defs) as [def|] eqn:F; [|discriminate].
    unfold var_usage_ok. intro U. apply andb_true_iff in U as [_ U].
    apply (Hdv _ _ (or_introl eq_refl) F). destruct (is_nonnull (vd_type def)); auto. right.
    rewrite orb_false_r in U. apply andb_true_iff in U as [U _].
    destruct (vd_default def); [discriminate|discriminate].
  Qed.

  Definition top_present (l : lit) : Prop := match l with LVar n => ahas n vv = true | _ => True end.

  Definition lit_complete (l : lit) : Prop :=
    forall t a ld,
      top_present l ->
      (forall v, In v (lit_vars l) -> aget v vv <> Some GNil) ->
      (forall v, In v (item_vars l) -> ahas v vv = true) ->
      vars_valued l ->
      hook_hit E l t = false ->
      validate_coercion E dt l t a = true ->
      usage_ok fx E defs l (Some t) ld = true ->
      coerce_literal fx E dt vv l t a <> Err.

  (** the second loop of InputObjectType.CoerceLiteral cannot fail on a map whose entries conform
      and which has every required field *)
  Lemma loop2_no_err n fields h : aget n E = Some (TInput fields h) ->
    forall l m, incl l fields ->
      Forall (entry_ok E fields) m ->
      (forall f, In f l -> is_nonnull (in_type (snd f)) = true -> in_default (snd f) = None -> ahas (fst f) m = true) ->
      fold_left lit_default_step l (Ok m) <> Err.
  Proof.
    intros Hn. induction l as [|[fname fd] r IH]; intros m Hi En Rq; [discriminate|].
    assert (Hin : In (fname, fd) fields) by (apply Hi; left; reflexivity).
    pose proof (nodup_aget _ _ _ (fields_nodup E HE _ _ _ Hn) Hin) as Hg.
    assert (Hi' : incl r fields) by (intros x Hx; apply Hi; right; exact Hx).
    cbn [fold_left lit_default_step].
    destruct (aget fname m) as [v|] eqn:G.
    - assert (N : is_nil v && is_nonnull (in_type fd) = false).
      { apply aget_In in G. rewrite Forall_forall in En. destruct (En _ G) as (fd' & Hg' & Hc). simpl in Hg', Hc.
        rewrite Hg in Hg'. inversion Hg'; subst fd'.
        destruct v; try reflexivity. rewrite conforms_nil in Hc. apply negb_true_iff in Hc. rewrite Hc. reflexivity. }
      destruct (in_default fd); rewrite N; apply IH; auto; intros f Hf; apply Rq; right; exact Hf.
    - destruct (in_default fd) as [d|] eqn:D.
      + apply IH; auto.
        * apply Forall_mset; auto. exists fd. split; auto. simpl.
          pose proof (fields_default_ok E HE _ _ _ _ Hn Hin) as Hd. unfold default_ok in Hd. simpl in Hd.
          rewrite D in Hd. rewrite default_value_ref. exact Hd.
        * intros f Hf N0 D0. rewrite ahas_mset. rewrite (Rq f (or_intror Hf) N0 D0). apply orb_true_r.
      + simpl. destruct (is_nonnull (in_type fd)) eqn:N.
        * exfalso. pose proof (Rq (fname, fd) (or_introl eq_refl) N D) as P. unfold ahas in P. simpl in P.
          rewrite G in P. discriminate.
        * apply IH; auto. intros f Hf; apply Rq; right; exact Hf.
  Qed.

  Lemma atom_complete l :
    (forall n, l <> LVar n) -> l <> LNull -> (forall vs, l <> LList vs) -> (forall fs, l <> LObject fs) ->
    forall t a, validate_coercion E dt l t a = true -> coerce_literal fx E dt vv l t a <> Err.
  Proof.
    intros NV NN NL NO t. induction t as [n|t' IHt|t' IHt]; intros a V; rewrite cl_eq; rewrite vc_eq in V.
    - destruct l; try (exfalso; congruence);
        (destruct (aget n E) as [[sk|vals|fields h]|];
         [ destruct (scalar_literal dt sk _); [discriminate|discriminate]
         | destruct (enum_literal vals _); [discriminate|discriminate|discriminate]
         | discriminate
         | discriminate ]).
    - destruct l; try (exfalso; congruence);
        (destruct a; [|discriminate]; specialize (IHt true V);
         destruct (coerce_literal fx E dt vv _ t' true); [discriminate|contradiction|discriminate]).
    - rewrite Hnn. destruct l; try (exfalso; congruence); apply IHt; exact V.
  Qed.

  Ltac atom l :=
    intros t a ld _ _ _ _ _ V _; apply (atom_complete l); [intros; discriminate|discriminate|intros; discriminate|intros; discriminate|exact V].

  Theorem literal_complete : forall l, lit_complete l.
  Proof.
    induction l as [n|z|m k|s|b| |n|vs IHl|fs IHf] using lit_ind'.
    - (* a variable that has a value: returned as it is, and it is not null *)
      intros t a ld P H1 _ _ _ _ _. simpl in P. unfold ahas in P.
      destruct (aget n vv) as [value|] eqn:G; [|discriminate].
      rewrite cl_eq, G.
      assert (N : is_nil value = false).
      { destruct value; try reflexivity. exfalso. apply (H1 n); [left; reflexivity|exact G]. }
      rewrite N, andb_false_r. discriminate.
    - atom (LInt z).
    - atom (LFloat m k).
    - atom (LString s).
    - atom (LBool b).
    - intros t a ld _ _ _ _ _ V _. rewrite cl_eq. rewrite vc_eq in V. destruct (is_nonnull t); discriminate.
    - atom (LEnum n).
    - (* a list literal *)
      intros t; induction t as [n|t' IHt|t' IHt]; intros a ld P H1 H2 Hd Hh V U; rewrite cl_eq; rewrite vc_eq in V; rewrite hh_eq in Hh.
      + destruct (aget n E) as [[k|vals|fields h]|]; try discriminate. destruct k; discriminate.
      + apply res_list_no_err. apply res_map_no_err.
        rewrite Forall_forall in *. intros x Hx.
        rewrite forallb_forall in V. cbn [usage_ok nullable_type] in U. rewrite forallb_forall in U.
        apply (IHl x Hx t' false false); auto.
        * destruct x; simpl; auto. apply H2. cbn [item_vars]. apply in_flat_map.
          exists (LVar n). split; auto. left; reflexivity.
        * intros v Hv. apply H1. cbn [lit_vars]. apply in_flat_map. exists x; auto.
        * intros v Hv. apply H2. eapply item_vars_sub_list; eauto.
        * intros v def Hv. apply Hd. cbn [lit_vars]. apply in_flat_map. exists x; auto.
        * apply (existsb_false _ _ x Hh Hx).
      + rewrite Hnn. apply (IHt a ld); auto.
    - (* an object literal *)
      intros t; induction t as [n|t' IHt|t' IHt]; intros a ld P H1 H2 Hd Hh V U; rewrite cl_eq; rewrite vc_eq in V; rewrite hh_eq in Hh.
      + destruct (aget n E) as [[k|vals|fields h]|] eqn:Hn; try discriminate.
        { destruct k; discriminate. }
        apply andb_true_iff in V as [V V3]. apply andb_true_iff in V as [V1 V2].
        apply negb_true_iff in V1. rewrite forallb_forall in V2, V3.
        cbn [usage_ok] in U. rewrite Hio in U. cbn [leaf_type] in U. rewrite Hn in U.
        assert (Uf : forall k fv fd, In (k, fv) fs -> aget k fields = Some fd ->
                                     usage_ok fx E defs fv (Some (in_type fd)) (field_loc_default fd) = true).
        { intros k fv fd Hin Hg. rewrite forallb_forall in U. specialize (U _ Hin). simpl in U. rewrite Hg in U. exact U. }
        assert (Sub1 : forall k fv v, In (k, fv) fs -> In v (lit_vars fv) -> In v (lit_vars (LObject fs))).
        { intros k fv v Hin Hv. cbn [lit_vars]. apply in_flat_map. exists (k, fv). split; auto. }
        assert (Sub2 : forall k fv v, In (k, fv) fs -> In v (item_vars fv) -> In v (item_vars (LObject fs))).
        { intros k fv v Hin Hv. cbn [item_vars]. apply in_flat_map. exists (k, fv). split; auto. }
        destruct (lit_fields_loop (coerce_literal fx E dt vv) vv fields fs []) as [r1| |] eqn:L1; [| |discriminate].
        * (* first loop succeeded: the second cannot fail, nor can the hook *)
          assert (L2 : fold_left lit_default_step fields (Ok r1) <> Err).
          { assert (Lc : Forall (fun p : name * lit => lit_conf fx E dt defs vv (snd p)) fs).
            { apply Forall_forall. intros p _. apply (literal_conf fx E dt HE Hfix Hio defs vv Hvv). }
            destruct (lit_fields_loop_built fx E dt defs vv fields fs [] r1
                        (fields_nodup E HE _ _ _ Hn) Lc U eq_refl (Forall_nil _) L1) as [_ En].
            apply (loop2_no_err n fields h Hn fields r1 (incl_refl _) En).
            intros [fname fd] Hin N D. simpl in N, D |- *.
            rewrite <- dup_names_has_dup in V1.
            destruct (loop1_ok (coerce_literal fx E dt vv) vv fields fs [] r1 V1 L1) as (_ & Gr & Pr & _).
            pose proof (nodup_aget _ _ _ (fields_nodup E HE _ _ _ Hn) Hin) as Hg.
            specialize (V3 _ Hin). simpl in V3. rewrite N, D in V3. simpl in V3.
            unfold ahas in V3. destruct (aget fname fs) as [fv|] eqn:Gf; [|discriminate].
            specialize (Gr fname). unfold provided in Gr, Pr. unfold ahas.
            specialize (Pr fname). rewrite Gf, Hg in Gr, Pr.
            destruct (absent_var vv fv) eqn:Ab.
            - exfalso. destruct fv as [n0| | | | | | | |]; try discriminate. simpl in Ab. apply negb_true_iff in Ab.
              apply aget_In in Gf. pose proof (Uf _ _ _ Gf Hg) as Uv.
              destruct (in_type fd) as [|?|loc] eqn:Tf; try discriminate.
              unfold field_loc_default in Uv. rewrite D in Uv.
              assert (Hd' : vars_valued (LVar n0)).
              { intros v def Hv. apply Hd. eapply Sub1; eauto. }
              rewrite (absent_var_usage _ _ Hd' Uv) in Ab. discriminate.
            - destruct (Pr _ eq_refl) as [c Hc]. rewrite Hc in Gr. rewrite Gr. reflexivity. }
          destruct (fold_left lit_default_step fields (Ok r1)) as [r2| |]; [|contradiction|discriminate].
          apply hook_no_err. apply orb_false_iff in Hh as [Hh _]. exact Hh.
        * (* the first loop cannot fail *)
          exfalso. revert L1. apply loop1_total.
          -- intros k fv Hin. specialize (V2 _ Hin). simpl in V2. unfold ahas. destruct (aget k fields); [reflexivity|discriminate].
          -- intros k fv fd Hin Hg Ab. rewrite Forall_forall in IHf.
             apply (IHf (k, fv) Hin (in_type fd) true (field_loc_default fd)).
             ++ simpl. destruct fv; simpl; auto. simpl in Ab. apply negb_false_iff in Ab. exact Ab.
             ++ intros v Hv. apply H1. eapply Sub1; eauto.
             ++ intros v Hv. apply H2. eapply Sub2; eauto.
             ++ intros v def Hv. apply Hd. eapply Sub1; eauto.
             ++ apply orb_false_iff in Hh as [_ Hh]. pose proof (existsb_false _ _ (k, fv) Hh Hin) as X.
                simpl in X. rewrite Hg in X. exact X.
             ++ specialize (V2 _ Hin). simpl in V2. rewrite Hg in V2. exact V2.
             ++ eapply Uf; eauto.
      + destruct a; [|discriminate].
        assert (U' : usage_ok fx E defs (LObject fs) (Some t') ld = true).
        { cbn [usage_ok] in *. rewrite Hio in *. exact U. }
        specialize (IHt true ld P H1 H2 Hd Hh V U').
        destruct (coerce_literal fx E dt vv (LObject fs) t' true); [discriminate|contradiction|discriminate].
      + rewrite Hnn.
        assert (U' : usage_ok fx E defs (LObject fs) (Some t') ld = true).
        { cbn [usage_ok] in *. rewrite Hio in *. exact U. }
        apply (IHt a ld); auto.
  Qed.
End Complete.

(** ** the top-level functions *)
Lemma static_parts fx E dt site argdefs defs args :
  static_ok fx E dt site argdefs defs args = true ->
  has_dup (map fst args) = false /\
  (forall ad, In ad argdefs -> is_nonnull (in_type (snd ad)) = true -> in_default (snd ad) = None -> ahas (fst ad) args = true) /\
  (forall a d, In a args -> aget (fst a) argdefs = Some d ->
               validate_coercion E dt (snd a) (in_type d) true = true /\
               usage_ok fx E defs (snd a) (Some (in_type d)) (arg_loc_default site d) = true) /\
  (forall def dflt, In def defs -> vd_default def = Some dflt -> validate_coercion E dt dflt (vd_type def) true = true) /\
  has_dup (map vd_name defs) = false.
Proof.
  unfold static_ok. intro St. repeat (apply andb_true_iff in St as [St ?]).
  rewrite forallb_forall in *.
  split; [|split; [|split; [|split]]].
  - apply negb_true_iff. assumption.
  - intros ad Hin N D. specialize (H5 _ Hin). rewrite N, D in H5. exact H5.
  - intros a d Hin G. specialize (H4 _ Hin). specialize (H0 _ Hin). rewrite G in H4, H0. split; assumption.
  - intros def dflt Hin D. specialize (H3 _ Hin). rewrite D in H3. apply andb_true_iff in H3 as [_ V]. exact V.
  - apply negb_true_iff. assumption.
Qed.

Lemma arg_step_panic E dt av vv : forall b, arg_step all_fixed E dt av vv Panic b = Panic.
Proof. reflexivity. Qed.

Section TopComplete.
  Variable E : env.
  Variable dt : bytes -> option bytes.
  Hypothesis HE : env_ok E = true.
  Let fx := all_fixed.

  (** CoerceVariableValues gives every variable that is non-null or has a default a value *)
  Lemma defs_in_vv defs raw vv :
    coerce_variable_values fx E dt defs raw = Ok vv ->
    forall n def, find_def n defs = Some def ->
                  is_nonnull (vd_type def) = true \/ vd_default def <> None -> ahas n vv = true.
  Proof.
    intros H n def F C. apply find_def_In in F as [Hin ->]. unfold coerce_variable_values in H.
    set (Inv := fun (done : list vardef) (m : cvars) =>
                  forall d, In d done -> is_nonnull (vd_type d) = true \/ vd_default d <> None -> ahas (vd_name d) m = true).
    assert (I : Inv ([] ++ defs) vv).
    { eapply (fold_res_inv _ (fun _ => eq_refl) (fun _ => eq_refl) Inv); [| |exact H].
      - intros d [].
      - intros pre d m1 m2 Hi _ Hs. cbn [var_step] in Hs.
        destruct (negb (type_known E (vd_type d))); try discriminate.
        assert (Ext : forall c, Inv (pre ++ [d]) (mset (vd_name d) c m1)).
        { intros c d0 H0 C0. rewrite ahas_mset. apply in_app_or in H0 as [H0|[<-|[]]].
          - rewrite (Hi _ H0 C0). apply orb_true_r.
          - rewrite bytes_eqb_refl. reflexivity. }
        destruct (aget (vd_name d) raw) as [value|].
        + destruct (coerce_var_value fx E dt value (vd_type d) true); inversion Hs; subst. apply Ext.
        + destruct (vd_default d) as [dflt|] eqn:D.
          * destruct (coerce_literal fx E dt [] dflt (vd_type d) true); inversion Hs; subst. apply Ext.
          * destruct (is_nonnull (vd_type d)) eqn:N; inversion Hs; subst.
            intros d0 H0 C0. apply in_app_or in H0 as [H0|[<-|[]]]; [apply Hi; auto|].
            destruct C0 as [C0|C0]; congruence. }
    apply (I def Hin C).
  Qed.

  (** *** static_dynamic_agree, arguments: after validation and a successful coercion of the
      variable values, CoerceArgumentValues fails only for one of the three run-time reasons *)
  Theorem argument_values_complete_precise site argdefs defs args raw vv :
    has_dup (map fst argdefs) = false ->
    (forall def dflt, In def defs -> vd_default def = Some dflt -> lit_vars dflt = []) ->
    (forall p, In p raw -> jval_ok (snd p) = true) ->
    static_ok fx E dt site argdefs defs args = true ->
    coerce_variable_values fx E dt defs raw = Ok vv ->
    coerce_argument_values fx E dt argdefs args vv = Err ->
    null_variable vv args || absent_item_variable vv args || hook_reached_args E argdefs args = true.
  Proof.
    intros Hda Hc Hr St Hv.
    destruct (static_parts _ _ _ _ _ _ _ St) as (Da & Rq & VU & _ & Dd).
    pose proof (variable_values_ok fx E dt HE eq_refl eq_refl defs raw vv Dd Hc Hr Hv) as Hvv.
    pose proof (defs_in_vv defs raw vv Hv) as Hdv.
    destruct (null_variable vv args) eqn:B1; [reflexivity|].
    destruct (absent_item_variable vv args) eqn:B2; [reflexivity|].
    destruct (hook_reached_args E argdefs args) eqn:B3; [reflexivity|]. intro H. exfalso. revert H.
    (* the three hazards are absent *)
    assert (H1 : forall a v, In a args -> In v (lit_vars (snd a)) -> aget v vv <> Some GNil).
    { intros a v Ha Hin G. unfold null_variable in B1.
      assert (X : existsb (fun a : name * lit => existsb (fun v => match aget v vv with Some g => is_nil g | None => false end) (lit_vars (snd a))) args = true).
      { apply existsb_exists. exists a. split; auto. apply existsb_exists. exists v. split; auto. rewrite G. reflexivity. }
      congruence. }
    assert (H2 : forall a v, In a args -> In v (item_vars (snd a)) -> ahas v vv = true).
    { intros a v Ha Hin. destruct (ahas v vv) eqn:A; auto. unfold absent_item_variable in B2.
      assert (X : existsb (fun a : name * lit => existsb (fun v => negb (ahas v vv)) (item_vars (snd a))) args = true).
      { apply existsb_exists. exists a. split; auto. apply existsb_exists. exists v. split; auto. rewrite A. reflexivity. }
      congruence. }
    unfold coerce_argument_values.
    set (av := fold_left (fun m (a : name * lit) => mset (fst a) (snd a) m) args []).
    assert (Av : forall k, aget k av = aget k args).
    { intro k. unfold av. rewrite aget_fold_mset_nodup by (rewrite dup_names_has_dup; exact Da).
      destruct (aget k args); reflexivity. }
    apply (fold_no_err _ (arg_step_panic E dt av vv) (fun _ => True)); [exact I|].
    intros coerced [aname d] Hin _.
    pose proof (nodup_aget argdefs aname d) as Hg. rewrite dup_names_has_dup in Hg. specialize (Hg Hda Hin).
    cbn [arg_step]. cbv zeta. rewrite Av.
    destruct (aget aname args) as [l|] eqn:G.
    - apply aget_In in G. destruct (VU (aname, l) d G Hg) as [V U]. simpl in V, U.
      assert (Lit : (forall vn, l <> LVar vn) ->
                    match coerce_literal all_fixed E dt vv l (in_type d) true with
                    | Ok c => True | Err => False | Panic => True end).
      { intros NV.
        pose proof (literal_complete all_fixed E dt HE eq_refl eq_refl eq_refl defs vv Hvv l (in_type d) true
                      (arg_loc_default site d)) as C.
        destruct (coerce_literal all_fixed E dt vv l (in_type d) true); auto. apply C; auto.
        - destruct l; simpl; auto. exfalso. eapply NV; reflexivity.
        - intros v Hv'. apply (H1 (aname, l)); auto.
        - intros v Hv'. apply (H2 (aname, l)); auto.
        - intros v def _. apply Hdv.
        - pose proof (existsb_false _ _ (aname, l) B3 G) as X. simpl in X. rewrite Hg in X. exact X. }
      destruct l as [vn| | | | | | | |];
        try (cbn [negb]; rewrite andb_false_r; cbn iota;
             (match goal with |- context [coerce_literal ?a ?b ?c ?v ?l ?t true] =>
                assert (X := Lit ltac:(intros; discriminate));
                destruct (coerce_literal a b c v l t true); [exact I|exact X|exact I] end); fail).
      (* a variable as the whole argument *)
      destruct (ahas vn vv) eqn:Hv'.
      + unfold ahas in Hv'. destruct (aget vn vv) as [value|] eqn:Gv; [|discriminate].
        assert (N : is_nil value = false).
        { destruct value; try reflexivity. exfalso. apply (H1 (aname, LVar vn) vn G); [left; reflexivity|exact Gv]. }
        destruct (in_default d); rewrite andb_false_r; cbn iota; rewrite N; simpl; exact I.
      + destruct (in_default d) as [dv|] eqn:D; [exact I|].
        rewrite andb_true_r. destruct (is_nonnull (in_type d)) eqn:N; [|exact I].
        exfalso. destruct (in_type d) as [|?|loc] eqn:Td; try discriminate.
        unfold arg_loc_default in U. rewrite D in U.
        rewrite (absent_var_usage fx E defs vv vn loc (fun v def _ => Hdv v def) U) in Hv'. discriminate.
    - destruct (in_default d) as [dv|] eqn:D; [exact I|].
      rewrite andb_true_r. destruct (is_nonnull (in_type d)) eqn:N; [|exact I].
      pose proof (Rq (aname, d) Hin N D) as P. unfold ahas in P. simpl in P. rewrite G in P. discriminate.
  Qed.

  (** *** the same for the default branch of CoerceVariableValues: after validation it fails only
      because of a raw value that does not coerce, a required variable without value, or a
      refusing hook — never because of a default value *)
  Theorem variable_values_complete_precise site argdefs defs args raw :
    (forall def dflt, In def defs -> vd_default def = Some dflt -> lit_vars dflt = []) ->
    static_ok fx E dt site argdefs defs args = true ->
    coerce_variable_values fx E dt defs raw = Err ->
    bad_variable_value fx E dt defs raw || hook_reached_defaults E defs raw = true.
  Proof.
    intros Hc St.
    destruct (static_parts _ _ _ _ _ _ _ St) as (_ & _ & _ & Vd & _).
    assert (Tk : forall def, In def defs -> type_known E (vd_type def) = true).
    { unfold static_ok in St. repeat (apply andb_true_iff in St as [St ?]).
      match goal with X : forallb (fun def : vardef => type_known E (vd_type def)) defs = true |- _ =>
        rewrite forallb_forall in X; exact X end. }
    destruct (bad_variable_value fx E dt defs raw) eqn:B1; [reflexivity|].
    destruct (hook_reached_defaults E defs raw) eqn:B3; [reflexivity|]. intro H. exfalso. revert H.
    unfold coerce_variable_values.
    apply (fold_no_err _ (fun _ => eq_refl) (fun _ => True)); [exact I|].
    intros coerced def Hin _. cbn [var_step]. rewrite (Tk _ Hin). cbn [negb].
    assert (Bd : match aget (vd_name def) raw with
                 | Some j => match coerce_var_value fx E dt j (vd_type def) true with Err => true | _ => false end
                 | None => match vd_default def with None => is_nonnull (vd_type def) | Some _ => false end
                 end = false).
    { destruct (match aget (vd_name def) raw with Some j => _ | None => _ end) eqn:X; auto.
      unfold bad_variable_value in B1.
      assert (Y : existsb (fun def => match aget (vd_name def) raw with
             | Some j => match coerce_var_value fx E dt j (vd_type def) true with Err => true | _ => false end
             | None => match vd_default def with None => is_nonnull (vd_type def) | Some _ => false end
             end) defs = true) by (apply existsb_exists; exists def; split; auto).
      congruence. }
    destruct (aget (vd_name def) raw) as [value|] eqn:Rw.
    - destruct (coerce_var_value fx E dt value (vd_type def) true); [exact I|discriminate|exact I].
    - destruct (vd_default def) as [dflt|] eqn:D.
      + assert (V0 : vv_ok E defs []) by (intros n g G; discriminate).
        pose proof (Hc _ _ Hin D) as Cl.
        assert (C : coerce_literal fx E dt [] dflt (vd_type def) true <> Err).
        { apply (literal_complete fx E dt HE eq_refl eq_refl eq_refl defs [] V0) with (ld := false).
          - destruct dflt; simpl; auto. discriminate.
          - intros v Hv'. rewrite Cl in Hv'. contradiction.
          - intros v Hv'. apply item_vars_in_lit_vars in Hv'. rewrite Cl in Hv'. contradiction.
          - intros v d0 Hv'. rewrite Cl in Hv'. contradiction.
          - pose proof (existsb_false _ _ def B3 Hin) as X. simpl in X. rewrite Rw, D in X. exact X.
          - eapply Vd; eauto.
          - apply closed_usage_ok. exact Cl. }
        destruct (coerce_literal fx E dt [] dflt (vd_type def) true); [exact I|contradiction|exact I].
      + rewrite Bd. exact I.
  Qed.
End TopComplete.

(** ** the coarse reason follows from the precise one *)
Lemma hook_hit_coarse E : forall l t, hook_hit E l t = true -> refusing_hook E = true.
Proof.
  induction l as [n|z|m k|s|b| |n|vs IHl|fs IHf] using lit_ind';
    intros t; induction t as [tn|t' IHt|t' IHt]; intros H; rewrite hh_eq in H; try discriminate; eauto;
    try (destruct (aget tn E) as [[?|?|? ?]|]; discriminate).
  - apply existsb_exists in H as (x & Hx & Hh). rewrite Forall_forall in IHl. eapply IHl; eauto.
  - destruct (aget tn E) as [[?|?|fields h]|] eqn:Hn; try discriminate.
    apply orb_true_iff in H as [H|H].
    + unfold refusing_hook. apply existsb_exists. exists (tn, TInput fields h). split; [apply aget_In; exact Hn|exact H].
    + apply existsb_exists in H as ([k x] & Hx & Hh). simpl in Hh.
      destruct (aget k fields); try discriminate. rewrite Forall_forall in IHf. eapply (IHf (k, x)); eauto.
Qed.

Lemma hook_reached_args_coarse E argdefs args : hook_reached_args E argdefs args = true -> refusing_hook E = true.
Proof.
  intro H. apply existsb_exists in H as (a & _ & H). destruct (aget (fst a) argdefs); try discriminate.
  eapply hook_hit_coarse; eauto.
Qed.

Lemma hook_reached_defaults_coarse E defs raw : hook_reached_defaults E defs raw = true -> refusing_hook E = true.
Proof.
  intro H. apply existsb_exists in H as (d & _ & H).
  destruct (aget (vd_name d) raw); try discriminate. destruct (vd_default d); try discriminate.
  eapply hook_hit_coarse; eauto.
Qed.

Theorem argument_values_complete E dt (HE : env_ok E = true) site argdefs defs args raw vv :
  has_dup (map fst argdefs) = false ->
  (forall def dflt, In def defs -> vd_default def = Some dflt -> lit_vars dflt = []) ->
  (forall p, In p raw -> jval_ok (snd p) = true) ->
  static_ok all_fixed E dt site argdefs defs args = true ->
  coerce_variable_values all_fixed E dt defs raw = Ok vv ->
  coerce_argument_values all_fixed E dt argdefs args vv = Err ->
  null_variable vv args || absent_item_variable vv args || refusing_hook E = true.
Proof.
  intros Hd Hc Hr St V A.
  pose proof (argument_values_complete_precise E dt HE site argdefs defs args raw vv Hd Hc Hr St V A) as C.
  apply orb_true_iff in C as [C|C]; [rewrite C; reflexivity|].
  rewrite (hook_reached_args_coarse _ _ _ C). apply orb_true_r.
Qed.

Theorem variable_values_complete E dt (HE : env_ok E = true) site argdefs defs args raw :
  (forall def dflt, In def defs -> vd_default def = Some dflt -> lit_vars dflt = []) ->
  static_ok all_fixed E dt site argdefs defs args = true ->
  coerce_variable_values all_fixed E dt defs raw = Err ->
  bad_variable_value all_fixed E dt defs raw || refusing_hook E = true.
Proof.
  intros Hc St V.
  pose proof (variable_values_complete_precise E dt HE site argdefs defs args raw Hc St V) as C.
  apply orb_true_iff in C as [C|C]; [rewrite C; reflexivity|].
  rewrite (hook_reached_defaults_coarse _ _ _ C). apply orb_true_r.
Qed.

(** ** static_dynamic_agree for the whole request *)
Theorem static_dynamic_agree_precise E dt site argdefs defs args raw :
  schema_ok E argdefs -> request_ok defs raw ->
  run_request all_fixed E dt site argdefs defs args raw = ORuntimeError ->
  runtime_reason_precise E dt argdefs defs args raw = true.
Proof.
  intros (HE & Hd & _) (Hc & Hr) H. unfold run_request in H.
  destruct (static_ok all_fixed E dt site argdefs defs args) eqn:St; [|discriminate]. cbn [negb] in H.
  unfold runtime_reason_precise.
  destruct (coerce_variable_values all_fixed E dt defs raw) as [vv| |] eqn:V; [| |discriminate].
  - destruct (coerce_argument_values all_fixed E dt argdefs args vv) eqn:A; try discriminate.
    rewrite (argument_values_complete_precise E dt HE site argdefs defs args raw vv Hd Hc Hr St V A).
    apply orb_true_r.
  - pose proof (variable_values_complete_precise E dt HE site argdefs defs args raw Hc St V) as C.
    rewrite C. reflexivity.
Qed.

Lemma runtime_reason_coarse E dt argdefs defs args raw :
  runtime_reason_precise E dt argdefs defs args raw = true -> runtime_reason E dt defs args raw = true.
Proof.
  unfold runtime_reason_precise, runtime_reason. intro H.
  apply orb_true_iff in H as [H|H]; [apply orb_true_iff in H as [H|H]|].
  - rewrite H. reflexivity.
  - rewrite (hook_reached_defaults_coarse _ _ _ H). apply orb_true_r.
  - destruct (coerce_variable_values all_fixed E dt defs raw); try discriminate.
    apply orb_true_iff in H as [H|H].
    + rewrite H. rewrite orb_true_r. reflexivity.
    + rewrite (hook_reached_args_coarse _ _ _ H). apply orb_true_r.
Qed.

Theorem static_dynamic_agree E dt site argdefs defs args raw :
  schema_ok E argdefs -> request_ok defs raw ->
  run_request all_fixed E dt site argdefs defs args raw = ORuntimeError ->
  runtime_reason E dt defs args raw = true.
Proof.
  intros S R H. eapply runtime_reason_coarse. eapply static_dynamic_agree_precise; eauto.
Qed.

(** on a closed schema: a validated request without any of the run-time reasons IS served, with
    the reference coercion *)
Corollary served_unless_runtime_reason E dt site argdefs defs args raw :
  schema_ok E argdefs -> request_ok defs raw -> env_closed E = true ->
  (forall ad, In ad argdefs -> sty_closed E (in_type (snd ad)) = true) ->
  static_ok all_fixed E dt site argdefs defs args = true ->
  runtime_reason_precise E dt argdefs defs args raw = false ->
  exists m, run_request all_fixed E dt site argdefs defs args raw = OCalled m /\
            ref_request E dt argdefs defs args raw = Some m.
Proof.
  intros S R HC Hc St N. pose proof S as (HE & _ & _). pose proof R as (_ & Hr).
  pose proof (request_exact E dt HE HC site argdefs defs args raw Hc Hr St) as X.
  destruct (ref_request E dt argdefs defs args raw) as [m|].
  - exists m. auto.
  - rewrite (static_dynamic_agree_precise E dt site argdefs defs args raw S R X) in N. discriminate.
Qed.

(** ** a converse: the second reason is always fatal.  A variable without a run-time value that
    stands as an item of a list literal makes the coercion fail whatever the types are (graphql-js
    coerces such an item to null; the library, and therefore the reference, do not). *)
Section AbsentItem.
  Variable fx : fixes.
  Variable E : env.
  Variable dt : bytes -> option bytes.
  Variable vv : cvars.

  Lemma res_map_ok_all {A} (f : A -> res gval) l cs x : res_map f l = Ok cs -> In x l -> exists c, f x = Ok c.
  Proof.
    revert cs. induction l as [|y r IH]; simpl; intros cs H []; subst.
    - destruct (f x); try discriminate. eauto.
    - destruct (f y); try discriminate. destruct (res_map f r) eqn:R; try discriminate. eapply IH; eauto.
  Qed.

  Lemma loop1_ok_all fields fs : forall result r1 k fv,
    lit_fields_loop (coerce_literal fx E dt vv) vv fields fs result = Ok r1 -> In (k, fv) fs ->
    absent_var vv fv = false ->
    exists fd c, aget k fields = Some fd /\ coerce_literal fx E dt vv fv (in_type fd) true = Ok c.
  Proof.
    induction fs as [|[fname x] r IH]; intros result r1 k fv H Hin Ab; [contradiction|].
    simpl in H. destruct (aget fname fields) as [fd|] eqn:G; [|discriminate].
    destruct Hin as [Eq|Hin].
    - inversion Eq; subst. unfold absent_var in Ab. rewrite Ab in H.
      destruct (coerce_literal fx E dt vv fv (in_type fd) true) eqn:C; try discriminate. eauto.
    - match type of H with (if ?c then _ else _) = _ => destruct c end.
      + eapply IH; eauto.
      + destruct (coerce_literal fx E dt vv x (in_type fd) true); try discriminate. eapply IH; eauto.
  Qed.

  Theorem absent_item_fatal : forall l v, In v (item_vars l) -> ahas v vv = false ->
    forall t a g, coerce_literal fx E dt vv l t a <> Ok g.
  Proof.
    induction l as [n|z|m k|s|b| |n|vs IHl|fs IHf] using lit_ind'; intros v Hv Ab; simpl in Hv; try contradiction.
    - (* a list literal *)
      apply in_flat_map in Hv as (x & Hx & Hv).
      intros t; induction t as [n|t' IHt|t' IHt]; intros a g H; rewrite cl_eq in H.
      + destruct (aget n E) as [[k|vals|fields h]|]; try discriminate. destruct k; discriminate.
      + destruct (res_map (fun v0 => coerce_literal fx E dt vv v0 t' false) vs) as [cs| |] eqn:R; try discriminate.
        destruct (res_map_ok_all _ _ _ _ R Hx) as [c Hc].
        destruct x; try (rewrite Forall_forall in IHl; eapply (IHl _ Hx); eauto; fail).
        (* the item is the variable itself *)
        destruct Hv as [<-|[]]. unfold ahas in Ab. destruct (aget n vv) eqn:G; [discriminate|].
        revert Hc. clear -G. revert c. generalize false.
        induction t' as [m|u IHu|u IHu]; intros a c H; rewrite cl_eq, G in H.
        * destruct (aget m E) as [[k|vals|fields h]|]; try discriminate. destruct k; discriminate.
        * destruct a; try discriminate. destruct (coerce_literal fx E dt vv (LVar n) u true) eqn:C; try discriminate.
          eapply IHu; eauto.
        * eapply IHu; eauto.
      + eapply IHt; eauto.
    - (* an object literal *)
      apply in_flat_map in Hv as ([k fv] & Hx & Hv). simpl in Hv.
      intros t; induction t as [n|t' IHt|t' IHt]; intros a g H; rewrite cl_eq in H.
      + destruct (aget n E) as [[sk|vals|fields h]|]; try discriminate. { destruct sk; discriminate. }
        destruct (lit_fields_loop (coerce_literal fx E dt vv) vv fields fs []) as [r1| |] eqn:L1; try discriminate.
        assert (Nv : absent_var vv fv = false) by (destruct fv; try reflexivity; simpl in Hv; contradiction).
        destruct (loop1_ok_all fields fs [] r1 k fv L1 Hx Nv) as (fd & c & _ & C).
        rewrite Forall_forall in IHf. eapply (IHf _ Hx); eauto.
      + destruct a; try discriminate.
        destruct (coerce_literal fx E dt vv (LObject fs) t' true) eqn:C; try discriminate. eapply IHt; eauto.
      + eapply IHt; eauto.
  Qed.
End AbsentItem.

Lemma fold_ok_all {A B} (step : res A -> B -> res A)
      (step_err : forall b, step Err b = Err) (step_panic : forall b, step Panic b = Panic) l : forall a0 a b,
  fold_left step l (Ok a0) = Ok a -> In b l -> exists a1 a2, step (Ok a1) b = Ok a2.
Proof.
  induction l as [|x r IH]; simpl; intros a0 a b H []; subst.
  - destruct (step (Ok a0) b) as [a1| |] eqn:S; [eauto| |].
    + rewrite (fold_res_err _ step_err) in H; discriminate.
    + rewrite (fold_res_panic _ step_panic) in H; discriminate.
  - destruct (step (Ok a0) x) as [a1| |] eqn:S.
    + eapply IH; eauto.
    + rewrite (fold_res_err _ step_err) in H; discriminate.
    + rewrite (fold_res_panic _ step_panic) in H; discriminate.
Qed.

Theorem absent_item_variable_is_error E dt site argdefs defs args vv :
  static_ok all_fixed E dt site argdefs defs args = true ->
  absent_item_variable vv args = true ->
  forall m, coerce_argument_values all_fixed E dt argdefs args vv <> Ok m.
Proof.
  intros St Ab m H.
  destruct (static_parts _ _ _ _ _ _ _ St) as (Da & _ & _ & _ & _).
  unfold absent_item_variable in Ab. apply existsb_exists in Ab as ([aname l] & Hin & Ab).
  apply existsb_exists in Ab as (v & Hv & Av). simpl in Hv. apply negb_true_iff in Av.
  assert (Had : ahas aname argdefs = true).
  { unfold static_ok in St. repeat (apply andb_true_iff in St as [St ?]).
    rewrite forallb_forall in St. apply (St _ Hin). }
  apply ahas_In in Had as [d Hd].
  unfold coerce_argument_values in H.
  set (av := fold_left (fun m (a : name * lit) => mset (fst a) (snd a) m) args []) in H.
  assert (Av' : aget aname av = Some l).
  { unfold av. rewrite aget_fold_mset_nodup by (rewrite dup_names_has_dup; exact Da).
    rewrite (nodup_aget args aname l); [reflexivity|rewrite dup_names_has_dup; exact Da|exact Hin]. }
  destruct (fold_ok_all _ (fun _ => eq_refl) (fun _ => eq_refl) _ _ _ _ H Hd) as (m1 & m2 & S).
  cbn [arg_step] in S. cbv zeta in S. rewrite Av' in S.
  assert (NV : forall n, l <> LVar n) by (intros n ->; simpl in Hv; contradiction).
  pose proof (absent_item_fatal all_fixed E dt vv l v Hv Av (in_type d) true) as F.
  destruct l; try (exfalso; eapply NV; reflexivity; fail); try (simpl in Hv; contradiction);
    (cbn [negb] in S; rewrite andb_false_r in S; cbn iota in S;
     match type of S with context [coerce_literal ?a ?b ?c ?v ?l ?t true] =>
       destruct (coerce_literal a b c v l t true) eqn:C; try discriminate; eapply F; reflexivity end).
Qed.
