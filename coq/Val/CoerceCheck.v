(** * Val/CoerceCheck.v — C05 correspondence: decode one case, run the model (repaired code) and
    the Spec oracle, compare with what the implementation did.  Executable only.

    A case:
      (case (tag t) (env ((name tdef)...)) (site field|directive)
            (argdefs ((name type default)...)) (vardefs ((name type default-literal)...))
            (args ((name literal)...)) (vars ((name jval)...)) (dt ((string (none)|(some rendering))...))
            (observed (static ok|reject|panic) (exec ok|error|panic|none)
                      (calls (args...)) (ran bool) (cost (args...)) (costpanic bool))
            (doc "..."))
    Compared (model vs implementation): the static verdict; error-vs-ok of the execution; the
    argument maps the resolver / directive filter / cost function were called with, as typed
    values; whether the field next to the directive ran.  Never messages.
    Oracle (Spec vs implementation, on every case): no panic; every observed argument map
    conforms to the declared argument types; when validation accepted the document, the
    observation equals the reference coercion (error <-> nothing called). *)
From Coq Require Import List NArith ZArith Bool String.
From ApiFu Require Import Base.Sexp Val.Values Val.FloatExact Val.CoerceModel Val.CoerceSpec Val.CoerceReasons Val.BridgeC04 Val.Rfc3339.
Import ListNotations.
Open Scope string_scope.
Open Scope list_scope.

(** ** decoding *)
Fixpoint dec_sty (s : sexp) : option sty :=
  match s with
  | SL [SSym t; x] =>
      if String.eqb t "named" then match x with SStr n => Some (StNamed n) | _ => None end
      else if String.eqb t "list" then match dec_sty x with Some y => Some (StList y) | None => None end
      else if String.eqb t "nn" then match dec_sty x with Some y => Some (StNonNull y) | None => None end
      else None
  | _ => None
  end.

Definition dec_f64 (args : list sexp) : option f64 :=
  match args with
  | [SZ m; SZ e] => Some (F64 m e)
  | _ => None
  end.

Fixpoint dec_gval (s : sexp) : option gval :=
  match s with
  | SSym t =>
      if String.eqb t "nil" then Some GNil
      else if String.eqb t "nullsentinel" then Some GNullSentinel
      else if String.eqb t "other" then Some GOther
      else None
  | SL (SSym t :: args) =>
      if String.eqb t "int" then match args with [SZ z] => Some (GInt z) | _ => None end
      else if String.eqb t "int64" then match args with [SZ z] => Some (GInt64 z) | _ => None end
      else if String.eqb t "float" then option_map GFloat (dec_f64 args)
      else if String.eqb t "str" then match args with [SStr b] => Some (GString b) | _ => None end
      else if String.eqb t "bool" then match args with [b] => option_map GBool (as_bool b) | _ => None end
      else if String.eqb t "time" then match args with [SStr b] => Some (GTime b) | _ => None end
      else if String.eqb t "list" then
        option_map GList
          ((fix go (l : list sexp) : option (list gval) :=
              match l with
              | [] => Some []
              | x :: r => match dec_gval x, go r with Some y, Some ys => Some (y :: ys) | _, _ => None end
              end) args)
      else if String.eqb t "map" then
        option_map GMap
          ((fix go (l : list sexp) : option (list (name * gval)) :=
              match l with
              | [] => Some []
              | SL [SStr k; x] :: r => match dec_gval x, go r with Some y, Some ys => Some ((k, y) :: ys) | _, _ => None end
              | _ => None
              end) args)
      else if String.eqb t "tagged" then
        match args with
        | [SStr tg; x] => match dec_gval x with Some y => Some (GTagged tg y) | None => None end
        | _ => None
        end
      else None
  | _ => None
  end.

Fixpoint dec_jval (s : sexp) : option jval :=
  match s with
  | SSym t =>
      if String.eqb t "null" then Some JNull
      else if String.eqb t "other" then Some JOther
      else None
  | SL (SSym t :: args) =>
      if String.eqb t "bool" then match args with [b] => option_map JBool (as_bool b) | _ => None end
      else if String.eqb t "num" then option_map JNum (dec_f64 args)
      else if String.eqb t "int" then match args with [SZ z] => Some (JInt z) | _ => None end
      else if String.eqb t "str" then match args with [SStr b] => Some (JStr b) | _ => None end
      else if String.eqb t "list" then
        option_map JList
          ((fix go (l : list sexp) : option (list jval) :=
              match l with
              | [] => Some []
              | x :: r => match dec_jval x, go r with Some y, Some ys => Some (y :: ys) | _, _ => None end
              end) args)
      else if String.eqb t "obj" then
        option_map JObj
          ((fix go (l : list sexp) : option (list (name * jval)) :=
              match l with
              | [] => Some []
              | SL [SStr k; x] :: r => match dec_jval x, go r with Some y, Some ys => Some ((k, y) :: ys) | _, _ => None end
              | _ => None
              end) args)
      else None
  | _ => None
  end.

Fixpoint dec_lit (s : sexp) : option lit :=
  match s with
  | SSym t => if String.eqb t "null" then Some LNull else None
  | SL (SSym t :: args) =>
      if String.eqb t "var" then match args with [SStr n] => Some (LVar n) | _ => None end
      else if String.eqb t "int" then match args with [SZ z] => Some (LInt z) | _ => None end
      else if String.eqb t "float" then match args with [SZ m; SZ k] => Some (LFloat m k) | _ => None end
      else if String.eqb t "str" then match args with [SStr b] => Some (LString b) | _ => None end
      else if String.eqb t "bool" then match args with [b] => option_map LBool (as_bool b) | _ => None end
      else if String.eqb t "enum" then match args with [SStr n] => Some (LEnum n) | _ => None end
      else if String.eqb t "list" then
        option_map LList
          ((fix go (l : list sexp) : option (list lit) :=
              match l with
              | [] => Some []
              | x :: r => match dec_lit x, go r with Some y, Some ys => Some (y :: ys) | _, _ => None end
              end) args)
      else if String.eqb t "obj" then
        option_map LObject
          ((fix go (l : list sexp) : option (list (name * lit)) :=
              match l with
              | [] => Some []
              | SL [SStr k; x] :: r => match dec_lit x, go r with Some y, Some ys => Some ((k, y) :: ys) | _, _ => None end
              | _ => None
              end) args)
      else None
  | _ => None
  end.

Definition dec_kind (s : sexp) : option scalar_kind :=
  match s with
  | SSym t =>
      if String.eqb t "int" then Some KInt else if String.eqb t "float" then Some KFloat
      else if String.eqb t "string" then Some KString else if String.eqb t "boolean" then Some KBoolean
      else if String.eqb t "id" then Some KID else if String.eqb t "datetime" then Some KDateTime
      else if String.eqb t "longint" then Some KLongInt else if String.eqb t "custom" then Some KCustom
      else None
  | _ => None
  end.

Definition dec_indef (s : sexp) : option (name * in_def) :=
  match s with
  | SL [SStr n; t; d] =>
      match dec_sty t, as_option dec_gval d with
      | Some ty, Some dv => Some (n, {| in_type := ty; in_default := dv |})
      | _, _ => None
      end
  | _ => None
  end.

Definition dec_hook (s : sexp) : option hook :=
  match s with
  | SSym t => if String.eqb t "none" then Some HNone else if String.eqb t "fail" then Some HFail else None
  | SL [SSym t; SStr tg] => if String.eqb t "wrap" then Some (HWrap tg) else None
  | _ => None
  end.

Definition dec_tdef (s : sexp) : option tdef :=
  match s with
  | SL (SSym t :: args) =>
      if String.eqb t "scalar" then match args with [k] => option_map TScalar (dec_kind k) | _ => None end
      else if String.eqb t "enum" then
        option_map TEnum (map_opt (fun e => match e with
                                            | SL [SStr n; g] => match dec_gval g with Some v => Some (n, v) | None => None end
                                            | _ => None
                                            end) args)
      else if String.eqb t "input" then
        match args with
        | h :: fs => match dec_hook h, map_opt dec_indef fs with
                     | Some hk, Some fields => Some (TInput fields hk)
                     | _, _ => None
                     end
        | [] => None
        end
      else None
  | _ => None
  end.

Definition dec_env_entry (s : sexp) : option (name * tdef) :=
  match s with
  | SL [SStr n; d] => match dec_tdef d with Some td => Some (n, td) | None => None end
  | _ => None
  end.

Definition dec_vardef (s : sexp) : option vardef :=
  match s with
  | SL [SStr n; t; d] =>
      match dec_sty t, as_option dec_lit d with
      | Some ty, Some dv => Some {| vd_name := n; vd_type := ty; vd_default := dv |}
      | _, _ => None
      end
  | _ => None
  end.

Definition dec_named {A} (f : sexp -> option A) (s : sexp) : option (name * A) :=
  match s with
  | SL [SStr n; x] => match f x with Some y => Some (n, y) | None => None end
  | _ => None
  end.

Definition dec_dt_entry (s : sexp) : option (bytes * option bytes) :=
  match s with
  | SL [SStr k; v] => match as_option as_bytes v with Some o => Some (k, o) | None => None end
  | _ => None
  end.

Definition dec_args_map (s : sexp) : option (list (name * gval)) :=
  match s with SL l => map_opt (dec_named dec_gval) l | _ => None end.

Inductive verdict3 := VOk | VReject | VPanic | VNone.
Definition dec_verdict (s : sexp) : option verdict3 :=
  match s with
  | SSym t =>
      if String.eqb t "ok" then Some VOk
      else if String.eqb t "reject" then Some VReject else if String.eqb t "error" then Some VReject
      else if String.eqb t "panic" then Some VPanic else if String.eqb t "none" then Some VNone
      else None
  | _ => None
  end.

Record observed := {
  o_static : verdict3;
  o_exec : verdict3;
  o_calls : list (list (name * gval));
  o_ran : bool;
  o_cost : list (list (name * gval));
  o_costpanic : bool
}.

Definition dec_observed (l : list sexp) : option observed :=
  match field1 "static" l, field1 "exec" l, field1 "calls" l, field1 "ran" l, field1 "cost" l, field1 "costpanic" l with
  | Some st, Some ex, Some (SL cs), Some rn, Some (SL co), Some cp =>
      match dec_verdict st, dec_verdict ex, map_opt dec_args_map cs, as_bool rn, map_opt dec_args_map co, as_bool cp with
      | Some a, Some b, Some c, Some d, Some e, Some f =>
          Some {| o_static := a; o_exec := b; o_calls := c; o_ran := d; o_cost := e; o_costpanic := f |}
      | _, _, _, _, _, _ => None
      end
  | _, _, _, _, _, _ => None
  end.

(** ** sanity of the case (promises of the harness the theorems rely on) *)
Fixpoint lit_strings (l : lit) : list bytes :=
  match l with
  | LString s => [s]
  | LList vs => (fix go (l : list lit) : list bytes := match l with [] => [] | v :: r => lit_strings v ++ go r end) vs
  | LObject fs => (fix go (l : list (name * lit)) : list bytes :=
                     match l with [] => [] | (_, v) :: r => lit_strings v ++ go r end) fs
  | _ => []
  end.

Fixpoint jval_strings (j : jval) : list bytes :=
  match j with
  | JStr s => [s]
  | JList l => (fix go (l : list jval) : list bytes := match l with [] => [] | v :: r => jval_strings v ++ go r end) l
  | JObj kvs => (fix go (l : list (name * jval)) : list bytes :=
                   match l with [] => [] | (_, v) :: r => jval_strings v ++ go r end) kvs
  | _ => []
  end.

Definition dt_of (T : list (bytes * option bytes)) (s : bytes) : option bytes :=
  match aget s T with Some o => o | None => None end.

(** ** comparison helpers *)
Fixpoint amap_eqb (a b : list (name * gval)) : bool :=
  match a, b with
  | [], [] => true
  | (k, x) :: a', (k', y) :: b' => bytes_eqb k k' && gval_eqb x y && amap_eqb a' b'
  | _, _ => false
  end.

Fixpoint calls_eqb (a b : list (list (name * gval))) : bool :=
  match a, b with
  | [], [] => true
  | x :: a', y :: b' => amap_eqb x y && calls_eqb a' b'
  | _, _ => false
  end.

Definition verdict_eqb (a b : verdict3) : bool :=
  match a, b with
  | VOk, VOk | VReject, VReject | VPanic, VPanic | VNone, VNone => true
  | _, _ => false
  end.

(** ** classification of oracle failures: stable keys computed from the case *)
Fixpoint jval_has_bool (j : jval) : bool :=
  match j with
  | JBool _ => true
  | JList l => (fix go (l : list jval) : bool := match l with [] => false | x :: r => jval_has_bool x || go r end) l
  | JObj kvs => (fix go (l : list (name * jval)) : bool :=
                   match l with [] => false | (_, x) :: r => jval_has_bool x || go r end) kvs
  | _ => false
  end.

Fixpoint gval_has_nil (g : gval) : bool :=
  match g with
  | GNil => true
  | GList l => (fix go (l : list gval) : bool := match l with [] => false | x :: r => gval_has_nil x || go r end) l
  | GMap kvs => (fix go (l : list (name * gval)) : bool :=
                   match l with [] => false | (_, x) :: r => gval_has_nil x || go r end) kvs
  | GTagged _ v => gval_has_nil v
  | _ => false
  end.

(** every JSON number is a well-formed binary64 in canonical form (CoerceSameValue.jnum_wf) *)
Fixpoint jnum_wf_b (j : jval) : bool :=
  match j with
  | JNum d => f64_wf d
  | JList l => forallb jnum_wf_b l
  | JObj kvs => forallb (fun p : name * jval => jnum_wf_b (snd p)) kvs
  | _ => true
  end.

Definition scalar_kind_eqb (a b : scalar_kind) : bool :=
  match a, b with
  | KInt, KInt | KFloat, KFloat | KString, KString | KBoolean, KBoolean | KID, KID
  | KDateTime, KDateTime | KLongInt, KLongInt | KCustom, KCustom => true
  | _, _ => false
  end.

Fixpoint gval_mentions_time (g : gval) : bool :=
  match g with
  | GTime _ => true
  | GList l => (fix go (l : list gval) : bool := match l with [] => false | x :: r => gval_mentions_time x || go r end) l
  | GMap kvs => (fix go (l : list (name * gval)) : bool :=
                   match l with [] => false | (_, x) :: r => gval_mentions_time x || go r end) kvs
  | GTagged _ v => gval_mentions_time v
  | _ => false
  end.
Fixpoint gval_mentions_int64 (g : gval) : bool :=
  match g with
  | GInt64 _ => true
  | GList l => (fix go (l : list gval) : bool := match l with [] => false | x :: r => gval_mentions_int64 x || go r end) l
  | GMap kvs => (fix go (l : list (name * gval)) : bool :=
                   match l with [] => false | (_, x) :: r => gval_mentions_int64 x || go r end) kvs
  | GTagged _ v => gval_mentions_int64 v
  | _ => false
  end.

Section Case.
  Variable E : env.
  Variable T : list (bytes * option bytes).
  Variable site_field : bool.
  Variable argdefs : list (name * in_def).
  Variable defs : list vardef.
  Variable args : list (name * lit).
  Variable raw : list (name * jval).
  Variable o : observed.

  Let dt := dt_of T.
  Let has_vars := existsb (fun a => match lit_vars (snd a) with [] => false | _ => true end) args.
  Let null_var := existsb (fun p => match snd p with JNull => true | _ => false end) raw.

  (** how a non-conforming observation is classified *)
  Definition nonconforming_key (m : list (name * gval)) : string :=
    if has_vars && null_var && existsb (fun p => gval_has_nil (snd p)) m then "null-at-non-null-through-variable"
    else "nonconforming-argument".

  Definition differs_key : string :=
    if existsb (fun p => jval_has_bool (snd p)) raw then "boolean-variable-coerced-to-number"
    else "differs-from-reference".

  (** the Spec oracle on the implementation's observation *)
  Definition oracle (ref_vv : option (list (name * gval))) (ref_am : option (list (name * gval))) : option sexp :=
    if match o_static o with VPanic => true | _ => false end then Some (v_oracle_fail "panic-in-validation" [])
    else if match o_exec o with VPanic => true | _ => false end then
      Some (v_oracle_fail (if has_vars && null_var then "panic-null-through-variable" else "panic-in-execution") [])
    else if o_costpanic o then Some (v_oracle_fail "panic-in-cost-validation" [])
    else
      match find (fun m => negb (args_conform_b E argdefs m)) (o_calls o) with
      | Some m => Some (v_oracle_fail (nonconforming_key m) [])
      | None =>
          match o_static o with
          | VOk =>
              (* the document was accepted: the observation must be the reference coercion *)
              match ref_vv with
              | None =>
                  if match o_exec o with VReject => true | _ => false end && match o_calls o with [] => true | _ => false end
                  then None
                  else Some (v_oracle_fail (match o_calls o with
                                            | [] => "no-error-although-variables-do-not-coerce"
                                            | _ => differs_key
                                            end) [])
              | Some _ =>
                  match ref_am with
                  | None =>
                      (* no coercion exists: nothing may be called (neither the resolver / filter nor,
                         for a directive, the field it guards) and the client gets an error *)
                      match o_calls o with
                      | [] => if negb (match o_exec o with VReject => true | _ => false end)
                              then Some (v_oracle_fail (if site_field then "no-error-although-no-coercion-exists"
                                                        else "directive-silently-ignored-although-no-coercion-exists") [])
                              else if o_ran o then Some (v_oracle_fail "selection-ran-although-directive-does-not-coerce" [])
                              else
                                (* static_dynamic_agree, on the reference side: after validation a
                                   coercion can only be missing for one of the run-time reasons *)
                                match ref_vv with
                                | Some v => if null_variable v args || absent_item_variable v args || hook_reached_args E argdefs args then None
                                            else Some (v_oracle_fail "runtime-error-without-runtime-reason" [])
                                | None => None
                                end
                      | m :: _ => Some (v_oracle_fail differs_key [])
                      end
                  | Some m =>
                      match o_calls o with
                      | [m'] => if amap_eqb m m' && match o_exec o with VOk => true | _ => false end then None
                                else Some (v_oracle_fail differs_key [])
                      | [] => Some (v_oracle_fail "rejected-although-coercion-exists" [])
                      | _ => Some (v_oracle_fail "called-more-than-once" [])
                      end
                  end
              end
          | _ =>
              (* rejected by validation: the client has its error; nothing may run *)
              match o_calls o with
              | [] => None
              | _ => Some (v_oracle_fail "called-although-validation-rejected" [])
              end
          end
      end.

  (** the cost function is one more observer (FieldCostContext.Arguments) *)
  Definition oracle_cost : option sexp :=
    match find (fun m => negb (args_conform_b E argdefs m)) (o_cost o) with
    | Some m =>
        Some (v_oracle_fail (match o_static o with
                             | VOk => nonconforming_key m
                             | _ => "cost-function-sees-nonconforming-argument-of-rejected-document"
                             end) [])
    | None => None
    end.

  (** the model's prediction of the observation *)
  Definition compare (ran_of : list (name * gval) -> bool) (st : bool) (vv : res cvars) (am : res (list (name * gval))) : option sexp :=
    let exp_static := if st then VOk else VReject in
    let '(exp_exec, exp_calls, exp_ran) :=
      if negb st then (VNone, [], false)
      else match vv with
           | Panic => (VPanic, [], false)
           | Err => (VReject, [], false)
           | Ok _ =>
               match am with
               | Ok m => (VOk, [m], ran_of m)
               | Err => (VReject, [], false)     (* field: field error; directive: reported by collectFields, selection left out *)
               | Panic => (VPanic, [], false)
               end
           end in
    (* cost_observation all_fixed, with the shared intermediate results *)
    let exp_cost := if site_field && st then match am with Ok m => [m] | _ => [] end else [] in
    if negb (verdict_eqb exp_static (o_static o)) then
      Some (v_mismatch "static-verdict" [of_bool st])
    else if negb (verdict_eqb exp_exec (o_exec o)) then Some (v_mismatch "execution-verdict" [])
    else if negb (calls_eqb exp_calls (o_calls o)) then Some (v_mismatch "observed-arguments" [])
    else if negb (Bool.eqb exp_ran (o_ran o)) then Some (v_mismatch "sibling-field-ran" [])
    else if negb (calls_eqb exp_cost (o_cost o)) then Some (v_mismatch "cost-function-arguments" [])
    else None.

  (** evidence classes *)
  Definition classes (builtin : bool) (st : bool) (vv : res cvars) (am : res (list (name * gval)))
             (ref : option (list (name * gval))) : list string :=
    let nested := existsb (fun a => match snd a with LVar _ => false | l => match lit_vars l with [] => false | _ => true end end) args in
    let top_var := existsb (fun a => match snd a with LVar _ => true | _ => false end) args in
    let has_default := existsb (fun ad => match in_default (snd ad) with Some _ => true | None => false end) argdefs in
    let var_default := existsb (fun d => match vd_default d with Some _ => true | None => false end) defs in
    (if site_field then ["site-field"] else ["site-directive"]) ++
    (if builtin then ["site-skip-include"] else []) ++
    (if bridgeable E then ["c04-bridge-evaluated"] else ["c04-bridge-evaluated-through-srefined"]) ++
    (if st then [] else ["static-reject"]) ++
    (if st then match vv with
                | Ok v => match am with
                          | Ok _ => ["called"]
                          | Err => ["argument-error"] ++
                                   (if null_variable v args then ["reason-null-variable"] else []) ++
                                   (if absent_item_variable v args then ["reason-absent-item-variable"] else []) ++
                                   (if hook_reached_args E argdefs args then ["reason-hook-reached"] else [])
                          | Panic => ["panic"]
                          end
                | Err => ["variable-error"] ++
                         (if bad_variable_value all_fixed E dt defs raw then ["reason-bad-variable-value"] else []) ++
                         (if hook_reached_defaults E defs raw then ["reason-hook-reached-by-default"] else [])
                | Panic => ["panic"]
                end else []) ++
    (if top_var then ["variable"] else []) ++ (if nested then ["variable-nested"] else []) ++
    (if negb has_vars then ["literal-only"] else []) ++
    (if has_default then ["argument-default"] else []) ++ (if var_default then ["variable-default"] else []) ++
    (if null_var then ["null-variable"] else []) ++
    (let leaf_is := fun k => existsb (fun ad => match leaf_type (in_type (snd ad)) with
                                               | StNamed n => match aget n E with
                                                              | Some (TScalar k') => scalar_kind_eqb k k'
                                                              | _ => false
                                                              end
                                               | _ => false
                                               end) argdefs in
     (if leaf_is KDateTime then ["leaf-datetime"] else []) ++ (if leaf_is KLongInt then ["leaf-longint"] else [])) ++
    (match am with
     | Ok m => (if existsb (fun p => gval_mentions_time (snd p)) m then ["called-with-time"] else []) ++
               (if existsb (fun p => gval_mentions_int64 (snd p)) m then ["called-with-int64"] else [])
     | _ => []
     end) ++
    (if existsb (fun p => negb (existsb (fun d => bytes_eqb (fst p) (vd_name d)) defs)) raw then ["undeclared-variable-value"] else []) ++
    (if existsb (fun d => negb (type_known E (vd_type d))) defs then ["variable-of-unknown-or-output-type"] else []) ++
    (match o_static o, ref with
     | VReject, Some _ => ["static-reject-reference-accepts"]
     | _, _ => []
     end) ++
    (* non-trivial: the request got past validation with a variable or a default in play, i.e. the
       hasValue / default / variable machinery decided what the resolver saw *)
    (if st && (has_vars || has_default || var_default) then ["nontrivial"] else []).
End Case.

Definition check (c : sexp) : sexp :=
  match tagged "case" c with
  | Some l =>
      match field1 "env" l, field1 "site" l, field1 "argdefs" l, field1 "vardefs" l,
            field1 "args" l, field1 "vars" l, field1 "dt" l, field "observed" l with
      | Some (SL es), Some (SSym site), Some (SL ads), Some (SL vds), Some (SL ars), Some (SL vs), Some (SL ts), Some obs =>
          match map_opt dec_env_entry es, map_opt dec_indef ads, map_opt dec_vardef vds,
                map_opt (dec_named dec_lit) ars, map_opt (dec_named dec_jval) vs, map_opt dec_dt_entry ts, dec_observed obs with
          | Some E, Some argdefs, Some defs, Some args, Some raw, Some T, Some o =>
              let site_field := String.eqb site "field" in
              (* whether the field guarded by the directive runs: @flt always lets it through, the
                 built-in @include / @skip (schema.IncludeDirective / SkipDirective) decide on "if" *)
              let if_value := fun m : list (name * gval) => match aget [105; 102]%N m with Some (GBool b) => b | _ => true end in
              let ran_of := fun m : list (name * gval) =>
                              if String.eqb site "include" then if_value m
                              else if String.eqb site "skip" then negb (if_value m)
                              else negb site_field in
              let strings := flat_map (fun a => lit_strings (snd a)) args
                             ++ flat_map (fun d => match vd_default d with Some l => lit_strings l | None => [] end) defs
                             ++ flat_map (fun p => jval_strings (snd p)) raw in
              if negb (env_closed E && forallb (fun ad => sty_closed E (in_type (snd ad))) argdefs) then v_bad "env-not-closed"
              else if negb (env_ok E && forallb (fun ad => default_ok E (snd ad)) argdefs) then v_bad "env-not-ok"
              else if negb (forallb (fun p => jval_ok (snd p)) raw && negb (has_dup (map fst raw))) then v_bad "variables-not-wf"
              else if negb (forallb (fun p => jnum_wf_b (snd p)) raw) then v_bad "json-number-not-a-canonical-binary64"
              else if ahas n_Query E || ahas n_Res E then v_bad "name-reserved-for-the-c04-bridge-in-env"
              else if negb (forallb (fun s => ahas s T) strings) then v_bad "dt-table-incomplete"
              (* the verdict of time.Time.UnmarshalText, as the model transcribes it (Val/Rfc3339.v),
                 against the standard library's own verdict on every string of the case *)
              else if negb (forallb (fun e : bytes * option bytes =>
                                       Bool.eqb (rfc3339_go (fst e)) (match snd e with Some _ => true | None => false end)) T)
                   then v_oracle_fail "datetime-verdict-differs-from-model" []
              else if existsb (fun d => match vd_default d with Some l => match lit_vars l with [] => false | _ => true end | None => false end) defs
                   then v_bad "variable-in-default"
              else
                let dt := dt_of T in
                (* the model (repaired code) and the reference, each evaluated once *)
                let st := static_ok all_fixed E dt site_field argdefs defs args in
                let vv := coerce_variable_values all_fixed E dt defs raw in
                let am := match vv with
                          | Ok v => coerce_argument_values all_fixed E dt argdefs args v
                          | Err => Err
                          | Panic => Panic
                          end in
                let ref_vv := ref_variable_values E dt defs raw in
                let ref_am := match ref_vv with
                              | Some v => ref_argument_values E dt argdefs (map (fun p => match p with (k, l) => (k, abs_lit v l) end) args)
                              | None => None
                              end in
                (* C05 x C04: the two transcriptions of validateCoercion agree on every literal *)
                let bridge_ok :=
                  (* through C04's SRefined scalars DateTime and LongInt cross too: every case *)
                     (forallb (fun a : name * lit => match aget (fst a) argdefs with
                                                     | Some d => bridge_agrees_r E dt (snd a) (in_type d)
                                                     | None => true
                                                     end) args
                      && forallb (fun d => match vd_default d with
                                           | Some l => negb (type_known E (vd_type d)) || bridge_agrees_r E dt l (vd_type d)
                                           | None => true
                                           end) defs) in
                if negb bridge_ok then v_mismatch "c04-validator-model-disagrees" [] else
                (* ... and C04's whole ValidateDocument model, run on the translated request, gives
                   the verdict of C05's static_ok *)
                let dname := if site_field then None
                             else Some (if String.eqb site "skip" then [115; 107; 105; 112]%N
                                        else if String.eqb site "include" then [105; 110; 99; 108; 117; 100; 101]%N
                                        else [102; 108; 116]%N) in
                if negb (Bool.eqb (c04_document_accepts_r dt E site_field dname argdefs defs args) st)
                then v_mismatch "c04-document-verdict-disagrees" [of_bool st] else
                match oracle E site_field argdefs args raw o ref_vv ref_am with
                | Some v => v
                | None =>
                    match oracle_cost E argdefs args raw o with
                    | Some v => v
                    | None =>
                        match compare site_field o ran_of st vv am with
                        | Some v => v
                        | None => v_ok (classes E T site_field argdefs defs args raw o (String.eqb site "include" || String.eqb site "skip") st vv am ref_am)
                        end
                    end
                end
          | _, _, _, _, _, _, _ => v_bad "decode"
          end
      | _, _, _, _, _, _, _, _ => v_bad "fields"
      end
  | None => v_bad "shape"
  end.
