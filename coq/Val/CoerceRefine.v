(** * Val/CoerceRefine.v — C05: the literal route of the model computes the reference coercion
    (the object case needs the two loops of InputObjectType.CoerceLiteral to be compared with the
    single declared-field-driven pass of the specification). *)
From Coq Require Import List NArith ZArith Bool Lia.
From ApiFu Require Import Base.Sexp Val.Values Val.MapFacts Val.CoerceModel Val.CoerceSpec Val.CoerceProofs.
Import ListNotations.

(** ** a declared-field-driven pass, abstractly: per field fail / skip / set *)
Section FoldDec.
  Variable dec : name * in_def -> option (option gval).

  Definition dec_step (acc : option (list (name * gval))) (f : name * in_def) : option (list (name * gval)) :=
    match acc with
    | None => None
    | Some m => match dec f with
                | None => None
                | Some None => Some m
                | Some (Some c) => Some (mset (fst f) c m)
                end
    end.

  Definition fold_dec (fields : list (name * in_def)) (m0 : list (name * gval)) : option (list (name * gval)) :=
    fold_left dec_step fields (Some m0).

  Lemma dec_step_none f : dec_step None f = None. Proof. reflexivity. Qed.

  Lemma fold_dec_spec fields : forall m0 m,
    dup_names (map fst fields) = false -> keys_sorted m0 = true ->
    fold_dec fields m0 = Some m ->
    keys_sorted m = true /\
    (forall f, In f fields -> dec f <> None) /\
    (forall k, aget k m = match aget k fields with
                          | Some fd => match dec (k, fd) with Some (Some c) => Some c | _ => aget k m0 end
                          | None => aget k m0
                          end).
  Proof.
    unfold fold_dec. induction fields as [|[fname fd] r IH]; intros m0 m D S H.
    - simpl in H. inversion H; subst. split; [exact S|]. split; [intros f []|]. intro k. reflexivity.
    - simpl in D. apply orb_false_iff in D as [D1 D2].
      simpl in H. destruct (dec (fname, fd)) as [[c|]|] eqn:Dc.
      + destruct (IH (mset fname c m0) m D2 (keys_sorted_mset _ _ _ S) H) as (S' & Ok' & G').
        split; [exact S'|]. split.
        * intros f [<-|Hf]; [congruence|auto].
        * intro k. rewrite G'. simpl. destruct (bytes_eqb k fname) eqn:B.
          -- apply bytes_eqb_eq in B; subst k. rewrite Dc.
             assert (N : aget fname r = None).
             { destruct (aget fname r) eqn:G; auto. apply aget_In in G. exfalso.
               assert (X : existsb (bytes_eqb fname) (map fst r) = true).
               { apply existsb_exists. exists fname. split; [change fname with (fst (fname, i)); apply in_map; auto|apply bytes_eqb_refl]. }
               congruence. }
             rewrite N. apply aget_mset_same.
          -- assert (Ne : fname <> k) by (intro; subst; rewrite bytes_eqb_refl in B; discriminate).
             rewrite aget_mset_other by auto. reflexivity.
      + destruct (IH m0 m D2 S H) as (S' & Ok' & G').
        split; [exact S'|]. split.
        * intros f [<-|Hf]; [congruence|auto].
        * intro k. rewrite G'. simpl. destruct (bytes_eqb k fname) eqn:B; auto.
          apply bytes_eqb_eq in B; subst k. rewrite Dc.
          assert (N : aget fname r = None).
          { destruct (aget fname r) eqn:G; auto. apply aget_In in G. exfalso.
            assert (X : existsb (bytes_eqb fname) (map fst r) = true).
            { apply existsb_exists. exists fname. split; [change fname with (fst (fname, i)); apply in_map; auto|apply bytes_eqb_refl]. }
            congruence. }
          rewrite N. reflexivity.
      + rewrite (fold_opt_none _ dec_step_none) in H. discriminate.
  Qed.

  Lemma fold_dec_total fields : forall m0,
    (forall f, In f fields -> dec f <> None) -> exists m, fold_dec fields m0 = Some m.
  Proof.
    unfold fold_dec. induction fields as [|f r IH]; intros m0 H; simpl; eauto.
    destruct (dec f) as [[c|]|] eqn:Dc.
    - apply IH. intros; apply H; right; auto.
    - apply IH. intros; apply H; right; auto.
    - exfalso. apply (H f); auto. left; auto.
  Qed.
End FoldDec.

(** the reference pass of 3.10 is such a pass *)
Definition dec_ref (subs : list (name * (bool * (sty -> bool -> option gval)))) (f : name * in_def) : option (option gval) :=
  match aget (fst f) subs with
  | Some (false, co) => match co (in_type (snd f)) true with Some c => Some (Some c) | None => None end
  | _ => match in_default (snd f) with
         | Some d => Some (Some (ref_default d))
         | None => if is_nonnull (in_type (snd f)) then None else Some None
         end
  end.

Lemma ref_fold_is_dec subs fields : forall acc,
  fold_left (ref_field_step subs) fields acc = fold_left (dec_step (dec_ref subs)) fields acc.
Proof.
  induction fields as [|[fname fd] r IH]; intro acc; simpl; auto. rewrite IH. f_equal.
  destruct acc as [m|]; simpl; auto. unfold dec_ref. simpl.
  destruct (aget fname subs) as [[[|] co]|]; simpl.
  - destruct (in_default fd); auto. destruct (is_nonnull (in_type fd)); auto.
  - destruct (co (in_type fd) true); auto.
  - destruct (in_default fd); auto. destruct (is_nonnull (in_type fd)); auto.
Qed.

(** the second loop of CoerceLiteral is such a pass (over the map [r1] the first loop built) *)
Definition dec_lit2 (r1 : list (name * gval)) (f : name * in_def) : option (option gval) :=
  match aget (fst f) r1, in_default (snd f) with
  | None, Some d => Some (Some (default_value d))
  | o, _ => if match o with None => true | Some v => is_nil v end && is_nonnull (in_type (snd f))
            then None else Some None
  end.

Lemma lit2_fold_is_dec r1 fields : forall acc,
  dup_names (map fst fields) = false ->
  (forall f, In f fields -> aget (fst f) acc = aget (fst f) r1) ->
  agrees (fold_left lit_default_step fields (Ok acc)) (fold_dec (dec_lit2 r1) fields acc).
Proof.
  unfold fold_dec. induction fields as [|[fname fd] r IH]; intros acc D H; simpl; [reflexivity|].
  simpl in D. apply orb_false_iff in D as [D1 D2].
  assert (Fresh : forall f, In f r -> fst f <> fname).
  { intros f Hf Eq. assert (X : existsb (bytes_eqb fname) (map fst r) = true).
    { apply existsb_exists. exists (fst f). split; [apply in_map; auto|rewrite Eq; apply bytes_eqb_refl]. }
    congruence. }
  pose proof (H (fname, fd) (or_introl eq_refl)) as H0. simpl in H0.
  unfold dec_lit2. cbn [fst snd]. rewrite <- H0.
  destruct (aget fname acc) as [v|] eqn:G.
  - destruct (in_default fd); (destruct (is_nil v && is_nonnull (in_type fd));
      [rewrite (fold_res_err _ lit_default_step_err), (fold_opt_none _ (dec_step_none _)); reflexivity
      |apply IH; auto; intros f Hf; apply H; right; auto]).
  - destruct (in_default fd) as [d|].
    + apply IH; auto. intros f Hf. rewrite aget_mset_other; [apply H; right; auto|]. intro X. apply (Fresh f Hf). auto.
    + simpl. destruct (is_nonnull (in_type fd)).
      * rewrite (fold_res_err _ lit_default_step_err), (fold_opt_none _ (dec_step_none _)); reflexivity.
      * apply IH; auto. intros f Hf; apply H; right; auto.
Qed.

(** ** the first loop of CoerceLiteral *)
Section Loop1.
  Variable co : lit -> sty -> bool -> res gval.
  Variable vv : list (name * gval).
  Variable fields : list (name * in_def).

  Definition absent_var (fv : lit) : bool := match fv with LVar vn => negb (ahas vn vv) | _ => false end.

  (** what the literal provides for key [k]: the coercion of the field's value, unless it is a
      variable without a value *)
  Definition provided (fs : list (name * lit)) (k : name) : option (res gval) :=
    match aget k fs, aget k fields with
    | Some fv, Some fd => if absent_var fv then None else Some (co fv (in_type fd) true)
    | _, _ => None
    end.

  Lemma loop1_ok fs : forall result r1,
    dup_names (map fst fs) = false ->
    lit_fields_loop co vv fields fs result = Ok r1 ->
    (forall k fv, In (k, fv) fs -> ahas k fields = true) /\
    (forall k, aget k r1 = match provided fs k with
                           | Some (Ok c) => Some c
                           | Some _ => None
                           | None => aget k result
                           end) /\
    (forall k r, provided fs k = Some r -> exists c, r = Ok c) /\
    (keys_sorted result = true -> keys_sorted r1 = true).
  Proof.
    induction fs as [|[fname fv] r IH]; intros result r1 D H; simpl in H.
    - inversion H; subst. unfold provided. simpl. repeat split; auto; try (intros; contradiction); discriminate.
    - simpl in D. apply orb_false_iff in D as [D1 D2].
      assert (Nr : aget fname r = None).
      { destruct (aget fname r) eqn:G; auto. apply aget_In in G. exfalso.
        assert (X : existsb (bytes_eqb fname) (map fst r) = true).
        { apply existsb_exists. exists fname. split; [change fname with (fst (fname, l)); apply in_map; auto|apply bytes_eqb_refl]. }
        congruence. }
      destruct (aget fname fields) as [fd|] eqn:Hf; try discriminate.
      assert (Step : forall result', lit_fields_loop co vv fields r result' = Ok r1 ->
                (forall k, aget k result' = if bytes_eqb k fname then
                                               (if absent_var fv then aget k result else
                                                  match co fv (in_type fd) true with Ok c => Some c | _ => None end)
                                             else aget k result) ->
                (absent_var fv = false -> exists c, co fv (in_type fd) true = Ok c) ->
                (keys_sorted result = true -> keys_sorted result' = true) ->
                (forall k fv0, In (k, fv0) ((fname, fv) :: r) -> ahas k fields = true) /\
                (forall k, aget k r1 = match provided ((fname, fv) :: r) k with
                                       | Some (Ok c) => Some c | Some _ => None | None => aget k result end) /\
                (forall k r0, provided ((fname, fv) :: r) k = Some r0 -> exists c, r0 = Ok c) /\
                (keys_sorted result = true -> keys_sorted r1 = true)).
      { intros result' H' G' C' S'. destruct (IH result' r1 D2 H') as (K & G & P & S). repeat split.
        - intros k fv0 [Eq|Hin]; [inversion Eq; subst; unfold ahas; rewrite Hf; reflexivity|eapply K; eauto].
        - intro k. rewrite G. unfold provided. simpl. destruct (bytes_eqb k fname) eqn:B.
          + apply bytes_eqb_eq in B; subst k. rewrite Nr, Hf. rewrite G', bytes_eqb_refl.
            destruct (absent_var fv); reflexivity.
          + rewrite G', B. reflexivity.
        - intros k r0. unfold provided. simpl. destruct (bytes_eqb k fname) eqn:B.
          + apply bytes_eqb_eq in B; subst k. rewrite Hf. destruct (absent_var fv) eqn:Ab; [discriminate|].
            intro X. inversion X; subst. apply C'; auto.
          + intro X. apply (P k r0). unfold provided. exact X.
        - intro Sr. apply S. apply S'. exact Sr. }
      unfold absent_var in *. fold (absent_var fv) in *.
      match type of H with (if ?c then _ else _) = _ => change c with (absent_var fv) in H end.
      destruct (absent_var fv) eqn:Ab.
      + apply (Step result H); [intro k; destruct (bytes_eqb k fname); reflexivity|discriminate|auto].
      + destruct (co fv (in_type fd) true) as [c| |] eqn:C; try discriminate.
        apply (Step (mset fname c result) H); [|eauto|].
        * intro k. rewrite aget_mset. reflexivity.
        * intro Sr. apply keys_sorted_mset; auto.
  Qed.

  (** conversely: when every field is known and none of the provided coercions fails, the loop
      succeeds (or panics) *)
  Lemma loop1_total fs : forall result,
    (forall k fv, In (k, fv) fs -> ahas k fields = true) ->
    (forall k fv fd, In (k, fv) fs -> aget k fields = Some fd -> absent_var fv = false -> co fv (in_type fd) true <> Err) ->
    lit_fields_loop co vv fields fs result <> Err.
  Proof.
    induction fs as [|[fname fv] r IH]; intros result K C; simpl; [discriminate|].
    pose proof (K fname fv (or_introl eq_refl)) as Kf. unfold ahas in Kf.
    destruct (aget fname fields) as [fd|] eqn:Hf; try discriminate.
    match goal with |- (if ?c then _ else _) <> _ => change c with (absent_var fv) end.
    destruct (absent_var fv) eqn:Ab.
    - apply IH; intros; [eapply K|eapply C]; eauto; right; eauto.
    - pose proof (C fname fv fd (or_introl eq_refl) Hf Ab) as Cf.
      destruct (co fv (in_type fd) true); try congruence; try discriminate.
      apply IH; intros; [eapply K|eapply C]; eauto; right; eauto.
  Qed.
End Loop1.

Lemma lit_default_fold_no_panic fields : forall acc, fold_left lit_default_step fields (Ok acc) <> Panic.
Proof.
  induction fields as [|[fname fd] r IH]; intro acc; simpl; [discriminate|].
  destruct (aget fname acc) as [v|].
  - destruct (in_default fd); (destruct (is_nil v && is_nonnull (in_type fd));
      [rewrite (fold_res_err _ lit_default_step_err); discriminate|apply IH]).
  - destruct (in_default fd); [apply IH|]. simpl.
    destruct (is_nonnull (in_type fd)); [rewrite (fold_res_err _ lit_default_step_err); discriminate|apply IH].
Qed.

Section LitRefine.
  Variable fx : fixes.
  Variable E : env.
  Variable dt : bytes -> option bytes.
  Hypothesis HE : env_ok E = true.
  Hypothesis Hfix : fix_null_var fx = true.
  Hypothesis Hnn : fix_nn_flag fx = true.
  Variable vv : cvars.

  Notation co := (coerce_literal fx E dt vv).
  Notation rc := (ref_coerce E dt TLiteral).

  Lemma scalar_literal_ref k l : scalar_literal dt k l = ref_scalar dt TLiteral k (abs_lit vv l).
  Proof.
    destruct k; destruct l; cbn [scalar_literal abs_lit];
      try (destruct (aget n vv); reflexivity);
      try (destruct (f64_of_decimal m k); reflexivity);
      try reflexivity.
    (* LongInt: the int64 check of ParseInt is implied by the safe range *)
    cbn [ref_scalar as_integer]. unfold int64_ok, safe_ok, in_range, within.
    destruct (Z.leb_spec (- (2 ^ 53 - 1)) z); destruct (Z.leb_spec z (2 ^ 53 - 1)); cbn [andb]; rewrite ?andb_false_r; auto.
    assert (X : (- 2 ^ 63 <=? z)%Z = true) by (apply Z.leb_le; lia).
    assert (Y : (z <=? 2 ^ 63 - 1)%Z = true) by (apply Z.leb_le; lia).
    rewrite X, Y. reflexivity.
  Qed.

  Lemma is_absent_abs_lit fv : is_absent (abs_lit vv fv) = absent_var vv fv.
  Proof.
    destruct fv; simpl; auto.
    - unfold ahas. destruct (aget n vv); reflexivity.
    - destruct (f64_of_decimal m k); reflexivity.
  Qed.

  (** a literal coercion at a non-null type never yields nil *)
  Ltac named_nonnil H :=
    let Sv := fresh "Sv" in let X := fresh "X" in
    first [ unfold of_option in H;
            match type of H with context [scalar_literal ?d ?k ?l] =>
              destruct (scalar_literal d k l) eqn:Sv; inversion H; subst;
              apply scalar_literal_conforms in Sv as [_ X]; exact X end
          | cbn [enum_literal] in H; discriminate
          | cbn iota in H; discriminate
          | idtac ].

  Lemma inner_nonnil l : l <> LNull -> (forall n, l = LVar n -> aget n vv = None) ->
    forall t a c, co l t a = Ok c -> c <> GNil.
  Proof.
    intros Nn Nv t. induction t as [n|t' IHt|t' IHt]; intros a c H; rewrite cl_eq in H.
    - destruct l as [x|z0|m0 e0|s0|b0| |x|vs|fs]; try contradiction; cbn iota in H; try rewrite (Nv _ eq_refl) in H;
        (destruct (aget n E) as [[k|vals|fields h]|] eqn:Hn; [| | |discriminate]); named_nonnil H.
      + (* an enum value *)
        cbn [enum_literal] in H. unfold of_option in H. destruct (aget x vals) eqn:Hv; inversion H; subst.
        pose proof (env_ok_lookup E HE _ _ Hn) as Ht. simpl in Ht.
        destruct (enum_value_conforms _ _ _ Ht Hv); auto.
      + (* an object *)
        destruct (lit_fields_loop _ _ _ _ _); try discriminate.
        destruct (fold_left _ _ _); try discriminate.
        destruct h; simpl in H; inversion H; subst; discriminate.
    - destruct l as [x|z0|m0 e0|s0|b0| |x|vs|fs]; try contradiction; cbn iota in H; try rewrite (Nv _ eq_refl) in H;
        try (destruct a; [|discriminate];
             match type of H with context [coerce_literal ?f ?e ?d ?v ?l t' true] =>
               destruct (coerce_literal f e d v l t' true); inversion H; subst; discriminate end).
      destruct (res_map _ _); inversion H; subst; discriminate.
    - destruct l as [x|z0|m0 e0|s0|b0| |x|vs|fs]; try contradiction; cbn iota in H; try rewrite (Nv _ eq_refl) in H; eapply IHt; eauto.
  Qed.

  Lemma nonnil_at_nonnull l t a c : co l (StNonNull t) a = Ok c -> c <> GNil.
  Proof.
    intro H. destruct l as [n| | | | | | | |];
      try (eapply inner_nonnil; [| |exact H]; [discriminate|intros ? X; discriminate X]).
    - (* a variable *)
      destruct (aget n vv) as [value|] eqn:Hv.
      + rewrite cl_eq, Hv, Hfix in H. simpl in H. rewrite andb_true_r in H.
        destruct value; inversion H; subst; discriminate.
      + exfalso. eapply absent_var_not_ok; eauto.
  Qed.

  Definition lit_refines (l : lit) : Prop := forall t a, agrees (co l t a) (rc (abs_lit vv l) t a).

  Lemma subs_lookup (fs : list (name * lit)) k :
    aget k (map (fun p => match p with (k, x) => (k, (is_absent x, rc x)) end)
                (map (fun p => match p with (k, v) => (k, abs_lit vv v) end) fs))
    = match aget k fs with
      | Some fv => Some (absent_var vv fv, rc (abs_lit vv fv))
      | None => None
      end.
  Proof.
    induction fs as [|[k' fv] r IH]; simpl; auto.
    destruct (bytes_eqb k k'); auto. rewrite is_absent_abs_lit. reflexivity.
  Qed.

  Lemma map_fst_abs_lit (fs : list (name * lit)) :
    map fst (map (fun p => match p with (k, v) => (k, abs_lit vv v) end) fs) = map fst fs.
  Proof. induction fs as [|[k v] r IH]; simpl; congruence. Qed.

  Lemma forallb_known_abs_lit (fs : list (name * lit)) (fields : list (name * in_def)) :
    forallb (fun p => ahas (fst p) fields) (map (fun p => match p with (k, v) => (k, abs_lit vv v) end) fs)
    = forallb (fun p => ahas (fst p) fields) fs.
  Proof. induction fs as [|[k v] r IH]; simpl; congruence. Qed.

  (** the object case *)
  Lemma object_refines fs fields h :
    dup_names (map fst fs) = false -> dup_names (map fst fields) = false ->
    Forall (fun p => lit_refines (snd p)) fs ->
    agrees
      (match lit_fields_loop co vv fields fs [] with
       | Ok result => match fold_left lit_default_step fields (Ok result) with
                      | Ok result' => apply_hook h result'
                      | Err => Err
                      | Panic => Panic
                      end
       | Err => Err
       | Panic => Panic
       end)
      (if dup_names (map fst (map (fun p => match p with (k, v) => (k, abs_lit vv v) end) fs))
          || negb (forallb (fun p => ahas (fst p) fields) (map (fun p => match p with (k, v) => (k, abs_lit vv v) end) fs))
       then None
       else match fold_left (ref_field_step (map (fun p => match p with (k, x) => (k, (is_absent x, rc x)) end)
                                                 (map (fun p => match p with (k, v) => (k, abs_lit vv v) end) fs)))
                            fields (Some []) with
            | Some m => ref_hook h m
            | None => None
            end).
  Proof.
    intros Dfs Dfields IH.
    rewrite map_fst_abs_lit, forallb_known_abs_lit, Dfs. cbn [orb].
    set (subs := map (fun p => match p with (k, x) => (k, (is_absent x, rc x)) end)
                     (map (fun p => match p with (k, v) => (k, abs_lit vv v) end) fs)).
    rewrite ref_fold_is_dec. fold (fold_dec (dec_ref subs) fields []).
    (* the link between a provided field's model coercion and its reference coercion *)
    assert (Link : forall k fv fd, In (k, fv) fs -> agrees (co fv (in_type fd) true) (rc (abs_lit vv fv) (in_type fd) true)).
    { intros k fv fd Hin. rewrite Forall_forall in IH. apply (IH (k, fv) Hin). }
    assert (Look : forall k fv, In (k, fv) fs -> aget k fs = Some fv).
    { intros k fv Hin. apply nodup_aget; auto. }
    (* the two final maps have the same lookups *)
    assert (Final : forall r1 r2 m,
               (forall k, aget k r1 = match provided co vv fields fs k with Some (Ok c) => Some c | Some _ => None | None => None end) ->
               (forall k r, provided co vv fields fs k = Some r -> exists c, r = Ok c) ->
               (forall k, aget k r2 = match aget k fields with
                                      | Some fd => match dec_lit2 r1 (k, fd) with Some (Some c) => Some c | _ => aget k r1 end
                                      | None => aget k r1 end) ->
               (forall k, aget k m = match aget k fields with
                                     | Some fd => match dec_ref subs (k, fd) with Some (Some c) => Some c | _ => aget k [] end
                                     | None => aget k [] end) ->
               keys_sorted r2 = true -> keys_sorted m = true -> r2 = m).
    { intros r1 r2 m G P G2 Gm S2 Sm. apply sorted_ext; auto. intro k. rewrite G2, Gm.
      pose proof (G k) as Gk. pose proof (P k) as Pk. unfold provided in Gk, Pk.
      destruct (aget k fields) as [fd|] eqn:Hf.
      - unfold dec_lit2, dec_ref. cbn [fst snd]. unfold subs. rewrite subs_lookup.
        destruct (aget k fs) as [fv|] eqn:Hfs.
        + destruct (absent_var vv fv) eqn:Ab.
          * rewrite Gk. destruct (in_default fd) as [d|]; [rewrite default_value_ref; reflexivity|].
            simpl. destruct (is_nonnull (in_type fd)); reflexivity.
          * destruct (Pk _ eq_refl) as [c Hc]. rewrite Hc in Gk. rewrite Gk.
            pose proof (Link k fv fd (aget_In _ _ _ Hfs)) as L. rewrite Hc in L. simpl in L. rewrite L.
            destruct (in_default fd); destruct (is_nil c && is_nonnull (in_type fd)); reflexivity.
        + rewrite Gk. destruct (in_default fd) as [d|]; [rewrite default_value_ref; reflexivity|].
          simpl. destruct (is_nonnull (in_type fd)); reflexivity.
      - rewrite Gk. destruct (aget k fs); reflexivity. }
    destruct (lit_fields_loop co vv fields fs []) as [r1| |] eqn:L1; [| |exact I].
    - (* the first loop succeeded *)
      destruct (loop1_ok co vv fields fs [] r1 Dfs L1) as (K & G & P & S). specialize (S eq_refl).
      assert (G' : forall k, aget k r1 = match provided co vv fields fs k with Some (Ok c) => Some c | Some _ => None | None => None end).
      { intro k. rewrite G. destruct (provided co vv fields fs k) as [[| |]|]; reflexivity. }
      assert (Kb : forallb (fun p : name * lit => ahas (fst p) fields) fs = true).
      { apply forallb_forall. intros [k fv] Hin. simpl. eapply K; eauto. }
      rewrite Kb. cbn [negb].
      pose proof (lit2_fold_is_dec r1 fields r1 Dfields (fun _ _ => eq_refl)) as A2.
      pose proof (lit_default_fold_no_panic fields r1) as NP.
      (* every declared field is fine for the reference iff it is fine for the second loop *)
      assert (RefOk : (forall f, In f fields -> dec_lit2 r1 f <> None) -> forall f, In f fields -> dec_ref subs f <> None).
      { intros H2 [f fd] Hin. specialize (H2 _ Hin). unfold dec_lit2 in H2. unfold dec_ref. cbn [fst snd] in *.
        unfold subs. rewrite subs_lookup. pose proof (G' f) as Gf. pose proof (P f) as Pf. unfold provided in Gf, Pf.
        rewrite (nodup_aget fields f fd Dfields Hin) in Gf, Pf.
        destruct (aget f fs) as [fv|] eqn:Hfs.
        - destruct (absent_var vv fv) eqn:Ab.
          + rewrite Gf in H2. destruct (in_default fd); [discriminate|]. simpl in H2. destruct (is_nonnull (in_type fd)); auto; discriminate.
          + destruct (Pf _ eq_refl) as [c Hc]. pose proof (Link f fv fd (aget_In _ _ _ Hfs)) as L. rewrite Hc in L. simpl in L.
            rewrite L. discriminate.
        - rewrite Gf in H2. destruct (in_default fd); [discriminate|]. simpl in H2. destruct (is_nonnull (in_type fd)); auto; discriminate. }
      assert (LitOk : (forall f, In f fields -> dec_ref subs f <> None) -> forall f, In f fields -> dec_lit2 r1 f <> None).
      { intros HR [f fd] Hin. specialize (HR _ Hin). unfold dec_ref in HR. unfold dec_lit2. cbn [fst snd] in *.
        unfold subs in HR. rewrite subs_lookup in HR. pose proof (G' f) as Gf. pose proof (P f) as Pf. unfold provided in Gf, Pf.
        rewrite (nodup_aget fields f fd Dfields Hin) in Gf, Pf.
        destruct (aget f fs) as [fv|] eqn:Hfs.
        - destruct (absent_var vv fv) eqn:Ab.
          + rewrite Gf. destruct (in_default fd); [discriminate|]. simpl. destruct (is_nonnull (in_type fd)); auto; discriminate.
          + destruct (Pf _ eq_refl) as [c Hc]. rewrite Hc in Gf. rewrite Gf.
            assert (Nz : is_nil c && is_nonnull (in_type fd) = false).
            { destruct (in_type fd) as [x|x|x] eqn:Ty; simpl; rewrite ?andb_false_r; auto.
              apply nonnil_at_nonnull in Hc. destruct c; auto; contradiction. }
            rewrite Nz. destruct (in_default fd); discriminate.
        - rewrite Gf. destruct (in_default fd); [discriminate|]. simpl. destruct (is_nonnull (in_type fd)); auto; discriminate. }
      destruct (fold_left lit_default_step fields (Ok r1)) as [r2| |] eqn:L2; [| |contradiction].
      + (* both loops succeeded *)
        simpl in A2. destruct (fold_dec_spec _ fields r1 r2 Dfields S A2) as (S2 & Ok2 & G2).
        destruct (fold_dec_total (dec_ref subs) fields [] (RefOk Ok2)) as [m Hm]. rewrite Hm.
        destruct (fold_dec_spec _ fields [] m Dfields eq_refl Hm) as (Sm & _ & Gm).
        rewrite <- (Final r1 r2 m G' P G2 Gm S2 Sm). apply agrees_hook.
      + (* the second loop failed: so does the reference *)
        simpl in A2. destruct (fold_dec (dec_ref subs) fields []) as [m|] eqn:Hm; [|reflexivity].
        exfalso. destruct (fold_dec_spec _ fields [] m Dfields eq_refl Hm) as (_ & OkR & _).
        destruct (fold_dec_total (dec_lit2 r1) fields r1 (LitOk OkR)) as [r2 H2]. congruence.
    - (* the first loop failed: some field is unknown or does not coerce *)
      destruct (forallb (fun p : name * lit => ahas (fst p) fields) fs) eqn:Kb; [|reflexivity]. cbn [negb].
      destruct (fold_dec (dec_ref subs) fields []) as [m|] eqn:Hm; [|reflexivity].
      exfalso. destruct (fold_dec_spec _ fields [] m Dfields eq_refl Hm) as (_ & OkR & _).
      rewrite forallb_forall in Kb.
      apply (loop1_total co vv fields fs []); auto.
      + intros k fv Hin. apply (Kb (k, fv) Hin).
      + intros k fv fd Hin Hf Ab Herr.
        pose proof (OkR (k, fd) (aget_In _ _ _ Hf)) as HR. unfold dec_ref in HR. cbn [fst snd] in HR.
        unfold subs in HR. rewrite subs_lookup, (Look k fv Hin), Ab in HR.
        pose proof (Link k fv fd Hin) as L. rewrite Herr in L. simpl in L. rewrite L in HR. contradiction.
  Qed.

  Ltac lr_nn IHt := rewrite Hnn; apply IHt.

  Ltac lr_wrap l t' IHt a :=
    destruct a; [|reflexivity];
    specialize (IHt true); unfold agrees in IHt |- *;
    destruct (coerce_literal fx E dt vv l t' true); cbn beta iota in IHt |- *;
    [rewrite IHt; reflexivity|rewrite IHt; reflexivity|exact I].

  Ltac lr_atom l :=
    let t := fresh "t" in let n := fresh "n" in let t' := fresh "t'" in let IHt := fresh "IHt" in
    let a := fresh "a" in
    intros t; induction t as [n|t' IHt|t' IHt]; intros a; rewrite cl_eq, rc_eq; cbn [abs_lit] in *;
    [ destruct (aget n E) as [[k|vals|fields h]|];
      [ rewrite (scalar_literal_ref k l); cbn [abs_lit]; apply agrees_of_option
      | cbn [enum_literal]; try reflexivity
      | reflexivity
      | exact I ]
    | lr_wrap l t' IHt a
    | lr_nn IHt ].

  Theorem literal_refines : forall l, lit_nodup l = true -> lit_refines l.
  Proof.
    induction l as [n|z|m k|s|b| |n|vs IHl|fs IHf] using lit_ind'; intros W.
    - (* a variable *)
      intros t a. destruct (aget n vv) as [value|] eqn:Hv.
      + rewrite cl_eq, rc_eq. cbn [abs_lit]. rewrite Hv, Hfix.
        destruct value; destruct (is_nonnull t); reflexivity.
      + rewrite rc_eq. cbn [abs_lit]. rewrite Hv.
        pose proof (absent_var_not_ok fx E dt vv n Hv t a) as N.
        destruct (coerce_literal fx E dt vv (LVar n) t a) as [g| |]; [exfalso; eapply N; eauto|reflexivity|exact I].
    - lr_atom (LInt z).
    - (* a float literal: outside binary64 it is no input value at all *)
      destruct (f64_of_decimal m k) as [d|] eqn:Fd.
      + intros t; induction t as [n|t' IHt|t' IHt]; intros a; rewrite cl_eq, rc_eq; cbn [abs_lit] in *; rewrite Fd in *.
        * destruct (aget n E) as [[k0|vals|fields h]|]; [|reflexivity|reflexivity|exact I].
          rewrite (scalar_literal_ref k0 (LFloat m k)). cbn [abs_lit]. rewrite Fd. apply agrees_of_option.
        * lr_wrap (LFloat m k) t' IHt a.
        * lr_nn IHt.
      + intros t; induction t as [n|t' IHt|t' IHt]; intros a; rewrite cl_eq, rc_eq; cbn [abs_lit] in *; rewrite Fd in *.
        * destruct (aget n E) as [[k0|vals|fields h]|]; [|reflexivity|reflexivity|exact I].
          destruct k0; cbn [scalar_literal]; rewrite ?Fd; reflexivity.
        * destruct a; [|reflexivity]. specialize (IHt true). rewrite rc_eq in IHt. unfold agrees in *.
          destruct (coerce_literal fx E dt vv (LFloat m k) t' true); cbn beta iota in *; auto. discriminate.
        * rewrite Hnn. specialize (IHt a). rewrite rc_eq in IHt. exact IHt.
    - lr_atom (LString s).
    - lr_atom (LBool b).
    - intros t a. rewrite cl_eq, rc_eq. cbn [abs_lit]. destruct (is_nonnull t); reflexivity.
    - lr_atom (LEnum n). apply agrees_of_option.
    - (* a list literal *)
      cbn [lit_nodup] in W. rewrite forallb_forall in W.
      intros t; induction t as [n|t' IHt|t' IHt]; intros a; rewrite cl_eq, rc_eq; cbn [abs_lit] in *.
      + destruct (aget n E) as [[k|vals|fields h]|]; [|reflexivity|reflexivity|exact I].
        rewrite (scalar_literal_ref k (LList vs)). cbn [abs_lit]. apply agrees_of_option.
      + apply agrees_res_list. apply res_map_opt_map.
        rewrite Forall_forall in *. intros x Hx. apply (IHl x Hx (W x Hx)).
      + lr_nn IHt.
    - (* an object literal *)
      cbn [lit_nodup] in W. apply andb_true_iff in W as [Wd W]. apply negb_true_iff in Wd. rewrite forallb_forall in W.
      intros t; induction t as [n|t' IHt|t' IHt]; intros a; rewrite cl_eq, rc_eq; cbn [abs_lit] in *.
      + destruct (aget n E) as [[k|vals|fields h]|] eqn:Hn; [|reflexivity| |exact I].
        * rewrite (scalar_literal_ref k (LObject fs)). cbn [abs_lit]. apply agrees_of_option.
        * apply object_refines; auto.
          -- apply (fields_nodup E HE _ _ _ Hn).
          -- rewrite Forall_forall in *. intros p Hp. apply (IHf p Hp (W p Hp)).
      + lr_wrap (LObject fs) t' IHt a.
      + lr_nn IHt.
  Qed.
End LitRefine.

(** ** the two top-level functions and the whole request *)
Lemma validate_nodup E dt : forall l t a, validate_coercion E dt l t a = true -> lit_nodup l = true.
Proof.
  induction l as [n|z|m k|s|b| |n|vs IHl|fs IHf] using lit_ind'; try reflexivity.
  - (* lists *)
    intros t; induction t as [n|t' IHt|t' IHt]; intros a H; simpl in H.
    + destruct (aget n E) as [[k|vals|fields h]|]; try discriminate. destruct k; discriminate.
    + simpl. apply forallb_forall. intros x Hx. rewrite forallb_forall in H. rewrite Forall_forall in IHl.
      eapply IHl; eauto.
    + eapply IHt; eauto.
  - (* objects *)
    intros t; induction t as [n|t' IHt|t' IHt]; intros a H; simpl in H.
    + destruct (aget n E) as [[k|vals|fields h]|]; try discriminate. { destruct k; discriminate. }
      apply andb_true_iff in H as [H _]. apply andb_true_iff in H as [D F].
      simpl. rewrite dup_names_has_dup, D. simpl.
      apply forallb_forall. intros [k x] Hx. rewrite forallb_forall in F. specialize (F _ Hx). simpl in F.
      rewrite Forall_forall in IHf. destruct (aget k fields); try discriminate. eapply (IHf (k, x)); eauto.
    + destruct a; try discriminate. eapply IHt; eauto.
    + eapply IHt; eauto.
Qed.

Lemma aget_fold_mset_nodup {A} (args : list (name * A)) : forall m0 k,
  dup_names (map fst args) = false ->
  aget k (fold_left (fun m (a : name * A) => mset (fst a) (snd a) m) args m0) =
  match aget k args with Some v => Some v | None => aget k m0 end.
Proof.
  induction args as [|[k' v'] r IH]; simpl; intros m0 k D; auto.
  apply orb_false_iff in D as [D1 D2]. rewrite IH by auto.
  destruct (bytes_eqb k k') eqn:B.
  - apply bytes_eqb_eq in B; subst.
    assert (N : aget k' r = None).
    { destruct (aget k' r) eqn:G; auto. apply aget_In in G. exfalso.
      assert (X : existsb (bytes_eqb k') (map fst r) = true).
      { apply existsb_exists. exists k'. split; [change k' with (fst (k', a)); apply in_map; auto|apply bytes_eqb_refl]. }
      congruence. }
    rewrite N. apply aget_mset_same.
  - destruct (aget k r); auto. apply aget_mset_other. intro; subst. rewrite bytes_eqb_refl in B; discriminate.
Qed.

Section TopRefine.
  Variable E : env.
  Variable dt : bytes -> option bytes.
  Hypothesis HE : env_ok E = true.
  Let fx := all_fixed.

  Lemma type_known_ref t : type_known E t = ref_type_known E t.
  Proof. induction t; simpl; auto. Qed.

  Lemma variable_values_refine defs raw :
    (forall def dflt, In def defs -> vd_default def = Some dflt -> lit_nodup dflt = true) ->
    (forall p, In p raw -> jval_ok (snd p) = true) ->
    agrees (coerce_variable_values fx E dt defs raw) (ref_variable_values E dt defs raw).
  Proof.
    intros Hd Hr. unfold coerce_variable_values, ref_variable_values.
    assert (G : forall acc acc', agrees acc acc' ->
                agrees (fold_left (var_step fx E dt raw) defs acc) (fold_left (ref_var_step E dt raw) defs acc')).
    { induction defs as [|def r IH]; intros acc acc' Ha; simpl; auto.
      apply IH; [intros; eapply Hd; eauto; right; auto|].
      destruct acc as [m| |]; simpl in Ha; subst; simpl; auto.
      rewrite type_known_ref. destruct (negb (ref_type_known E (vd_type def))); [reflexivity|].
      destruct (aget (vd_name def) raw) as [j|] eqn:R.
      - pose proof (var_value_refines fx E dt eq_refl eq_refl j (Hr _ (aget_In _ _ _ R)) (vd_type def) true) as V.
        destruct (coerce_var_value fx E dt j (vd_type def) true); simpl in V; rewrite ?V; simpl; auto.
      - destruct (vd_default def) as [dflt|] eqn:D.
        + pose proof (literal_refines fx E dt HE eq_refl eq_refl [] dflt (Hd def dflt (or_introl eq_refl) D) (vd_type def) true) as V.
          destruct (coerce_literal fx E dt [] dflt (vd_type def) true); simpl in V; rewrite ?V; simpl; auto.
        + destruct (is_nonnull (vd_type def)); reflexivity. }
    apply G. reflexivity.
  Qed.

  Lemma aget_map_abs vv (args : list (name * lit)) k :
    aget k (map (fun p => match p with (k, l) => (k, abs_lit vv l) end) args) = option_map (abs_lit vv) (aget k args).
  Proof. induction args as [|[k' l] r IH]; simpl; auto. destruct (bytes_eqb k k'); auto. Qed.

  Lemma map_fst_abs_args vv (args : list (name * lit)) :
    map fst (map (fun p => match p with (k, l) => (k, abs_lit vv l) end) args) = map fst args.
  Proof. induction args as [|[k v] r IH]; simpl; congruence. Qed.

  Lemma is_null_abs_lit vv l : is_null_ival (abs_lit vv l) =
    match l with LNull => true | LVar n => match aget n vv with Some g => is_nil g | None => false end | _ => false end.
  Proof. destruct l; simpl; auto. - destruct (aget n vv); reflexivity. - destruct (f64_of_decimal m k); reflexivity. Qed.

  Lemma argument_values_refine argdefs args vv :
    dup_names (map fst args) = false ->
    (forall a l, In (a, l) args -> lit_nodup l = true) ->
    agrees (coerce_argument_values fx E dt argdefs args vv)
           (ref_argument_values E dt argdefs (map (fun p => match p with (k, l) => (k, abs_lit vv l) end) args)).
  Proof.
    intros Da Hn. unfold coerce_argument_values, ref_argument_values.
    rewrite map_fst_abs_args, Da.
    set (av := fold_left (fun m (a : name * lit) => mset (fst a) (snd a) m) args []).
    set (args' := map (fun p => match p with (k, l) => (k, abs_lit vv l) end) args).
    assert (Av : forall k, aget k av = aget k args).
    { intro k. unfold av. rewrite aget_fold_mset_nodup by auto. destruct (aget k args); reflexivity. }
    assert (G : forall acc acc', agrees acc acc' ->
                agrees (fold_left (arg_step fx E dt av vv) argdefs acc) (fold_left (ref_arg_step E dt args') argdefs acc')).
    { induction argdefs as [|[aname d] r IH]; intros acc acc' Ha; simpl; auto.
      apply IH. destruct acc as [m| |]; simpl in Ha; subst; simpl; auto.
      rewrite Av. unfold args'. rewrite aget_map_abs.
      destruct (aget aname args) as [l|] eqn:Ga; cbn [option_map].
      - pose proof (literal_refines fx E dt HE eq_refl eq_refl vv l (Hn _ _ (aget_In _ _ _ Ga)) (in_type d) true) as V.
        rewrite (is_absent_abs_lit vv l), is_null_abs_lit.
        destruct l as [vn|z|m0 k0|s|b| |en|vs|fs]; cbn [absent_var negb];
          try (destruct (in_default d); rewrite ?andb_false_r; cbn [andb orb negb]; unfold agrees in V |- *;
               match goal with |- context [coerce_literal fx E dt vv ?l (in_type d) true] =>
                 destruct (coerce_literal fx E dt vv l (in_type d) true); rewrite ?V; try reflexivity; exact I end; fail).
        + (* a variable as the whole argument *)
          unfold ahas. destruct (aget vn vv) as [value|] eqn:Hv; cbn [negb].
          * rewrite cl_eq in V. cbn iota in V. rewrite Hv in V. cbn [fx all_fixed fix_null_var andb] in V |- *.
            destruct (in_default d); cbn [andb orb negb];
              (destruct (is_nonnull (in_type d)) eqn:N; destruct (is_nil value) eqn:Z; cbn [andb orb] in V |- *;
               try reflexivity; unfold agrees in V |- *; rewrite V; reflexivity).
          * destruct (in_default d); [reflexivity|]. cbn [andb orb negb].
            destruct (is_nonnull (in_type d)); reflexivity.
        + (* the null literal *)
          destruct (is_nonnull (in_type d)) eqn:N.
          * destruct (in_default d); cbn [andb orb negb]; rewrite cl_eq; cbn iota; rewrite N; reflexivity.
          * destruct (in_default d); cbn [andb orb negb]; unfold agrees in V |- *;
              (destruct (coerce_literal fx E dt vv LNull (in_type d) true); rewrite ?V; try reflexivity; exact I).
      - destruct (in_default d); [reflexivity|]. cbn [andb orb negb].
        destruct (is_nonnull (in_type d)); reflexivity. }
    apply G. reflexivity.
  Qed.
End TopRefine.

(** ** the whole request: for every document the validator accepts, what the resolver is called
    with is exactly the reference coercion, and when there is none the client gets an error and
    nothing is called *)
Section RequestRefine.
  Variable E : env.
  Variable dt : bytes -> option bytes.
  Hypothesis HE : env_ok E = true.

  Lemma static_ok_facts fx site argdefs defs args :
    static_ok fx E dt site argdefs defs args = true ->
    dup_names (map fst args) = false /\
    (forall a l, In (a, l) args -> lit_nodup l = true) /\
    (forall def dflt, In def defs -> vd_default def = Some dflt -> lit_nodup dflt = true).
  Proof.
    unfold static_ok. intro St. repeat (apply andb_true_iff in St as [St ?]).
    split; [|split].
    - rewrite dup_names_has_dup.
      match goal with X : negb (has_dup (map fst args)) = true |- _ => apply negb_true_iff in X; exact X end.
    - intros a l Hin.
      match goal with X : forallb (fun a => match aget (fst a) argdefs with Some d => validate_coercion _ _ _ _ _ | None => false end) args = true |- _ =>
        rewrite forallb_forall in X; specialize (X _ Hin); simpl in X end.
      destruct (aget a argdefs); try discriminate. eapply validate_nodup; eauto.
    - intros def dflt Hin D.
      match goal with X : forallb (fun def => match vd_default def with Some dflt => _ && validate_coercion _ _ _ _ _ | None => true end) defs = true |- _ =>
        rewrite forallb_forall in X; specialize (X _ Hin); rewrite D in X end.
      apply andb_true_iff in H3 as [_ V]. eapply validate_nodup; eauto.
  Qed.

  Theorem request_refines site argdefs defs args raw :
    (forall p, In p raw -> jval_ok (snd p) = true) ->
    static_ok all_fixed E dt site argdefs defs args = true ->
    match run_request all_fixed E dt site argdefs defs args raw with
    | OCalled m => ref_request E dt argdefs defs args raw = Some m
    | ORuntimeError => ref_request E dt argdefs defs args raw = None
    | OPanic => True
    | OStaticReject => False
    end.
  Proof.
    intros Hr St. destruct (static_ok_facts _ _ _ _ _ St) as (Da & Ha & Hd).
    unfold run_request, ref_request. rewrite St. cbn [negb].
    pose proof (variable_values_refine E dt HE defs raw Hd Hr) as V.
    destruct (coerce_variable_values all_fixed E dt defs raw) as [vv| |]; simpl in V; [|rewrite V; reflexivity|exact I].
    rewrite V.
    pose proof (argument_values_refine E dt HE argdefs args vv Da Ha) as A.
    destruct (coerce_argument_values all_fixed E dt argdefs args vv); simpl in A; auto.
  Qed.

  Corollary called_is_reference site argdefs defs args raw m :
    (forall p, In p raw -> jval_ok (snd p) = true) ->
    run_request all_fixed E dt site argdefs defs args raw = OCalled m ->
    ref_request E dt argdefs defs args raw = Some m.
  Proof.
    intros Hr H. destruct (static_ok all_fixed E dt site argdefs defs args) eqn:St.
    - pose proof (request_refines site argdefs defs args raw Hr St) as R. rewrite H in R. exact R.
    - unfold run_request in H. rewrite St in H. discriminate.
  Qed.

  Corollary reject_no_call site argdefs defs args raw :
    (forall p, In p raw -> jval_ok (snd p) = true) ->
    ref_request E dt argdefs defs args raw = None ->
    forall m, run_request all_fixed E dt site argdefs defs args raw <> OCalled m.
  Proof.
    intros Hr N m H. rewrite (called_is_reference _ _ _ _ _ _ Hr H) in N. discriminate.
  Qed.

  (** and conversely: a request the validator accepts and the reference can coerce is served *)
  Corollary reference_is_served site argdefs defs args raw m :
    (forall p, In p raw -> jval_ok (snd p) = true) ->
    static_ok all_fixed E dt site argdefs defs args = true ->
    ref_request E dt argdefs defs args raw = Some m ->
    run_request all_fixed E dt site argdefs defs args raw = OCalled m \/
    run_request all_fixed E dt site argdefs defs args raw = OPanic.
  Proof.
    intros Hr St R. pose proof (request_refines site argdefs defs args raw Hr St) as Q.
    destruct (run_request all_fixed E dt site argdefs defs args raw) as [ | |m'| ];
      [contradiction|rewrite Q in R; discriminate|left; rewrite Q in R; inversion R; reflexivity|right; reflexivity].
  Qed.
End RequestRefine.
