(** * Val/BridgeC04.v — C05 x C04: a translation of C05's literals, types and type environments
    into the encodings of the C04 validator model (Vld/Ast.v), so that C04's transcription of
    validateCoercion ([ValidatorModel.coercion]) can be run on C05's requests.  Definitions only:
    the check evaluates both transcriptions on every argument literal and default value of every
    case and fails when they disagree ([bridge_agrees]).

    What the C04 encoding cannot express (the exact gap): C04 abstracts a custom scalar by the
    KINDS of literal it accepts, so the value-dependent coercers of package apifu (DateTime: RFC
    3339 validity of the string; LongInt: the range +-(2^53-1)) have no faithful image; an
    environment mentioning them is not [bridgeable] and is skipped.  Integer and float literals
    cross as their decimal text ([dec_of_Z], m "e" k), which C04 parses back (Literals.v). *)
From Coq Require Import List NArith ZArith Bool.
From ApiFu Require Import Base.Sexp Val.Values Val.CoerceModel.
From ApiFu Require Vld.Ast Vld.ValidatorModel.
Import ListNotations.

(** decimal digits of a positive number, most significant first (fuel: the number of bits) *)
Fixpoint dec_pos (fuel : nat) (z : Z) (acc : list N) : list N :=
  match fuel with
  | O => acc
  | S f =>
      if Z.ltb z 10 then (Z.to_N z + 48)%N :: acc
      else dec_pos f (z / 10)%Z ((Z.to_N (z mod 10) + 48)%N :: acc)
  end.
Definition dec_of_Z (z : Z) : list N :=
  match z with
  | Z0 => [48%N]
  | Zpos p => dec_pos (S (Pos.to_nat (Pos.size p))) z []
  | Zneg p => 45%N :: dec_pos (S (Pos.to_nat (Pos.size p))) (Zpos p) []
  end.

Definition p0 : Ast.pos := (0%N, 0%N).

Fixpoint tr_sty (t : sty) : Ast.sty :=
  match t with
  | StNamed n => Ast.StNamed n
  | StList t' => Ast.StList (tr_sty t')
  | StNonNull t' => Ast.StNonNull (tr_sty t')
  end.

Fixpoint tr_lit (l : lit) : Ast.value :=
  match l with
  | LVar n => Ast.VVar Ast.no_vann n p0 p0
  | LInt z => Ast.VInt Ast.no_vann (dec_of_Z z) p0
  | LFloat m k => Ast.VFloat Ast.no_vann (dec_of_Z m ++ 101%N :: dec_of_Z k) p0     (* m e k *)
  | LString s => Ast.VString Ast.no_vann s p0
  | LBool b => Ast.VBool Ast.no_vann b p0
  | LNull => Ast.VNull Ast.no_vann p0
  | LEnum n => Ast.VEnum Ast.no_vann n p0
  | LList vs => Ast.VList Ast.no_vann (map tr_lit vs) p0
  | LObject fs => Ast.VObject Ast.no_vann (map (fun p : name * lit => (fst p, p0, tr_lit (snd p))) fs) p0
  end.

Definition tr_scalar (k : scalar_kind) : Ast.scalar :=
  match k with
  | KInt => Ast.SInt
  | KFloat => Ast.SFloat
  | KString => Ast.SString
  | KBoolean => Ast.SBoolean
  | KID => Ast.SID
  | KCustom => Ast.SCustom (Some [Ast.KString])
  | KDateTime => Ast.SCustom (Some [Ast.KString])      (* kind-level only: not faithful *)
  | KLongInt => Ast.SCustom (Some [Ast.KInt])          (* kind-level only: not faithful *)
  end.

Definition tr_indef (d : in_def) : Ast.input_def :=
  {| Ast.in_type := tr_sty (in_type d);
     Ast.in_default := match in_default d with
                       | None => Ast.DNone
                       | Some GNullSentinel => Ast.DNull
                       | Some _ => Ast.DValue
                       end |}.

Definition tr_tdef (td : tdef) : Ast.type_body :=
  match td with
  | TScalar k => Ast.TScalar (tr_scalar k)
  | TEnum vals => Ast.TEnum (map fst vals)
  | TInput fields _ => Ast.TInput (map (fun f : name * in_def => (fst f, tr_indef (snd f))) fields)
  end.

Definition tr_env (E : env) : Ast.schema :=
  {| Ast.s_types := map (fun p : name * tdef => (fst p, {| Ast.t_req := []; Ast.t_body := tr_tdef (snd p) |})) E;
     Ast.s_query := []; Ast.s_mutation := None; Ast.s_subscription := None;
     Ast.s_directives := []; Ast.s_meta := []; Ast.s_impls := [] |}.

(** no scalar whose literal coercion depends on more than the literal's kind and numeric range *)
Definition bridgeable (E : env) : bool :=
  forallb (fun p : name * tdef => match snd p with
                                  | TScalar KDateTime => false
                                  | TScalar KLongInt => false
                                  | _ => true
                                  end) E.

(** C04's validateCoercion, run on the translation, is silent *)
Definition c04_accepts (E : env) (l : lit) (t : sty) (allow : bool) : bool :=
  match ValidatorModel.coercion ValidatorModel.repaired ValidatorModel.id_order (tr_env E) (tr_lit l) (tr_sty t) allow with
  | ValidatorModel.VR [] => true
  | _ => false
  end.

(** the two transcriptions of validateCoercion agree on this literal at this type *)
Definition bridge_agrees (E : env) (dt : bytes -> option bytes) (l : lit) (t : sty) : bool :=
  Bool.eqb (c04_accepts E l t true) (validate_coercion E dt l t true).

(** ** the document level: a whole C05 request as a C04 schema and document, so that C04's
    ValidateDocument model ([validate_model_memo repaired id_order]: NewTypeInfo and all eight rule
    groups) can be run on it.  The request is  query Q(defs) { f(args) }  against  f(argdefs): Int
    (site "field"),  { g @flt(args) }  with  directive @flt(argdefs) on FIELD  (site "directive"),
    or  { g @skip/@include(args) }. *)
Definition pp (l c : N) : Ast.pos := (l, c).

Fixpoint tr_ty (t : sty) (p : Ast.pos) : Ast.ty :=
  match t with
  | StNamed n => Ast.TNamed n p
  | StList t' => Ast.TList (tr_ty t' p) p
  | StNonNull t' => Ast.TNonNull (tr_ty t' p)
  end.

Definition tr_vardef (i : N) (d : vardef) : Ast.vardef :=
  {| Ast.vd_ann := None; Ast.vd_name := vd_name d; Ast.vd_dollar := pp 1 (10 + 2 * i)%N; Ast.vd_npos := pp 1 (11 + 2 * i)%N;
     Ast.vd_type := tr_ty (vd_type d) (pp 2 (10 + i)%N);
     Ast.vd_default := option_map tr_lit (vd_default d) |}.

Fixpoint tr_vardefs (i : N) (defs : list vardef) : list Ast.vardef :=
  match defs with
  | [] => []
  | d :: r => tr_vardef i d :: tr_vardefs (i + 1)%N r
  end.

Fixpoint tr_args (i : N) (args : list (name * lit)) : list Ast.argument :=
  match args with
  | [] => []
  | (n, l) :: r => {| Ast.a_name := n; Ast.a_pos := pp 3 (10 + i)%N; Ast.a_value := tr_lit l |} :: tr_args (i + 1)%N r
  end.

Definition tr_argdefs (argdefs : list (name * in_def)) : list (Ast.name * Ast.input_def) :=
  map (fun f : name * in_def => (fst f, tr_indef (snd f))) argdefs.

Definition n_Query : name := [81; 117; 101; 114; 121]%N.
(* the result type of f and g: a name reserved for the bridge (not a type of the request's environment) *)
Definition n_Res : name := [82; 101; 115; 95]%N.
Definition n_Boolean : name := [66; 111; 111; 108; 101; 97; 110]%N.

(** [site]: "field", "directive", "skip" or "include" *)
Definition tr_request_schema (E : env) (site_field : bool) (argdefs : list (name * in_def)) : Ast.schema :=
  let int_t := Ast.StNamed n_Res in
  let fld (a : list (Ast.name * Ast.input_def)) := {| Ast.f_type := int_t; Ast.f_args := a; Ast.f_req := [] |} in
  let q := Ast.TObject [ ([102]%N, fld (if site_field then tr_argdefs argdefs else []));
                          ([103]%N, fld []) ] [] in
  let dir := {| Ast.dd_args := if site_field then [] else tr_argdefs argdefs; Ast.dd_locs := [Ast.LField] |} in
  {| Ast.s_types := Ast.s_types (tr_env E)
                    ++ [ (n_Query, {| Ast.t_req := []; Ast.t_body := q |});
                         (n_Res, {| Ast.t_req := []; Ast.t_body := Ast.TScalar Ast.SInt |}) ];
     Ast.s_query := n_Query; Ast.s_mutation := None; Ast.s_subscription := None;
     Ast.s_directives := [ ([102; 108; 116]%N, dir); ([115; 107; 105; 112]%N, dir); ([105; 110; 99; 108; 117; 100; 101]%N, dir) ];
     Ast.s_meta := []; Ast.s_impls := [] |}.

Definition tr_request_doc (dname : option name) (defs : list vardef) (args : list (name * lit)) : Ast.document :=
  let a := tr_args 0 args in
  let sel := match dname with
             | None => Ast.SField None None ([102]%N) (pp 4 1) a [] None
             | Some d => Ast.SField None None ([103]%N) (pp 4 1) []
                           [ {| Ast.d_name := d; Ast.d_npos := pp 4 4; Ast.d_at := pp 4 3; Ast.d_args := a |} ] None
             end in
  [ Ast.DOp (Some ([113; 117; 101; 114; 121]%N, pp 1 1)) (Some ([81]%N, pp 1 7)) (tr_vardefs 0 defs) []
            (Ast.SelSet None [sel] (pp 4 0)) ].

(** C04's ValidateDocument accepts the request *)
Definition c04_document_accepts (E : env) (site_field : bool) (dname : option name)
           (argdefs : list (name * in_def)) (defs : list vardef) (args : list (name * lit)) : bool :=
  match ValidatorModel.validate_model_memo ValidatorModel.repaired ValidatorModel.id_order
          (tr_request_schema E site_field argdefs) [] (tr_request_doc dname defs args) with
  | Ast.Done [] => true
  | _ => false
  end.

(** ** the translations, generic in the image of the scalar kinds ([ts]); [tr_env] etc. above are
    the instance [tr_scalar] (kept as they are: other properties build on them) *)
Definition tr_tdef_g (ts : scalar_kind -> Ast.scalar) (td : tdef) : Ast.type_body :=
  match td with
  | TScalar k => Ast.TScalar (ts k)
  | TEnum vals => Ast.TEnum (map fst vals)
  | TInput fields _ => Ast.TInput (map (fun f : name * in_def => (fst f, tr_indef (snd f))) fields)
  end.

Definition tr_env_g (ts : scalar_kind -> Ast.scalar) (E : env) : Ast.schema :=
  {| Ast.s_types := map (fun p : name * tdef => (fst p, {| Ast.t_req := []; Ast.t_body := tr_tdef_g ts (snd p) |})) E;
     Ast.s_query := []; Ast.s_mutation := None; Ast.s_subscription := None;
     Ast.s_directives := []; Ast.s_meta := []; Ast.s_impls := [] |}.

Definition tr_request_schema_g (ts : scalar_kind -> Ast.scalar) (E : env) (site_field : bool) (argdefs : list (name * in_def)) : Ast.schema :=
  let int_t := Ast.StNamed n_Res in
  let fld (a : list (Ast.name * Ast.input_def)) := {| Ast.f_type := int_t; Ast.f_args := a; Ast.f_req := [] |} in
  let q := Ast.TObject [ ([102]%N, fld (if site_field then tr_argdefs argdefs else []));
                          ([103]%N, fld []) ] [] in
  let dir := {| Ast.dd_args := if site_field then [] else tr_argdefs argdefs; Ast.dd_locs := [Ast.LField] |} in
  {| Ast.s_types := Ast.s_types (tr_env_g ts E)
                    ++ [ (n_Query, {| Ast.t_req := []; Ast.t_body := q |});
                         (n_Res, {| Ast.t_req := []; Ast.t_body := Ast.TScalar Ast.SInt |}) ];
     Ast.s_query := n_Query; Ast.s_mutation := None; Ast.s_subscription := None;
     Ast.s_directives := [ ([102; 108; 116]%N, dir); ([115; 107; 105; 112]%N, dir); ([105; 110; 99; 108; 117; 100; 101]%N, dir) ];
     Ast.s_meta := []; Ast.s_impls := [] |}.

Definition c04_accepts_g (ts : scalar_kind -> Ast.scalar) (E : env) (l : lit) (t : sty) (allow : bool) : bool :=
  match ValidatorModel.coercion ValidatorModel.repaired ValidatorModel.id_order (tr_env_g ts E) (tr_lit l) (tr_sty t) allow with
  | ValidatorModel.VR [] => true
  | _ => false
  end.

Definition c04_document_accepts_g (ts : scalar_kind -> Ast.scalar) (E : env) (site_field : bool) (dname : option name)
           (argdefs : list (name * in_def)) (defs : list vardef) (args : list (name * lit)) : bool :=
  match ValidatorModel.validate_model_memo ValidatorModel.repaired ValidatorModel.id_order
          (tr_request_schema_g ts E site_field argdefs) [] (tr_request_doc dname defs args) with
  | Ast.Done [] => true
  | _ => false
  end.

(** ** DateTime and LongInt through C04's refined scalars ([Ast.SRefined], round 6).
    [tr_scalar_r dt] is the image the check runs for every case and, from round 7 on, the one the
    bridge theorems are stated over ([..._r]). *)
Definition tr_scalar_r (dt : bytes -> option bytes) (k : scalar_kind) : Ast.scalar :=
  match k with
  | KDateTime => Ast.SRefined (Some [Ast.KString]) (Ast.PStringIn (fun s => match dt s with Some _ => true | None => false end))
  | KLongInt => Ast.SRefined (Some [Ast.KInt]) (Ast.PIntRange (- (2 ^ 53 - 1)) (2 ^ 53 - 1))
  | _ => tr_scalar k
  end.

Definition tr_tdef_r (dt : bytes -> option bytes) : tdef -> Ast.type_body := tr_tdef_g (tr_scalar_r dt).
Definition tr_env_r (dt : bytes -> option bytes) : env -> Ast.schema := tr_env_g (tr_scalar_r dt).
Definition c04_accepts_r (dt : bytes -> option bytes) := c04_accepts_g (tr_scalar_r dt).
Definition bridge_agrees_r (E : env) (dt : bytes -> option bytes) (l : lit) (t : sty) : bool :=
  Bool.eqb (c04_accepts_r dt E l t true) (validate_coercion E dt l t true).
Definition tr_request_schema_r (dt : bytes -> option bytes) := tr_request_schema_g (tr_scalar_r dt).
Definition c04_document_accepts_r (dt : bytes -> option bytes) := c04_document_accepts_g (tr_scalar_r dt).
