(** * Val/MapFacts.v — facts about the name order and the sorted association maps of Values.v *)
From Coq Require Import List NArith ZArith Bool Lia.
From ApiFu Require Import Base.Sexp Val.Values.
Import ListNotations.

Lemma bytes_eqb_sym a b : bytes_eqb a b = bytes_eqb b a.
Proof.
  destruct (bytes_eqb a b) eqn:H1; destruct (bytes_eqb b a) eqn:H2; auto.
  - apply bytes_eqb_eq in H1; subst. rewrite bytes_eqb_refl in H2; discriminate.
  - apply bytes_eqb_eq in H2; subst. rewrite bytes_eqb_refl in H1; discriminate.
Qed.

Lemma bytes_eqb_neq a b : bytes_eqb a b = false <-> a <> b.
Proof.
  split; intro H.
  - intro; subst. rewrite bytes_eqb_refl in H; discriminate.
  - destruct (bytes_eqb a b) eqn:H1; auto. apply bytes_eqb_eq in H1; contradiction.
Qed.

Lemma bytes_cmp_eq a b : bytes_cmp a b = Eq <-> a = b.
Proof.
  revert b; induction a as [|x xs IH]; intros [|y ys]; simpl; split; intro H; try congruence; try discriminate.
  - destruct (N.compare x y) eqn:C; try discriminate. apply N.compare_eq in C; subst. apply IH in H; congruence.
  - inversion H; subst. rewrite N.compare_refl. apply IH; reflexivity.
Qed.

Lemma bytes_cmp_refl a : bytes_cmp a a = Eq.
Proof. apply bytes_cmp_eq; reflexivity. Qed.

Lemma bytes_cmp_antisym a b : bytes_cmp b a = CompOpp (bytes_cmp a b).
Proof.
  revert b; induction a as [|x xs IH]; intros [|y ys]; simpl; auto.
  rewrite (N.compare_antisym x y). destruct (N.compare x y); simpl; auto.
Qed.

Lemma bytes_cmp_lt_trans a b c : bytes_cmp a b = Lt -> bytes_cmp b c = Lt -> bytes_cmp a c = Lt.
Proof.
  revert b c; induction a as [|x xs IH]; intros [|y ys] [|z zs]; simpl; try discriminate; auto.
  intros H1 H2.
  destruct (N.compare x y) eqn:C1; try discriminate.
  - apply N.compare_eq in C1; subst.
    destruct (N.compare y z) eqn:C2; try discriminate; auto. eapply IH; eauto.
  - destruct (N.compare y z) eqn:C2; try discriminate.
    + apply N.compare_eq in C2; subst. rewrite C1; auto.
    + rewrite N.compare_lt_iff in *. assert (H : (x < z)%N) by lia. apply N.compare_lt_iff in H. rewrite H; auto.
Qed.

Lemma bytes_cmp_gt_lt a b : bytes_cmp a b = Gt -> bytes_cmp b a = Lt.
Proof. intro H. rewrite bytes_cmp_antisym, H; reflexivity. Qed.

Lemma bytes_cmp_eqb a b : bytes_eqb a b = match bytes_cmp a b with Eq => true | _ => false end.
Proof.
  destruct (bytes_cmp a b) eqn:C.
  - apply bytes_cmp_eq in C; subst; apply bytes_eqb_refl.
  - apply bytes_eqb_neq; intro; subst. rewrite bytes_cmp_refl in C; discriminate.
  - apply bytes_eqb_neq; intro; subst. rewrite bytes_cmp_refl in C; discriminate.
Qed.

(** ** aget / ahas / mset *)
Section Maps.
  Context {A : Type}.
  Implicit Types (m : list (name * A)) (k : name) (v : A).

  Lemma aget_mset_same k v m : aget k (mset k v m) = Some v.
  Proof.
    induction m as [|[k' v'] r IH]; simpl.
    - rewrite bytes_eqb_refl; reflexivity.
    - destruct (bytes_cmp k k') eqn:C; simpl.
      + rewrite bytes_eqb_refl; reflexivity.
      + rewrite bytes_eqb_refl; reflexivity.
      + rewrite bytes_cmp_eqb, C. exact IH.
  Qed.

  Lemma aget_mset_other k k' v m : k <> k' -> aget k' (mset k v m) = aget k' m.
  Proof.
    intro N. induction m as [|[k0 v0] r IH]; simpl.
    - assert (bytes_eqb k' k = false) as -> by (apply bytes_eqb_neq; congruence). reflexivity.
    - destruct (bytes_cmp k k0) eqn:C; simpl.
      + apply bytes_cmp_eq in C; subst k0.
        assert (bytes_eqb k' k = false) as -> by (apply bytes_eqb_neq; congruence). reflexivity.
      + assert (bytes_eqb k' k = false) as -> by (apply bytes_eqb_neq; congruence). reflexivity.
      + destruct (bytes_eqb k' k0); auto.
  Qed.

  Lemma aget_mset k k' v m : aget k' (mset k v m) = if bytes_eqb k' k then Some v else aget k' m.
  Proof.
    destruct (bytes_eqb k' k) eqn:B.
    - apply bytes_eqb_eq in B; subst. apply aget_mset_same.
    - apply aget_mset_other. apply bytes_eqb_neq in B. congruence.
  Qed.

  Lemma ahas_mset k k' v m : ahas k' (mset k v m) = bytes_eqb k' k || ahas k' m.
  Proof. unfold ahas. rewrite aget_mset. destruct (bytes_eqb k' k); reflexivity. Qed.

  Lemma aget_In k v m : aget k m = Some v -> In (k, v) m.
  Proof.
    induction m as [|[k' v'] r IH]; simpl; intro H; try discriminate.
    destruct (bytes_eqb k k') eqn:B.
    - apply bytes_eqb_eq in B; subst. inversion H; subst. left; reflexivity.
    - right; auto.
  Qed.

  Lemma In_mset (p : name * A) k v m : In p (mset k v m) -> p = (k, v) \/ In p m.
  Proof.
    induction m as [|[k' v'] r IH]; simpl.
    - intros [H|[]]; auto.
    - destruct (bytes_cmp k k'); simpl.
      + intros [H|H]; auto.
      + intros [H|[H|H]]; auto.
      + intros [H|H]; auto. destruct (IH H); auto.
  Qed.

  Lemma Forall_mset (P : name * A -> Prop) k v m : P (k, v) -> Forall P m -> Forall P (mset k v m).
  Proof.
    intros Hk Hm. apply Forall_forall. intros p Hp. apply In_mset in Hp as [->|Hp]; auto.
    rewrite Forall_forall in Hm; auto.
  Qed.

  (** strictly sorted keys *)
  Definition lt_all k m : Prop := forall p, In p m -> bytes_cmp k (fst p) = Lt.

  Lemma keys_sorted_cons k v m : keys_sorted ((k, v) :: m) = true <-> lt_all k m /\ keys_sorted m = true.
  Proof.
    revert k v. induction m as [|[k' v'] r IH]; intros k v.
    - simpl. split; auto. intros _. split; auto. intros p [].
    - change (keys_sorted ((k, v) :: (k', v') :: r)) with
        (match bytes_cmp k k' with Lt => keys_sorted ((k', v') :: r) | _ => false end).
      destruct (bytes_cmp k k') eqn:C.
      + split; [discriminate|]. intros [H _]. specialize (H (k', v') (or_introl eq_refl)). simpl in H. congruence.
      + split.
        * intro H. split; auto. intros p [<-|Hp]; simpl; auto.
          apply IH in H as [H _]. eapply bytes_cmp_lt_trans; eauto.
        * intros [_ H]; exact H.
      + split; [discriminate|]. intros [H _]. specialize (H (k', v') (or_introl eq_refl)). simpl in H. congruence.
  Qed.

  Lemma keys_sorted_mset k v m : keys_sorted m = true -> keys_sorted (mset k v m) = true.
  Proof.
    induction m as [|[k' v'] r IH]; intro S.
    - reflexivity.
    - simpl. apply keys_sorted_cons in S as [L S]. destruct (bytes_cmp k k') eqn:C.
      + apply bytes_cmp_eq in C; subst. apply keys_sorted_cons; auto.
      + apply keys_sorted_cons. split.
        * intros p [<-|Hp]; simpl; auto. eapply bytes_cmp_lt_trans; eauto.
        * apply keys_sorted_cons; auto.
      + apply keys_sorted_cons. split; auto.
        intros p Hp. apply In_mset in Hp as [->|Hp]; simpl; auto. apply bytes_cmp_gt_lt; auto.
  Qed.

  Lemma aget_lt_all k m : lt_all k m -> aget k m = None.
  Proof.
    induction m as [|[k' v'] r IH]; intro L; simpl; auto.
    rewrite bytes_cmp_eqb. pose proof (L (k', v') (or_introl eq_refl)) as L0. simpl in L0. rewrite L0.
    apply IH. intros p Hp. apply L. right; auto.
  Qed.

  (** two strictly sorted maps with the same lookups are equal *)
  Lemma sorted_ext m1 : forall m2, keys_sorted m1 = true -> keys_sorted m2 = true ->
    (forall k, aget k m1 = aget k m2) -> m1 = m2.
  Proof.
    induction m1 as [|[k1 v1] r1 IH]; intros [|[k2 v2] r2] S1 S2 H; auto.
    - specialize (H k2). simpl in H. rewrite bytes_eqb_refl in H. discriminate.
    - specialize (H k1). simpl in H. rewrite bytes_eqb_refl in H. discriminate.
    - apply keys_sorted_cons in S1 as [L1 S1]. apply keys_sorted_cons in S2 as [L2 S2].
      assert (K : k1 = k2).
      { destruct (bytes_cmp k1 k2) eqn:C.
        - apply bytes_cmp_eq; auto.
        - pose proof (H k1) as H1. simpl in H1. rewrite bytes_eqb_refl in H1.
          rewrite bytes_cmp_eqb, C in H1. rewrite aget_lt_all in H1; try discriminate.
          intros p Hp. eapply bytes_cmp_lt_trans; eauto.
        - pose proof (H k2) as H2. simpl in H2. rewrite bytes_eqb_refl in H2.
          rewrite bytes_cmp_eqb in H2. rewrite (bytes_cmp_gt_lt _ _ C) in H2.
          rewrite aget_lt_all in H2; try discriminate.
          intros p Hp. eapply bytes_cmp_lt_trans; [apply bytes_cmp_gt_lt; eauto|]. auto. }
      subst k2. pose proof (H k1) as H1. simpl in H1. rewrite bytes_eqb_refl in H1. inversion H1; subst v2.
      f_equal. apply IH; auto. intro k. specialize (H k). simpl in H.
      destruct (bytes_eqb k k1) eqn:B; auto.
      apply bytes_eqb_eq in B; subst. rewrite !aget_lt_all; auto.
  Qed.

  Lemma ahas_In k m : ahas k m = true -> exists v, In (k, v) m.
  Proof.
    unfold ahas. destruct (aget k m) eqn:G; try discriminate. intros _. exists a. apply aget_In; auto.
  Qed.

  Lemma In_ahas k v m : In (k, v) m -> ahas k m = true.
  Proof.
    unfold ahas. induction m as [|[k' v'] r IH]; simpl; intros []; subst.
    - inversion H; subst. rewrite bytes_eqb_refl; reflexivity.
    - destruct (bytes_eqb k k'); auto.
  Qed.
End Maps.
