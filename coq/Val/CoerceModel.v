(** * Val/CoerceModel.v — C05: hand transcription of the input-coercion code of api-fu.

    Go function                                              Coq definition
    -------------------------------------------------------  ---------------------------------
    schema/builtins.go  IntType/FloatType/... LiteralCoercion [scalar_literal]
    schema/builtins.go  coerceInt, coerceFloat, coerceString,
                        coerceBoolean, IDType.VariableValueCoercion
    scalars.go          parseDateTime, coerceLongInt          [scalar_variable]
    schema/enum_type.go CoerceLiteral / CoerceVariableValue   [enum_literal] / [enum_variable]
    schema/schema.go    coerceVariableValue                   [coerce_var_value]
    schema/list_type.go ListType.coerceVariableValue         (the [StList] branch of it)
    schema/input_object_type.go CoerceVariableValue           [input_object_variable] (inlined)
    schema/schema.go    coerceLiteral                         [coerce_literal]
    schema/list_type.go ListType.coerceLiteral               (the [StList] branch of it)
    schema/input_object_type.go CoerceLiteral                 (the [LObject] branch of it)
    validator/coerce.go CoerceVariableValues                  [coerce_variable_values]
    validator/coerce.go CoerceArgumentValues                  [coerce_argument_values]
    validator/validate_values.go validateCoercion             [validate_coercion]
    validator/type_info.go  ExpectedTypes / DefaultValues  +
    validator/validate_variables.go validateVariableUsage,
                        areTypesCompatible                    [usage_ok], [var_usage_ok], [types_compatible]
    validator/validate_arguments.go (required / duplicate)    (first three conjuncts of [static_ok])
    validator/validator.go ValidateDocument + validate_cost.go (the call of FieldDefinition.Cost) [cost_observation]

    Same control flow and short-circuits; Go's [(nil, err)] is [Err], a Go panic is [Panic].
    Go maps are strictly sorted association lists ([mset]); iteration over a Go map is iteration
    over the declared list (only the verdict, never which of several errors is reported, depends
    on it).  The model is parameterised by [fixes]: with every flag [true] it is the repaired
    code (the tree the check runs against), with a flag [false] the pinned code, which is what
    the [..._refuted_before_fix] witnesses use.  No proofs in this file. *)
From Coq Require Import List NArith ZArith Bool.
From ApiFu Require Import Base.Sexp Val.Values.
Import ListNotations.
Local Open Scope Z_scope.

Record fixes := {
  fix_null_var : bool;   (* DESIGN defect 5: null check for values that arrive through variables *)
  fix_bool_num : bool;   (* DESIGN defect 26: booleans are not numeric *input* values *)
  fix_nn_flag : bool;    (* non-null wrapper keeps allowItemToListCoercion instead of resetting it *)
  fix_rules_gate : bool; (* additional validator rules (ValidateCost) only run on documents the standard rules accept *)
  fix_item_object : bool (* TypeInfo: an object offered to a list type gets the field types of the item type *)
}.
Definition all_fixed : fixes :=
  {| fix_null_var := true; fix_bool_num := true; fix_nn_flag := true; fix_rules_gate := true;
     fix_item_object := true |}.
Definition pinned : fixes :=
  {| fix_null_var := false; fix_bool_num := false; fix_nn_flag := false; fix_rules_gate := false;
     fix_item_object := false |}.

(** the tag of the harness' custom scalar payload: "Tok" *)
Definition tok_tag : name := [84; 111; 107]%N.

Definition in_range (lo hi z : Z) : bool := Z.leb lo z && Z.leb z hi.
Definition int32_ok (z : Z) : bool := in_range (- 2 ^ 31) (2 ^ 31 - 1) z.
Definition int64_ok (z : Z) : bool := in_range (- 2 ^ 63) (2 ^ 63 - 1) z.
Definition safe_ok (z : Z) : bool := in_range (- (2 ^ 53 - 1)) (2 ^ 53 - 1) z.

(** ** the loops of the Go code, named so that the proofs can speak about them *)
Section Loops.
  Context {A : Type}.
  Variable f : A -> res gval.
  (** [for i, v := range list { coerced, err := f(v); if err != nil { return nil, err }; result[i] = coerced }] *)
  Fixpoint res_map (l : list A) : res (list gval) :=
    match l with
    | [] => Ok []
    | x :: r =>
        match f x with
        | Ok c => match res_map r with Ok cs => Ok (c :: cs) | Err => Err | Panic => Panic end
        | Err => Err
        | Panic => Panic
        end
    end.
End Loops.

Definition res_list (r : res (list gval)) : res gval :=
  match r with Ok cs => Ok (GList cs) | Err => Err | Panic => Panic end.

(** a declared default as it is stored into the result: schema.Null becomes nil *)
Definition default_value (d : gval) : gval := match d with GNullSentinel => GNil | _ => d end.

Definition apply_hook (h : hook) (m : list (name * gval)) : res gval :=
  match h with
  | HNone => Ok (GMap m)
  | HWrap tag => Ok (GTagged tag (GMap m))
  | HFail => Err
  end.

(** InputObjectType.CoerceVariableValue, the loop over the declared fields; [subs] pairs every key
    of the provided map with the coercion of its value *)
Definition var_field_step (subs : list (name * (sty -> bool -> res gval)))
           (acc : res (list (name * gval))) (f : name * in_def) : res (list (name * gval)) :=
  match acc with
  | Ok result =>
      let (fname, fd) := f in
      match aget fname subs with
      | Some co =>
          match co (in_type fd) true with
          | Ok c => Ok (mset fname c result)
          | Err => Err
          | Panic => Panic
          end
      | None =>
          match in_default fd with
          | Some d => Ok (mset fname (default_value d) result)
          | None => if is_nonnull (in_type fd) then Err else Ok result
          end
      end
  | _ => acc
  end.

(** InputObjectType.CoerceLiteral, first loop: the literal's fields in order *)
Section LitLoop.
  Variable co : lit -> sty -> bool -> res gval.      (* coerce_literal vv *)
  Variable vv : list (name * gval).
  Variable fields : list (name * in_def).
  Fixpoint lit_fields_loop (l : list (name * lit)) (result : list (name * gval)) : res (list (name * gval)) :=
    match l with
    | [] => Ok result
    | (fname, fv) :: r =>
        match aget fname fields with
        | None => Err                                  (* unknown field *)
        | Some fd =>
            if match fv with LVar vn => negb (ahas vn vv) | _ => false end
            then lit_fields_loop r result              (* variable without a value: as if omitted *)
            else match co fv (in_type fd) true with
                 | Ok c => lit_fields_loop r (mset fname c result)
                 | Err => Err
                 | Panic => Panic
                 end
        end
    end.
End LitLoop.

(** InputObjectType.CoerceLiteral, second loop: the declared fields *)
Definition lit_default_step (acc : res (list (name * gval))) (f : name * in_def) : res (list (name * gval)) :=
  match acc with
  | Ok result =>
      let (fname, fd) := f in
      match aget fname result, in_default fd with
      | None, Some d => Ok (mset fname (default_value d) result)
      | o, _ =>
          if match o with None => true | Some v => is_nil v end && is_nonnull (in_type fd)
          then Err else Ok result
      end
  | _ => acc
  end.

Section Model.
  Variable fx : fixes.
  Variable E : env.
  (** time.Time.UnmarshalText on a string: [Some rendering] when it is a valid RFC 3339 time.
      Supplied with each case by the harness (computed with the Go standard library). *)
  Variable dt : bytes -> option bytes.

  (** *** scalars: LiteralCoercion *)
  Definition scalar_literal (k : scalar_kind) (from : lit) : option gval :=
    match k, from with
    | KInt, LInt z => if int32_ok z then Some (GInt z) else None                (* ParseInt(_, 10, 32) *)
    | KFloat, LInt z => option_map GFloat (f64_of_Q z 1)                          (* ParseFloat *)
    | KFloat, LFloat m e => option_map GFloat (f64_of_decimal m e)
    | KString, LString s => Some (GString s)
    | KBoolean, LBool b => Some (GBool b)
    | KID, LInt z => if int64_ok z then Some (GInt z) else None                 (* ParseInt(_, 10, 0) *)
    | KID, LString s => Some (GString s)
    | KDateTime, LString s => option_map GTime (dt s)
    | KLongInt, LInt z => if int64_ok z && safe_ok z then Some (GInt64 z) else None
    | KCustom, LString s => Some (GTagged tok_tag (GString s))
    | _, _ => None
    end.

  (** *** scalars: VariableValueCoercion *)
  Definition coerce_int (v : jval) : option gval :=
    match v with
    | JBool b => Some (GInt (if b then 1 else 0))
    | JInt z => if int32_ok z then Some (GInt z) else None
    | JNum d => match f64_to_Z d with                    (* Trunc(v) == v && in range *)
                | Some z => if int32_ok z then Some (GInt z) else None
                | None => None
                end
    | _ => None
    end.

  Definition coerce_float (v : jval) : option gval :=
    match v with
    | JBool b => Some (GFloat (F64 (if b then 1 else 0) 0))
    | JInt z => Some (GFloat (f64_of_Z z))
    | JNum d => Some (GFloat d)
    | _ => None
    end.

  Definition coerce_long_int (v : jval) : option gval :=
    match v with
    | JBool b => Some (GInt64 (if b then 1 else 0))
    | JInt z => if safe_ok z then Some (GInt64 z) else None
    | JNum d => match f64_to_Z d with
                | Some z => if safe_ok z then Some (GInt64 z) else None
                | None => None
                end
    | _ => None
    end.

  Definition is_jbool (v : jval) : bool := match v with JBool _ => true | _ => false end.

  Definition scalar_variable (k : scalar_kind) (v : jval) : option gval :=
    match k with
    | KInt => if fix_bool_num fx && is_jbool v then None else coerce_int v
    | KFloat => if fix_bool_num fx && is_jbool v then None else coerce_float v
    | KLongInt => if fix_bool_num fx && is_jbool v then None else coerce_long_int v
    | KString => match v with JStr s => Some (GString s) | _ => None end
    | KBoolean => match v with JBool b => Some (GBool b) | _ => None end
    | KID => match v with
             | JInt z => Some (GInt z)
             | JNum d => match f64_to_Z d with       (* n := int(Trunc(v)); float64(n) == v  (amd64) *)
                         | Some z => if int64_ok z then Some (GInt z) else None
                         | None => None
                         end
             | JStr s => Some (GString s)
             | _ => None
             end
    | KDateTime => match v with JStr s => option_map GTime (dt s) | _ => None end
    | KCustom => match v with JStr s => Some (GTagged tok_tag (GString s)) | _ => None end
    end.

  Definition of_option {A} (o : option A) : res A := match o with Some a => Ok a | None => Err end.

  (** *** enums *)
  Definition enum_literal (vals : list (name * gval)) (from : lit) : res gval :=
    match from with
    | LEnum n => of_option (aget n vals)
    | _ => Err
    end.
  Definition enum_variable (vals : list (name * gval)) (v : jval) : res gval :=
    match v with
    | JStr s => of_option (aget s vals)
    | _ => Err
    end.

  (** *** schema.coerceVariableValue (with ListType.coerceVariableValue and
      InputObjectType.CoerceVariableValue inlined).  Outer recursion on the value, inner on the
      type. *)
  Fixpoint coerce_var_value (value : jval) : sty -> bool -> res gval :=
    fix on_ty (t : sty) (allow : bool) {struct t} : res gval :=
      match value with
      | JNull => if is_nonnull t then Err else Ok GNil
      | _ =>
          match t with
          | StNonNull t' => on_ty t' (if fix_nn_flag fx then allow else true)
          | StList t' =>
              match value with
              | JList items =>
                  res_list (res_map (fun v => coerce_var_value v t' false) items)
              | _ =>
                  if allow then
                    match on_ty t' true with
                    | Ok c => Ok (GList [c])
                    | Err => Err
                    | Panic => Panic
                    end
                  else Err
              end
          | StNamed n =>
              match aget n E with
              | Some (TScalar k) => of_option (scalar_variable k value)
              | Some (TEnum vals) => enum_variable vals value
              | Some (TInput fields h) =>
                  match value with
                  | JObj kvs =>
                      (* the sub-values paired with their own coercion function: lets the loop
                         below follow Go's order (declared fields, looking each up in the map) *)
                      let subs := map (fun p => match p with (k, jv) => (k, coerce_var_value jv) end) kvs in
                      match fold_left (var_field_step subs) fields (Ok []) with
                      | Ok result =>
                          if forallb (fun p => ahas (fst p) fields) kvs then apply_hook h result
                          else Err                                              (* unknown field *)
                      | Err => Err
                      | Panic => Panic
                      end
                  | _ => Err                                                    (* invalid variable type *)
                  end
              | None => Panic                        (* "unexpected variable coercion type" *)
              end
          end
      end.

  (** coerced variable values: the executor's [e.VariableValues]; absent = no entry *)
  Definition cvars := list (name * gval).

  (** *** schema.coerceLiteral (with ListType.coerceLiteral and InputObjectType.CoerceLiteral
      inlined).  Outer recursion on the literal, inner on the type. *)
  Fixpoint coerce_literal (vv : cvars) (from : lit) : sty -> bool -> res gval :=
    fix on_ty (to : sty) (allow : bool) {struct to} : res gval :=
      match from with
      | LNull => if is_nonnull to then Err else Ok GNil
      | _ =>
          match (match from with LVar n => aget n vv | _ => None end) with
          | Some value =>
              (* a variable with a runtime value is returned as it is *)
              if fix_null_var fx && is_nil value && is_nonnull to then Err else Ok value
          | None =>
              match to with
              | StNonNull t' => on_ty t' (if fix_nn_flag fx then allow else true)
              | StList t' =>
                  match from with
                  | LList vs =>
                      res_list (res_map (fun v => coerce_literal vv v t' false) vs)
                  | _ =>
                      if allow then
                        match on_ty t' true with
                        | Ok c => Ok (GList [c])
                        | Err => Err
                        | Panic => Panic
                        end
                      else Err
                  end
              | StNamed n =>
                  match aget n E with
                  | Some (TScalar k) => of_option (scalar_literal k from)
                  | Some (TEnum vals) => enum_literal vals from
                  | Some (TInput fields h) =>
                      match from with
                      | LObject fs =>
                          (* first loop: the literal's fields, in order; second loop: the declared fields *)
                          let r1 := lit_fields_loop (coerce_literal vv) vv fields fs [] in
                          match r1 with
                          | Ok result =>
                              match fold_left lit_default_step fields (Ok result) with
                              | Ok result' => apply_hook h result'
                              | Err => Err
                              | Panic => Panic
                              end
                          | Err => Err
                          | Panic => Panic
                          end
                      | _ => Err
                      end
                  | None => Panic                    (* "unsupported literal coercion type" *)
                  end
              end
          end
      end.

  (** validator.schemaType: nil when a named type is unknown *)
  Fixpoint type_known (t : sty) : bool :=
    match t with
    | StNamed n => ahas n E
    | StList t' => type_known t'
    | StNonNull t' => type_known t'
    end.

  (** *** validator.CoerceVariableValues.  Default values are constant literals (the parser calls
      parseValue(constant=true) for them), so the raw variable map Go passes to CoerceLiteral is
      never consulted: the model passes the empty map. *)
  Definition var_step (raw : list (name * jval)) (acc : res cvars) (def : vardef) : res cvars :=
    match acc with
    | Ok coerced =>
        if negb (type_known (vd_type def)) then Err            (* Invalid variable type. *)
        else
          match aget (vd_name def) raw, vd_default def with
          | None, Some dflt =>
              match coerce_literal [] dflt (vd_type def) true with
              | Ok c => Ok (mset (vd_name def) c coerced)
              | Err => Err
              | Panic => Panic
              end
          | None, None => if is_nonnull (vd_type def) then Err else Ok coerced
          | Some value, _ =>
              match coerce_var_value value (vd_type def) true with
              | Ok c => Ok (mset (vd_name def) c coerced)
              | Err => Err
              | Panic => Panic
              end
          end
    | _ => acc
    end.

  Definition coerce_variable_values (defs : list vardef) (raw : list (name * jval)) : res cvars :=
    fold_left (var_step raw) defs (Ok []).

  (** *** validator.CoerceArgumentValues: the body of the loop over the argument definitions
      ([argument_values]: the map from argument name to the literal the document gives it) *)
  Definition arg_step (argument_values : list (name * lit)) (vv : cvars)
             (acc : res (list (name * gval))) (ad : name * in_def) : res (list (name * gval)) :=
    match acc with
    | Ok coerced =>
        let (aname, d) := ad in
        let av := aget aname argument_values in
        let has_value := match av with
                         | Some (LVar vn) => ahas vn vv
                         | Some _ => true
                         | None => false
                         end in
        match has_value, in_default d with
        | false, Some dv => Ok (mset aname (default_value dv) coerced)
        | _, _ =>
            if is_nonnull (in_type d) && negb has_value then Err     (* The argument is required. *)
            else if has_value then
              match av with
              | Some (LVar vn) =>
                  let value := match aget vn vv with Some v => v | None => GNil end in
                  if fix_null_var fx && is_nil value && is_nonnull (in_type d) then Err
                  else Ok (mset aname value coerced)
              | Some l =>
                  match coerce_literal vv l (in_type d) true with
                  | Ok c => Ok (mset aname c coerced)
                  | Err => Err
                  | Panic => Panic
                  end
              | None => Ok coerced
              end
            else Ok coerced
        end
    | _ => acc
    end.

  Definition coerce_argument_values (argdefs : list (name * in_def)) (args : list (name * lit)) (vv : cvars)
    : res (list (name * gval)) :=
    let argument_values := fold_left (fun m (a : name * lit) => mset (fst a) (snd a) m) args [] in
    fold_left (arg_step argument_values vv) argdefs (Ok []).

  (** *** static counterpart: validator.validateCoercion ([true] = no error).  The [None] branch
      (Go: panic "unsupported input coercion type") is unreachable when every named type is in
      the environment, which the check verifies per case. *)
  Fixpoint has_dup (l : list name) : bool :=
    match l with
    | [] => false
    | x :: r => existsb (bytes_eqb x) r || has_dup r
    end.

  Fixpoint validate_coercion (from : lit) : sty -> bool -> bool :=
    fix on_ty (to : sty) (allow : bool) {struct to} : bool :=
      match from with
      | LVar _ => true                      (* validated by the variable rules *)
      | LNull => negb (is_nonnull to)
      | _ =>
          match to with
          | StNonNull t' => on_ty t' allow
          | StList t' =>
              match from with
              | LList vs =>
                  forallb (fun v => validate_coercion v t' false) vs
              | _ => if allow then on_ty t' true else false
              end
          | StNamed n =>
              match aget n E with
              | Some (TScalar k) => match scalar_literal k from with Some _ => true | None => false end
              | Some (TEnum vals) => match enum_literal vals from with Ok _ => true | _ => false end
              | Some (TInput fields h) =>
                  match from with
                  | LObject fs =>
                      negb (has_dup (map fst fs))
                      && forallb (fun p : name * lit =>
                                    match aget (fst p) fields with
                                    | Some fd => validate_coercion (snd p) (in_type fd) true
                                    | None => false                     (* field does not exist *)
                                    end) fs
                      && forallb (fun f : name * in_def =>
                                    negb (is_nonnull (in_type (snd f)) && match in_default (snd f) with None => true | Some _ => false end)
                                    || ahas (fst f) fs) fields
                  | _ => false
                  end
              | None => false
              end
          end
      end.

  (** validator.areTypesCompatible(variableType, locationType) *)
  Fixpoint types_compatible (lt : sty) : sty -> bool :=
    fix on_v (vt : sty) {struct vt} : bool :=
      match lt with
      | StNonNull lt' => match vt with StNonNull vt' => types_compatible lt' vt' | _ => false end
      | _ =>
          match vt with
          | StNonNull vt' => on_v vt'
          | _ =>
              match lt with
              | StList lt' => match vt with StList vt' => types_compatible lt' vt' | _ => false end
              | StNamed ln => match vt with StNamed vn => bytes_eqb vn ln | _ => false end
              | StNonNull _ => false
              end
          end
      end.

  (** validator.validateVariableUsage; [loc_default]: typeInfo.DefaultValues[usage] != nil *)
  Definition var_usage_ok (def : vardef) (loc : sty) (loc_default : bool) : bool :=
    type_known (vd_type def)
    && match loc with
       | StNonNull loc' =>
           if is_nonnull (vd_type def) then types_compatible loc (vd_type def)
           else
             let has_nonnull_default := match vd_default def with Some LNull => false | Some _ => true | None => false end in
             (has_nonnull_default || loc_default) && types_compatible loc' (vd_type def)
       | _ => types_compatible loc (vd_type def)
       end.

  Definition find_def (n : name) (defs : list vardef) : option vardef :=
    find (fun d => bytes_eqb n (vd_name d)) defs.

  (** typeInfo.DefaultValues for an input-object field / directive argument: schema.Null is
      translated to nil there, so it does not count as a location default *)
  Definition field_loc_default (d : in_def) : bool :=
    match in_default d with None => false | Some GNullSentinel => false | Some _ => true end.

  (** NullableType, then through list wrappers: the innermost named type *)
  Fixpoint leaf_type (t : sty) : sty :=
    match t with StNonNull t' => leaf_type t' | StList t' => leaf_type t' | StNamed _ => t end.

  (** the walk of validateVariables over one value, with the expected type TypeInfo computed for
      it (None: TypeInfo has no entry, validateVariableUsage then reports "no type info") *)
  Fixpoint usage_ok (defs : list vardef) (l : lit) (expected : option sty) (loc_default : bool) : bool :=
    match l with
    | LVar n =>
        match find_def n defs, expected with
        | Some def, Some loc => var_usage_ok def loc loc_default
        | _, _ => false                                    (* undefined variable / no type info *)
        end
    | LList vs =>
        let item := match expected with
                    | Some t => match nullable_type t with StList t' => Some t' | _ => None end
                    | None => None
                    end in
        forallb (fun v => usage_ok defs v item false) vs
    | LObject fs =>
        let fields := match expected with
                      | Some t => match (if fix_item_object fx then leaf_type t else nullable_type t) with
                                  | StNamed n => match aget n E with Some (TInput fields _) => fields | _ => [] end
                                  | _ => []
                                  end
                      | None => []
                      end in
        forallb (fun p : name * lit =>
                   match aget (fst p) fields with
                   | Some fd => usage_ok defs (snd p) (Some (in_type fd)) (field_loc_default fd)
                   | None => usage_ok defs (snd p) None false
                   end) fs
    | _ => true
    end.

  Fixpoint lit_vars (l : lit) : list name :=
    match l with
    | LVar n => [n]
    | LList vs => flat_map lit_vars vs
    | LObject fs => flat_map (fun p : name * lit => lit_vars (snd p)) fs
    | _ => []
    end.

  (** typeInfo.DefaultValues for an argument: a field argument keeps schema.Null (non-nil
      interface), a directive argument translates it to nil *)
  Definition arg_loc_default (site_field : bool) (d : in_def) : bool :=
    match in_default d with None => false | Some GNullSentinel => site_field | Some _ => true end.

  (** validateArguments + validateValues + validateVariables for a document of the shape the
      harness sends: one operation with [defs], one field (or one directive on a field) with
      [args] against [argdefs] *)
  Definition static_ok (site_field : bool) (argdefs : list (name * in_def)) (defs : list vardef)
             (args : list (name * lit)) : bool :=
    (* validateArguments *)
    forallb (fun a : name * lit => ahas (fst a) argdefs) args
    && negb (has_dup (map fst args))
    && forallb (fun ad : name * in_def =>
                  negb (is_nonnull (in_type (snd ad)) && match in_default (snd ad) with None => true | Some _ => false end)
                  || ahas (fst ad) args) argdefs
    (* validateValues: arguments and variable defaults *)
    && forallb (fun a : name * lit =>
                  match aget (fst a) argdefs with
                  | Some d => validate_coercion (snd a) (in_type d) true
                  | None => false
                  end) args
    && forallb (fun def : vardef =>
                  match vd_default def with
                  | Some dflt => type_known (vd_type def) && validate_coercion dflt (vd_type def) true
                  | None => true
                  end) defs
    (* validateVariables *)
    && negb (has_dup (map vd_name defs))
    && forallb (fun def : vardef => type_known (vd_type def)) defs
    && forallb (fun a : name * lit =>
                  match aget (fst a) argdefs with
                  | Some d => usage_ok defs (snd a) (Some (in_type d)) (arg_loc_default site_field d)
                  | None => false
                  end) args
    && forallb (fun def : vardef =>
                  existsb (fun a : name * lit => existsb (bytes_eqb (vd_name def)) (lit_vars (snd a))) args) defs.

  (** *** the request as the client sees it *)
  Inductive outcome :=
  | OStaticReject                              (* ParseAndValidate returned errors *)
  | ORuntimeError                              (* Execute returned an error, nothing was called *)
  | OCalled (args : list (name * gval))        (* the resolver / filter ran with these arguments *)
  | OPanic.

  Definition run_request (site_field : bool) (argdefs : list (name * in_def)) (defs : list vardef)
             (args : list (name * lit)) (raw : list (name * jval)) : outcome :=
    if negb (static_ok site_field argdefs defs args) then OStaticReject
    else match coerce_variable_values defs raw with
         | Err => ORuntimeError
         | Panic => OPanic
         | Ok vv =>
             match coerce_argument_values argdefs args vv with
             | Ok m => OCalled m
             | Err => ORuntimeError
             | Panic => OPanic
             end
         end.

  (** validator.ValidateDocument with the additional rule ValidateCost: the argument maps
      FieldDefinition.Cost is called with (FieldCostContext.Arguments) *)
  Definition cost_observation (site_field : bool) (argdefs : list (name * in_def)) (defs : list vardef)
             (args : list (name * lit)) (raw : list (name * jval)) : list (list (name * gval)) :=
    if fix_rules_gate fx && negb (static_ok site_field argdefs defs args) then []
    else match coerce_variable_values defs raw with
         | Ok vv => match coerce_argument_values argdefs args vv with Ok m => [m] | _ => [] end
         | _ => []
         end.
End Model.
