(** * Val/CoerceSpec.v — C05: the reference semantics of input coercion, written from the
    GraphQL specification (June 2018): section 3 "Input Coercion" of each type (3.5.1-3.5.5
    scalars, 3.9 enums, 3.10 input objects, 3.11 lists, 3.12 non-null), section 6.1.2
    CoerceVariableValues and section 6.4.1 CoerceArgumentValues.  It is also the oracle that is
    run on every case of the correspondence check.

    One abstract client value [ival] serves both transports: a literal in the document and a
    JSON variable value are two spellings of it ([abs_lit], [abs_json]).  The only places where
    the transport matters are the ones the specification names: enums (a Name literal in a
    document; "for transports that have no symbolic value, a string" in variables) and numbers
    (JSON has one number type: a number with an integral value is an integer input value,
    [as_integer]).

    [RefCoerce T v] is [ref_coerce tr v T true].  [conforms g T] is "g is a value of type T".
    No proofs in this file. *)
From Coq Require Import List NArith ZArith Bool.
From ApiFu Require Import Base.Sexp Val.Values.
Import ListNotations.
Local Open Scope Z_scope.

Inductive transport := TLiteral | TJson.

Inductive ival :=
| INull
| IInt (z : Z)                       (* an integer input value *)
| IFloat (d : f64)                   (* a float input value (IEEE 754 binary64) *)
| IString (s : bytes)
| IBool (b : bool)
| IEnum (n : name)                   (* a Name that is not true/false/null: only in documents *)
| IList (l : list ival)
| IObject (kvs : list (name * ival))
| IVarVal (g : gval)                 (* a variable with a runtime value: already coerced (6.1.2) *)
| IVarAbsent                         (* a variable without a runtime value *)
| IInvalid.                          (* not an input value at all (a number outside IEEE 754, a foreign Go value) *)

(** ** helpers named so that proofs can speak about them *)
Section OptMap.
  Context {A B : Type}.
  Variable f : A -> option B.
  Fixpoint opt_map (l : list A) : option (list B) :=
    match l with
    | [] => Some []
    | x :: r => match f x, opt_map r with Some c, Some cs => Some (c :: cs) | _, _ => None end
    end.
End OptMap.

Definition ref_default (d : gval) : gval := match d with GNullSentinel => GNil | _ => d end.

Definition ref_hook (h : hook) (m : list (name * gval)) : option gval :=
  match h with
  | HNone => Some (GMap m)
  | HWrap tag => Some (GTagged tag (GMap m))
  | HFail => None
  end.

(** 3.10, per declared field: provided (and not an absent variable) -> coerced; otherwise the
    default if there is one; otherwise an error if non-null; otherwise no entry.  [subs] pairs each
    provided field with (is it an absent variable, its coercion). *)
Definition ref_field_step (subs : list (name * (bool * (sty -> bool -> option gval))))
           (acc : option (list (name * gval))) (f : name * in_def) : option (list (name * gval)) :=
  match acc with
  | None => None
  | Some m =>
      let (fname, fd) := f in
      match aget fname subs with
      | Some (false, co) =>
          match co (in_type fd) true with
          | Some c => Some (mset fname c m)
          | None => None
          end
      | _ =>
          match in_default fd with
          | Some d => Some (mset fname (ref_default d) m)
          | None => if is_nonnull (in_type fd) then None else Some m
          end
      end
  end.

(** a complete field map: declared keys only, each once (sorted), each value of its field's type,
    every field that has a default or is non-null present *)
Section MapOk.
  Variable cf : gval -> sty -> bool.
  Variable fields : list (name * in_def).
  Fixpoint entries_ok (l : list (name * gval)) : bool :=
    match l with
    | [] => true
    | (k, x) :: r =>
        match aget k fields with
        | Some fd => cf x (in_type fd)
        | None => false
        end && entries_ok r
    end.
  Definition field_present (kvs : list (name * gval)) (f : name * in_def) : bool :=
    ahas (fst f) kvs
    || (negb (is_nonnull (in_type (snd f))) && match in_default (snd f) with None => true | Some _ => false end).
  Definition map_ok (kvs : list (name * gval)) : bool :=
    keys_sorted kvs && entries_ok kvs && forallb (field_present kvs) fields.
End MapOk.

Section Spec.
  Variable E : env.
  Variable dt : bytes -> option bytes.     (* RFC 3339: [Some rendering] iff the string is a valid date-time *)

  (** the two spellings *)
  Fixpoint abs_lit (vv : list (name * gval)) (l : lit) : ival :=
    match l with
    | LVar n => match aget n vv with Some g => IVarVal g | None => IVarAbsent end
    | LInt z => IInt z
    | LFloat m k => match f64_of_decimal m k with Some d => IFloat d | None => IInvalid end
    | LString s => IString s
    | LBool b => IBool b
    | LNull => INull
    | LEnum n => IEnum n
    | LList vs => IList (map (abs_lit vv) vs)
    | LObject fs => IObject (map (fun p => match p with (k, v) => (k, abs_lit vv v) end) fs)
    end.

  Fixpoint abs_json (j : jval) : ival :=
    match j with
    | JNull => INull
    | JBool b => IBool b
    | JNum d => IFloat d
    | JInt z => IInt z
    | JStr s => IString s
    | JList l => IList (map abs_json l)
    | JObj kvs => IObject (map (fun p => match p with (k, v) => (k, abs_json v) end) kvs)
    | JOther => IInvalid
    end.

  Definition within (lo hi z : Z) : bool := Z.leb lo z && Z.leb z hi.
  Definition tok : name := [84; 111; 107]%N.

  (** an integer input value: an IntValue in a document; in JSON variables, where there is a
      single number type, any number whose value is integral (1 and 1.0 are the same value once
      decoded) *)
  Definition as_integer (tr : transport) (v : ival) : option Z :=
    match v with
    | IInt z => Some z
    | IFloat d => match tr with TJson => f64_to_Z d | TLiteral => None end
    | _ => None
    end.

  (** 3.5: scalars.  Int: integers in [-2^31, 2^31).  Float: integer and float input values
      (an integer becomes the nearest binary64; outside IEEE 754 range is an error).  String,
      Boolean: only themselves.  ID: any string or integer (here: an integer a Go int holds).
      DateTime (api-fu): an RFC 3339 string.  LongInt (api-fu): integers in the JavaScript-safe
      range.  The harness' custom scalar: any string. *)
  Definition ref_scalar (tr : transport) (k : scalar_kind) (v : ival) : option gval :=
    match k with
    | KInt => match as_integer tr v with
              | Some z => if within (- 2 ^ 31) (2 ^ 31 - 1) z then Some (GInt z) else None
              | None => None
              end
    | KFloat => match v with
                | IInt z => option_map GFloat (f64_of_Q z 1)
                | IFloat d => Some (GFloat d)
                | _ => None
                end
    | KString => match v with IString s => Some (GString s) | _ => None end
    | KBoolean => match v with IBool b => Some (GBool b) | _ => None end
    | KID => match v with
             | IString s => Some (GString s)
             | _ => match as_integer tr v with
                    | Some z => if within (- 2 ^ 63) (2 ^ 63 - 1) z then Some (GInt z) else None
                    | None => None
                    end
             end
    | KDateTime => match v with IString s => option_map GTime (dt s) | _ => None end
    | KLongInt => match as_integer tr v with
                  | Some z => if within (- (2 ^ 53 - 1)) (2 ^ 53 - 1) z then Some (GInt64 z) else None
                  | None => None
                  end
    | KCustom => match v with IString s => Some (GTagged tok (GString s)) | _ => None end
    end.

  Definition is_absent (v : ival) : bool := match v with IVarAbsent => true | _ => false end.

  Fixpoint dup_names (l : list name) : bool :=
    match l with
    | [] => false
    | x :: r => existsb (bytes_eqb x) r || dup_names r
    end.

  (** [ref_coerce tr v T wrap]: the input coercion of [v] at type [T].  [wrap] says whether the
      "a value that is not a list is coerced to a list of one" rule of 3.11 is available: it is
      for the value the client provided as a whole (recursively for nested list types: 1 is
      [[1]] at [[Int]]), not for the items of a list the client wrote ([1,2,3] at [[Int]] is an
      error) — the table of 3.11. *)
  Fixpoint ref_coerce (tr : transport) (v : ival) : sty -> bool -> option gval :=
    fix on_ty (t : sty) (wrap : bool) {struct t} : option gval :=
      match v with
      | INull => if is_nonnull t then None else Some GNil
      | IVarVal g =>                      (* 6.4.1: the variable's runtime value is used as it is *)
          if is_nil g then (if is_nonnull t then None else Some GNil) else Some g
      | IVarAbsent => None
      | IInvalid => None
      | _ =>
          match t with
          | StNonNull t' => on_ty t' wrap
          | StList t' =>
              match v with
              | IList items =>
                  option_map GList (opt_map (fun x => ref_coerce tr x t' false) items)
              | _ => if wrap then option_map (fun c => GList [c]) (on_ty t' true) else None
              end
          | StNamed n =>
              match aget n E with
              | Some (TScalar k) => ref_scalar tr k v
              | Some (TEnum vals) =>
                  match tr, v with
                  | TLiteral, IEnum x => aget x vals
                  | TJson, IString x => aget x vals
                  | _, _ => None
                  end
              | Some (TInput fields h) =>
                  match v with
                  | IObject kvs =>
                      (* 3.10: no unknown fields, every field at most once; per declared field:
                         provided (and not an absent variable) -> coerced; otherwise the default if
                         there is one; otherwise an error if non-null; otherwise no entry *)
                      let subs := map (fun p => match p with (k, x) => (k, (is_absent x, ref_coerce tr x)) end) kvs in
                      if dup_names (map fst kvs) || negb (forallb (fun p => ahas (fst p) fields) kvs) then None
                      else
                        match fold_left (ref_field_step subs) fields (Some [])
                        with Some m => ref_hook h m | None => None end
                  | _ => None
                  end
              | None => None
              end
          end
      end.

  Fixpoint ref_type_known (t : sty) : bool :=
    match t with StNamed n => ahas n E | StList t' => ref_type_known t' | StNonNull t' => ref_type_known t' end.

  (** 6.1.2 CoerceVariableValues, per variable definition *)
  Definition ref_var_step (raw : list (name * jval)) (acc : option (list (name * gval))) (def : vardef)
    : option (list (name * gval)) :=
    match acc with
    | None => None
    | Some m =>
        if negb (ref_type_known (vd_type def)) then None
        else match aget (vd_name def) raw, vd_default def with
             | None, Some dflt =>
                 match ref_coerce TLiteral (abs_lit [] dflt) (vd_type def) true with
                 | Some c => Some (mset (vd_name def) c m)
                 | None => None
                 end
             | None, None => if is_nonnull (vd_type def) then None else Some m
             | Some j, _ =>
                 match ref_coerce TJson (abs_json j) (vd_type def) true with
                 | Some c => Some (mset (vd_name def) c m)
                 | None => None
                 end
             end
    end.

  Definition ref_variable_values (defs : list vardef) (raw : list (name * jval)) : option (list (name * gval)) :=
    fold_left (ref_var_step raw) defs (Some []).

  Definition is_null_ival (v : ival) : bool :=
    match v with INull => true | IVarVal g => is_nil g | _ => false end.

  (** 6.4.1 CoerceArgumentValues, per argument definition *)
  Definition ref_arg_step (args : list (name * ival)) (acc : option (list (name * gval))) (ad : name * in_def)
    : option (list (name * gval)) :=
    match acc with
    | None => None
    | Some m =>
        let (aname, d) := ad in
        let value := aget aname args in
        let has_value := match value with Some v => negb (is_absent v) | None => false end in
        match has_value, in_default d with
        | false, Some dv => Some (mset aname (ref_default dv) m)
        | _, _ =>
            if is_nonnull (in_type d)
               && (negb has_value || match value with Some v => is_null_ival v | None => false end)
            then None
            else match value with
                 | Some v =>
                     if has_value then
                       match ref_coerce TLiteral v (in_type d) true with
                       | Some c => Some (mset aname c m)
                       | None => None
                       end
                     else Some m
                 | None => Some m
                 end
        end
    end.

  Definition ref_argument_values (argdefs : list (name * in_def)) (args : list (name * ival))
    : option (list (name * gval)) :=
    if dup_names (map fst args) then None
    else fold_left (ref_arg_step args) argdefs (Some []).

  (** the whole request: [None] = the client receives an error and nothing is called *)
  Definition ref_request (argdefs : list (name * in_def)) (defs : list vardef)
             (args : list (name * lit)) (raw : list (name * jval)) : option (list (name * gval)) :=
    match ref_variable_values defs raw with
    | None => None
    | Some vv => ref_argument_values argdefs (map (fun p => match p with (k, l) => (k, abs_lit vv l) end) args)
    end.

  (** ** conformance: [g] is a value of type [t] *)
  Definition scalar_conforms (k : scalar_kind) (g : gval) : bool :=
    match k, g with
    | KInt, GInt z => within (- 2 ^ 31) (2 ^ 31 - 1) z
    | KFloat, GFloat _ => true
    | KString, GString _ => true
    | KBoolean, GBool _ => true
    | KID, GInt z => within (- 2 ^ 63) (2 ^ 63 - 1) z
    | KID, GString _ => true
    | KDateTime, GTime _ => true
    | KLongInt, GInt64 z => within (- (2 ^ 53 - 1)) (2 ^ 53 - 1) z
    | KCustom, GTagged t (GString _) => bytes_eqb t tok
    | _, _ => false
    end.

  Fixpoint conforms (g : gval) : sty -> bool :=
    fix on_ty (t : sty) {struct t} : bool :=
      match g with
      | GNil => negb (is_nonnull t)                   (* never null at a non-null type *)
      | _ =>
          match t with
          | StNonNull t' => on_ty t'
          | StList t' =>                              (* always a list at a list type *)
              match g with
              | GList items => forallb (fun x => conforms x t') items
              | _ => false
              end
          | StNamed n =>
              match aget n E with
              | Some (TScalar k) => scalar_conforms k g
              | Some (TEnum vals) => existsb (fun p => gval_eqb (snd p) g) vals    (* a declared value *)
              | Some (TInput fields h) =>
                  match h, g with
                  | HNone, GMap kvs => map_ok conforms fields kvs
                  | HWrap tag, GTagged tag' (GMap kvs) => bytes_eqb tag tag' && map_ok conforms fields kvs
                  | _, _ => false
                  end
              | None => false
              end
          end
      end.

  (** what a resolver may be handed for a whole argument list *)
  Definition args_conform_b (argdefs : list (name * in_def)) (m : list (name * gval)) : bool :=
    forallb (fun p : name * gval => ahas (fst p) argdefs) m
    && forallb (fun ad : name * in_def =>
                  match aget (fst ad) m with
                  | Some g => conforms g (in_type (snd ad))
                  | None => negb (is_nonnull (in_type (snd ad)))
                            && match in_default (snd ad) with None => true | Some _ => false end
                  end) argdefs.

  (** ** what a schema must satisfy (the library does not check it; the harness' schemas do, and
      the check verifies it per case): declared defaults are values of their type (schema.Null
      standing for null), enum payloads are real values. *)
  Definition default_ok (d : in_def) : bool :=
    match in_default d with
    | None => true
    | Some dv => conforms (ref_default dv) (in_type d)
    end.

  Definition plain_value (g : gval) : bool :=
    match g with GNil | GNullSentinel => false | _ => true end.

  Definition tdef_ok (td : tdef) : bool :=
    match td with
    | TScalar _ => true
    | TEnum vals => forallb (fun p => plain_value (snd p)) vals
    | TInput fields _ => negb (dup_names (map fst fields)) && forallb (fun f => default_ok (snd f)) fields
    end.

  Definition env_ok : bool := forallb (fun p => tdef_ok (snd p)) E.
End Spec.

(** every named type a type expression / the environment mentions is defined (true of any schema
    the library builds: types are Go pointers) *)
Fixpoint sty_closed (E : env) (t : sty) : bool :=
  match t with StNamed n => ahas n E | StList t' => sty_closed E t' | StNonNull t' => sty_closed E t' end.

Definition env_closed (E : env) : bool :=
  forallb (fun p => match snd p with
                    | TInput fields _ => forallb (fun f => sty_closed E (in_type (snd f))) fields
                    | _ => true
                    end) E.


(** 5.6.3 Input Object Field Uniqueness, for every object inside a literal *)
Fixpoint lit_nodup (l : lit) : bool :=
  match l with
  | LList vs => forallb lit_nodup vs
  | LObject fs => negb (dup_names (map fst fs)) && forallb (fun p => lit_nodup (snd p)) fs
  | _ => true
  end.

(** what a Go value in Request.VariableValues satisfies by construction: an [int] is a 64-bit
    integer, a map has each key once *)
Fixpoint jval_ok (j : jval) : bool :=
  match j with
  | JInt z => Z.leb (- 2 ^ 63) z && Z.leb z (2 ^ 63 - 1)
  | JList l => forallb jval_ok l
  | JObj kvs => negb (dup_names (map fst kvs)) && forallb (fun p => jval_ok (snd p)) kvs
  | _ => true
  end.
