(** * Val/FloatRange.v — C05 x C04: when the rounding [f64_of_Q] overflows.
    [f64_of_Q n d = None] exactly when |n| / d >= 2^1024 - 2^970 (the midpoint between the largest
    binary64 and 2^1024, which rounds to even = up). *)
From Coq Require Import List ZArith Bool Lia.
From ApiFu Require Import Base.Sexp Val.Values.
Local Open Scope Z_scope.

Definition float_limit : Z := 2 ^ 1024 - 2 ^ 970.

(** the quotient at exponent e, uniformly: floor (a * 2^1074 / (d * 2^(e+1074))) *)
Lemma quot_uniform a d e : 0 < a -> -1074 <= e ->
  fst (fst (f64_quot a d e)) = (a * 2 ^ 1074) / (Zpos d * 2 ^ (e + 1074)).
Proof.
  intros Ha He. unfold f64_quot. destruct (Z.leb_spec 0 e) as [P|N].
  - assert (H : fst (fst (let (q, r) := Z.div_eucl a (Zpos d * 2 ^ e) in (q, r, Zpos d * 2 ^ e))) = a / (Zpos d * 2 ^ e))
      by (unfold Z.div; destruct (Z.div_eucl a (Zpos d * 2 ^ e)); reflexivity).
    rewrite H. symmetry. rewrite Z.pow_add_r by lia. rewrite Z.mul_assoc. apply Z.div_mul_cancel_r.
    + assert (0 < 2 ^ e) by (apply Z.pow_pos_nonneg; lia). lia.
    + assert (0 < 2 ^ 1074) by (apply Z.pow_pos_nonneg; lia). lia.
  - assert (H : fst (fst (let (q, r) := Z.div_eucl (a * 2 ^ (- e)) (Zpos d) in (q, r, Zpos d))) = (a * 2 ^ (- e)) / Zpos d)
      by (unfold Z.div; destruct (Z.div_eucl (a * 2 ^ (- e)) (Zpos d)); reflexivity).
    rewrite H. symmetry. replace 1074 with (- e + (e + 1074)) at 1 by lia. rewrite Z.pow_add_r by lia.
    rewrite Z.mul_assoc. apply Z.div_mul_cancel_r; [lia|].
    assert (0 < 2 ^ (e + 1074)) by (apply Z.pow_pos_nonneg; lia). lia.
Qed.

Lemma div_lt_iff x y k : 0 < y -> (x / y < k <-> x < k * y).
Proof. intro Hy. split; intro H. - apply Z.div_lt_upper_bound in H || idtac; try lia. destruct (Z_lt_le_dec x (k * y)); auto. exfalso. assert (k <= x / y) by (apply Z.div_le_lower_bound; lia). lia. - apply Z.div_lt_upper_bound; lia. Qed.

Lemma div_ge_iff x y k : 0 < y -> (k <= x / y <-> k * y <= x).
Proof. intro Hy. split; intro H. - destruct (Z_lt_le_dec x (k * y)); auto. exfalso. assert (x / y < k) by (apply Z.div_lt_upper_bound; lia). lia. - apply Z.div_le_lower_bound; lia. Qed.

(** the exponent chosen and the size of the quotient there *)
Lemma exp_bounds a d : 0 < a ->
  let e := f64_exp a d in
  let q := fst (fst (f64_quot a d e)) in
  -1074 <= e /\ q < 2 ^ 53 /\ (-1074 < e -> 2 ^ 52 <= q).
Proof.
  intros Ha. cbv zeta.
  set (la := Z.log2 a). set (ld := Z.log2 (Zpos d)).
  assert (Sa : 2 ^ la <= a < 2 ^ (la + 1)) by (subst la; replace (Z.log2 a + 1) with (Z.succ (Z.log2 a)) by lia; apply Z.log2_spec; lia).
  assert (Sd : 2 ^ ld <= Zpos d < 2 ^ (ld + 1)) by (subst ld; replace (Z.log2 (Zpos d) + 1) with (Z.succ (Z.log2 (Zpos d))) by lia; apply Z.log2_spec; lia).
  assert (La : 0 <= la) by apply Z.log2_nonneg. assert (Ld : 0 <= ld) by apply Z.log2_nonneg.
  unfold f64_exp. fold la ld. set (e0 := Z.max (la - ld - 53) (-1074)).
  assert (He0 : -1074 <= e0) by (subst e0; lia).
  assert (He0' : la - ld - 53 <= e0) by (subst e0; lia).
  assert (Py : forall e, -1074 <= e -> 0 < Zpos d * 2 ^ (e + 1074)).
  { intros e He. assert (0 < 2 ^ (e + 1074)) by (apply Z.pow_pos_nonneg; lia). lia. }
  (* a * 2^1074 < 2^54 * d * 2^(e0+1074) *)
  assert (Up : a * 2 ^ 1074 < 2 ^ 54 * (Zpos d * 2 ^ (e0 + 1074))).
  { assert (2 ^ (la + 1) * 2 ^ 1074 <= 2 ^ 54 * (2 ^ ld * 2 ^ (e0 + 1074))).
    { rewrite <- !Z.pow_add_r by lia. apply Z.pow_le_mono_r; lia. }
    assert (0 < 2 ^ 1074) by (apply Z.pow_pos_nonneg; lia).
    assert (0 < 2 ^ (e0 + 1074)) by (apply Z.pow_pos_nonneg; lia).
    assert (2 ^ ld * 2 ^ (e0 + 1074) <= Zpos d * 2 ^ (e0 + 1074)) by nia.
    assert (a * 2 ^ 1074 < 2 ^ (la + 1) * 2 ^ 1074) by nia.
    assert (0 < 2 ^ 54) by (apply Z.pow_pos_nonneg; lia). nia. }
  rewrite (quot_uniform a d e0 Ha He0).
  destruct (Z.leb_spec (2 ^ 53) (a * 2 ^ 1074 / (Zpos d * 2 ^ (e0 + 1074)))) as [Big|Small].
  - (* one more *)
    assert (E1 : -1074 <= e0 + 1) by lia.
    rewrite (quot_uniform a d (e0 + 1) Ha E1).
    replace (e0 + 1 + 1074) with (Z.succ (e0 + 1074)) by lia. rewrite Z.pow_succ_r by lia.
    apply div_ge_iff in Big; [|apply Py; lia].
    assert (0 < 2 ^ (e0 + 1074)) by (apply Z.pow_pos_nonneg; lia).
    split; [lia|split].
    + apply div_lt_iff; [lia|]. replace (2 ^ 54) with (2 * 2 ^ 53) in Up by reflexivity. lia.
    + intros _. apply div_ge_iff; [lia|]. replace (2 ^ 53) with (2 * 2 ^ 52) in Big by reflexivity. lia.
  - rewrite (quot_uniform a d e0 Ha He0). split; [lia|split; [exact Small|]].
    intros Hgt. assert (Ee : e0 = la - ld - 53) by (subst e0; lia).
    apply div_ge_iff; [apply Py; lia|].
    (* 2^52 * d * 2^(e0+1074) <= a * 2^1074, from d < 2^(ld+1), 2^la <= a *)
    assert (0 < 2 ^ 1074) by (apply Z.pow_pos_nonneg; lia).
    assert (0 < 2 ^ (e0 + 1074)) by (apply Z.pow_pos_nonneg; lia).
    assert (2 ^ 52 * (2 ^ (ld + 1) * 2 ^ (e0 + 1074)) = 2 ^ la * 2 ^ 1074).
    { rewrite <- !Z.pow_add_r by lia. f_equal. lia. }
    assert (Zpos d * 2 ^ (e0 + 1074) <= 2 ^ (ld + 1) * 2 ^ (e0 + 1074)) by nia.
    assert (0 < 2 ^ 52) by (apply Z.pow_pos_nonneg; lia). nia.
Qed.

Lemma f64_round_le' q r den : f64_round q r den <= q + 1.
Proof. unfold f64_round. destruct (2 * r ?= den); try destruct (Z.odd q); lia. Qed.

Lemma quot_spec a d e : 0 < a ->
  let '(q, r, den) := f64_quot a d e in
  0 <= r < den /\
  (if Z.leb 0 e then den = Zpos d * 2 ^ e /\ a = q * den + r
   else den = Zpos d /\ a * 2 ^ (- e) = q * den + r).
Proof.
  intros Ha. unfold f64_quot. destruct (Z.leb_spec 0 e) as [P|N].
  - assert (Pd : 0 < Zpos d * 2 ^ e) by (assert (0 < 2 ^ e) by (apply Z.pow_pos_nonneg; lia); lia).
    pose proof (Z.div_eucl_eq a (Zpos d * 2 ^ e) ltac:(lia)) as Eq.
    pose proof (Z.mod_pos_bound a (Zpos d * 2 ^ e) Pd) as Bd. unfold Z.modulo in Bd.
    destruct (Z.div_eucl a (Zpos d * 2 ^ e)) as [q r]. split; [exact Bd|split; [reflexivity|lia]].
  - pose proof (Z.div_eucl_eq (a * 2 ^ (- e)) (Zpos d) ltac:(lia)) as Eq.
    pose proof (Z.mod_pos_bound (a * 2 ^ (- e)) (Zpos d) ltac:(lia)) as Bd. unfold Z.modulo in Bd.
    destruct (Z.div_eucl (a * 2 ^ (- e)) (Zpos d)) as [q r]. split; [exact Bd|split; [reflexivity|lia]].
Qed.

Lemma round_cases q r den : 0 <= r < den ->
  (f64_round q r den = q /\ (2 * r < den \/ (2 * r = den /\ Z.odd q = false))) \/
  (f64_round q r den = q + 1 /\ (den < 2 * r \/ (2 * r = den /\ Z.odd q = true))).
Proof.
  intros Hr. unfold f64_round. destruct (Z.compare_spec (2 * r) den) as [E|L|G].
  - destruct (Z.odd q) eqn:O; [right|left]; split; auto.
  - left. split; auto.
  - right. split; auto.
Qed.

Theorem f64_of_Q_none_iff (p : positive) d : f64_of_Q (Zpos p) d = None <-> float_limit * Zpos d <= Zpos p.
Proof.
  set (a := Zpos p). assert (Ha : 0 < a) by (subst a; lia).
  pose proof (exp_bounds a d Ha) as EB. pose proof (quot_spec a d (f64_exp a d) Ha) as QS. cbv zeta in EB.
  unfold f64_of_Q. fold a. cbn [Z.abs]. change (Z.abs a) with a.
  set (e := f64_exp a d) in *. destruct (f64_quot a d e) as [[q r] den]. cbn [fst] in EB.
  destruct EB as (E1 & Q1 & Q2). destruct QS as (Rb & QS).
  assert (Sg : (a <? 0) = false) by (apply Z.ltb_ge; lia). 
  set (q' := f64_round q r den).
  assert (L53 : float_limit = (2 ^ 54 - 1) * 2 ^ 970) by (unfold float_limit; vm_compute; reflexivity).
  assert (Dp : 0 < Zpos d) by lia.
  destruct (Z_lt_le_dec e 971) as [Lo|Hi].
  - (* e <= 970: never overflows, and a is below the limit *)
    assert (Hq' : q' <= 2 ^ 53) by (pose proof (f64_round_le' q r den); subst q'; lia).
    assert (Pm : 0 < 2 ^ Z.max e 0 <= 2 ^ 970) by (split; [apply Z.pow_pos_nonneg; lia|apply Z.pow_le_mono_r; lia]).
    assert (NoOv : (2 ^ 1024 <=? q' * 2 ^ Z.max e 0) = false).
    { apply Z.leb_gt. assert (2 ^ 53 * 2 ^ 970 < 2 ^ 1024) by (vm_compute; reflexivity).
      assert (q' * 2 ^ Z.max e 0 <= 2 ^ 53 * 2 ^ 970); [|lia].
      destruct (Z_le_dec q' 0); [assert (q' * 2 ^ Z.max e 0 <= 0) by nia; assert (0 < 2 ^ 53 * 2 ^ 970) by (vm_compute; reflexivity); lia|].
      apply Z.mul_le_mono_nonneg; lia. }
    rewrite NoOv. split; [discriminate|]. intro Lim. exfalso.
    destruct (Z.leb_spec 0 e) as [P|N]; destruct QS as [Dn Eq].
    + assert (2 ^ e <= 2 ^ 970) by (apply Z.pow_le_mono_r; lia). assert (0 < 2 ^ e) by (apply Z.pow_pos_nonneg; lia).
      assert (a < 2 ^ 53 * den) by nia.
      assert (den <= Zpos d * 2 ^ 970) by (rewrite Dn; nia).
      assert (2 ^ 53 * (Zpos d * 2 ^ 970) < (2 ^ 54 - 1) * 2 ^ 970 * Zpos d).
      { assert (2 ^ 53 < 2 ^ 54 - 1) by (vm_compute; reflexivity). assert (0 < 2 ^ 970) by (apply Z.pow_pos_nonneg; lia). nia. }
      rewrite L53 in Lim. assert (0 < 2 ^ 53) by (apply Z.pow_pos_nonneg; lia). nia.
    + assert (1 <= 2 ^ (- e)) by (assert (0 < 2 ^ (- e)) by (apply Z.pow_pos_nonneg; lia); lia).
      assert (a * 2 ^ (- e) < 2 ^ 53 * Zpos d) by (rewrite Eq, Dn in *; nia).
      assert (2 ^ 53 * Zpos d <= float_limit * Zpos d).
      { assert (2 ^ 53 <= float_limit) by (unfold float_limit; vm_compute; discriminate). nia. }
      nia.
  - assert (P : 0 <= e) by lia. assert (Le : (0 <=? e) = true) by (apply Z.leb_le; lia). rewrite Le in QS.
    destruct QS as [Dn Eq]. rewrite Z.max_l by lia.
    assert (Q52 : 2 ^ 52 <= q) by (apply Q2; lia).
    destruct (Z.eq_dec e 971) as [Ee|Ne].
    + (* e = 971: the boundary case *)
      rewrite Ee in *. 
      assert (Hden : den = 2 * (2 ^ 970 * Zpos d)).
      { rewrite Dn. replace (2 ^ 971) with (2 * 2 ^ 970) by (vm_compute; reflexivity). lia. }
      assert (Lim : float_limit * Zpos d <= a <-> (2 ^ 54 - 1) * den <= 2 * a).
      { rewrite L53, Hden. split; intro; nia. }
      rewrite Lim. clear Lim.
      assert (P971 : 0 < 2 ^ 971) by (apply Z.pow_pos_nonneg; lia).
      assert (Pden : 0 < den) by lia.
      assert (E1024 : 2 ^ 1024 = 2 ^ 53 * 2 ^ 971) by (vm_compute; reflexivity).
      destruct (round_cases q r den Rb) as [[Rq C]|[Rq C]]; subst q'; rewrite Rq.
      * (* rounds down *)
        assert (NoOv : (2 ^ 1024 <=? q * 2 ^ 971) = false) by (apply Z.leb_gt; rewrite E1024; nia).
        rewrite NoOv. split; [discriminate|]. intro H. exfalso.
        destruct C as [C|[C O]].
        -- nia.
        -- assert (q = 2 ^ 53 - 1) by nia. subst q. vm_compute in O. discriminate.
      * destruct (Z.eq_dec q (2 ^ 53 - 1)) as [Eq53|Nq].
        -- assert (Ov : (2 ^ 1024 <=? (q + 1) * 2 ^ 971) = true) by (apply Z.leb_le; rewrite E1024, Eq53; lia).
           rewrite Ov. split; [intros _|reflexivity]. rewrite Eq, Eq53. destruct C as [C|[C _]]; nia.
        -- assert (NoOv : (2 ^ 1024 <=? (q + 1) * 2 ^ 971) = false) by (apply Z.leb_gt; rewrite E1024; nia).
           rewrite NoOv. split; [discriminate|]. intro H. exfalso. nia.
    + (* e >= 972: always overflows *)
      assert (He : 972 <= e) by lia.
      assert (P972 : 2 ^ 972 <= 2 ^ e) by (apply Z.pow_le_mono_r; lia).
      assert (E1024 : 2 ^ 1024 = 2 ^ 52 * 2 ^ 972) by (vm_compute; reflexivity).
      assert (Hq' : q <= q') by (subst q'; destruct (round_cases q r den Rb) as [[-> _]|[-> _]]; lia).
      assert (Ov : (2 ^ 1024 <=? q' * 2 ^ e) = true).
      { apply Z.leb_le. rewrite E1024. assert (0 < 2 ^ 972) by (apply Z.pow_pos_nonneg; lia).
        assert (0 < 2 ^ 52) by (apply Z.pow_pos_nonneg; lia). nia. }
      rewrite Ov. split; [intros _|reflexivity].
      assert (2 ^ 1024 * Zpos d <= a).
      { rewrite Eq, Dn, E1024. assert (0 < 2 ^ 972) by (apply Z.pow_pos_nonneg; lia).
        assert (0 < 2 ^ 52) by (apply Z.pow_pos_nonneg; lia). nia. }
      assert (float_limit <= 2 ^ 1024) by (unfold float_limit; vm_compute; discriminate). nia.
Qed.
