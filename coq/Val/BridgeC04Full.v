(** * Val/BridgeC04Full.v — C05 x C04, the document level in full: C04's ValidateDocument model
    accepts the translated request  ==>  C05's [static_ok].
    Uses C04's interface lemmas (Vld/ProofsTypeInfoValues.v: what NewTypeInfo records for argument
    values; [usage_errs]), [rule_values_eq], [arguments_enter_eq], [rule_variables_fine],
    [validate_model_nil] / [all_rules_nil] and [validate_memo_iff_parsed]. *)
From Coq Require Import List NArith ZArith Bool Lia Permutation.
From ApiFu Require Import Base.Sexp Val.Values Val.MapFacts Val.CoerceModel Val.CoerceSpec Val.CoerceProofs Val.CoerceComplete
     Val.CoerceTotal Val.BridgeC04 Val.BridgeC04Proofs Val.BridgeC04Doc.
From ApiFu Require Vld.Ast Vld.Inspect Vld.InspectProofs Vld.TypeInfoModel Vld.TypeInfoPure Vld.ValidatorModel
     Vld.ProofsCommon Vld.ProofsVarsOrder Vld.ProofsOrder Vld.ProofsValues Vld.ProofsArguments
     Vld.ProofsTypeInfoValues Vld.ValidatorProofs Vld.MemoEquiv Vld.ProofsCycles.
Import ListNotations.

Lemma assoc_app {A} n (l1 l2 : list (Ast.name * A)) :
  Ast.assoc n (l1 ++ l2) = match Ast.assoc n l1 with Some x => Some x | None => Ast.assoc n l2 end.
Proof. induction l1 as [|[k v] r IH]; simpl; [reflexivity|]. destruct (Ast.name_eqb n k); auto. Qed.

Lemma assoc_tr_env ts E n :
  Ast.assoc n (Ast.s_types (tr_env_g ts E)) = option_map (fun td => {| Ast.t_req := []; Ast.t_body := tr_tdef_g ts td |}) (aget n E).
Proof.
  unfold tr_env_g. cbn [Ast.s_types]. induction E as [|[k td] r IH]; simpl; [reflexivity|].
  unfold Ast.name_eqb. destruct (bytes_eqb n k); [reflexivity|exact IH].
Qed.

Fixpoint leaf_name (t : sty) : name :=
  match t with StNamed n => n | StList t' => leaf_name t' | StNonNull t' => leaf_name t' end.
Lemma unwrapped_tr t : Ast.unwrapped (tr_sty t) = leaf_name t.
Proof. induction t; simpl; auto. Qed.
Lemma leaf_type_name t : leaf_type t = StNamed (leaf_name t).
Proof. induction t; simpl; auto. Qed.
Lemma nullable_tr t : Ast.nullable (tr_sty t) = tr_sty (nullable_type t).
Proof. induction t; simpl; auto. Qed.
Lemma type_known_leaf E t : type_known E t = ahas (leaf_name t) E.
Proof. induction t; simpl; auto. Qed.

Lemma in_concat_nonnil {A} (l : list (list A)) x xs : In (x :: xs) l -> concat l = [] -> False.
Proof. induction l as [|y r IH]; simpl; [tauto|]. intros [->|H] C; [discriminate|]. apply app_eq_nil in C as [_ C]. auto. Qed.

Lemma validate_list_inv E dt vs : forall t a, validate_coercion E dt (LList vs) t a = true ->
  exists t', nullable_type t = StList t' /\ forallb (fun v => validate_coercion E dt v t' false) vs = true.
Proof.
  induction t as [n|t' IHt|t' IHt]; intros a V; rewrite vc_eq in V.
  - destruct (aget n E) as [[k|vals|fields h]|]; try discriminate. destruct k; discriminate.
  - exists t'. split; [reflexivity|exact V].
  - apply (IHt a V).
Qed.

Lemma validate_object_inv E dt fs : forall t a, validate_coercion E dt (LObject fs) t a = true ->
  exists fields h, aget (leaf_name t) E = Some (TInput fields h) /\
    forall k x, In (k, x) fs -> exists fd, aget k fields = Some fd /\ validate_coercion E dt x (in_type fd) true = true.
Proof.
  induction t as [n|t' IHt|t' IHt]; intros a V; rewrite vc_eq in V.
  - cbn [leaf_name]. destruct (aget n E) as [[k|vals|fields h]|]; try discriminate. { destruct k; discriminate. }
    exists fields, h. split; [reflexivity|]. apply andb_true_iff in V as [V _]. apply andb_true_iff in V as [_ V].
    rewrite forallb_forall in V. intros k x Hin. specialize (V _ Hin). simpl in V.
    destruct (aget k fields) as [fd|]; [|discriminate]. eauto.
  - destruct a; [|discriminate]. apply (IHt true V).
  - apply (IHt a V).
Qed.

Lemma variable_usage_tr' E (def : vardef) (d' : Ast.vardef) loc ld dollar :
  Ast.vd_ann d' = Some (tr_sty (vd_type def)) ->
  match Ast.vd_default d' with Some x => negb (Ast.is_null x) | None => false end
  = match vd_default def with Some LNull => false | Some _ => true | None => false end ->
  type_known E (vd_type def) = true ->
  nil_b (ValidatorModel.variable_usage d' {| Ast.va_expected := Some (tr_sty loc); Ast.va_default := ld; Ast.va_scalar := false |} dollar)
  = var_usage_ok E def loc ld.
Proof.
  intros Ha Hd Tk. unfold ValidatorModel.variable_usage, var_usage_ok. rewrite Ha, Hd, Tk. cbn [Ast.va_expected Ast.va_default andb].
  destruct loc as [ln|lt'|lt']; cbn [tr_sty].
  - change (Ast.StNamed ln) with (tr_sty (StNamed ln)).
    rewrite types_compatible_tr. destruct (types_compatible (StNamed ln) (vd_type def)); reflexivity.
  - change (Ast.StList (tr_sty lt')) with (tr_sty (StList lt')).
    rewrite (types_compatible_tr (vd_type def) (StList lt')). destruct (types_compatible (StList lt') (vd_type def)); reflexivity.
  - rewrite is_nonnull_tr. destruct (is_nonnull (vd_type def)); cbn [negb].
    + change (Ast.StNonNull (tr_sty lt')) with (tr_sty (StNonNull lt')).
      rewrite (types_compatible_tr (vd_type def) (StNonNull lt')). destruct (types_compatible (StNonNull lt') (vd_type def)); reflexivity.
    + rewrite types_compatible_tr.
      destruct (match vd_default def with Some LNull => false | Some _ => true | None => false end);
        destruct ld; cbn [negb orb andb]; destruct (types_compatible lt' (vd_type def)); reflexivity.
Qed.

(** ** the validateCoercion bridge over any schema that agrees with [tr_env E] on the names of E,
    for closed types (the request schema has two more types, Query and Res_) *)
Section BridgeS.
  Variable ts : scalar_kind -> Ast.scalar.
  Variable E : env.
  Variable dt : bytes -> option bytes.
  Variable S : Ast.schema.
  Hypothesis HS : forall n td, aget n E = Some td -> Ast.raw_body S n = Some (tr_tdef_g ts td).
  Hypothesis HC : env_closed E = true.
  Hypothesis HL : leaves_agree_g ts E dt.
  Notation c04 := (ValidatorModel.coercion ValidatorModel.repaired ValidatorModel.id_order S).

  Definition agrees_c (l : lit) : Prop :=
    forall t a, sty_closed E t = true -> ok (c04 (tr_lit l) (tr_sty t) a) = validate_coercion E dt l t a.

  Lemma named_agrees_c l n a : ahas n E = true ->
    (forall v, l <> LVar v) -> l <> LNull -> (forall fs, l <> LObject fs) ->
    ok (c04 (tr_lit l) (Ast.StNamed n) a) = validate_coercion E dt l (StNamed n) a.
  Proof.
    intros Hin NV NN NO. rewrite vc_eq. unfold ahas in Hin.
    pose proof (fun k Hn => HL n k l Hn NV NN) as X.
    destruct (aget n E) as [td|] eqn:Hn; [|discriminate]. pose proof (HS n td Hn) as R.
    destruct l; try (exfalso; congruence);
      cbn [tr_lit ValidatorModel.coercion Ast.is_var Ast.is_null] in *;
      rewrite R; destruct td as [sk|vals|fields h]; cbn [tr_tdef_g];
      try (rewrite (X sk eq_refl); destruct (scalar_literal dt sk _); reflexivity);
      try reflexivity.
    cbn [enum_literal]. rewrite mem_map_fst. unfold ahas, of_option. destruct (aget n0 vals); reflexivity.
  Qed.

  Ltac atom_c :=
    let t := fresh "t" in let n := fresh "n" in let t' := fresh "t'" in let IHt := fresh "IHt" in let a := fresh "a" in
    let C := fresh "C" in
    intros t; induction t as [n|t' IHt|t' IHt]; intros a C;
      [ apply named_agrees_c; [exact C|intros; discriminate..]
      | rewrite vc_eq; cbn [tr_lit tr_sty ValidatorModel.coercion Ast.is_var Ast.is_null];
        destruct a; [apply (IHt true C)|reflexivity]
      | rewrite vc_eq; cbn [tr_lit tr_sty ValidatorModel.coercion Ast.is_var Ast.is_null]; apply (IHt _ C) ].

  Lemma object_agrees_c fs n a : ahas n E = true ->
    Forall (fun p : name * lit => agrees_c (snd p)) fs ->
    ok (c04 (tr_lit (LObject fs)) (Ast.StNamed n) a) = validate_coercion E dt (LObject fs) (StNamed n) a.
  Proof.
    intros Hin IHf. rewrite vc_eq. unfold ahas in Hin.
    cbn [tr_lit ValidatorModel.coercion Ast.is_var Ast.is_null].
    destruct (aget n E) as [td|] eqn:Hn; [|discriminate]. rewrite (HS n td Hn).
    destruct td as [k|vals|fields h]; cbn [tr_tdef_g].
    - pose proof (HL n k (LObject fs) Hn ltac:(intros; discriminate) ltac:(discriminate)) as X.
      cbn [tr_lit] in X. rewrite X, scalar_literal_object. reflexivity.
    - reflexivity.
    - change (ok ?x) with (okr x). rewrite fields_loop_ok. cbn [nil_b andb].
      rewrite map_fname3, dups_nil.
      f_equal; [f_equal|].
      + rewrite forallb_map_eq. apply forallb_ext_in. intros [k x] Hx. cbn [fname3 fst snd].
        rewrite assoc_tr_fields. destruct (aget k fields) as [fd|] eqn:Hk; cbn [option_map]; [|reflexivity].
        rewrite Forall_forall in IHf. apply (IHf (k, x) Hx (in_type fd) true).
        apply aget_In in Hk. apply (CoerceTotal.fields_closed E HC n fields h (k, fd) Hn Hk).
      + rewrite forallb_map_eq. apply forallb_ext_in. intros [k fd] Hk. cbn [fst snd].
        rewrite required_arg_tr, mem_names_ahas. reflexivity.
  Qed.

  Theorem bridge_closed : forall l, agrees_c l.
  Proof.
    induction l as [v|z|m k|s|b| |en|vs IHl|fs IHf] using lit_ind'.
    - intros t a _. rewrite vc_eq. destruct t; reflexivity.
    - atom_c.
    - atom_c.
    - atom_c.
    - atom_c.
    - intros t a _. rewrite vc_eq. cbn [tr_lit ValidatorModel.coercion Ast.is_var Ast.is_null].
      destruct t; cbn [tr_sty Ast.is_nonnull is_nonnull negb]; reflexivity.
    - atom_c.
    - intros t; induction t as [n|t' IHt|t' IHt]; intros a C.
      + apply named_agrees_c; [exact C|intros; discriminate..].
      + rewrite vc_eq. cbn [tr_lit tr_sty ValidatorModel.coercion Ast.is_var Ast.is_null].
        rewrite items_loop_ok. rewrite forallb_map_eq. apply forallb_ext_in.
        intros x Hx. rewrite Forall_forall in IHl. apply (IHl x Hx t' false C).
      + rewrite vc_eq. cbn [tr_lit tr_sty ValidatorModel.coercion Ast.is_var Ast.is_null]. apply (IHt a C).
    - intros t; induction t as [n|t' IHt|t' IHt]; intros a C.
      + apply object_agrees_c; [exact C|exact IHf].
      + rewrite vc_eq. cbn [tr_sty ValidatorModel.coercion]. cbn [tr_lit Ast.is_var Ast.is_null].
        destruct a; [apply (IHt true C)|reflexivity].
      + rewrite vc_eq. cbn [tr_sty ValidatorModel.coercion]. cbn [tr_lit Ast.is_var Ast.is_null]. apply (IHt _ C).
  Qed.
End BridgeS.

Section Full.
  Variable ts : scalar_kind -> Ast.scalar.
  Variable E : env.
  Variable dt : bytes -> option bytes.
  Variable sf : bool.
  Variable argdefs : list (name * in_def).
  Hypothesis Hq : ahas n_Query E = false.
  Hypothesis Hr : ahas n_Res E = false.
  Let S' := tr_request_schema_g ts E sf argdefs.

  Lemma raw_type_req n :
    Ast.raw_type S' n =
    match aget n E with
    | Some td => Some {| Ast.t_req := []; Ast.t_body := tr_tdef_g ts td |}
    | None => Ast.assoc n (skipn (length (Ast.s_types (tr_env_g ts E))) (Ast.s_types S'))
    end.
  Proof.
    unfold Ast.raw_type, S', tr_request_schema_g. cbn [Ast.s_types]. rewrite assoc_app, assoc_tr_env.
    destruct (aget n E); cbn [option_map]; [reflexivity|].
    rewrite skipn_app, Nat.sub_diag, skipn_all. reflexivity.
  Qed.

  Lemma raw_body_in n td : aget n E = Some td -> Ast.raw_body S' n = Some (tr_tdef_g ts td).
  Proof. intro H. unfold Ast.raw_body. rewrite raw_type_req, H. reflexivity. Qed.

  (** outside the environment only Query (an object) and Res_ (the result scalar) exist *)
  Lemma raw_body_out n : aget n E = None ->
    Ast.raw_body S' n = None \/ (exists fs, Ast.raw_body S' n = Some (Ast.TObject fs [])) \/
    (n = n_Res /\ Ast.raw_body S' n = Some (Ast.TScalar Ast.SInt)).
  Proof.
    intro H. unfold Ast.raw_body. rewrite raw_type_req, H.
    unfold S', tr_request_schema_g. cbn [Ast.s_types]. rewrite skipn_app, Nat.sub_diag, skipn_all. cbn [app skipn Ast.assoc].
    destruct (Ast.name_eqb n n_Query); [right; left; eexists; reflexivity|].
    destruct (Ast.name_eqb n n_Res) eqn:B; [right; right; split; [apply bytes_eqb_eq; exact B|reflexivity]|left; reflexivity].
  Qed.

  Lemma object_fields_req t :
    TypeInfoModel.object_fields true S' (Some (tr_sty t)) =
    match aget (leaf_name t) E with
    | Some (TInput fields h) => Some (map (fun f : name * in_def => (fst f, tr_indef (snd f))) fields)
    | _ => None
    end.
  Proof.
    unfold TypeInfoModel.object_fields. rewrite unwrapped_tr.
    destruct (aget (leaf_name t) E) as [td|] eqn:G.
    - rewrite (raw_body_in _ _ G). destruct td; reflexivity.
    - destruct (raw_body_out _ G) as [-> | [[fs ->] | [_ ->]]]; reflexivity.
  Qed.
  (** ** variables *)
  Variable defs : list vardef.
  Let V (i : N) := map (TypeInfoModel.ti_vardef true S' []) (tr_vardefs i defs).
  Hypothesis Hk : forall def, In def defs -> type_known E (vd_type def) = true.

  Lemma schema_type_req t p : type_known E t = true ->
    TypeInfoModel.schema_type S' [] (tr_ty t p) = Some (tr_sty t).
  Proof.
    induction t as [n|t' IH|t' IH]; cbn [type_known tr_ty tr_sty TypeInfoModel.schema_type]; intro H.
    - unfold Ast.named_type. rewrite raw_type_req. unfold ahas in H. destruct (aget n E); [reflexivity|discriminate].
    - rewrite (IH H). reflexivity.
    - rewrite (IH H). reflexivity.
  Qed.

  Lemma is_null_ti e d v : Ast.is_null (TypeInfoModel.ti_value true S' e d v) = Ast.is_null v.
  Proof. destruct v; reflexivity. Qed.

  Lemma vardef_first_tr n : forall ds i,
    (forall def, In def ds -> type_known E (vd_type def) = true) ->
    match find_def n ds with
    | None => ValidatorModel.vardef_first n (map (TypeInfoModel.ti_vardef true S' []) (tr_vardefs i ds)) = None
    | Some def => exists d', ValidatorModel.vardef_first n (map (TypeInfoModel.ti_vardef true S' []) (tr_vardefs i ds)) = Some d' /\
                             Ast.vd_ann d' = Some (tr_sty (vd_type def)) /\
                             match Ast.vd_default d' with Some x => negb (Ast.is_null x) | None => false end
                             = match vd_default def with Some LNull => false | Some _ => true | None => false end
    end.
  Proof.
    unfold find_def. induction ds as [|d r IH]; intros i Hd; [reflexivity|].
    cbn [find tr_vardefs map ValidatorModel.vardef_first]. cbn [TypeInfoModel.ti_vardef tr_vardef Ast.vd_name].
    unfold Ast.name_eqb. destruct (bytes_eqb n (vd_name d)) eqn:B.
    - eexists. split; [reflexivity|]. unfold TypeInfoModel.ti_vardef, tr_vardef. cbn [Ast.vd_ann Ast.vd_default Ast.vd_type].
      rewrite (schema_type_req _ _ (Hd d (or_introl eq_refl))). split; [reflexivity|].
      destruct (vd_default d) as [l|]; cbn [option_map]; [|reflexivity].
      rewrite is_null_ti, is_null_tr. destruct l; reflexivity.
    - apply IH. intros def Hin. apply Hd. right. exact Hin.
  Qed.

  Notation UE := (ProofsTypeInfoValues.usage_errs true S' (V 0) false).

  Lemma usage_bridge : forall l t a ld,
    validate_coercion E dt l t a = true ->
    UE (Some (tr_sty t)) ld (tr_lit l) = [] ->
    usage_ok all_fixed E defs l (Some t) ld = true.
  Proof.
    induction l as [n|z|m k|s|b| |n|vs IHl|fs IHf] using lit_ind'; intros t a ld Vd U; try reflexivity.
    - (* a variable *)
      cbn [tr_lit ProofsTypeInfoValues.usage_errs] in U. cbn [usage_ok].
      pose proof (vardef_first_tr n defs 0 Hk) as F. fold (V 0) in F.
      destruct (find_def n defs) as [def|] eqn:Fd.
      + destruct F as (d' & F1 & F2 & F3). rewrite F1 in U.
        assert (In def defs) by (apply find_def_In in Fd as [? _]; assumption).
        rewrite <- (variable_usage_tr' E def d' t ld p0 F2 F3 (Hk _ H)). rewrite U. reflexivity.
      + rewrite F in U. discriminate.
    - (* a list *)
      destruct (validate_list_inv E dt vs t a Vd) as (t' & Nt & Vi).
      cbn [tr_lit ProofsTypeInfoValues.usage_errs] in U.
      assert (Li : ProofsTypeInfoValues.list_item (Some (tr_sty t)) = Some (tr_sty t')).
      { unfold ProofsTypeInfoValues.list_item. rewrite nullable_tr, Nt. reflexivity. }
      rewrite Li in U. unfold ProofsTypeInfoValues.nested_mark in U. cbn iota in U.
      cbn [usage_ok]. rewrite Nt. apply forallb_forall. intros x Hx.
      rewrite Forall_forall in IHl. rewrite forallb_forall in Vi.
      apply (IHl x Hx t' false false (Vi x Hx)).
      rewrite flat_map_concat_map, map_map in U. 
      assert (In (UE (Some (tr_sty t')) false (tr_lit x)) (map (fun v => UE (Some (tr_sty t')) false (tr_lit v)) vs))
        by (apply in_map_iff; exists x; auto).
      destruct (UE (Some (tr_sty t')) false (tr_lit x)) as [|e es] eqn:Ux; [reflexivity|].
      exfalso. apply (in_concat_nonnil _ _ _ H U).
    - (* an object *)
      destruct (validate_object_inv E dt fs t a Vd) as (fields & h & Hf & Vf).
      cbn [tr_lit ProofsTypeInfoValues.usage_errs] in U. rewrite object_fields_req, Hf in U.
      cbn [usage_ok fix_item_object all_fixed]. rewrite leaf_type_name, Hf.
      apply forallb_forall. intros [k x] Hx. cbn [fst snd].
      destruct (Vf k x Hx) as (fd & Hg & Vx). rewrite Hg.
      rewrite Forall_forall in IHf. refine (IHf (k, x) Hx (in_type fd) true (field_loc_default fd) Vx _). cbn [snd].
      rewrite flat_map_concat_map, map_map in U.
      match type of U with concat (map ?f fs) = [] =>
        pose proof (in_map f fs (k, x) Hx) as Hin end.
      cbn beta in Hin. cbn [fst snd] in Hin. rewrite assoc_tr_fields, Hg in Hin. cbn [option_map] in Hin.
      assert (Dv : TypeInfoModel.dflt_is_value (Ast.in_default (tr_indef fd)) = field_loc_default fd).
      { unfold tr_indef, field_loc_default. cbn [Ast.in_default]. destruct (in_default fd) as [g|]; [destruct g|]; reflexivity. }
      cbn [tr_indef Ast.in_type] in Hin. cbn [tr_indef] in Dv. rewrite Dv in Hin.
      destruct (UE (Some (tr_sty (in_type fd))) (field_loc_default fd) (tr_lit x)) as [|e es] eqn:Ux; [reflexivity|].
      exfalso. apply (in_concat_nonnil _ _ _ Hin U).
  Qed.
End Full.

Lemma in_vardefs def : forall ds i, In def ds -> exists j, In (tr_vardef j def) (tr_vardefs i ds).
Proof.
  induction ds as [|d r IH]; intros i []; cbn [tr_vardefs].
  - subst. eexists. left. reflexivity.
  - destruct (IH (i + 1)%N H) as [j Hj]. exists j. right. exact Hj.
Qed.

Lemma tr_args_in a0 : forall (args : list (name * lit)) i, In a0 (tr_args i args) ->
  exists n l, In (n, l) args /\ a0 = {| Ast.a_name := n; Ast.a_pos := Ast.a_pos a0; Ast.a_value := tr_lit l |}.
Proof.
  induction args as [|[k x] r IH]; intros i H; cbn [tr_args] in H; [contradiction|].
  destruct H as [<-|H].
  - exists k, x. split; [left; reflexivity|reflexivity].
  - destruct (IH _ H) as (n & l & Hin & Eq). exists n, l. split; [right; exact Hin|exact Eq].
Qed.

(** ** generic facts about value trees *)
Lemma flat_map_flat_map {A B C} (f : B -> list C) (g : A -> list B) l :
  flat_map f (flat_map g l) = flat_map (fun x => flat_map f (g x)) l.
Proof. induction l as [|x r IH]; [reflexivity|]. cbn [flat_map]. rewrite flat_map_app, IH. reflexivity. Qed.

(** a function of nodes that only speaks about value nodes and fragment spreads *)
Definition quiet {B} (h : Inspect.node -> list B) : Prop :=
  forall n, match n with
            | Inspect.NValue _ => True
            | Inspect.NSel (Ast.SSpread _ _ _ _) => True
            | _ => h n = []
            end.

Lemma quiet_var_fe vars : quiet (ProofsVarsOrder.var_fe vars).
Proof. intros n. destruct n; try reflexivity. destruct s; reflexivity || exact I. Qed.
Lemma quiet_var_fn : quiet ProofsVarsOrder.var_fn.
Proof. intros n. destruct n; try reflexivity. destruct s; reflexivity || exact I. Qed.
Lemma quiet_spread : quiet ProofsCycles.spread_name_of.
Proof. intros n. destruct n; try reflexivity. destruct s; reflexivity || exact I. Qed.

(** no fragment spread inside a value *)
Lemma value_no_spread : forall v, flat_map ProofsCycles.spread_name_of (InspectProofs.vnodes ProofsVarsOrder.var_g (Inspect.tree_value v)) = [].
Proof.
  induction v using AstInd.value_ind'; try reflexivity.
  - cbn [Inspect.tree_value InspectProofs.vnodes ProofsVarsOrder.var_g flat_map ProofsCycles.spread_name_of app].
    induction H as [|x l Hx _ IHl]; [reflexivity|]. cbn [map flat_map]. rewrite flat_map_app, Hx, IHl. reflexivity.
  - cbn [Inspect.tree_value InspectProofs.vnodes ProofsVarsOrder.var_g flat_map ProofsCycles.spread_name_of app].
    induction H as [|[[n np] x] l Hx _ IHl]; [reflexivity|]. cbn [map flat_map]. rewrite flat_map_app, IHl.
    cbn [InspectProofs.vnodes ProofsVarsOrder.var_g flat_map ProofsCycles.spread_name_of app Inspect.name_tree].
    rewrite !app_nil_r. simpl in Hx. exact Hx.
Qed.

(** the variables a literal mentions are the variable nodes of its (annotated) value tree *)
Lemma var_fn_value S : forall l sc e d,
  flat_map ProofsVarsOrder.var_fn (InspectProofs.vnodes ProofsVarsOrder.var_g
     (Inspect.tree_value (TypeInfoModel.ti_value_in true S sc e d (tr_lit l)))) = lit_vars l.
Proof.
  induction l as [n|z|m k|s|b| |n|vs IHl|fs IHf] using lit_ind'; intros sc e d; try reflexivity.
  - cbn [tr_lit]. rewrite ProofsTypeInfoValues.ti_value_list.
    cbn [Inspect.tree_value InspectProofs.vnodes ProofsVarsOrder.var_g flat_map ProofsVarsOrder.var_fn app lit_vars].
    rewrite !map_map. induction IHl as [|x r Hx _ IHr]; [reflexivity|].
    cbn [map flat_map]. rewrite flat_map_app, Hx, IHr. reflexivity.
  - cbn [tr_lit]. rewrite ProofsTypeInfoValues.ti_value_object.
    cbn [Inspect.tree_value InspectProofs.vnodes ProofsVarsOrder.var_g flat_map ProofsVarsOrder.var_fn app lit_vars].
    rewrite !map_map. induction IHf as [|[k x] r Hx _ IHr]; [reflexivity|].
    cbn [map flat_map]. rewrite flat_map_app, IHr. f_equal.
    unfold ProofsTypeInfoValues.object_field. cbn [fst snd].
    destruct (match TypeInfoModel.object_fields true S e with Some l0 => Ast.assoc k l0 | None => None end);
      cbn [InspectProofs.vnodes ProofsVarsOrder.var_g flat_map ProofsVarsOrder.var_fn app Inspect.name_tree];
      rewrite app_nil_r; simpl in Hx; apply Hx.
Qed.

(** ** the request  query Q(defs) { f(args) }  (site "field", [sf = true]) or
    query Q(defs) { g @dname(args) }  (a directive site, [sf = false], dname one of flt / skip / include) *)
Definition dir_names : list name := [ [102; 108; 116]%N; [115; 107; 105; 112]%N; [105; 110; 99; 108; 117; 100; 101]%N ].

Section Site.
  Variable ts : scalar_kind -> Ast.scalar.
  Variable E : env.
  Variable dt : bytes -> option bytes.
  Variable sf : bool.
  Variable dname : name.
  Variable argdefs : list (name * in_def).
  Variable defs : list vardef.
  Variable args : list (name * lit).
  Hypothesis Hq : ahas n_Query E = false.
  Hypothesis Hr : ahas n_Res E = false.
  Hypothesis HC : env_closed E = true.
  Hypothesis Hac : forall ad, In ad argdefs -> sty_closed E (in_type (snd ad)) = true.
  Hypothesis HL : leaves_agree_g ts E dt.
  Hypothesis Hres : forall def, In def defs -> leaf_name (vd_type def) <> n_Res.
  Hypothesis Hdn : In dname dir_names.

  Let S' := tr_request_schema_g ts E sf argdefs.
  Let D := tr_request_doc (if sf then None else Some dname) defs args.
  Let V0 := map (TypeInfoModel.ti_vardef true S' []) (tr_vardefs 0 defs).
  Let D' := tr_argdefs argdefs.
  Let dnil := if sf then TypeInfoModel.dflt_not_nil else TypeInfoModel.dflt_is_value.
  Let A' := TypeInfoModel.ti_args true S' (Some D') dnil (tr_args 0 args).
  Let fdef (a : list (Ast.name * Ast.input_def)) := {| Ast.f_type := Ast.StNamed n_Res; Ast.f_args := a; Ast.f_req := [] |}.
  Let dir' := {| Ast.d_name := dname; Ast.d_npos := pp 4 4; Ast.d_at := pp 4 3; Ast.d_args := A' |}.
  Let sel' := if sf then Ast.SField (Some (fdef D')) None [102]%N (pp 4 1) A' [] None
              else Ast.SField (Some (fdef [])) None [103]%N (pp 4 1) [] [dir'] None.
  Let d' := Ast.DOp (Some ([113; 117; 101; 114; 121]%N, pp 1 1)) (Some ([81]%N, pp 1 7)) V0 []
                    (Ast.SelSet (Some n_Query) [sel'] (pp 4 0)).

  Lemma raw_body_query :
    Ast.raw_body S' n_Query = Some (Ast.TObject [ ([102]%N, fdef (if sf then D' else [])); ([103]%N, fdef []) ] []).
  Proof.
    unfold Ast.raw_body. rewrite (raw_type_req ts E sf argdefs). unfold ahas in Hq. destruct (aget n_Query E); [discriminate|].
    unfold tr_request_schema_g. cbn [Ast.s_types]. rewrite skipn_app, Nat.sub_diag, skipn_all. reflexivity.
  Qed.

  Lemma dir_lookup : Ast.assoc dname (Ast.s_directives S') =
    Some {| Ast.dd_args := if sf then [] else D'; Ast.dd_locs := [Ast.LField] |}.
  Proof.
    unfold S', tr_request_schema_g. cbn [Ast.s_directives].
    destruct Hdn as [<-|[<-|[<-|[]]]]; reflexivity.
  Qed.

  Lemma annotated : TypeInfoPure.pti_doc true S' [] D = [d'].
  Proof.
    pose proof raw_body_query as RQ. pose proof dir_lookup as DL.
    unfold D, d', sel', dir', A', dnil, tr_request_doc, TypeInfoPure.pti_doc. destruct sf;
    cbn [map TypeInfoPure.pti_def TypeInfoPure.pti_ss TypeInfoPure.pti_sel TypeInfoPure.op_scope];
    change (Ast.name_eqb [113; 117; 101; 114; 121]%N TypeInfoModel.n_query) with true; cbn iota;
    change (Ast.s_query S') with n_Query;
    unfold TypeInfoPure.field_args, TypeInfoModel.field_of_scope; rewrite RQ.
    - reflexivity.
    - cbn [Ast.get_field Ast.assoc Ast.name_eqb]. unfold TypeInfoModel.ti_dir. cbn [Ast.d_name Ast.d_npos Ast.d_at Ast.d_args].
      rewrite DL. reflexivity.
  Qed.

  (** *** where the annotated arguments sit in the annotated document *)
  Lemma vals_args v : In v (ProofsValues.arg_vals A') -> In v (ProofsValues.def_vals d').
  Proof.
    intro H. unfold d', sel'. cbn [ProofsValues.def_vals]. apply in_or_app. right. apply in_or_app. right.
    destruct sf; cbn [ProofsValues.vals_ss flat_map]; rewrite app_nil_r.
    - apply in_or_app. left. exact H.
    - apply in_or_app. right. apply in_or_app. left. unfold ProofsValues.dir_vals. cbn [flat_map Ast.d_args dir']. rewrite app_nil_r. exact H.
  Qed.

  Lemma vals_defaults v : In v (flat_map ProofsValues.vardef_vals V0) -> In v (ProofsValues.def_vals d').
  Proof. intro H. unfold d'. cbn [ProofsValues.def_vals]. apply in_or_app. left. exact H. Qed.

  Lemma body_flat {B} (h : Inspect.node -> list B) : quiet h ->
    flat_map h (ProofsVarsOrder.body0 d') =
    flat_map h (flat_map (fun a => InspectProofs.vnodes ProofsVarsOrder.var_g (Inspect.tree_arg a)) A').
  Proof.
    intro Q.
    assert (Vd : forall vs, flat_map h (flat_map (InspectProofs.vnodes ProofsVarsOrder.var_g) (map Inspect.tree_vardef vs)) = []).
    { induction vs as [|v r IHr]; [reflexivity|]. cbn [map flat_map InspectProofs.vnodes Inspect.tree_vardef ProofsVarsOrder.var_g app].
      rewrite IHr. pose proof (Q (Inspect.NVarDef v)) as X. cbn in X. rewrite X. reflexivity. }
    assert (Ar : forall l, flat_map h (flat_map (InspectProofs.vnodes ProofsVarsOrder.var_g) (map Inspect.tree_arg l))
                           = flat_map h (flat_map (fun a => InspectProofs.vnodes ProofsVarsOrder.var_g (Inspect.tree_arg a)) l)).
    { induction l as [|x r IHr]; [reflexivity|]. cbn [map flat_map]. rewrite !flat_map_app, IHr. reflexivity. }
    unfold ProofsVarsOrder.body0, d', sel', dir'.
    cbn [Inspect.tree_def InspectProofs.vnodes ProofsVarsOrder.var_g Inspect.opt_tree app map flat_map].
    rewrite (Q (Inspect.NDef _)). cbn [app]. rewrite (Q (Inspect.NOpType _ _)). cbn [app].
    cbn [Inspect.name_tree InspectProofs.vnodes flat_map app]. rewrite (Q (Inspect.NName _ _)). cbn [app].
    rewrite !flat_map_app, Vd. cbn [app flat_map Inspect.tree_ss InspectProofs.vnodes ProofsVarsOrder.var_g map].
    rewrite (Q (Inspect.NSelSet _)). cbn [app]. rewrite !app_nil_r.
    destruct sf; cbn [Inspect.tree_sel InspectProofs.vnodes ProofsVarsOrder.var_g Inspect.opt_tree app map flat_map Inspect.name_tree].
    - pose proof (Q (Inspect.NSel (Ast.SField (Some (fdef D')) None [102]%N (pp 4 1) A' [] None))) as X1. cbn in X1. rewrite X1. cbn [app].
      rewrite (Q (Inspect.NName _ _)). cbn [app]. rewrite !app_nil_r. apply Ar.
    - match goal with |- h (Inspect.NSel ?x) ++ _ = _ => pose proof (Q (Inspect.NSel x)) as X1; cbn in X1 end.
      rewrite X1. cbn [app]. rewrite (Q (Inspect.NName _ _)). cbn [app]. rewrite app_nil_r.
      cbn [Inspect.tree_dir InspectProofs.vnodes ProofsVarsOrder.var_g flat_map app Inspect.name_tree Ast.d_name Ast.d_npos Ast.d_args].
      rewrite (Q (Inspect.NDirective _)). cbn [app]. rewrite (Q (Inspect.NName _ _)). cbn [app].
      rewrite ?app_nil_r. apply Ar.
  Qed.

  Lemma args_rule_node :
    ValidatorModel.rule_arguments ValidatorModel.repaired ValidatorModel.id_order S' [d'] = Ast.Done [] ->
    exists p, fst (ValidatorModel.args_node ValidatorModel.repaired ValidatorModel.id_order [] A' D' p) = [].
  Proof.
    intro Ra. pose proof dir_lookup as DL.
    unfold ValidatorModel.rule_arguments in Ra.
    rewrite (InspectProofs.inspect_acc _ (ProofsArguments.arg_f ValidatorModel.id_order S') (ProofsArguments.arg_g S') _
               (ProofsArguments.arguments_enter_eq ValidatorModel.id_order S')) in Ra.
    cbn [app] in Ra.
    assert (Ra' : flat_map (ProofsArguments.arg_f ValidatorModel.id_order S')
                    (InspectProofs.vnodes (ProofsArguments.arg_g S') (Inspect.tree_doc [d'])) = []) by congruence.
    clear Ra. rename Ra' into Ra. rewrite InspectProofs.flat_map_nil_iff in Ra.
    assert (Sub : forall n0, In n0 (InspectProofs.vnodes (ProofsArguments.arg_g S') (Inspect.tree_ss (Ast.SelSet (Some n_Query) [sel'] (pp 4 0)))) ->
                  In n0 (InspectProofs.vnodes (ProofsArguments.arg_g S') (Inspect.tree_doc [d']))).
    { intros n0 H0. unfold d'.
      cbn [Inspect.tree_doc map InspectProofs.vnodes ProofsArguments.arg_g flat_map Inspect.tree_def app Inspect.opt_tree].
      right. right. right. rewrite app_nil_r. apply in_or_app. right. apply in_flat_map.
      exists (Inspect.tree_ss (Ast.SelSet (Some n_Query) [sel'] (pp 4 0))). split; [|exact H0].
      apply in_or_app. right. left. reflexivity. }
    unfold sel', dir' in Sub. unfold D'. destruct sf.
    - exists (pp 4 1).
      match type of Sub with forall n0, In n0 (InspectProofs.vnodes _ (Inspect.tree_ss (Ast.SelSet _ [?x] _))) -> _ =>
        specialize (Ra (Inspect.NSel x) (Sub _ ltac:(cbn [Inspect.tree_ss map InspectProofs.vnodes ProofsArguments.arg_g flat_map app]; right; left; reflexivity))) end.
      cbn [ProofsArguments.arg_f] in Ra.
      rewrite (ProofsArguments.args_node_eq ValidatorModel.id_order). cbn [fst app]. exact Ra.
    - exists (pp 4 3).
      match type of Sub with forall n0, In n0 (InspectProofs.vnodes _ (Inspect.tree_ss (Ast.SelSet _ [Ast.SField _ _ _ _ _ [?d] _] _))) -> _ =>
        specialize (Ra (Inspect.NDirective d) (Sub _ ltac:(cbn [Inspect.tree_ss map InspectProofs.vnodes ProofsArguments.arg_g flat_map app Inspect.tree_sel Inspect.opt_tree Inspect.name_tree Inspect.tree_dir]; right; right; right; left; reflexivity))) end.
      cbn [ProofsArguments.arg_f Ast.d_name Ast.d_args Ast.d_at] in Ra. rewrite DL in Ra. cbn [Ast.dd_args] in Ra.
      rewrite (ProofsArguments.args_node_eq ValidatorModel.id_order). cbn [fst app]. exact Ra.
  Qed.
  Lemma in_tr_args n l : forall (l0 : list (name * lit)) i, In (n, l) l0 ->
    exists p, In {| Ast.a_name := n; Ast.a_pos := p; Ast.a_value := tr_lit l |} (tr_args i l0).
  Proof.
    induction l0 as [|[k x] r IH]; intros i []; cbn [tr_args].
    - inversion H; subst. eexists. left. reflexivity.
    - destruct (IH (i + 1)%N H) as [p Hp]. exists p. right. exact Hp.
  Qed.

  Lemma schema_type_shape t p x : TypeInfoModel.schema_type S' [] (tr_ty t p) = Some x -> x = tr_sty t.
  Proof.
    revert x. induction t as [n|t' IH|t' IH]; cbn [tr_ty tr_sty TypeInfoModel.schema_type]; intros x H.
    - destruct (Ast.named_type S' [] n); inversion H; reflexivity.
    - destruct (TypeInfoModel.schema_type S' [] (tr_ty t' p)) as [y|]; inversion H. rewrite (IH y eq_refl). reflexivity.
    - destruct (TypeInfoModel.schema_type S' [] (tr_ty t' p)) as [y|]; inversion H. rewrite (IH y eq_refl). reflexivity.
  Qed.

  Lemma vardefs_loop_inv : forall ds i seen,
    (forall def, In def ds -> leaf_name (vd_type def) <> n_Res) ->
    ValidatorModel.vardefs_loop S' (map (TypeInfoModel.ti_vardef true S' []) (tr_vardefs i ds)) seen = [] ->
    (forall def, In def ds -> type_known E (vd_type def) = true) /\ dups seen (map vd_name ds) = false.
  Proof.
    induction ds as [|d r IH]; intros i seen Hn H; [split; [intros ? []|reflexivity]|].
    cbn [tr_vardefs map ValidatorModel.vardefs_loop] in H.
    apply app_eq_nil in H as [H1 H]. apply app_eq_nil in H as [H2 H3].
    unfold TypeInfoModel.ti_vardef, tr_vardef in H1, H2, H3. cbn [Ast.vd_name Ast.vd_ann Ast.vd_type] in H1, H2, H3.
    destruct (IH _ _ (fun def Hin => Hn def (or_intror Hin)) H3) as [K Dp].
    assert (Tk : type_known E (vd_type d) = true).
    { rewrite type_known_leaf. destruct (ahas (leaf_name (vd_type d)) E) eqn:Ah; [reflexivity|exfalso].
      destruct (TypeInfoModel.schema_type S' [] (tr_ty (vd_type d) (pp 2 (10 + i)))) as [x|] eqn:St; [|discriminate].
      apply schema_type_shape in St. subst x. rewrite unwrapped_tr in H2.
      unfold ahas in Ah. destruct (aget (leaf_name (vd_type d)) E) eqn:G; [discriminate|].
      destruct (raw_body_out ts E sf argdefs _ G) as [R | [[fs R] | [Eq R]]]; fold S' in R.
      - rewrite R in H2. discriminate.
      - rewrite R in H2. discriminate.
      - apply (Hn d (or_introl eq_refl) Eq). }
    split.
    - intros def [<-|Hin]; [exact Tk|apply K; exact Hin].
    - cbn [map dups]. destruct (Ast.mem (vd_name d) seen); [discriminate|]. exact Dp.
  Qed.


  Lemma dnil_loc d : dnil (Ast.in_default (tr_indef d)) = arg_loc_default sf d.
  Proof. unfold dnil, tr_indef, arg_loc_default. cbn [Ast.in_default]. destruct sf; destruct (in_default d) as [g|]; try destruct g; reflexivity. Qed.

  (** the values rule, node by node *)
  Lemma annotated_value_validates l t dd : sty_closed E t = true ->
    ProofsValues.val_f ValidatorModel.id_order S' (Inspect.NValue (TypeInfoModel.ti_value true S' (Some (tr_sty t)) dd (tr_lit l))) = [] ->
    validate_coercion E dt l t true = true.
  Proof.
    intros C Vf. unfold ProofsValues.val_f in Vf.
    rewrite ProofsValues.ti_value_is_var, ProofsValues.ti_value_ann in Vf. cbn [Ast.va_expected] in Vf.
    rewrite (ProofsValues.coercion_blind ValidatorModel.id_order S') in Vf.
    destruct (Ast.is_var (tr_lit l)) eqn:Iv.
    - destruct l; try discriminate. rewrite vc_eq. reflexivity.
    - rewrite <- (bridge_closed ts E dt S' (fun n td G => raw_body_in ts E sf argdefs n td G) HC HL l t true C).
      destruct (ProofsValues.coercion_total ValidatorModel.id_order S' (tr_lit l) (tr_sty t) true) as [errs Ce].
      rewrite Ce in Vf |- *. cbn [ProofsValues.vr_errs] in Vf. subst errs. reflexivity.
  Qed.

  (** the annotated argument of (n, l) *)
  Lemma annotated_arg n l d : In (n, l) args -> aget n argdefs = Some d ->
    exists p, In {| Ast.a_name := n; Ast.a_pos := p;
                    Ast.a_value := TypeInfoModel.ti_value true S' (Some (tr_sty (in_type d))) (arg_loc_default sf d) (tr_lit l) |} A'.
  Proof.
    intros Hin G. destruct (in_tr_args n l args 0%N Hin) as [p Hp]. exists p.
    unfold A'. rewrite ProofsTypeInfoValues.ti_args_spec. apply in_map_iff.
    eexists. split; [|exact Hp]. cbn [Ast.a_name Ast.a_pos Ast.a_value].
    unfold D'. rewrite assoc_tr_argdefs, G. cbn [option_map]. rewrite dnil_loc. reflexivity.
  Qed.

  Theorem site_accepts_implies_static_ok :
    ValidatorModel.validate_model_memo ValidatorModel.repaired ValidatorModel.id_order S' [] D = Ast.Done [] ->
    static_ok all_fixed E dt sf argdefs defs args = true.
  Proof.
    intro M.
    assert (Ord : ProofsCommon.order_ok ValidatorModel.id_order) by (intros A0 l; apply Permutation.Permutation_refl).
    assert (Pd : MemoEquiv.doc_field_positions_distinct D).
    { unfold MemoEquiv.doc_field_positions_distinct, D. destruct sf; simpl; repeat constructor; simpl; tauto. }
    apply (MemoEquiv.validate_memo_iff_parsed _ _ _ _ Ord Pd) in M.
    apply ValidatorProofs.validate_model_nil in M. change (ValidatorModel.q_unwrap_obj ValidatorModel.repaired) with true in M.
    rewrite annotated in M. apply ValidatorProofs.all_rules_nil in M as (_ & _ & Ra & _ & Rv & _ & Rx).
    (* validateVariables *)
    pose proof (proj1 (ProofsOrder.rule_variables_fine S' [d'] _ Ord) Rx d' (or_introl eq_refl)) as (X1 & X2 & _ & X4).
    destruct (vardefs_loop_inv defs 0%N [] Hres X1) as [Hk Dn]. rewrite dups_nil in Dn.
    (* validateArguments *)
    destruct (args_rule_node Ra) as [p Node].
    assert (Names : map Ast.a_name A' = map fst args).
    { unfold A'. rewrite ProofsArguments.ti_args_names. apply a_names_tr. }
    destruct (node_conjuncts argdefs args A' p Names Node) as (N1 & N2 & N3).
    (* validateValues *)
    rewrite ProofsValues.rule_values_eq in Rv.
    assert (Rv' : flat_map (fun v => ProofsValues.val_f ValidatorModel.id_order S' (Inspect.NValue v)) (flat_map ProofsValues.def_vals [d']) = []) by congruence.
    rewrite InspectProofs.flat_map_nil_iff in Rv'.
    assert (Vals : forall v, In v (ProofsValues.def_vals d') -> ProofsValues.val_f ValidatorModel.id_order S' (Inspect.NValue v) = []).
    { intros v Hv. apply Rv'. cbn [flat_map]. rewrite app_nil_r. exact Hv. }
    assert (ArgOk : forall n l d, In (n, l) args -> aget n argdefs = Some d -> validate_coercion E dt l (in_type d) true = true).
    { intros n l d Hin G. destruct (annotated_arg n l d Hin G) as [q Hq'].
      apply (annotated_value_validates l (in_type d) (arg_loc_default sf d)).
      - apply Hac with (ad := (n, d)). apply aget_In. exact G.
      - apply Vals. apply vals_args. unfold ProofsValues.arg_vals.
        apply (in_map Ast.a_value) in Hq'. exact Hq'. }
    (* usages *)
    pose proof (body_flat (ProofsVarsOrder.var_fe V0) (quiet_var_fe V0)) as Bf. rewrite X2 in Bf. symmetry in Bf.
    rewrite flat_map_flat_map, InspectProofs.flat_map_nil_iff in Bf.
    rewrite static_ok_split. repeat (apply andb_true_iff; split).
    - apply forallb_forall. exact N1.
    - apply negb_true_iff. exact N2.
    - apply forallb_forall. intros ad Hin.
        destruct (is_nonnull (in_type (snd ad)) && match in_default (snd ad) with None => true | Some _ => false end) eqn:Rq; [|reflexivity].
        rewrite (N3 ad Hin Rq). apply orb_true_r.
    - apply forallb_forall. intros [n l] Hin. pose proof (N1 _ Hin) as Ha.
        change (ahas n argdefs = true) in Ha. unfold ahas in Ha. cbn [fst snd].
        destruct (aget n argdefs) as [d|] eqn:G; [|discriminate]. eapply ArgOk; eauto.
    - apply forallb_forall. intros def Hin. destruct (vd_default def) as [dflt|] eqn:Dd; [|reflexivity].
        rewrite (Hk def Hin). cbn [andb].
        apply (annotated_value_validates dflt (vd_type def) false).
        * rewrite <- type_known_closed. apply Hk. exact Hin.
        * apply Vals. apply vals_defaults. unfold V0. 
          destruct (in_vardefs def defs 0%N Hin) as [j Hj].
          apply in_flat_map. exists (TypeInfoModel.ti_vardef true S' [] (tr_vardef j def)). split; [apply in_map; exact Hj|].
          unfold ProofsValues.vardef_vals, TypeInfoModel.ti_vardef, tr_vardef. cbn [Ast.vd_default Ast.vd_type].
          rewrite Dd. cbn [option_map]. rewrite (schema_type_req ts E sf argdefs _ _ (Hk def Hin)). right. left. reflexivity.
    - apply negb_true_iff. exact Dn.
    - apply forallb_forall. exact Hk.
    - (* variable usages *)
      apply forallb_forall. intros [n l] Hin. pose proof (N1 _ Hin) as Ha.
      change (ahas n argdefs = true) in Ha. unfold ahas in Ha. cbn [fst snd].
      destruct (aget n argdefs) as [d|] eqn:G; [|discriminate].
      destruct (annotated_arg n l d Hin G) as [q Hq'].
      apply (usage_bridge ts E dt sf argdefs defs Hk l (in_type d) true (arg_loc_default sf d) (ArgOk n l d Hin G)).
      specialize (Bf _ Hq'). unfold Inspect.tree_arg in Bf.
      cbn [Ast.a_name Ast.a_pos Ast.a_value InspectProofs.vnodes ProofsVarsOrder.var_g flat_map ProofsVarsOrder.var_fe app Inspect.name_tree] in Bf.
      rewrite app_nil_r in Bf. unfold TypeInfoModel.ti_value in Bf.
      rewrite (ProofsTypeInfoValues.vars_value_errs true S' V0) in Bf. exact Bf.
    - (* every variable is used *)
      apply forallb_forall. intros def Hin.
      destruct (in_vardefs def defs 0%N Hin) as [j Hj].
      specialize (X4 (TypeInfoModel.ti_vardef true S' [] (tr_vardef j def)) (in_map _ _ _ Hj)).
      assert (NoReach : forall x, ~ ProofsVarsOrder.reached [d'] d' x).
      { assert (Sp : ProofsVarsOrder.spreads (ProofsVarsOrder.body0 d') = []).
        { unfold ProofsVarsOrder.spreads. rewrite (body_flat _ quiet_spread), flat_map_flat_map.
          apply InspectProofs.flat_map_nil_iff. intros a _.
          unfold Inspect.tree_arg. cbn [InspectProofs.vnodes ProofsVarsOrder.var_g flat_map ProofsCycles.spread_name_of app Inspect.name_tree].
          rewrite app_nil_r. apply value_no_spread. }
        intros x R. induction R as [x Hx|x y _ IH _]; [rewrite Sp in Hx; exact Hx|exact IH]. }
      destruct X4 as [Used|[x [R _]]]; [|exfalso; exact (NoReach x R)].
      cbn [TypeInfoModel.ti_vardef tr_vardef Ast.vd_name] in Used.
      rewrite (body_flat _ quiet_var_fn), flat_map_flat_map in Used. apply in_flat_map in Used as (a' & Ha' & Hu).
      unfold A' in Ha'. rewrite ProofsTypeInfoValues.ti_args_spec in Ha'. apply in_map_iff in Ha' as (a0 & <- & Ha0).
      destruct (tr_args_in a0 args 0%N Ha0) as (n & l & Hnl & Eq0). rewrite Eq0 in Hu.
      apply existsb_exists. exists (n, l). split; [exact Hnl|]. cbn [snd].
      unfold Inspect.tree_arg in Hu. cbn [Ast.a_name Ast.a_pos Ast.a_value InspectProofs.vnodes ProofsVarsOrder.var_g flat_map ProofsVarsOrder.var_fn app Inspect.name_tree] in Hu.
      rewrite app_nil_r in Hu.
      assert (Lv : In (vd_name def) (lit_vars l)).
      { destruct (Ast.assoc n D'); unfold TypeInfoModel.ti_value in Hu; rewrite var_fn_value in Hu; exact Hu. }
      apply existsb_exists. exists (vd_name def). split; [exact Lv|apply bytes_eqb_refl].
  Qed.
End Site.

(** ** C05_C04_accepts_implies_static_ok, generic in the image of the scalar kinds *)
Theorem accepts_implies_static_ok_g ts E dt sf dname argdefs defs args :
  ahas n_Query E = false -> ahas n_Res E = false ->
  env_closed E = true ->
  (forall ad, In ad argdefs -> sty_closed E (in_type (snd ad)) = true) ->
  leaves_agree_g ts E dt ->
  (forall def, In def defs -> leaf_name (vd_type def) <> n_Res) ->
  In dname dir_names ->
  c04_document_accepts_g ts E sf (if sf then None else Some dname) argdefs defs args = true ->
  static_ok all_fixed E dt sf argdefs defs args = true.
Proof.
  intros Hq Hr HC Hac HL Hres Hdn Acc.
  apply (site_accepts_implies_static_ok ts E dt sf dname argdefs defs args); auto.
  unfold c04_document_accepts_g in Acc.
  destruct (ValidatorModel.validate_model_memo _ _ _ _ _) as [[|e es]| |]; try discriminate. reflexivity.
Qed.

(** the kind-level instance (environments without DateTime / LongInt; other properties build on it) *)
Theorem accepts_implies_static_ok E dt sf dname argdefs defs args :
  ahas n_Query E = false -> ahas n_Res E = false ->
  env_closed E = true ->
  (forall ad, In ad argdefs -> sty_closed E (in_type (snd ad)) = true) ->
  leaves_agree E dt ->
  (forall def, In def defs -> leaf_name (vd_type def) <> n_Res) ->
  In dname dir_names ->
  c04_document_accepts E sf (if sf then None else Some dname) argdefs defs args = true ->
  static_ok all_fixed E dt sf argdefs defs args = true.
Proof.
  intros Hq Hr HC Hac HL Hres Hdn Acc.
  apply (accepts_implies_static_ok_g tr_scalar E dt sf dname argdefs defs args); auto.
Qed.

Corollary accepts_implies_static_ok_bridgeable E dt sf dname argdefs defs args :
  ahas n_Query E = false -> ahas n_Res E = false ->
  env_closed E = true ->
  (forall ad, In ad argdefs -> sty_closed E (in_type (snd ad)) = true) ->
  bridgeable E = true -> (no_float E = true \/ float_leaves_agree dt) ->
  (forall def, In def defs -> leaf_name (vd_type def) <> n_Res) ->
  In dname dir_names ->
  c04_document_accepts E sf (if sf then None else Some dname) argdefs defs args = true ->
  static_ok all_fixed E dt sf argdefs defs args = true.
Proof.
  intros Hq Hr HC Hac HB HF. apply accepts_implies_static_ok; auto. apply leaves_agree_bridgeable; auto.
Qed.

(** the refined instance: every environment, DateTime and LongInt through C04's SRefined; the only
    leaf hypothesis left is the Float one *)
Theorem accepts_implies_static_ok_r E dt sf dname argdefs defs args :
  ahas n_Query E = false -> ahas n_Res E = false ->
  env_closed E = true ->
  (forall ad, In ad argdefs -> sty_closed E (in_type (snd ad)) = true) ->
  (no_float E = true \/ float_leaves_agree dt) ->
  (forall def, In def defs -> leaf_name (vd_type def) <> n_Res) ->
  In dname dir_names ->
  c04_document_accepts_r dt E sf (if sf then None else Some dname) argdefs defs args = true ->
  static_ok all_fixed E dt sf argdefs defs args = true.
Proof.
  intros Hq Hr HC Hac HF. apply accepts_implies_static_ok_g; auto. apply leaves_agree_r; exact HF.
Qed.

(** the validateCoercion bridge over the refined environment, closed types *)
Theorem bridge_closed_r E dt : env_closed E = true -> (no_float E = true \/ float_leaves_agree dt) ->
  forall l t a, sty_closed E t = true -> c04_accepts_r dt E l t a = validate_coercion E dt l t a.
Proof.
  intros HC HF l t a C.
  pose proof (bridge_closed (tr_scalar_r dt) E dt (tr_env_r dt E)) as B.
  assert (HS : forall n td, aget n E = Some td -> Ast.raw_body (tr_env_r dt E) n = Some (tr_tdef_g (tr_scalar_r dt) td)).
  { intros n td G. unfold Ast.raw_body, Ast.raw_type, tr_env_r. rewrite assoc_tr_env, G. reflexivity. }
  specialize (B HS HC (leaves_agree_r E dt HF) l t a C). unfold c04_accepts_r, c04_accepts_g. exact B.
Qed.

(** ** with [float_leaves_agree] proved (Val/FloatText.v) no leaf hypothesis is left *)
From ApiFu Require Import Val.FloatText.

Theorem accepts_implies_static_ok_final E dt sf dname argdefs defs args :
  ahas n_Query E = false -> ahas n_Res E = false ->
  env_closed E = true ->
  (forall ad, In ad argdefs -> sty_closed E (in_type (snd ad)) = true) ->
  (forall def, In def defs -> leaf_name (vd_type def) <> n_Res) ->
  In dname dir_names ->
  c04_document_accepts_r dt E sf (if sf then None else Some dname) argdefs defs args = true ->
  static_ok all_fixed E dt sf argdefs defs args = true.
Proof.
  intros Hq Hr HC Hac. apply accepts_implies_static_ok_r; auto. right. apply float_leaves_agree_holds.
Qed.

Theorem bridge_closed_final E dt : env_closed E = true ->
  forall l t a, sty_closed E t = true -> c04_accepts_r dt E l t a = validate_coercion E dt l t a.
Proof. intros HC. apply bridge_closed_r; auto. right. apply float_leaves_agree_holds. Qed.

Theorem bridge_bridgeable_final E dt : bridgeable E = true ->
  forall l t a, c04_accepts E l t a = validate_coercion E dt l t a.
Proof. intros HB. apply bridge_bridgeable; auto. right. apply float_leaves_agree_holds. Qed.

(** the kind-level instances of the two node-level bridges (statements as in round 5) *)
Lemma usage_bridge_kind E dt sf argdefs defs :
  (forall def, In def defs -> type_known E (vd_type def) = true) ->
  forall l t a ld,
  validate_coercion E dt l t a = true ->
  ProofsTypeInfoValues.usage_errs true (tr_request_schema E sf argdefs)
    (map (TypeInfoModel.ti_vardef true (tr_request_schema E sf argdefs) []) (tr_vardefs 0 defs))
    false (Some (tr_sty t)) ld (tr_lit l) = [] ->
  usage_ok all_fixed E defs l (Some t) ld = true.
Proof. pose proof (usage_bridge tr_scalar E dt sf argdefs defs) as H. rewrite tr_request_schema_g_kind in H. exact H. Qed.

Lemma bridge_closed_kind E dt (S : Ast.schema) :
  (forall n td, aget n E = Some td -> Ast.raw_body S n = Some (tr_tdef td)) ->
  env_closed E = true -> leaves_agree E dt ->
  forall l t a, sty_closed E t = true ->
  match ValidatorModel.coercion ValidatorModel.repaired ValidatorModel.id_order S (tr_lit l) (tr_sty t) a with
  | ValidatorModel.VR [] => true
  | _ => false
  end = validate_coercion E dt l t a.
Proof. intros HS. apply (bridge_closed tr_scalar E dt S). intros n td G. rewrite tr_tdef_g_kind. apply HS. exact G. Qed.
