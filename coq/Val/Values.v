(** * Val/Values.v — the data the input-coercion model (C05) is written over.

    - names are their bytes ([bytes] of Base/Sexp.v) with a total order ([bytes_cmp]);
    - float64 values are exact dyadics [m * 2^e] (finite only: JSON cannot carry NaN/Inf and the
      literal coercers reject overflow), with the correctly rounded conversions the Go code
      performs ([strconv.ParseFloat], [float64(int)]) written out over [Z];
    - [lit]   : AST literals as the parser produces them (graphql/ast: Variable, IntValue, ...);
    - [jval]  : variable values as they arrive in [Request.VariableValues] (Go dynamic types);
    - [gval]  : Go-level coerced values as a resolver sees them (dynamic type matters);
    - [sty], [tdef], [env] : input types over a named type environment;
    - finite maps as strictly sorted association lists ([mset], [aget]).
    No proofs in this file. *)
From Coq Require Import List NArith ZArith Bool.
From ApiFu Require Import Base.Sexp.
Import ListNotations.

Definition name := bytes.

(** ** order on names *)
Fixpoint bytes_cmp (a b : bytes) : comparison :=
  match a, b with
  | [], [] => Eq
  | [], _ :: _ => Lt
  | _ :: _, [] => Gt
  | x :: xs, y :: ys => match N.compare x y with Eq => bytes_cmp xs ys | c => c end
  end.

(** ** association lists / finite maps *)
Fixpoint aget {A} (k : name) (l : list (name * A)) : option A :=
  match l with
  | [] => None
  | (k', v) :: r => if bytes_eqb k k' then Some v else aget k r
  end.

Definition ahas {A} (k : name) (l : list (name * A)) : bool :=
  match aget k l with Some _ => true | None => false end.

(** sorted insert-or-replace: the model of [m[k] = v] on a Go map, kept canonical *)
Fixpoint mset {A} (k : name) (v : A) (m : list (name * A)) : list (name * A) :=
  match m with
  | [] => [(k, v)]
  | (k', v') :: r =>
      match bytes_cmp k k' with
      | Lt => (k, v) :: m
      | Eq => (k, v) :: r
      | Gt => (k', v') :: mset k v r
      end
  end.

Fixpoint keys_sorted {A} (m : list (name * A)) : bool :=
  match m with
  | [] => true
  | (k, _) :: r =>
      match r with
      | [] => true
      | (k', _) :: _ => match bytes_cmp k k' with Lt => keys_sorted r | _ => false end
      end
  end.

(** ** float64 as exact dyadics *)
Record f64 := F64 { fm : Z; fe : Z }.        (* value fm * 2^fe *)

Fixpoint pos_strip (p : positive) : positive * Z :=
  match p with
  | xO q => let (r, k) := pos_strip q in (r, (k + 1)%Z)
  | _ => (p, 0%Z)
  end.

(** canonical form: mantissa odd, or 0 * 2^0 *)
Definition f64_norm (d : f64) : f64 :=
  match fm d with
  | Z0 => F64 0 0
  | Zpos p => let (r, k) := pos_strip p in F64 (Zpos r) (fe d + k)
  | Zneg p => let (r, k) := pos_strip p in F64 (Zneg r) (fe d + k)
  end.

Definition f64_eqb (a b : f64) : bool :=
  let a' := f64_norm a in let b' := f64_norm b in
  Z.eqb (fm a') (fm b') && Z.eqb (fe a') (fe b').

(** [Some z] when the (canonical) value is an integer *)
Definition f64_to_Z (d : f64) : option Z :=
  let d' := f64_norm d in
  if Z.leb 0 (fe d') then Some (fm d' * 2 ^ fe d')%Z else None.

(** round-to-nearest-even of the rational [n / d] to binary64; [None] on overflow (the Go parsers
    then report ErrRange).  Exponent floor -1074 (subnormals), 53-bit significand. *)

(** [a / (d * 2^e) = q + r/den] *)
Definition f64_quot (a : Z) (d : positive) (e : Z) : Z * Z * Z :=
  let num := if Z.leb 0 e then a else (a * 2 ^ (- e))%Z in
  let den := if Z.leb 0 e then (Zpos d * 2 ^ e)%Z else Zpos d in
  let (q, r) := Z.div_eucl num den in
  (q, r, den).

(** the exponent at which the quotient has 53 bits (or -1074 for subnormals) *)
Definition f64_exp (a : Z) (d : positive) : Z :=
  let l := (Z.log2 a - Z.log2 (Zpos d))%Z in
  let e0 := Z.max (l - 53) (-1074) in
  if Z.leb (2 ^ 53) (fst (fst (f64_quot a d e0))) then (e0 + 1)%Z else e0.

Definition f64_round (q r den : Z) : Z :=
  match Z.compare (2 * r) den with
  | Gt => (q + 1)%Z
  | Eq => if Z.odd q then (q + 1)%Z else q
  | Lt => q
  end.

Definition f64_of_Q (n : Z) (d : positive) : option f64 :=
  match n with
  | Z0 => Some (F64 0 0)
  | _ =>
      let a := Z.abs n in
      let e := f64_exp a d in
      match f64_quot a d e with
      | (q, r, den) =>
          let q' := f64_round q r den in
          if Z.leb (2 ^ 1024) (q' * 2 ^ (Z.max e 0))%Z then None
          else Some (f64_norm (F64 (if Z.ltb n 0 then - q' else q') e))
      end
  end.

(** Go's [float64(i)] for an [int] (never overflows) *)
Definition f64_of_Z (z : Z) : f64 :=
  match f64_of_Q z 1 with Some d => d | None => F64 0 0 end.

(** the value [m * 10^k] of a Float literal, as ParseFloat rounds it *)
Definition f64_of_decimal (m k : Z) : option f64 :=
  if Z.leb 0 k then f64_of_Q (m * 10 ^ k) 1
  else match (10 ^ (- k))%Z with Zpos d => f64_of_Q m d | _ => None end.

(** ** Go-level coerced values (what a resolver observes) *)
Inductive gval :=
| GNil                              (* untyped nil *)
| GNullSentinel                     (* schema.Null, only legal inside schema defaults *)
| GInt (z : Z)                      (* int *)
| GInt64 (z : Z)                    (* int64 *)
| GFloat (d : f64)                  (* float64 *)
| GString (s : bytes)
| GBool (b : bool)
| GTime (canon : bytes)             (* time.Time, by its RFC3339Nano rendering *)
| GList (vs : list gval)            (* []interface{} *)
| GMap (kvs : list (name * gval))   (* map[string]interface{}, sorted by key *)
| GTagged (tag : name) (v : gval)   (* harness struct: custom scalar payload, InputCoercion result, enum payload *)
| GOther.

Fixpoint gval_eqb (a b : gval) : bool :=
  match a, b with
  | GNil, GNil => true
  | GNullSentinel, GNullSentinel => true
  | GInt x, GInt y => Z.eqb x y
  | GInt64 x, GInt64 y => Z.eqb x y
  | GFloat x, GFloat y => f64_eqb x y
  | GString x, GString y => bytes_eqb x y
  | GBool x, GBool y => Bool.eqb x y
  | GTime x, GTime y => bytes_eqb x y
  | GList x, GList y =>
      (fix go (x y : list gval) : bool :=
         match x, y with
         | [], [] => true
         | p :: ps, q :: qs => gval_eqb p q && go ps qs
         | _, _ => false
         end) x y
  | GMap x, GMap y =>
      (fix go (x y : list (name * gval)) : bool :=
         match x, y with
         | [], [] => true
         | (k, p) :: ps, (k', q) :: qs => bytes_eqb k k' && gval_eqb p q && go ps qs
         | _, _ => false
         end) x y
  | GTagged t x, GTagged t' y => bytes_eqb t t' && gval_eqb x y
  | GOther, GOther => true
  | _, _ => false
  end.

Definition is_nil (g : gval) : bool := match g with GNil => true | _ => false end.

(** ** variable values as handed to the library ([Request.VariableValues]) *)
Inductive jval :=
| JNull
| JBool (b : bool)
| JNum (d : f64)                    (* float64: every JSON number *)
| JInt (z : Z)                      (* Go int (programmatic callers) *)
| JStr (s : bytes)
| JList (l : list jval)             (* []interface{} *)
| JObj (kvs : list (name * jval))   (* map[string]interface{} *)
| JOther.                           (* a Go value of a kind no coercer accepts (struct{}) *)

(** ** AST literals (graphql/ast values, positions dropped) *)
Inductive lit :=
| LVar (n : name)
| LInt (z : Z)                      (* IntValue: the integer its text denotes *)
| LFloat (m k : Z)                  (* FloatValue: m * 10^k *)
| LString (s : bytes)
| LBool (b : bool)
| LNull
| LEnum (n : name)
| LList (vs : list lit)
| LObject (fs : list (name * lit)).

(** ** input types over a named environment *)
Inductive scalar_kind := KInt | KFloat | KString | KBoolean | KID | KDateTime | KLongInt | KCustom.
Inductive sty := StNamed (n : name) | StList (t : sty) | StNonNull (t : sty).

(** InputCoercion hook of an input object: absent, a wrapper struct, or always failing *)
Inductive hook := HNone | HWrap (tag : name) | HFail.

(** InputValueDefinition: [in_default = None] is Go nil (no default), [Some GNullSentinel] is
    schema.Null, [Some v] any other Go value *)
Record in_def := { in_type : sty; in_default : option gval }.

Inductive tdef :=
| TScalar (k : scalar_kind)
| TEnum (vals : list (name * gval))
| TInput (fields : list (name * in_def)) (h : hook).

Definition env := list (name * tdef).

Definition is_nonnull (t : sty) : bool := match t with StNonNull _ => true | _ => false end.

Fixpoint sty_eqb (a b : sty) : bool :=
  match a, b with
  | StNamed x, StNamed y => bytes_eqb x y
  | StList x, StList y => sty_eqb x y
  | StNonNull x, StNonNull y => sty_eqb x y
  | _, _ => false
  end.

(** schema.NullableType *)
Fixpoint nullable_type (t : sty) : sty :=
  match t with StNonNull t' => nullable_type t' | _ => t end.

(** an operation's variable definition *)
Record vardef := { vd_name : name; vd_type : sty; vd_default : option lit }.

(** outcome of a coercion: Go's [(value, nil)], [(nil, err)], or a panic *)
Inductive res (A : Type) := Ok (a : A) | Err | Panic.
Arguments Ok {A} a.
Arguments Err {A}.
Arguments Panic {A}.

Definition rbind {A B} (r : res A) (f : A -> res B) : res B :=
  match r with Ok a => f a | Err => Err | Panic => Panic end.
