(** * Val/FloatExact.v — C05: an integer that a well-formed binary64 holds exactly is converted to
    exactly that binary64 ([f64_of_Q z 1], i.e. strconv.ParseFloat of the integer literal's text).
    Discharges the second conjunct of [same_value] for integer literals. *)
From Coq Require Import List ZArith Bool Lia.
From ApiFu Require Import Base.Sexp Val.Values.
Local Open Scope Z_scope.

(** a binary64 in the canonical form the harness and the model use: zero, or an odd mantissa below
    2^53 times 2^e with e >= -1074 and a finite value *)
Definition f64_wf (d : f64) : bool :=
  match fm d with
  | Z0 => Z.eqb (fe d) 0
  | _ => Z.odd (fm d) && Z.ltb (Z.abs (fm d)) (2 ^ 53) && Z.leb (-1074) (fe d)
         && Z.ltb (Z.abs (fm d) * 2 ^ (Z.max (fe d) 0)) (2 ^ 1024)
  end.

Lemma pos_strip_odd p : Z.odd (Zpos p) = true -> pos_strip p = (p, 0).
Proof. destruct p; simpl; auto; discriminate. Qed.

Lemma pos_strip_shift p : Z.odd (Zpos p) = true -> forall n : nat,
  pos_strip (Nat.iter n xO p) = (p, Z.of_nat n).
Proof.
  intros Hp. induction n as [|n IH].
  - simpl. apply pos_strip_odd; auto.
  - change (Nat.iter (S n) xO p) with (xO (Nat.iter n xO p)).
    change (pos_strip (xO (Nat.iter n xO p))) with (let (r, k) := pos_strip (Nat.iter n xO p) in (r, k + 1)).
    rewrite IH. f_equal. lia.
Qed.

Lemma iter_xO_val p (n : nat) : Zpos (Nat.iter n xO p) = Zpos p * 2 ^ Z.of_nat n.
Proof.
  induction n as [|n IH].
  - simpl. lia.
  - change (Nat.iter (S n) xO p) with (xO (Nat.iter n xO p)).
    rewrite Pos2Z.inj_xO, IH, Nat2Z.inj_succ, Z.pow_succ_r by lia. lia.
Qed.

Lemma f64_norm_wf d : f64_wf d = true -> f64_norm d = d.
Proof.
  destruct d as [m e]. unfold f64_wf, f64_norm. cbn [fm fe].
  destruct m as [|p|p].
  - intro H. apply Z.eqb_eq in H. subst. reflexivity.
  - intro H. repeat (apply andb_true_iff in H as [H ?]). rewrite (pos_strip_odd p H). f_equal. lia.
  - intro H. repeat (apply andb_true_iff in H as [H ?]).
    assert (Hp : Z.odd (Zpos p) = true) by (rewrite <- Z.odd_opp; exact H).
    rewrite (pos_strip_odd p Hp). f_equal. lia.
Qed.

(** the positive case: a = p * 2^e with p odd, p < 2^53, e >= 0 *)
Lemma f64_of_Q_exact_pos p e :
  Z.odd (Zpos p) = true -> Zpos p < 2 ^ 53 -> 0 <= e -> Zpos p * 2 ^ e < 2 ^ 1024 ->
  let a := Zpos p * 2 ^ e in
  let e1 := Z.log2 (Zpos p) + e - 52 in
  f64_exp a 1 = e1 /\
  f64_quot a 1 e1 = (Zpos p * 2 ^ (52 - Z.log2 (Zpos p)), 0, if Z.leb 0 e1 then 2 ^ e1 else 1).
Proof.
  intros Hodd Hlt He Hfin a e1.
  set (lm := Z.log2 (Zpos p)) in *.
  assert (Hlm : 0 <= lm <= 52).
  { subst lm. pose proof (Z.log2_nonneg (Zpos p)). assert (Z.log2 (Zpos p) < 53) by (apply Z.log2_lt_pow2; lia). lia. }
  assert (Hspec : 2 ^ lm <= Zpos p < 2 ^ (lm + 1)) by (subst lm; replace (Z.log2 (Zpos p) + 1) with (Z.succ (Z.log2 (Zpos p))) by lia; apply Z.log2_spec; lia).
  assert (Hpe : 0 < 2 ^ e) by (apply Z.pow_pos_nonneg; lia).
  assert (La : Z.log2 a = lm + e).
  { subst a lm. rewrite Z.log2_mul_pow2 by lia. lia. }
  assert (Quot : forall x, x <= e -> lm + e - 53 <= x ->
            f64_quot a 1 x = (Zpos p * 2 ^ (e - x), 0, if Z.leb 0 x then 2 ^ x else 1)).
  { intros x Hx Hx'. unfold f64_quot.
    destruct (Z.leb_spec 0 x) as [P|N].
    - assert (Ea : a = (Zpos p * 2 ^ (e - x)) * (1 * 2 ^ x) + 0).
      { subst a. replace e with ((e - x) + x) at 1 by lia. rewrite Z.pow_add_r by lia. lia. }
      assert (Px : 0 < 1 * 2 ^ x) by (assert (0 < 2 ^ x) by (apply Z.pow_pos_nonneg; lia); lia).
      pose proof (Z.div_eucl_eq a (1 * 2 ^ x) ltac:(lia)) as Eq.
      pose proof (Z.mod_pos_bound a (1 * 2 ^ x) Px) as Bd. unfold Z.modulo in Bd.
      destruct (Z.div_eucl a (1 * 2 ^ x)) as [q r].
      assert (q = Zpos p * 2 ^ (e - x) /\ r = 0).
      { apply (Z.div_mod_unique (1 * 2 ^ x)); lia. }
      destruct H as [-> ->]. replace (1 * 2 ^ x) with (2 ^ x) by lia. reflexivity.
    - assert (Ea : a * 2 ^ (- x) = Zpos p * 2 ^ (e - x)).
      { subst a. replace (e - x) with (e + - x) by lia. rewrite Z.pow_add_r by lia. lia. }
      rewrite Ea.
      pose proof (Z.div_eucl_eq (Zpos p * 2 ^ (e - x)) 1 ltac:(lia)) as Eq.
      pose proof (Z.mod_pos_bound (Zpos p * 2 ^ (e - x)) 1 ltac:(lia)) as Bd. unfold Z.modulo in Bd.
      destruct (Z.div_eucl (Zpos p * 2 ^ (e - x)) 1) as [q r].
      assert (r = 0) by lia. assert (q = Zpos p * 2 ^ (e - x)) by lia. subst r q. reflexivity. }
  assert (Exp : f64_exp a 1 = e1).
  { unfold f64_exp. change (Z.log2 1) with 0. rewrite Z.sub_0_r, La.
    rewrite Z.max_l by lia.
    rewrite (Quot (lm + e - 53)) by lia. cbn [fst].
    replace (e - (lm + e - 53)) with (53 - lm) by lia.
    assert (2 ^ 53 <= Zpos p * 2 ^ (53 - lm)).
    { replace (2 ^ 53) with (2 ^ lm * 2 ^ (53 - lm)) by (rewrite <- Z.pow_add_r by lia; f_equal; lia).
      apply Z.mul_le_mono_nonneg_r; [apply Z.pow_nonneg|]; lia. }
    destruct (Z.leb_spec (2 ^ 53) (Zpos p * 2 ^ (53 - lm))); [subst e1; lia|lia]. }
  split; [exact Exp|].
  subst e1. rewrite (Quot (lm + e - 52)) by lia. f_equal. f_equal. f_equal. f_equal. lia.
Qed.

Lemma pow2_iter k : 0 <= k -> forall p, Zpos p * 2 ^ k = Zpos (Nat.iter (Z.to_nat k) xO p).
Proof. intros Hk p. rewrite iter_xO_val, Z2Nat.id by lia. reflexivity. Qed.

Theorem f64_of_Q_exact d z : f64_wf d = true -> f64_to_Z d = Some z -> f64_of_Q z 1 = Some d.
Proof.
  intros W T. pose proof (f64_norm_wf d W) as Nd. unfold f64_to_Z in T. rewrite Nd in T.
  destruct d as [m e]. cbn [fm fe] in *. unfold f64_wf in W. cbn [fm fe] in W.
  destruct (Z.leb_spec 0 e) as [He|]; [|discriminate]. inversion T; subst z; clear T.
  destruct m as [|p|p].
  - apply Z.eqb_eq in W. subst. reflexivity.
  - repeat (apply andb_true_iff in W as [W ?]).
    rewrite Z.max_l in * by lia. cbn [Z.abs] in *.
    match goal with X : (_ <? 2 ^ 1024) = true |- _ => apply Z.ltb_lt in X; rename X into Hfin end.
    match goal with X : (_ <? 2 ^ 53) = true |- _ => apply Z.ltb_lt in X; rename X into Hlt end.
    destruct (f64_of_Q_exact_pos p e W Hlt He Hfin) as [Exp Quot]. cbv zeta in Exp, Quot.
    assert (Hpos : 0 < Zpos p * 2 ^ e) by (assert (0 < 2 ^ e) by (apply Z.pow_pos_nonneg; lia); lia).
    unfold f64_of_Q. destruct (Zpos p * 2 ^ e) as [|a|a] eqn:Ea; try lia.
    cbn [Z.abs]. rewrite Exp, Quot. cbv zeta.
    set (lm := Z.log2 (Zpos p)) in *.
    assert (Hlm : 0 <= lm <= 52).
    { subst lm. pose proof (Z.log2_nonneg (Zpos p)). assert (Z.log2 (Zpos p) < 53) by (apply Z.log2_lt_pow2; lia). lia. }
    assert (Rd : forall q den, 0 < den -> f64_round q 0 den = q).
    { intros q den Hd. unfold f64_round. replace (2 * 0) with 0 by lia. destruct (Z.compare_spec 0 den); lia. }
    rewrite Rd by (destruct (Z.leb_spec 0 (lm + e - 52)); [apply Z.pow_pos_nonneg; lia|lia]).
    assert (Ov : (2 ^ 1024 <=? Zpos p * 2 ^ (52 - lm) * 2 ^ Z.max (lm + e - 52) 0) = false).
    { apply Z.leb_gt. destruct (Z.max_spec (lm + e - 52) 0) as [[? ->]|[? ->]].
      - assert (Zpos p * 2 ^ (52 - lm) < 2 ^ 53 * 2 ^ 52).
        { assert (2 ^ (52 - lm) <= 2 ^ 52) by (apply Z.pow_le_mono_r; lia).
          assert (0 < 2 ^ (52 - lm)) by (apply Z.pow_pos_nonneg; lia). nia. }
        assert (2 ^ 53 * 2 ^ 52 < 2 ^ 1024) by (vm_compute; reflexivity). lia.
      - rewrite <- Z.mul_assoc, <- Z.pow_add_r by lia. replace (52 - lm + (lm + e - 52)) with e by lia. lia. }
    rewrite Ov. f_equal.
    assert (Sg : Zpos a <? 0 = false) by (apply Z.ltb_ge; lia). rewrite Sg.
    rewrite (pow2_iter (52 - lm)) by lia. unfold f64_norm. cbn [fm fe].
    rewrite (pos_strip_shift p W). f_equal. rewrite Z2Nat.id by lia. lia.
  - repeat (apply andb_true_iff in W as [W ?]).
    rewrite Z.max_l in * by lia. cbn [Z.abs] in *.
    match goal with X : (_ <? 2 ^ 1024) = true |- _ => apply Z.ltb_lt in X; rename X into Hfin end.
    match goal with X : (_ <? 2 ^ 53) = true |- _ => apply Z.ltb_lt in X; rename X into Hlt end.
    assert (Wp : Z.odd (Zpos p) = true) by (rewrite <- Z.odd_opp; exact W).
    destruct (f64_of_Q_exact_pos p e Wp Hlt He Hfin) as [Exp Quot]. cbv zeta in Exp, Quot.
    assert (Hpos : 0 < Zpos p * 2 ^ e) by (assert (0 < 2 ^ e) by (apply Z.pow_pos_nonneg; lia); lia).
    assert (En : Zneg p * 2 ^ e = - (Zpos p * 2 ^ e)) by lia.
    unfold f64_of_Q. rewrite En. destruct (Zpos p * 2 ^ e) as [|a|a] eqn:Ea; try lia.
    cbn [Z.opp Z.abs]. rewrite Exp, Quot. cbv zeta.
    set (lm := Z.log2 (Zpos p)) in *.
    assert (Hlm : 0 <= lm <= 52).
    { subst lm. pose proof (Z.log2_nonneg (Zpos p)). assert (Z.log2 (Zpos p) < 53) by (apply Z.log2_lt_pow2; lia). lia. }
    assert (Rd : forall q den, 0 < den -> f64_round q 0 den = q).
    { intros q den Hd. unfold f64_round. replace (2 * 0) with 0 by lia. destruct (Z.compare_spec 0 den); lia. }
    rewrite Rd by (destruct (Z.leb_spec 0 (lm + e - 52)); [apply Z.pow_pos_nonneg; lia|lia]).
    assert (Ov : (2 ^ 1024 <=? Zpos p * 2 ^ (52 - lm) * 2 ^ Z.max (lm + e - 52) 0) = false).
    { apply Z.leb_gt. destruct (Z.max_spec (lm + e - 52) 0) as [[? ->]|[? ->]].
      - assert (Zpos p * 2 ^ (52 - lm) < 2 ^ 53 * 2 ^ 52).
        { assert (2 ^ (52 - lm) <= 2 ^ 52) by (apply Z.pow_le_mono_r; lia).
          assert (0 < 2 ^ (52 - lm)) by (apply Z.pow_pos_nonneg; lia). nia. }
        assert (2 ^ 53 * 2 ^ 52 < 2 ^ 1024) by (vm_compute; reflexivity). lia.
      - rewrite <- Z.mul_assoc, <- Z.pow_add_r by lia. replace (52 - lm + (lm + e - 52)) with e by lia. lia. }
    rewrite Ov. f_equal.
    assert (Sg : Zneg a <? 0 = true) by (apply Z.ltb_lt; lia). rewrite Sg.
    rewrite (pow2_iter (52 - lm)) by lia. unfold f64_norm. cbn [fm fe Z.opp].
    rewrite (pos_strip_shift p Wp). f_equal. rewrite Z2Nat.id by lia. lia.
Qed.
