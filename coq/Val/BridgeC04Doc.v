(** * Val/BridgeC04Doc.v — C05 x C04, document level: what C04's per-node checks, silent on the
    translated request, give for the conjuncts of C05's [static_ok].
    Proved: the arguments rule on the node ([args_node]) gives the three validateArguments
    conjuncts; the values rule ([coercion] at the declared types) gives the two validateValues
    conjuncts (through BridgeC04Proofs); [types_compatible] and [variable_usage] are the same
    functions on both sides.  Not proved (the named gap): that C04's NewTypeInfo annotates the
    argument values and the variable usages nested in them with exactly the expected types C05's
    [usage_ok] propagates, and C04's [inspect] traversal of the translated document; the
    verdict of the whole pipeline is evaluated on every case instead ([c04_document_accepts]). *)
From Coq Require Import List NArith ZArith Bool.
From ApiFu Require Import Base.Sexp Val.Values Val.MapFacts Val.CoerceModel Val.CoerceProofs Val.CoerceComplete
     Val.BridgeC04 Val.BridgeC04Proofs.
From ApiFu Require Vld.Ast Vld.ValidatorModel.
Import ListNotations.

(** ** areTypesCompatible *)
Lemma sty_eqb_tr a b : Ast.sty_eqb (tr_sty a) (tr_sty b) = sty_eqb a b.
Proof. revert b. induction a; destruct b; simpl; auto. Qed.

Lemma types_compatible_tr : forall vt lt,
  ValidatorModel.types_compatible (tr_sty vt) (tr_sty lt) = types_compatible lt vt.
Proof.
  induction vt as [vn|vt' IH|vt' IH]; intros lt; rewrite (tc_eq lt); destruct lt as [ln|lt'|lt'];
    cbn [tr_sty ValidatorModel.types_compatible]; try reflexivity.
  - apply IH.
  - apply (IH (StNamed ln)).
  - apply (IH (StList lt')).
  - apply IH.
Qed.

(** ** validateVariableUsage, given the annotations NewTypeInfo is supposed to compute *)
Lemma is_null_tr l : Ast.is_null (tr_lit l) = match l with LNull => true | _ => false end.
Proof. destruct l; reflexivity. Qed.

Lemma variable_usage_tr E (def : vardef) (d' : Ast.vardef) loc ld dollar :
  Ast.vd_ann d' = Some (tr_sty (vd_type def)) ->
  Ast.vd_default d' = option_map tr_lit (vd_default def) ->
  type_known E (vd_type def) = true ->
  nil_b (ValidatorModel.variable_usage d' {| Ast.va_expected := Some (tr_sty loc); Ast.va_default := ld; Ast.va_scalar := false |} dollar)
  = var_usage_ok E def loc ld.
Proof.
  intros Ha Hd Tk. unfold ValidatorModel.variable_usage, var_usage_ok. rewrite Ha, Hd, Tk. cbn [Ast.va_expected Ast.va_default andb].
  destruct loc as [ln|lt'|lt']; cbn [tr_sty].
  - change (Ast.StNamed ln) with (tr_sty (StNamed ln)).
    rewrite types_compatible_tr. destruct (types_compatible (StNamed ln) (vd_type def)); reflexivity.
  - change (Ast.StList (tr_sty lt')) with (tr_sty (StList lt')).
    rewrite (types_compatible_tr (vd_type def) (StList lt')). destruct (types_compatible (StList lt') (vd_type def)); reflexivity.
  - rewrite is_nonnull_tr. destruct (is_nonnull (vd_type def)); cbn [negb].
    + change (Ast.StNonNull (tr_sty lt')) with (tr_sty (StNonNull lt')).
      rewrite (types_compatible_tr (vd_type def) (StNonNull lt')). destruct (types_compatible (StNonNull lt') (vd_type def)); reflexivity.
    + rewrite types_compatible_tr.
      destruct (vd_default def) as [dl|]; cbn [option_map].
      * rewrite is_null_tr. destruct dl; cbn [negb orb andb]; destruct ld; cbn [negb orb andb];
          destruct (types_compatible lt' (vd_type def)); reflexivity.
      * destruct ld; cbn [negb orb andb]; destruct (types_compatible lt' (vd_type def)); reflexivity.
Qed.

(** ** validateArguments on the node: silent -> the three conjuncts of [static_ok] *)
Lemma assoc_tr_argdefs argdefs n : Ast.assoc n (tr_argdefs argdefs) = option_map tr_indef (aget n argdefs).
Proof. apply assoc_tr_fields. Qed.

Lemma a_names_tr : forall args i, map Ast.a_name (tr_args i args) = map fst args.
Proof. induction args as [|[n l] r IH]; intro i; simpl; [reflexivity|]. rewrite IH. reflexivity. Qed.

Lemma existsb_ext' {A} (f g : A -> bool) l : (forall x, f x = g x) -> existsb f l = existsb g l.
Proof. intro H. induction l as [|x r IH]; simpl; [reflexivity|]. rewrite H, IH. reflexivity. Qed.

Lemma args_given_silent defs : forall args by0 by1,
  ValidatorModel.args_given defs args by0 = ([], by1) ->
  (forall a, In a args -> Ast.assoc (Ast.a_name a) defs <> None) /\
  dups (map fst by0) (map Ast.a_name args) = false /\
  map fst by1 = map fst by0 ++ map Ast.a_name args.
Proof.
  induction args as [|a r IH]; intros by0 by1 H.
  - inversion H; subst. simpl. rewrite app_nil_r. repeat split; auto; intros a [] .
  - cbn [ValidatorModel.args_given] in H.
    destruct (Ast.assoc (Ast.a_name a) defs) as [d|] eqn:Hd.
    + destruct (Ast.assoc (Ast.a_name a) by0) as [x|] eqn:Hb.
      * destruct (ValidatorModel.args_given defs r by0) as [e b]. inversion H.
      * destruct (IH _ _ H) as (K & D & M). repeat split.
        -- intros a' [<-|Hin]; [congruence|auto].
        -- cbn [map dups]. rewrite map_app in D. cbn [map] in D.
           assert (Nm : Ast.mem (Ast.a_name a) (map fst by0) = false).
           { clear -Hb. induction by0 as [|[k v] l IHl]; simpl in *; auto.
             destruct (Ast.name_eqb (Ast.a_name a) k); [discriminate|auto]. }
           rewrite Nm. cbn [orb]. rewrite dups_spec in D |- *.
           apply orb_false_iff in D as [D1 D2]. apply orb_false_iff. split; auto.
           rewrite <- D1. apply existsb_ext'. intros x. unfold Ast.mem. rewrite existsb_app. simpl.
           rewrite orb_false_r. apply orb_comm.
        -- rewrite M, map_app. cbn [map]. rewrite <- app_assoc. reflexivity.
    + destruct (ValidatorModel.args_given defs r by0) as [e b]. inversion H.
Qed.

Lemma assoc_in_names {A} n (l : list (Ast.name * A)) x : Ast.assoc n l = Some x -> Ast.mem n (map fst l) = true.
Proof.
  induction l as [|[k v] r IH]; simpl; [discriminate|]. unfold Ast.mem in *. simpl.
  destruct (Ast.name_eqb n k); [reflexivity|auto].
Qed.

Lemma mem_map_fst_ahas {A} x (l : list (name * A)) : Ast.mem x (map fst l) = ahas x l.
Proof.
  unfold Ast.mem, ahas. induction l as [|[k v] r IH]; simpl; [reflexivity|].
  unfold Ast.name_eqb in *. destruct (bytes_eqb x k); simpl; auto.
Qed.

Lemma args_node_silent q A D p :
  fst (ValidatorModel.args_node q ValidatorModel.id_order [] A D p) = [] ->
  fst (ValidatorModel.args_given D A []) = [] /\
  ValidatorModel.args_required ValidatorModel.id_order D (snd (ValidatorModel.args_given D A [])) p = [].
Proof.
  unfold ValidatorModel.args_node. destruct A as [|a0 ar]; destruct D as [|d0 dr];
    try (intros _; split; reflexivity);
    (destruct (ValidatorModel.args_given _ _ []) as [e1 by1]; cbn [fst snd app]; intro H;
     apply app_eq_nil in H as [He Hr]; split; assumption).
Qed.

(** the first five conjuncts of [static_ok]: validateArguments and validateValues *)
Definition static_ok_arguments_values (E : env) (dt : bytes -> option bytes)
           (argdefs : list (name * in_def)) (defs : list vardef) (args : list (name * lit)) : bool :=
  forallb (fun a : name * lit => ahas (fst a) argdefs) args
  && negb (has_dup (map fst args))
  && forallb (fun ad : name * in_def =>
                negb (is_nonnull (in_type (snd ad)) && match in_default (snd ad) with None => true | Some _ => false end)
                || ahas (fst ad) args) argdefs
  && forallb (fun a : name * lit =>
                match aget (fst a) argdefs with
                | Some d => validate_coercion E dt (snd a) (in_type d) true
                | None => false
                end) args
  && forallb (fun def : vardef =>
                match vd_default def with
                | Some dflt => type_known E (vd_type def) && validate_coercion E dt dflt (vd_type def) true
                | None => true
                end) defs.

(** validateArguments on the node, silent: the three conjuncts, for any argument list with the
    request's argument names (annotated or not) *)
Lemma node_conjuncts argdefs (args : list (name * lit)) (A' : list Ast.argument) p :
  map Ast.a_name A' = map fst args ->
  fst (ValidatorModel.args_node ValidatorModel.repaired ValidatorModel.id_order [] A' (tr_argdefs argdefs) p) = [] ->
  (forall a, In a args -> ahas (fst a) argdefs = true) /\ has_dup (map fst args) = false /\
  (forall ad, In ad argdefs ->
     is_nonnull (in_type (snd ad)) && match in_default (snd ad) with None => true | Some _ => false end = true ->
     ahas (fst ad) args = true).
Proof.
  intros Hnm Hn.
  apply args_node_silent in Hn as [He Hr].
    destruct (ValidatorModel.args_given (tr_argdefs argdefs) A' []) as [e1 by1] eqn:G.
    cbn [fst snd] in He, Hr. subst e1.
      destruct (args_given_silent _ _ _ _ G) as (K & D & M). cbn [map app] in D, M.
      rewrite Hnm in D, M. rewrite dups_nil in D.
      repeat split; auto.
      + intros [n l] Hin.
        assert (Hx : In n (map Ast.a_name A')) by (rewrite Hnm; apply (in_map fst _ _ Hin)).
        apply in_map_iff in Hx as (a & <- & Ha). specialize (K a Ha). rewrite assoc_tr_argdefs in K.
        simpl. unfold ahas. destruct (aget (Ast.a_name a) argdefs); [reflexivity|contradiction].
      + intros [k d] Hin Rq. simpl in Rq |- *.
        unfold ValidatorModel.args_required, ValidatorModel.id_order in Hr.
        assert (Y : forall nd, In nd (tr_argdefs argdefs) -> ValidatorModel.required_arg (snd nd) = true ->
                               Ast.assoc (fst nd) by1 <> None).
        { intros nd Hnd Rn Z. assert (In (Ast.err Ast.EArgRequired p) (flat_map (fun nd0 => if ValidatorModel.required_arg (snd nd0)
              then match Ast.assoc (fst nd0) by1 with None => [Ast.err Ast.EArgRequired p]
                   | Some a => if Ast.is_null (Ast.a_value a) then [Ast.sec Ast.EArgNull2 (Ast.v_pos (Ast.a_value a))] else [] end else []) (tr_argdefs argdefs))).
          { apply in_flat_map. exists nd. split; auto. rewrite Rn, Z. left; reflexivity. }
          rewrite Hr in H. contradiction. }
        assert (Hk : In (k, tr_indef d) (tr_argdefs argdefs)) by (unfold tr_argdefs; apply in_map_iff; exists (k, d); auto).
        specialize (Y _ Hk). simpl in Y. rewrite required_arg_tr, Rq in Y. specialize (Y eq_refl).
        destruct (Ast.assoc k by1) as [a|] eqn:Ab; [|contradiction].
        apply assoc_in_names in Ab. rewrite M in Ab. rewrite mem_map_fst_ahas in Ab. exact Ab.
Qed.

Theorem arguments_values_from_c04_gen E dt argdefs defs args (A' : list Ast.argument) p :
  map Ast.a_name A' = map fst args ->
  bridgeable E = true -> (no_float E = true \/ float_leaves_agree dt) ->
  (* validateArguments on the node is silent *)
  fst (ValidatorModel.args_node ValidatorModel.repaired ValidatorModel.id_order [] A' (tr_argdefs argdefs) p) = [] ->
  (* validateValues: validateCoercion is silent on every argument value at its declared type ... *)
  (forall a d, In a args -> aget (fst a) argdefs = Some d -> c04_accepts E (snd a) (in_type d) true = true) ->
  (* ... and on every variable default at the variable's (known) type *)
  (forall def dflt, In def defs -> vd_default def = Some dflt ->
                    type_known E (vd_type def) = true /\ c04_accepts E dflt (vd_type def) true = true) ->
  static_ok_arguments_values E dt argdefs defs args = true.
Proof.
  intros Hnm HB HF Hn Hv Hd. unfold static_ok_arguments_values.
  assert (Br : forall l t, c04_accepts E l t true = validate_coercion E dt l t true) by (intros; apply bridge_bridgeable; auto).
  (* the node *)
  assert (N : (forall a, In a args -> ahas (fst a) argdefs = true) /\ has_dup (map fst args) = false /\
              (forall ad, In ad argdefs ->
                 is_nonnull (in_type (snd ad)) && match in_default (snd ad) with None => true | Some _ => false end = true ->
                 ahas (fst ad) args = true)).
  { apply args_node_silent in Hn as [He Hr].
    destruct (ValidatorModel.args_given (tr_argdefs argdefs) A' []) as [e1 by1] eqn:G.
    cbn [fst snd] in He, Hr. subst e1.
      destruct (args_given_silent _ _ _ _ G) as (K & D & M). cbn [map app] in D, M.
      rewrite Hnm in D, M. rewrite dups_nil in D.
      repeat split; auto.
      + intros [n l] Hin.
        assert (Hx : In n (map Ast.a_name A')) by (rewrite Hnm; apply (in_map fst _ _ Hin)).
        apply in_map_iff in Hx as (a & <- & Ha). specialize (K a Ha). rewrite assoc_tr_argdefs in K.
        simpl. unfold ahas. destruct (aget (Ast.a_name a) argdefs); [reflexivity|contradiction].
      + intros [k d] Hin Rq. simpl in Rq |- *.
        unfold ValidatorModel.args_required, ValidatorModel.id_order in Hr.
        assert (Y : forall nd, In nd (tr_argdefs argdefs) -> ValidatorModel.required_arg (snd nd) = true ->
                               Ast.assoc (fst nd) by1 <> None).
        { intros nd Hnd Rn Z. assert (In (Ast.err Ast.EArgRequired p) (flat_map (fun nd0 => if ValidatorModel.required_arg (snd nd0)
              then match Ast.assoc (fst nd0) by1 with None => [Ast.err Ast.EArgRequired p]
                   | Some a => if Ast.is_null (Ast.a_value a) then [Ast.sec Ast.EArgNull2 (Ast.v_pos (Ast.a_value a))] else [] end else []) (tr_argdefs argdefs))).
          { apply in_flat_map. exists nd. split; auto. rewrite Rn, Z. left; reflexivity. }
          rewrite Hr in H. contradiction. }
        assert (Hk : In (k, tr_indef d) (tr_argdefs argdefs)) by (unfold tr_argdefs; apply in_map_iff; exists (k, d); auto).
        specialize (Y _ Hk). simpl in Y. rewrite required_arg_tr, Rq in Y. specialize (Y eq_refl).
        destruct (Ast.assoc k by1) as [a|] eqn:Ab; [|contradiction].
        apply assoc_in_names in Ab. rewrite M in Ab. rewrite mem_map_fst_ahas in Ab. exact Ab. }
  destruct N as (N1 & N2 & N3).
  repeat (apply andb_true_iff; split).
  - apply forallb_forall. auto.
  - apply negb_true_iff. exact N2.
  - apply forallb_forall. intros ad Hin.
    destruct (is_nonnull (in_type (snd ad)) && match in_default (snd ad) with None => true | Some _ => false end) eqn:Rq; [|reflexivity].
    rewrite (N3 ad Hin Rq). apply orb_true_r.
  - apply forallb_forall. intros a Hin. pose proof (N1 a Hin) as Ha.
    change (ahas (fst a) argdefs = true) in Ha. unfold ahas in Ha.
    destruct (aget (fst a) argdefs) as [d|] eqn:G; [|discriminate]. rewrite <- Br. eapply Hv; eauto.
  - apply forallb_forall. intros def Hin. destruct (vd_default def) as [dflt|] eqn:D; [|reflexivity].
    destruct (Hd def dflt Hin D) as [Tk C]. rewrite Tk, <- Br, C. reflexivity.
Qed.

Theorem arguments_values_from_c04 E dt argdefs defs args p :
  bridgeable E = true -> (no_float E = true \/ float_leaves_agree dt) ->
  fst (ValidatorModel.args_node ValidatorModel.repaired ValidatorModel.id_order [] (tr_args 0 args) (tr_argdefs argdefs) p) = [] ->
  (forall a d, In a args -> aget (fst a) argdefs = Some d -> c04_accepts E (snd a) (in_type d) true = true) ->
  (forall def dflt, In def defs -> vd_default def = Some dflt ->
                    type_known E (vd_type def) = true /\ c04_accepts E dflt (vd_type def) true = true) ->
  static_ok_arguments_values E dt argdefs defs args = true.
Proof. apply arguments_values_from_c04_gen. apply a_names_tr. Qed.

(** [static_ok] is these five conjuncts and the four of validateVariables *)
Lemma static_ok_split fx E dt site argdefs defs args :
  static_ok fx E dt site argdefs defs args =
  static_ok_arguments_values E dt argdefs defs args
  && negb (has_dup (map vd_name defs))
  && forallb (fun def : vardef => type_known E (vd_type def)) defs
  && forallb (fun a : name * lit =>
                match aget (fst a) argdefs with
                | Some d => usage_ok fx E defs (snd a) (Some (in_type d)) (arg_loc_default site d)
                | None => false
                end) args
  && forallb (fun def : vardef =>
                existsb (fun a : name * lit => existsb (bytes_eqb (vd_name def)) (lit_vars (snd a))) args) defs.
Proof. reflexivity. Qed.
