(** * Val/Rfc3339Facts.v — C05: a string the DateTime model accepts names a real calendar date. *)
From Coq Require Import List NArith Bool.
From ApiFu Require Import Base.Sexp Val.Rfc3339.
Import ListNotations.
Local Open Scope N_scope.

Theorem accepted_is_calendar_date s : rfc3339_go s = true ->
  exists y1 y2 y3 y4 m1 m2 d1 d2 r,
    s = y1 :: y2 :: y3 :: y4 :: 45 :: m1 :: m2 :: 45 :: d1 :: d2 :: 84 :: r /\
    isd y1 && isd y2 && isd y3 && isd y4 && isd m1 && isd m2 && isd d1 && isd d2 = true /\
    1 <= num2 m1 m2 <= 12 /\
    1 <= num2 d1 d2 <= days_in (num2 m1 m2) (1000 * dv y1 + 100 * dv y2 + 10 * dv y3 + dv y4) /\
    time_ok r = true.
Proof.
  intro H. unfold rfc3339_go in H. Opaque isd.
  do 11 (destruct s as [|? s]; [discriminate|]).
  cbv zeta in H. repeat (apply andb_true_iff in H as [H ?]).
  repeat match goal with X : _ && _ = true |- _ => apply andb_true_iff in X as [? ?] end.
  repeat match goal with X : N.eqb _ _ = true |- _ => apply N.eqb_eq in X; subst end.
  repeat match goal with X : N.leb _ _ = true |- _ => apply N.leb_le in X end.
  do 9 eexists. split; [reflexivity|]. split.
  - repeat (apply andb_true_iff; split); assumption.
  - repeat split; assumption.
Qed.
Transparent isd.
