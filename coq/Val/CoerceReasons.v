(** * Val/CoerceReasons.v — C05: the vocabulary of static_dynamic_agree.  The run-time reasons
    that are left for a coercion error once a document has passed validation.  Definitions only
    (executable: the check tags every run-time error with its reason). *)
From Coq Require Import List NArith ZArith Bool.
From ApiFu Require Import Base.Sexp Val.Values Val.CoerceModel.
Import ListNotations.

(** the variables that stand directly as an item of a list literal, anywhere inside [l] *)
Fixpoint item_vars (l : lit) : list name :=
  match l with
  | LList vs => flat_map (fun v => match v with LVar n => [n] | _ => item_vars v end) vs
  | LObject fs => flat_map (fun p : name * lit => item_vars (snd p)) fs
  | _ => []
  end.

(** some variable used by the arguments has the run-time value null *)
Definition null_variable (vv : cvars) (args : list (name * lit)) : bool :=
  existsb (fun a : name * lit =>
             existsb (fun v => match aget v vv with Some g => is_nil g | None => false end) (lit_vars (snd a))) args.

(** some variable used as an item of a list literal has no run-time value *)
Definition absent_item_variable (vv : cvars) (args : list (name * lit)) : bool :=
  existsb (fun a : name * lit => existsb (fun v => negb (ahas v vv)) (item_vars (snd a))) args.

(** some input object type of the schema has an InputCoercion hook that refuses *)
Definition is_hfail (h : hook) : bool := match h with HFail => true | _ => false end.
Definition refusing_hook (E : env) : bool :=
  existsb (fun p : name * tdef => match snd p with TInput _ h => is_hfail h | _ => false end) E.

(** precisely: coercing the literal [l] at type [t] applies a refusing hook, i.e. an object literal
    of the request stands where an input object type with such a hook is expected *)
Section HookHit.
  Variable E : env.
  Fixpoint hook_hit (l : lit) : sty -> bool :=
    fix on_ty (t : sty) {struct t} : bool :=
      match l with
      | LVar _ => false
      | LNull => false
      | _ =>
          match t with
          | StNonNull t' => on_ty t'
          | StList t' =>
              match l with
              | LList vs => existsb (fun v => hook_hit v t') vs
              | _ => on_ty t'
              end
          | StNamed n =>
              match aget n E with
              | Some (TInput fields h) =>
                  match l with
                  | LObject fs =>
                      is_hfail h
                      || existsb (fun p : name * lit =>
                                    match aget (fst p) fields with
                                    | Some fd => hook_hit (snd p) (in_type fd)
                                    | None => false
                                    end) fs
                  | _ => false
                  end
              | _ => false
              end
          end
      end.

  (** an argument literal of the request reaches a refusing hook *)
  Definition hook_reached_args (argdefs : list (name * in_def)) (args : list (name * lit)) : bool :=
    existsb (fun a : name * lit =>
               match aget (fst a) argdefs with
               | Some d => hook_hit (snd a) (in_type d)
               | None => false
               end) args.

  (** the default value of a variable that has no raw value reaches a refusing hook *)
  Definition hook_reached_defaults (defs : list vardef) (raw : list (name * jval)) : bool :=
    existsb (fun def =>
               match aget (vd_name def) raw, vd_default def with
               | None, Some l => hook_hit l (vd_type def)
               | _, _ => false
               end) defs.
End HookHit.

(** a raw variable value that does not coerce, or a required variable without value and default *)
Definition bad_variable_value (fx : fixes) (E : env) (dt : bytes -> option bytes)
           (defs : list vardef) (raw : list (name * jval)) : bool :=
  existsb (fun def =>
             match aget (vd_name def) raw with
             | Some j => match coerce_var_value fx E dt j (vd_type def) true with Err => true | _ => false end
             | None => match vd_default def with None => is_nonnull (vd_type def) | Some _ => false end
             end) defs.

(** their disjunction, for the whole request *)
Definition runtime_reason (E : env) (dt : bytes -> option bytes) (defs : list vardef)
           (args : list (name * lit)) (raw : list (name * jval)) : bool :=
  bad_variable_value all_fixed E dt defs raw
  || match coerce_variable_values all_fixed E dt defs raw with
     | Ok vv => null_variable vv args || absent_item_variable vv args
     | _ => false
     end
  || refusing_hook E.


(** the same with the hook reason made precise *)
Definition runtime_reason_precise (E : env) (dt : bytes -> option bytes) (argdefs : list (name * in_def))
           (defs : list vardef) (args : list (name * lit)) (raw : list (name * jval)) : bool :=
  bad_variable_value all_fixed E dt defs raw
  || hook_reached_defaults E defs raw
  || match coerce_variable_values all_fixed E dt defs raw with
     | Ok vv => null_variable vv args || absent_item_variable vv args || hook_reached_args E argdefs args
     | _ => false
     end.
