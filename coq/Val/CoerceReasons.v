(** * Val/CoerceReasons.v — C05: the vocabulary of static_dynamic_agree.  The run-time reasons
    that are left for a coercion error once a document has passed validation.  Definitions only
    (executable: the check tags every run-time error with its reason). *)
From Coq Require Import List NArith ZArith Bool.
From ApiFu Require Import Base.Sexp Val.Values Val.CoerceModel.
Import ListNotations.

(** the variables that stand directly as an item of a list literal, anywhere inside [l] *)
Fixpoint item_vars (l : lit) : list name :=
  match l with
  | LList vs => flat_map (fun v => match v with LVar n => [n] | _ => item_vars v end) vs
  | LObject fs => flat_map (fun p : name * lit => item_vars (snd p)) fs
  | _ => []
  end.

(** some variable used by the arguments has the run-time value null *)
Definition null_variable (vv : cvars) (args : list (name * lit)) : bool :=
  existsb (fun a : name * lit =>
             existsb (fun v => match aget v vv with Some g => is_nil g | None => false end) (lit_vars (snd a))) args.

(** some variable used as an item of a list literal has no run-time value *)
Definition absent_item_variable (vv : cvars) (args : list (name * lit)) : bool :=
  existsb (fun a : name * lit => existsb (fun v => negb (ahas v vv)) (item_vars (snd a))) args.

(** some input object type of the schema has an InputCoercion hook that refuses *)
Definition is_hfail (h : hook) : bool := match h with HFail => true | _ => false end.
Definition refusing_hook (E : env) : bool :=
  existsb (fun p : name * tdef => match snd p with TInput _ h => is_hfail h | _ => false end) E.

(** a raw variable value that does not coerce, or a required variable without value and default *)
Definition bad_variable_value (fx : fixes) (E : env) (dt : bytes -> option bytes)
           (defs : list vardef) (raw : list (name * jval)) : bool :=
  existsb (fun def =>
             match aget (vd_name def) raw with
             | Some j => match coerce_var_value fx E dt j (vd_type def) true with Err => true | _ => false end
             | None => match vd_default def with None => is_nonnull (vd_type def) | Some _ => false end
             end) defs.

(** their disjunction, for the whole request *)
Definition runtime_reason (E : env) (dt : bytes -> option bytes) (defs : list vardef)
           (args : list (name * lit)) (raw : list (name * jval)) : bool :=
  bad_variable_value all_fixed E dt defs raw
  || match coerce_variable_values all_fixed E dt defs raw with
     | Ok vv => null_variable vv args || absent_item_variable vv args
     | _ => false
     end
  || refusing_hook E.

