(** * Val/CoerceTotal.v — C05: the model never panics on a schema whose named types are all defined
    (every schema the library builds), so the refinement statements are exact there; and
    completeness of the static checks: after validation the only run-time argument errors left
    are the ones that live in the variable values (or in a refusing InputCoercion hook). *)
From Coq Require Import List NArith ZArith Bool Lia.
From ApiFu Require Import Base.Sexp Val.Values Val.MapFacts Val.CoerceModel Val.CoerceSpec Val.CoerceProofs Val.CoerceRefine.
Import ListNotations.

Lemma res_map_no_panic {A} (f : A -> res gval) l : Forall (fun x => f x <> Panic) l -> res_map f l <> Panic.
Proof.
  induction 1 as [|x r Hx _ IH]; simpl; [discriminate|].
  destruct (f x); try congruence; try discriminate. destruct (res_map f r); congruence || discriminate.
Qed.

Lemma fold_no_panic {A B} (step : res A -> B -> res A) l :
  (forall b, step Err b = Err) ->
  (forall a b, In b l -> step (Ok a) b <> Panic) ->
  forall acc, acc <> Panic -> fold_left step l acc <> Panic.
Proof.
  intros He. induction l as [|b r IH]; intros Hs acc Ha; simpl; auto.
  apply IH; [intros; apply Hs; right; auto|].
  destruct acc; [apply Hs; left; auto|rewrite He; discriminate|contradiction].
Qed.

Section NoPanic.
  Variable fx : fixes.
  Variable E : env.
  Variable dt : bytes -> option bytes.
  Hypothesis HC : env_closed E = true.

  Lemma fields_closed n fields h f : aget n E = Some (TInput fields h) -> In f fields -> sty_closed E (in_type (snd f)) = true.
  Proof.
    intros Hn Hf. apply aget_In in Hn. unfold env_closed in HC. rewrite forallb_forall in HC.
    specialize (HC _ Hn). simpl in HC. rewrite forallb_forall in HC. auto.
  Qed.

  Lemma closed_lookup n : ahas n E = true -> exists td, aget n E = Some td.
  Proof. unfold ahas. destruct (aget n E); eauto; discriminate. Qed.

  Definition var_no_panic (j : jval) : Prop := forall t a, sty_closed E t = true -> coerce_var_value fx E dt j t a <> Panic.

  Lemma apply_hook_no_panic h m : apply_hook h m <> Panic.
  Proof. destruct h; discriminate. Qed.

  Lemma of_option_no_panic {A} (o : option A) : of_option o <> Panic.
  Proof. destruct o; discriminate. Qed.

  Ltac np_named n C :=
    let td := fresh "td" in let Hn := fresh "Hn" in
    destruct (closed_lookup n C) as [td Hn]; rewrite Hn; destruct td as [?k|?vals|?fields ?h];
    [apply of_option_no_panic | cbn [enum_variable]; try discriminate; try apply of_option_no_panic | try discriminate].

  Ltac np_wrap j t' IHt a C :=
    destruct a; [|discriminate];
    specialize (IHt true C); destruct (coerce_var_value fx E dt j t' true); congruence || discriminate.

  Ltac np_atom j :=
    let t := fresh "t" in let n := fresh "n" in let t' := fresh "t'" in let IHt := fresh "IHt" in
    let a := fresh "a" in let C := fresh "C" in
    intros t; induction t as [n|t' IHt|t' IHt]; intros a C; rewrite cvv_eq; simpl in C;
    [ np_named n C | np_wrap j t' IHt a C | apply IHt; exact C ].

  Theorem var_value_no_panic : forall j, var_no_panic j.
  Proof.
    induction j as [|b|d|z|s|l IHl|kvs IHk|] using jval_ind'.
    - intros t a _. rewrite cvv_eq. destruct (is_nonnull t); discriminate.
    - np_atom (JBool b).
    - np_atom (JNum d).
    - np_atom (JInt z).
    - np_atom (JStr s).
    - (* lists *)
      intros t; induction t as [n|t' IHt|t' IHt]; intros a C; rewrite cvv_eq; simpl in C.
      + np_named n C.
      + intro X. unfold res_list in X.
        destruct (res_map (fun v => coerce_var_value fx E dt v t' false) l) eqn:R; try discriminate.
        revert R. apply res_map_no_panic. rewrite Forall_forall in *. intros x Hx. apply IHl; auto.
      + apply IHt; exact C.
    - (* objects *)
      intros t; induction t as [n|t' IHt|t' IHt]; intros a C; rewrite cvv_eq; simpl in C.
      + np_named n C.
        match goal with |- context [fold_left ?st fields (Ok [])] => destruct (fold_left st fields (Ok [])) as [result| |] eqn:F end.
        * destruct (forallb _ kvs); [apply apply_hook_no_panic|discriminate].
        * discriminate.
        * exfalso. revert F. apply fold_no_panic; [reflexivity| |discriminate].
          intros m [fname fd] Hin. cbn [var_field_step].
          destruct (aget fname _) as [co|] eqn:Hco.
          -- apply aget_subs in Hco as (jv & Hjv & ->).
             rewrite Forall_forall in IHk. specialize (IHk (fname, jv) Hjv (in_type fd) true (fields_closed _ _ _ (fname, fd) Hn Hin)).
             simpl in IHk. destruct (coerce_var_value fx E dt jv (in_type fd) true); congruence || discriminate.
          -- destruct (in_default fd); [discriminate|]. destruct (is_nonnull (in_type fd)); discriminate.
      + np_wrap (JObj kvs) t' IHt a C.
      + apply IHt; exact C.
    - np_atom JOther.
  Qed.

  Variable vv : cvars.

  Definition lit_no_panic (l : lit) : Prop := forall t a, sty_closed E t = true -> coerce_literal fx E dt vv l t a <> Panic.

  Lemma loop1_no_panic fields fs : forall result,
    (forall k fv fd, In (k, fv) fs -> aget k fields = Some fd -> coerce_literal fx E dt vv fv (in_type fd) true <> Panic) ->
    lit_fields_loop (coerce_literal fx E dt vv) vv fields fs result <> Panic.
  Proof.
    induction fs as [|[fname fv] r IH]; intros result H; simpl; [discriminate|].
    destruct (aget fname fields) as [fd|] eqn:Hf; [|discriminate].
    match goal with |- (if ?c then _ else _) <> _ => destruct c end.
    - apply IH. intros; eapply H; eauto; right; eauto.
    - pose proof (H fname fv fd (or_introl eq_refl) Hf) as Hp.
      destruct (coerce_literal fx E dt vv fv (in_type fd) true); try congruence; try discriminate.
      apply IH. intros; eapply H; eauto; right; eauto.
  Qed.

  Ltac lp_named n C :=
    let td := fresh "td" in let Hn := fresh "Hn" in
    destruct (closed_lookup n C) as [td Hn]; rewrite Hn; destruct td as [?k|?vals|?fields ?h];
    [apply of_option_no_panic | cbn [enum_literal]; try discriminate; try apply of_option_no_panic | try discriminate].

  Ltac lp_wrap l t' IHt a C :=
    destruct a; [|discriminate];
    specialize (IHt true C); destruct (coerce_literal fx E dt vv l t' true); congruence || discriminate.

  Ltac lp_atom l :=
    let t := fresh "t" in let n := fresh "n" in let t' := fresh "t'" in let IHt := fresh "IHt" in
    let a := fresh "a" in let C := fresh "C" in
    intros t; induction t as [n|t' IHt|t' IHt]; intros a C; rewrite cl_eq; simpl in C; cbn iota;
    [ lp_named n C | lp_wrap l t' IHt a C | apply IHt; exact C ].

  Theorem literal_no_panic : forall l, lit_no_panic l.
  Proof.
    induction l as [n|z|m k|s|b| |n|vs IHl|fs IHf] using lit_ind'.
    - (* a variable *)
      destruct (aget n vv) as [value|] eqn:Hv.
      + intros t a _. rewrite cl_eq. cbn iota. rewrite Hv.
        destruct (fix_null_var fx && is_nil value && is_nonnull t); discriminate.
      + intros t; induction t as [m|t' IHt|t' IHt]; intros a C; rewrite cl_eq; simpl in C; cbn iota; rewrite Hv.
        * lp_named m C.
        * lp_wrap (LVar n) t' IHt a C.
        * apply IHt; exact C.
    - lp_atom (LInt z).
    - lp_atom (LFloat m k).
    - lp_atom (LString s).
    - lp_atom (LBool b).
    - intros t a _. rewrite cl_eq. destruct (is_nonnull t); discriminate.
    - lp_atom (LEnum n).
    - (* lists *)
      intros t; induction t as [n|t' IHt|t' IHt]; intros a C; rewrite cl_eq; simpl in C; cbn iota.
      + lp_named n C.
      + intro X. unfold res_list in X.
        destruct (res_map (fun v => coerce_literal fx E dt vv v t' false) vs) eqn:R; try discriminate.
        revert R. apply res_map_no_panic. rewrite Forall_forall in *. intros x Hx. apply IHl; auto.
      + apply IHt; exact C.
    - (* objects *)
      intros t; induction t as [n|t' IHt|t' IHt]; intros a C; rewrite cl_eq; simpl in C; cbn iota.
      + lp_named n C.
        destruct (lit_fields_loop (coerce_literal fx E dt vv) vv fields fs []) as [r1| |] eqn:L1; try discriminate.
        * pose proof (lit_default_fold_no_panic fields r1) as NP.
          destruct (fold_left lit_default_step fields (Ok r1)); [apply apply_hook_no_panic|discriminate|contradiction].
        * exfalso. revert L1. apply loop1_no_panic.
          intros k fv fd Hin Hf. rewrite Forall_forall in IHf. apply (IHf (k, fv) Hin).
          apply (fields_closed _ _ _ (k, fd) Hn). apply aget_In; auto.
      + lp_wrap (LObject fs) t' IHt a C.
      + apply IHt; exact C.
  Qed.
End NoPanic.

(** ** the whole request never panics on a closed schema, so the refinement is exact *)
Section RequestTotal.
  Variable E : env.
  Variable dt : bytes -> option bytes.
  Hypothesis HE : env_ok E = true.
  Hypothesis HC : env_closed E = true.

  Lemma type_known_closed t : type_known E t = sty_closed E t.
  Proof. induction t; simpl; auto. Qed.

  Lemma variable_values_no_panic fx defs raw : coerce_variable_values fx E dt defs raw <> Panic.
  Proof.
    unfold coerce_variable_values. apply fold_no_panic; [reflexivity| |discriminate].
    intros m def _. cbn [var_step].
    destruct (negb (type_known E (vd_type def))) eqn:K; [discriminate|].
    apply negb_false_iff in K. rewrite type_known_closed in K.
    destruct (aget (vd_name def) raw) as [j|].
    - pose proof (var_value_no_panic fx E dt HC j (vd_type def) true K).
      destruct (coerce_var_value fx E dt j (vd_type def) true); congruence || discriminate.
    - destruct (vd_default def) as [dflt|].
      + pose proof (literal_no_panic fx E dt HC [] dflt (vd_type def) true K).
        destruct (coerce_literal fx E dt [] dflt (vd_type def) true); congruence || discriminate.
      + destruct (is_nonnull (vd_type def)); discriminate.
  Qed.

  Lemma arg_step_panic_inv fx av vv m aname d :
    arg_step fx E dt av vv (Ok m) (aname, d) = Panic ->
    exists l, coerce_literal fx E dt vv l (in_type d) true = Panic.
  Proof.
    intro H. cbn [arg_step] in H. cbv zeta in H.
    destruct (aget aname av) as [l|].
    - destruct l as [vn| | | | | | | |];
        try (destruct (in_default d); rewrite ?andb_false_r in H; cbn iota in H;
             match type of H with context [coerce_literal ?f ?e ?t ?v ?l ?ty true] =>
               destruct (coerce_literal f e t v l ty true) eqn:C; try discriminate; exists l; exact C end).
      destruct (ahas vn vv); destruct (in_default d); rewrite ?andb_false_r, ?andb_true_r in H; cbn iota in H;
        try discriminate;
        try (destruct (fix_null_var fx && is_nil _ && is_nonnull (in_type d)); discriminate);
        try (destruct (is_nonnull (in_type d)); discriminate).
    - destruct (in_default d); [discriminate|]. rewrite andb_true_r in H. destruct (is_nonnull (in_type d)); discriminate.
  Qed.

  Lemma argument_values_no_panic fx argdefs args vv :
    (forall ad, In ad argdefs -> sty_closed E (in_type (snd ad)) = true) ->
    coerce_argument_values fx E dt argdefs args vv <> Panic.
  Proof.
    intros Hc. unfold coerce_argument_values. apply fold_no_panic; [reflexivity| |discriminate].
    intros m [aname d] Hin X. apply arg_step_panic_inv in X as (l & C). 
    apply (literal_no_panic fx E dt HC vv l (in_type d) true (Hc _ Hin) C).
  Qed.

  Theorem request_no_panic fx site argdefs defs args raw :
    (forall ad, In ad argdefs -> sty_closed E (in_type (snd ad)) = true) ->
    run_request fx E dt site argdefs defs args raw <> OPanic.
  Proof.
    intros Hc. unfold run_request. destruct (negb (static_ok fx E dt site argdefs defs args)); [discriminate|].
    pose proof (variable_values_no_panic fx defs raw) as V.
    destruct (coerce_variable_values fx E dt defs raw) as [vv| |]; [|discriminate|contradiction].
    pose proof (argument_values_no_panic fx argdefs args vv Hc) as A.
    destruct (coerce_argument_values fx E dt argdefs args vv); [discriminate|discriminate|contradiction].
  Qed.

  (** on a closed schema, for every document the validator accepts, the outcome IS the reference *)
  Theorem request_exact site argdefs defs args raw :
    (forall ad, In ad argdefs -> sty_closed E (in_type (snd ad)) = true) ->
    (forall p, In p raw -> jval_ok (snd p) = true) ->
    static_ok all_fixed E dt site argdefs defs args = true ->
    run_request all_fixed E dt site argdefs defs args raw =
    match ref_request E dt argdefs defs args raw with
    | Some m => OCalled m
    | None => ORuntimeError
    end.
  Proof.
    intros Hc Hr St.
    pose proof (request_refines E dt HE site argdefs defs args raw Hr St) as R.
    pose proof (request_no_panic all_fixed site argdefs defs args raw Hc) as NP.
    destruct (run_request all_fixed E dt site argdefs defs args raw); try contradiction; rewrite R; reflexivity.
  Qed.
End RequestTotal.
