(** * Val/Rfc3339.v — C05: which strings apifu.DateTimeType accepts.
    scalars.go parseDateTime -> time.Time.UnmarshalText -> time.parseStrictRFC3339 (go 1.23.5):
    the fast path parseRFC3339, else time.Parse(time.RFC3339, s) with the strict re-check switched
    off ("case true: return t, nil", go.dev/issue/54580).  The fast path accepts a subset of what
    Parse accepts, so the verdict is Parse's for the layout  2006-01-02T15:04:05Z07:00 :
      year   stdLongYear    exactly four digits
      month  stdZeroMonth   two digits, 1..12
      day    stdZeroDay     two digits, validated at the end against daysIn(month, year)
      hour   stdHour "15"   getnum(value, false): ONE or two digits, < 24
      minute, second        two digits each, < 60 (no leap second)
      fraction              optional: '.' or ',' followed by one or more digits (any number)
      zone   Z07:00         'Z', or sign hh ':' mm with hh <= 24 and mm <= 60
      nothing may follow.
    Definitions only; the check compares this verdict with the standard library's on every string
    of every case ([CoerceCheck]: key datetime-verdict-differs-from-model). *)
From Coq Require Import List NArith Bool.
From ApiFu Require Import Base.Sexp.
Import ListNotations.
Local Open Scope N_scope.

Definition isd (c : N) : bool := N.leb 48 c && N.leb c 57.
Definition dv (c : N) : N := c - 48.
Definition num2 (a b : N) : N := 10 * dv a + dv b.

Fixpoint skip_digits (l : list N) : list N :=
  match l with
  | c :: r => if isd c then skip_digits r else l
  | [] => []
  end.

Definition is_leap (y : N) : bool :=
  N.eqb (y mod 4) 0 && (negb (N.eqb (y mod 100) 0) || N.eqb (y mod 400) 0).
Definition days_in (m y : N) : N :=
  if N.eqb m 2 then (if is_leap y then 29 else 28)
  else if N.eqb m 4 || N.eqb m 6 || N.eqb m 9 || N.eqb m 11 then 30 else 31.

(** the zone and the end of the text *)
Definition zone_ok (v : list N) : bool :=
  match v with
  | c :: r =>
      if N.eqb c 90 then (match r with [] => true | _ => false end)          (* Z, then nothing *)
      else match r with
           | h1 :: h2 :: col :: m1 :: m2 :: [] =>
               (N.eqb c 43 || N.eqb c 45) && N.eqb col 58
               && isd h1 && isd h2 && isd m1 && isd m2
               && N.leb (num2 h1 h2) 24 && N.leb (num2 m1 m2) 60
           | _ => false
           end
  | [] => false
  end.

(** after the seconds: an optional fraction, then the zone *)
Definition frac_zone_ok (v : list N) : bool :=
  match v with
  | c :: d :: r => if (N.eqb c 46 || N.eqb c 44) && isd d then zone_ok (skip_digits r) else zone_ok v
  | _ => zone_ok v
  end.

(** ':' mm ':' ss and the rest *)
Definition min_sec_ok (v : list N) : bool :=
  match v with
  | c1 :: m1 :: m2 :: c2 :: s1 :: s2 :: r =>
      N.eqb c1 58 && N.eqb c2 58 && isd m1 && isd m2 && isd s1 && isd s2
      && N.ltb (num2 m1 m2) 60 && N.ltb (num2 s1 s2) 60 && frac_zone_ok r
  | _ => false
  end.

(** the hour: getnum(value, false) *)
Definition time_ok (v : list N) : bool :=
  match v with
  | h1 :: r =>
      isd h1 &&
      match r with
      | h2 :: r' => if isd h2 then N.ltb (num2 h1 h2) 24 && min_sec_ok r' else min_sec_ok r
      | [] => false
      end
  | [] => false
  end.

Definition rfc3339_go (s : list N) : bool :=
  match s with
  | y1 :: y2 :: y3 :: y4 :: c1 :: m1 :: m2 :: c2 :: d1 :: d2 :: t :: r =>
      isd y1 && isd y2 && isd y3 && isd y4 && N.eqb c1 45 && isd m1 && isd m2 && N.eqb c2 45
      && isd d1 && isd d2 && N.eqb t 84
      && (let year := 1000 * dv y1 + 100 * dv y2 + 10 * dv y3 + dv y4 in
          let month := num2 m1 m2 in
          let day := num2 d1 d2 in
          N.leb 1 month && N.leb month 12 && N.leb 1 day && N.leb day (days_in month year))
      && time_ok r
  | _ => false
  end.
