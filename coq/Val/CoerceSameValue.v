(** * Val/CoerceSameValue.v — C05: [same_value] without its arithmetic premise.
    [same_client_value l j] only says that the JSON number is exactly the integer of the literal;
    that ParseFloat of the literal's text then yields that very binary64 is a theorem
    ([FloatExact.f64_of_Q_exact]) for every well-formed binary64 ([jnum_wf], a representation
    invariant of the exchange format, checked per case). *)
From Coq Require Import List NArith ZArith Bool.
From ApiFu Require Import Base.Sexp Val.Values Val.FloatExact Val.CoerceModel Val.CoerceSpec Val.CoerceProofs Val.CoerceRoutes.
Import ListNotations.

Fixpoint jnum_wf (j : jval) : bool :=
  match j with
  | JNum d => f64_wf d
  | JList l => forallb jnum_wf l
  | JObj kvs => forallb (fun p : name * jval => jnum_wf (snd p)) kvs
  | _ => true
  end.

Fixpoint same_client_value (l : lit) (j : jval) : Prop :=
  match l, j with
  | LNull, JNull => True
  | LBool b, JBool b' => b = b'
  | LString s, JStr s' => s = s'
  | LEnum n, JStr s => n = s
  | LInt z, JNum d => f64_to_Z d = Some z
  | LInt z, JInt z' => z = z'
  | LFloat m k, JNum d => f64_of_decimal m k = Some d
  | LList ls, JList js =>
      (fix go (ls : list lit) (js : list jval) : Prop :=
         match ls, js with
         | [], [] => True
         | l :: ls', j :: js' => same_client_value l j /\ go ls' js'
         | _, _ => False
         end) ls js
  | LObject fs, JObj kvs =>
      (fix go (fs : list (name * lit)) (kvs : list (name * jval)) : Prop :=
         match fs, kvs with
         | [], [] => True
         | (k, l) :: fs', (k', j) :: kvs' => k = k' /\ same_client_value l j /\ go fs' kvs'
         | _, _ => False
         end) fs kvs
  | _, _ => False
  end.

Lemma same_client_value_same : forall l j, same_client_value l j -> jnum_wf j = true -> same_value l j.
Proof.
  induction l as [n|z|m k|s|b| |n|vs IHl|fs IHf] using lit_ind'; intros j S W;
    destruct j as [|b'|d|z'|s'|js|kvs|]; simpl in S; try contradiction; simpl; auto.
  - split; auto. apply f64_of_Q_exact; [exact W|exact S].
  - cbn [jnum_wf] in W. revert js S W.
    induction vs as [|x r IHr]; intros [|y js'] S W; simpl in *; try contradiction; auto.
    destruct S as [Sxy S]. apply andb_true_iff in W as [Wy W]. inversion IHl as [|? ? Hx Hr]; subst.
    split; [apply Hx; auto|apply IHr; auto].
  - cbn [jnum_wf] in W. revert kvs S W.
    induction fs as [|[k1 x] r IHr]; intros [|[k2 y] kvs'] S W; simpl in *; try contradiction; auto.
    destruct S as (-> & Sxy & S). apply andb_true_iff in W as [Wy W]. inversion IHf as [|? ? Hx Hr]; subst.
    split; auto. split; [apply Hx; auto|apply IHr; auto].
Qed.

Section Routes'.
  Variable E : env.
  Variable dt : bytes -> option bytes.
  Hypothesis HE : env_ok E = true.

  Theorem route_independent_wf vv l j t1 t2 a1 a2 g1 g2 :
    same_client_value l j -> jnum_wf j = true -> jval_ok j = true -> strip_nn t1 = strip_nn t2 ->
    coerce_literal all_fixed E dt vv l t1 a1 = Ok g1 ->
    coerce_var_value all_fixed E dt j t2 a2 = Ok g2 ->
    g1 = g2.
  Proof. intros S Wf. apply (route_independent E dt HE). apply same_client_value_same; auto. Qed.

  Theorem route_nested_wf defs vv v r j def c L t a ld g1 g2 :
    find_def v defs = Some def -> aget v vv = Some c ->
    coerce_var_value all_fixed E dt j (vd_type def) true = Ok c ->
    same_client_value r j -> jnum_wf j = true -> jval_ok j = true -> lit_nodup L = true ->
    usage_ok all_fixed E defs L (Some t) ld = true ->
    coerce_literal all_fixed E dt vv L t a = Ok g2 ->
    coerce_literal all_fixed E dt vv (subst_var v r L) t a = Ok g1 ->
    g1 = g2.
  Proof.
    intros Hd Hv Hc S Wf. apply (route_nested E dt HE defs vv v r j def c L t a ld g1 g2 Hd Hv Hc).
    apply same_client_value_same; auto.
  Qed.
End Routes'.
