(** * Val/FloatFacts.v — the one arithmetic fact about [f64_of_Q] the proofs need:
    converting a 64-bit integer never overflows binary64 (Go: float64(int) always succeeds). *)
From Coq Require Import List ZArith Bool Lia.
From ApiFu Require Import Base.Sexp Val.Values.
Local Open Scope Z_scope.

Lemma f64_round_le q r den : f64_round q r den <= q + 1.
Proof. unfold f64_round. destruct (2 * r ?= den); try destruct (Z.odd q); lia. Qed.

Lemma f64_quot_small a e : 0 < a <= 2 ^ 63 -> -53 <= e -> 0 <= fst (fst (f64_quot a 1 e)) <= 2 ^ 116.
Proof.
  intros Ha He. unfold f64_quot.
  destruct (Z.leb_spec 0 e) as [P|N].
  - assert (0 < 2 ^ e) by (apply Z.pow_pos_nonneg; lia).
    pose proof (Z.div_eucl_eq a (1 * 2 ^ e) ltac:(lia)) as Eq.
    pose proof (Z.mod_pos_bound a (1 * 2 ^ e) ltac:(lia)) as Bd.
    unfold Z.modulo in Bd. destruct (Z.div_eucl a (1 * 2 ^ e)) as [q r]. cbn [fst snd].
    assert (2 ^ 63 <= 2 ^ 116) by (apply Z.pow_le_mono_r; lia). nia.
  - assert (0 < 2 ^ (- e)) by (apply Z.pow_pos_nonneg; lia).
    assert (2 ^ (- e) <= 2 ^ 53) by (apply Z.pow_le_mono_r; lia).
    pose proof (Z.div_eucl_eq (a * 2 ^ (- e)) 1 ltac:(lia)) as Eq.
    pose proof (Z.mod_pos_bound (a * 2 ^ (- e)) 1 ltac:(lia)) as Bd.
    unfold Z.modulo in Bd. destruct (Z.div_eucl (a * 2 ^ (- e)) 1) as [q r]. cbn [fst snd].
    replace (2 ^ 116) with (2 ^ 63 * 2 ^ 53) by (rewrite <- Z.pow_add_r; [reflexivity|lia|lia]). nia.
Qed.

Lemma f64_exp_small a : 0 < a <= 2 ^ 63 -> -53 <= f64_exp a 1 <= 11.
Proof.
  intros Ha. unfold f64_exp.
  assert (L : 0 <= Z.log2 a <= 63).
  { split; [apply Z.log2_nonneg|]. replace 63 with (Z.log2 (2 ^ 63)) by (rewrite Z.log2_pow2; lia).
    apply Z.log2_le_mono; lia. }
  change (Z.log2 1) with 0. rewrite Z.sub_0_r.
  destruct (2 ^ 53 <=? _); lia.
Qed.

Lemma f64_of_Q_int64 z : - 2 ^ 63 <= z <= 2 ^ 63 - 1 -> exists d, f64_of_Q z 1 = Some d.
Proof.
  intro B. destruct z as [|p|p]; [eexists; reflexivity| |].
  all: unfold f64_of_Q; cbv zeta.
  all: set (a := Z.abs _);
    assert (Ha : 0 < a <= 2 ^ 63) by (subst a; lia);
    pose proof (f64_exp_small a Ha) as He;
    assert (Hq : 0 <= fst (fst (f64_quot a 1 (f64_exp a 1))) <= 2 ^ 116) by (apply f64_quot_small; lia);
    destruct (f64_quot a 1 (f64_exp a 1)) as [[q r] den]; cbn [fst snd] in Hq;
    pose proof (f64_round_le q r den) as Hr;
    set (q' := f64_round q r den) in *;
    destruct (Z.leb_spec (2 ^ 1024) (q' * 2 ^ Z.max (f64_exp a 1) 0)) as [Ov|]; [|eexists; reflexivity];
    exfalso;
    assert (P1 : 0 < 2 ^ Z.max (f64_exp a 1) 0) by (apply Z.pow_pos_nonneg; lia);
    assert (P2 : 2 ^ Z.max (f64_exp a 1) 0 <= 2 ^ 11) by (apply Z.pow_le_mono_r; lia);
    assert (P3 : (2 ^ 116 + 1) * 2 ^ 11 < 2 ^ 1024) by (vm_compute; reflexivity);
    nia.
Qed.

Lemma f64_of_Z_spec z : - 2 ^ 63 <= z <= 2 ^ 63 - 1 -> f64_of_Q z 1 = Some (f64_of_Z z).
Proof.
  intro B. unfold f64_of_Z. destruct (f64_of_Q_int64 z B) as [d ->]. reflexivity.
Qed.
