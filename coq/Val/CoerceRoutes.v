(** * Val/CoerceRoutes.v — C05: route independence.  The same client value written as a literal
    and passed through a variable (of a type that differs at most in non-null wrappers, which is
    all the validator allows) is coerced to the same value whenever both routes accept it. *)
From Coq Require Import List NArith ZArith Bool Lia.
From ApiFu Require Import Base.Sexp Val.Values Val.MapFacts Val.CoerceModel Val.CoerceSpec Val.CoerceProofs Val.CoerceRefine.
Import ListNotations.

(** [same_value l j]: the literal [l] and the variable value [j] are two spellings of one client
    value.  An integer literal is the JSON number with exactly that value (so that the JSON
    encoding loses nothing: [f64_of_Q z 1 = Some d] says [d] is what ParseFloat makes of the
    literal's text, [f64_to_Z d = Some z] that it is exact) or the Go int; a float literal is the
    JSON number it rounds to; an enum literal is the JSON string of its name; objects list the
    same fields (a Go map has no order: the model's list for it may be taken in the literal's
    order). *)
Fixpoint same_value (l : lit) (j : jval) : Prop :=
  match l, j with
  | LNull, JNull => True
  | LBool b, JBool b' => b = b'
  | LString s, JStr s' => s = s'
  | LEnum n, JStr s => n = s
  | LInt z, JNum d => f64_to_Z d = Some z /\ f64_of_Q z 1 = Some d
  | LInt z, JInt z' => z = z'
  | LFloat m k, JNum d => f64_of_decimal m k = Some d
  | LList ls, JList js =>
      (fix go (ls : list lit) (js : list jval) : Prop :=
         match ls, js with
         | [], [] => True
         | l :: ls', j :: js' => same_value l j /\ go ls' js'
         | _, _ => False
         end) ls js
  | LObject fs, JObj kvs =>
      (fix go (fs : list (name * lit)) (kvs : list (name * jval)) : Prop :=
         match fs, kvs with
         | [], [] => True
         | (k, l) :: fs', (k', j) :: kvs' => k = k' /\ same_value l j /\ go fs' kvs'
         | _, _ => False
         end) fs kvs
  | _, _ => False
  end.

(** types that differ only in non-null wrappers *)
Fixpoint strip_nn (t : sty) : sty :=
  match t with
  | StNonNull t' => strip_nn t'
  | StList t' => StList (strip_nn t')
  | StNamed n => StNamed n
  end.

Lemma compatible_strip : forall lt vt, types_compatible lt vt = true -> strip_nn lt = strip_nn vt.
Proof.
  induction lt as [ln|lt' IH|lt' IH]; intros vt; induction vt as [vn|vt' IHv|vt' IHv]; intro C; rewrite tc_eq in C;
    try discriminate; simpl; auto.
  - apply bytes_eqb_eq in C. congruence.
  - f_equal. auto.
Qed.

Section RefRoutes.
  Variable E : env.
  Variable dt : bytes -> option bytes.
  Notation rcl := (ref_coerce E dt TLiteral).
  Notation rcj := (ref_coerce E dt TJson).

  (** scalars *)
  Lemma scalar_routes vv k l j g1 g2 :
    same_value l j ->
    ref_scalar dt TLiteral k (abs_lit vv l) = Some g1 ->
    ref_scalar dt TJson k (abs_json j) = Some g2 -> g1 = g2.
  Proof.
    intros S H1 H2.
    destruct l; destruct j; simpl in S; try contradiction; subst.
    - (* integer literal, JSON number *)
      destruct S as [Sz Sq]. destruct k; cbn [abs_lit abs_json ref_scalar as_integer] in *; try discriminate;
        rewrite ?Sz, ?Sq in *; cbn [option_map] in *; congruence.
    - (* integer literal, Go int *)
      destruct k; cbn [abs_lit abs_json ref_scalar as_integer] in *; congruence.
    - (* float literal *)
      cbn [abs_lit abs_json] in *. rewrite S in H1.
      destruct k; cbn [ref_scalar as_integer] in *; try discriminate; congruence.
    - destruct k; cbn [abs_lit abs_json ref_scalar as_integer] in *; congruence.
    - destruct k; cbn [abs_lit abs_json ref_scalar as_integer] in *; congruence.
    - destruct k; discriminate.
    - destruct k; cbn [abs_lit abs_json ref_scalar as_integer] in *; discriminate.
    - destruct k; cbn [abs_lit abs_json ref_scalar as_integer] in *; discriminate.
    - destruct k; cbn [abs_lit abs_json ref_scalar as_integer] in *; discriminate.
  Qed.

  Variables tr1 tr2 : transport.
  Notation rc1 := (ref_coerce E dt tr1).
  Notation rc2 := (ref_coerce E dt tr2).

  (** input values proper: not null, not a variable, not invalid *)
  Definition plain (v : ival) : bool :=
    match v with INull | IVarVal _ | IVarAbsent | IInvalid => false | _ => true end.
  Definition nonlist (v : ival) : bool := match v with IList _ => false | _ => true end.

  Lemma rc_nn tr v t w : plain v = true -> ref_coerce E dt tr v (StNonNull t) w = ref_coerce E dt tr v t w.
  Proof. intro P. rewrite (rc_eq E dt tr v (StNonNull t)). destruct v; try discriminate; reflexivity. Qed.

  Lemma rc_wrap tr v t w g : plain v = true -> nonlist v = true ->
    ref_coerce E dt tr v (StList t) w = Some g ->
    exists c, ref_coerce E dt tr v t true = Some c /\ g = GList [c].
  Proof.
    intros P N H. rewrite rc_eq in H. destruct v; try discriminate;
      (destruct w; [|discriminate];
       match type of H with option_map _ ?o = _ => destruct o eqn:C; inversion H; subst; eauto end).
  Qed.

  (** values that are not lists: what happens at named types decides everything *)
  Lemma nonlist_routes v1 v2 :
    plain v1 = true -> plain v2 = true -> nonlist v1 = true -> nonlist v2 = true ->
    (forall n w1 w2 g1 g2, rc1 v1 (StNamed n) w1 = Some g1 -> rc2 v2 (StNamed n) w2 = Some g2 -> g1 = g2) ->
    forall t1 t2 w1 w2 g1 g2, strip_nn t1 = strip_nn t2 ->
      rc1 v1 t1 w1 = Some g1 -> rc2 v2 t2 w2 = Some g2 -> g1 = g2.
  Proof.
    intros P1 P2 N1 N2 Base t1.
    induction t1 as [n1|t1' IH1|t1' IH1]; intros t2; induction t2 as [n2|t2' IH2|t2' IH2];
      intros w1 w2 g1 g2 S H1 H2; simpl in S; try discriminate.
    - inversion S; subst. eapply Base; eauto.
    - rewrite rc_nn in H2 by auto. eapply IH2; eauto.
    - inversion S.
      apply rc_wrap in H1 as (c1 & C1 & ->); auto. apply rc_wrap in H2 as (c2 & C2 & ->); auto.
      f_equal. f_equal. eapply IH1; eauto.
    - rewrite rc_nn in H2 by auto. eapply IH2; eauto.
    - rewrite rc_nn in H1 by auto. apply (IH1 (StNamed n2) w1 w2 g1 g2 S H1 H2).
    - rewrite rc_nn in H1 by auto. apply (IH1 (StList t2') w1 w2 g1 g2 S H1 H2).
    - rewrite rc_nn in H1 by auto. apply (IH1 (StNonNull t2') w1 w2 g1 g2 S H1 H2).
  Qed.

  (** lists: item by item *)
  Lemma opt_map_routes {A B} (f1 : A -> option gval) (f2 : B -> option gval) (R : A -> B -> Prop) :
    forall l1 l2 c1 c2,
      (fix go (l1 : list A) (l2 : list B) : Prop :=
         match l1, l2 with
         | [], [] => True
         | x :: r1, y :: r2 => R x y /\ go r1 r2
         | _, _ => False
         end) l1 l2 ->
      (forall x y g1 g2, In x l1 -> R x y -> f1 x = Some g1 -> f2 y = Some g2 -> g1 = g2) ->
      opt_map f1 l1 = Some c1 -> opt_map f2 l2 = Some c2 -> c1 = c2.
  Proof.
    induction l1 as [|x r1 IH]; intros [|y r2] c1 c2 G H H1 H2; simpl in *; try contradiction.
    - congruence.
    - destruct G as [Rxy G]. destruct (f1 x) eqn:F1; try discriminate. destruct (opt_map f1 r1) eqn:O1; try discriminate.
      destruct (f2 y) eqn:F2; try discriminate. destruct (opt_map f2 r2) eqn:O2; try discriminate.
      inversion H1; inversion H2; subst. f_equal.
      + eapply H; eauto.
      + eapply IH; eauto.
  Qed.

  Lemma list_routes items1 items2 :
    (forall t1 t2 g1 g2, strip_nn t1 = strip_nn t2 ->
       opt_map (fun x => rc1 x t1 false) items1 = Some g1 -> opt_map (fun x => rc2 x t2 false) items2 = Some g2 -> g1 = g2) ->
    forall t1 t2 w1 w2 g1 g2, strip_nn t1 = strip_nn t2 ->
      rc1 (IList items1) t1 w1 = Some g1 -> rc2 (IList items2) t2 w2 = Some g2 -> g1 = g2.
  Proof.
    intros Items t1.
    induction t1 as [n1|t1' IH1|t1' IH1]; intros t2; induction t2 as [n2|t2' IH2|t2' IH2];
      intros w1 w2 g1 g2 S H1 H2; simpl in S; try discriminate.
    - (* a list at a named type: never accepted *)
      exfalso. rewrite rc_eq in H1. destruct (aget n1 E) as [[k|vals|fields h]|]; try discriminate;
        [destruct k; discriminate|destruct tr1; discriminate].
    - rewrite rc_nn in H2 by reflexivity. eapply IH2; eauto.
    - inversion S. rewrite rc_eq in H1, H2.
      destruct (opt_map (fun x => rc1 x t1' false) items1) eqn:O1; try discriminate.
      destruct (opt_map (fun x => rc2 x t2' false) items2) eqn:O2; try discriminate.
      inversion H1; inversion H2; subst. f_equal. eapply Items; eauto.
    - rewrite rc_nn in H2 by reflexivity. eapply IH2; eauto.
    - rewrite rc_nn in H1 by reflexivity. apply (IH1 (StNamed n2) w1 w2 g1 g2 S H1 H2).
    - rewrite rc_nn in H1 by reflexivity. apply (IH1 (StList t2') w1 w2 g1 g2 S H1 H2).
    - rewrite rc_nn in H1 by reflexivity. apply (IH1 (StNonNull t2') w1 w2 g1 g2 S H1 H2).
  Qed.

  (** objects: the declared-field pass, field by field *)
  Lemma obj_fold_routes (subs1 subs2 : list (name * (bool * (sty -> bool -> option gval)))) fields :
    (forall fname fd, In (fname, fd) fields ->
                   match aget fname subs1, aget fname subs2 with
                   | Some (a1, co1), Some (a2, co2) =>
                       a1 = a2 /\
                       forall g1 g2, co1 (in_type fd) true = Some g1 -> co2 (in_type fd) true = Some g2 -> g1 = g2
                   | None, None => True
                   | _, _ => False
                   end) ->
    forall m r1 r2,
      fold_left (ref_field_step subs1) fields (Some m) = Some r1 ->
      fold_left (ref_field_step subs2) fields (Some m) = Some r2 -> r1 = r2.
  Proof.
    induction fields as [|[fname fd] r IH]; intros Rel m r1 r2 H1 H2; simpl in H1, H2.
    - congruence.
    - pose proof (Rel fname fd (or_introl eq_refl)) as Rf.
      assert (Rel' : forall fname fd, In (fname, fd) r ->
                   match aget fname subs1, aget fname subs2 with
                   | Some (a1, co1), Some (a2, co2) =>
                       a1 = a2 /\
                       forall g1 g2, co1 (in_type fd) true = Some g1 -> co2 (in_type fd) true = Some g2 -> g1 = g2
                   | None, None => True
                   | _, _ => False
                   end) by (intros; apply Rel; right; auto).
      destruct (aget fname subs1) as [[a1 co1]|]; destruct (aget fname subs2) as [[a2 co2]|]; try contradiction.
      + destruct Rf as (<- & C). destruct a1.
        * destruct (in_default fd).
          -- eapply IH; eauto.
          -- destruct (is_nonnull (in_type fd)); [rewrite (fold_opt_none _ (fun _ => eq_refl)) in H1; discriminate|].
             eapply IH; eauto.
        * destruct (co1 (in_type fd) true) eqn:C1; [|rewrite (fold_opt_none _ (fun _ => eq_refl)) in H1; discriminate].
          destruct (co2 (in_type fd) true) eqn:C2; [|rewrite (fold_opt_none _ (fun _ => eq_refl)) in H2; discriminate].
          rewrite (C _ _ eq_refl eq_refl) in H1. eapply IH; eauto.
      + destruct (in_default fd).
        * eapply IH; eauto.
        * destruct (is_nonnull (in_type fd)); [rewrite (fold_opt_none _ (fun _ => eq_refl)) in H1; discriminate|].
          eapply IH; eauto.
  Qed.
End RefRoutes.

Section Routes.
  Variable E : env.
  Variable dt : bytes -> option bytes.
  Notation rcl := (ref_coerce E dt TLiteral).
  Notation rcj := (ref_coerce E dt TJson).

  Definition ref_routes (l : lit) : Prop := forall vv j t1 t2 w1 w2 g1 g2,
    same_value l j -> strip_nn t1 = strip_nn t2 ->
    rcl (abs_lit vv l) t1 w1 = Some g1 -> rcj (abs_json j) t2 w2 = Some g2 -> g1 = g2.

  Lemma named_not_object tr v n w g : (forall kvs, v <> IObject kvs) -> plain v = true ->
    ref_coerce E dt tr v (StNamed n) w = Some g ->
    exists td, aget n E = Some td /\
               match td with
               | TScalar k => ref_scalar dt tr k v = Some g
               | TEnum vals => match tr, v with TLiteral, IEnum x => aget x vals | TJson, IString x => aget x vals | _, _ => None end = Some g
               | TInput _ _ => False
               end.
  Proof.
    intros No P H. rewrite rc_eq in H.
    destruct (aget n E) as [td|] eqn:T; [|destruct v; discriminate].
    exists td. split; auto. destruct td as [k|vals|fields h].
    - destruct v; try discriminate; exact H.
    - destruct v; try discriminate; exact H.
    - destruct v; try discriminate. eapply No; eauto.
  Qed.

  Ltac atom_routes S :=
    apply nonlist_routes; try reflexivity;
    let n := fresh "n" in let w1 := fresh "w1" in let w2 := fresh "w2" in
    let g1 := fresh "g1" in let g2 := fresh "g2" in let H1 := fresh "H1" in let H2 := fresh "H2" in
    intros n w1 w2 g1 g2 H1 H2;
    apply named_not_object in H1 as (td1 & T1 & H1); [|intros ? X; discriminate X|reflexivity];
    apply named_not_object in H2 as (td2 & T2 & H2); [|intros ? X; discriminate X|reflexivity];
    rewrite T1 in T2; inversion T2; subst td2;
    destruct td1 as [?sk|?vals|?fields ?h]; [|try congruence|contradiction].

  Theorem ref_routes_all : forall l, ref_routes l.
  Proof.
    induction l as [n|z|m k|s|b| |n|vs IHl|fs IHf] using lit_ind'; intros vv j t1 t2 w1 w2 g1 g2 S;
      destruct j as [|b'|d|z'|s'|js|kvs|]; simpl in S; try contradiction.
    - (* integer literal / JSON number *)
      cbn [abs_lit abs_json]. atom_routes S.
      eapply (scalar_routes dt vv _ (LInt z) (JNum d)); eauto; exact S.
    - (* integer literal / Go int *)
      cbn [abs_lit abs_json]. atom_routes S.
      eapply (scalar_routes dt vv _ (LInt z) (JInt z')); eauto; exact S.
    - (* float literal *)
      cbn [abs_lit abs_json]. rewrite S. atom_routes S.
      eapply (scalar_routes dt vv _ (LFloat m k) (JNum d)); eauto; cbn [abs_lit]; rewrite ?S; eauto.
    - cbn [abs_lit abs_json]. atom_routes S.
      eapply (scalar_routes dt vv _ (LString s) (JStr s')); eauto; exact S.
    - cbn [abs_lit abs_json]. atom_routes S.
      eapply (scalar_routes dt vv _ (LBool b) (JBool b')); eauto; exact S.
    - (* null *)
      intros _ H1 H2. cbn [abs_lit abs_json] in *. rewrite rc_eq in H1, H2.
      destruct (is_nonnull t1); destruct (is_nonnull t2); congruence.
    - (* enum literal / JSON string *)
      cbn [abs_lit abs_json]. atom_routes S.
      eapply (scalar_routes dt vv _ (LEnum n) (JStr s')); eauto; exact S.
    - (* lists *)
      cbn [abs_lit abs_json]. apply list_routes.
      intros t1' t2' c1 c2 St O1 O2.
      revert js S c1 c2 O1 O2. induction vs as [|x r IHr]; intros [|y js'] S c1 c2 O1 O2; simpl in *; try contradiction.
      + congruence.
      + destruct S as [Sxy S]. inversion IHl as [|? ? Hx Hr]; subst.
        destruct (rcl (abs_lit vv x) t1' false) eqn:F1; try discriminate.
        destruct (opt_map (fun x => rcl x t1' false) (map (abs_lit vv) r)) eqn:R1; try discriminate.
        destruct (rcj (abs_json y) t2' false) eqn:F2; try discriminate.
        destruct (opt_map (fun x => rcj x t2' false) (map abs_json js')) eqn:R2; try discriminate.
        inversion O1; inversion O2; subst. f_equal.
        * eapply Hx; eauto.
        * eapply IHr; eauto.
    - (* objects *)
      cbn [abs_lit abs_json]. apply nonlist_routes; try reflexivity.
      intros n w1' w2' c1 c2 H1 H2. rewrite rc_eq in H1, H2.
      destruct (aget n E) as [[k|vals|fields h]|]; try discriminate.
      { destruct k; discriminate. }
      destruct (dup_names _ || _); try discriminate. destruct (dup_names _ || _); try discriminate.
      match type of H1 with match ?F with _ => _ end = _ => destruct F as [m1|] eqn:F1; try discriminate end.
      match type of H2 with match ?F with _ => _ end = _ => destruct F as [m2|] eqn:F2; try discriminate end.
      assert (m1 = m2); [|subst; congruence].
      eapply obj_fold_routes; [|exact F1|exact F2].
      clear F1 F2 H1 H2. intros fname fd _.
      revert kvs S. induction fs as [|[k1 x] r IHr]; intros [|[k2 y] kvs'] S; simpl in *; try contradiction; auto.
      destruct S as (<- & Sxy & S). inversion IHf as [|? ? Hx Hr]; subst.
      destruct (bytes_eqb fname k1).
      + split.
        * destruct x; simpl in Sxy; try contradiction; destruct y; try contradiction; try reflexivity.
          simpl. rewrite Sxy. reflexivity.
        * intros c1' c2' C1 C2. simpl in Hx. eapply Hx; eauto.
      + apply IHr; auto.
  Qed.
End Routes.

(** ** the same statements on the model (through the refinement theorems) *)
Lemma same_value_nodup : forall l j, same_value l j -> jval_ok j = true -> lit_nodup l = true.
Proof.
  induction l as [n|z|m k|s|b| |n|vs IHl|fs IHf] using lit_ind'; intros j S W; try reflexivity.
  - destruct j as [|b'|d|z'|s'|js|kvs|]; simpl in S; try contradiction.
    cbn [jval_ok] in W. cbn [lit_nodup].
    revert js S W. induction vs as [|x r IHr]; intros [|y js'] S W; simpl in *; try contradiction; auto.
    destruct S as [Sxy S]. apply andb_true_iff in W as [Wy W]. inversion IHl; subst.
    apply andb_true_iff. split; eauto.
  - destruct j as [|b'|d|z'|s'|js|kvs|]; simpl in S; try contradiction.
    cbn [jval_ok] in W. apply andb_true_iff in W as [Wd W]. cbn [lit_nodup].
    assert (K : map fst fs = map fst kvs).
    { clear Wd W IHf. revert kvs S. induction fs as [|[k1 x] r IHr]; intros [|[k2 y] kvs'] S; simpl in *; try contradiction; auto.
      destruct S as (-> & _ & S). f_equal. auto. }
    rewrite K, Wd. cbn [andb].
    clear K Wd. revert kvs S W. induction fs as [|[k1 x] r IHr]; intros [|[k2 y] kvs'] S W; simpl in *; try contradiction; auto.
    destruct S as (_ & Sxy & S). apply andb_true_iff in W as [Wy W]. inversion IHf; subst.
    apply andb_true_iff. split; eauto.
Qed.

Section ModelRoutes.
  Variable E : env.
  Variable dt : bytes -> option bytes.
  Hypothesis HE : env_ok E = true.

  (** literal versus variable value *)
  Theorem route_independent vv l j t1 t2 a1 a2 g1 g2 :
    same_value l j -> jval_ok j = true -> strip_nn t1 = strip_nn t2 ->
    coerce_literal all_fixed E dt vv l t1 a1 = Ok g1 ->
    coerce_var_value all_fixed E dt j t2 a2 = Ok g2 ->
    g1 = g2.
  Proof.
    intros S W St H1 H2.
    pose proof (literal_refines all_fixed E dt HE eq_refl eq_refl vv l (same_value_nodup l j S W) t1 a1) as R1.
    pose proof (var_value_refines all_fixed E dt eq_refl eq_refl j W t2 a2) as R2.
    rewrite H1 in R1. rewrite H2 in R2. simpl in R1, R2.
    eapply (ref_routes_all E dt l vv j t1 t2 a1 a2); eauto.
  Qed.
End ModelRoutes.

(** ** the value does not depend on non-null wrappers or on the item-to-list flag, only
    acceptance does (same transport on both sides) *)
Section IvalInd.
  Variable P : ival -> Prop.
  Hypothesis HNull : P INull.
  Hypothesis HInt : forall z, P (IInt z).
  Hypothesis HFloat : forall d, P (IFloat d).
  Hypothesis HString : forall s, P (IString s).
  Hypothesis HBool : forall b, P (IBool b).
  Hypothesis HEnum : forall n, P (IEnum n).
  Hypothesis HList : forall l, Forall P l -> P (IList l).
  Hypothesis HObj : forall kvs, Forall (fun p => P (snd p)) kvs -> P (IObject kvs).
  Hypothesis HVarVal : forall g, P (IVarVal g).
  Hypothesis HVarAbsent : P IVarAbsent.
  Hypothesis HInvalid : P IInvalid.
  Fixpoint ival_ind' (v : ival) : P v :=
    match v with
    | INull => HNull
    | IInt z => HInt z
    | IFloat d => HFloat d
    | IString s => HString s
    | IBool b => HBool b
    | IEnum n => HEnum n
    | IList l => HList l ((fix go (l : list ival) : Forall P l :=
                             match l with [] => Forall_nil _ | x :: r => Forall_cons _ (ival_ind' x) (go r) end) l)
    | IObject kvs => HObj kvs ((fix go (l : list (name * ival)) : Forall (fun p => P (snd p)) l :=
                                  match l with [] => Forall_nil _ | p :: r => Forall_cons _ (ival_ind' (snd p)) (go r) end) kvs)
    | IVarVal g => HVarVal g
    | IVarAbsent => HVarAbsent
    | IInvalid => HInvalid
    end.
End IvalInd.

Section NnInsensitive.
  Variable E : env.
  Variable dt : bytes -> option bytes.
  Variable tr : transport.
  Notation rc := (ref_coerce E dt tr).

  Lemma named_ignores_flag v n w1 w2 : rc v (StNamed n) w1 = rc v (StNamed n) w2.
  Proof. rewrite !rc_eq. destruct v; reflexivity. Qed.

  Theorem ref_nn_insensitive : forall v t1 t2 w1 w2 g1 g2,
    strip_nn t1 = strip_nn t2 -> rc v t1 w1 = Some g1 -> rc v t2 w2 = Some g2 -> g1 = g2.
  Proof.
    induction v as [|z|d|s|b|n|items IH|kvs _|g| |] using ival_ind'; intros t1 t2 w1 w2 g1 g2 S H1 H2.
    - rewrite rc_eq in H1, H2. destruct (is_nonnull t1); destruct (is_nonnull t2); congruence.
    - revert H1 H2. apply (nonlist_routes E dt tr tr); try reflexivity; auto.
      intros n w1' w2' c1 c2 C1 C2. rewrite (named_ignores_flag _ _ w1' w2') in C1. congruence.
    - revert H1 H2. apply (nonlist_routes E dt tr tr); try reflexivity; auto.
      intros n w1' w2' c1 c2 C1 C2. rewrite (named_ignores_flag _ _ w1' w2') in C1. congruence.
    - revert H1 H2. apply (nonlist_routes E dt tr tr); try reflexivity; auto.
      intros n w1' w2' c1 c2 C1 C2. rewrite (named_ignores_flag _ _ w1' w2') in C1. congruence.
    - revert H1 H2. apply (nonlist_routes E dt tr tr); try reflexivity; auto.
      intros n w1' w2' c1 c2 C1 C2. rewrite (named_ignores_flag _ _ w1' w2') in C1. congruence.
    - revert H1 H2. apply (nonlist_routes E dt tr tr); try reflexivity; auto.
      intros n' w1' w2' c1 c2 C1 C2. rewrite (named_ignores_flag _ _ w1' w2') in C1. congruence.
    - (* lists *)
      revert H1 H2. apply (list_routes E dt tr tr); auto.
      intros t1' t2' c1 c2 St. clear S. revert c1 c2.
      induction IH as [|x r Hx _ IHr]; intros c1 c2 O1 O2; simpl in *.
      + congruence.
      + destruct (rc x t1' false) eqn:F1; try discriminate. destruct (opt_map (fun x => rc x t1' false) r) eqn:R1; try discriminate.
        destruct (rc x t2' false) eqn:F2; try discriminate. destruct (opt_map (fun x => rc x t2' false) r) eqn:R2; try discriminate.
        inversion O1; inversion O2; subst. f_equal; eauto.
    - revert H1 H2. apply (nonlist_routes E dt tr tr); try reflexivity; auto.
      intros n w1' w2' c1 c2 C1 C2. rewrite (named_ignores_flag _ _ w1' w2') in C1. congruence.
    - rewrite rc_eq in H1, H2. destruct (is_nil g); [destruct (is_nonnull t1); destruct (is_nonnull t2)|]; congruence.
    - rewrite rc_eq in H1. discriminate.
    - rewrite rc_eq in H1. discriminate.
  Qed.
End NnInsensitive.

(** ** a variable nested inside a literal versus the literal with the value written in its place *)
Fixpoint subst_var (v : name) (r : lit) (L : lit) : lit :=
  match L with
  | LVar n => if bytes_eqb n v then r else L
  | LList vs => LList (map (subst_var v r) vs)
  | LObject fs => LObject (map (fun p => (fst p, subst_var v r (snd p))) fs)
  | _ => L
  end.

Section Nested.
  Variable E : env.
  Variable dt : bytes -> option bytes.
  Hypothesis HE : env_ok E = true.
  Variable defs : list vardef.
  Variable vv : cvars.
  Variable v : name.
  Variable r : lit.
  Variable j : jval.
  Variable def : vardef.
  Variable c : gval.
  Notation rcl := (ref_coerce E dt TLiteral).
  Notation rcj := (ref_coerce E dt TJson).
  Hypothesis Hdef : find_def v defs = Some def.
  Hypothesis Hvv : aget v vv = Some c.
  Hypothesis Hc : rcj (abs_json j) (vd_type def) true = Some c.
  Hypothesis Hsame : same_value r j.

  Lemma usage_strip t ld : var_usage_ok E def t ld = true -> strip_nn t = strip_nn (vd_type def).
  Proof.
    unfold var_usage_ok. intro U. apply andb_true_iff in U as [_ U].
    destruct t as [n|t'|t']; try (apply compatible_strip; exact U).
    destruct (is_nonnull (vd_type def)).
    - apply compatible_strip; exact U.
    - apply andb_true_iff in U as [_ U]. simpl. apply compatible_strip; exact U.
  Qed.

  Lemma hole t w ld g1 g2 :
    var_usage_ok E def t ld = true ->
    rcl (IVarVal c) t w = Some g2 -> rcl (abs_lit vv r) t w = Some g1 -> g1 = g2.
  Proof.
    intros U H2 H1.
    assert (g2 = c).
    { rewrite rc_eq in H2. destruct (is_nil c) eqn:Z; [|congruence].
      destruct c; try discriminate. destruct (is_nonnull t); congruence. }
    subst g2. eapply (ref_routes_all E dt r vv j t (vd_type def) w true); eauto.
    apply (usage_strip _ _ U).
  Qed.

  Lemma same_value_not_var l j0 : same_value l j0 -> forall n, l <> LVar n.
  Proof. intros S n ->. simpl in S. exact S. Qed.

  Lemma is_absent_subst x : is_absent (abs_lit vv (subst_var v r x)) = is_absent (abs_lit vv x).
  Proof.
    destruct x; simpl; auto.
    - destruct (bytes_eqb n v) eqn:B; auto. apply bytes_eqb_eq in B; subst. rewrite Hvv. simpl.
      destruct r; simpl in *; try reflexivity; try contradiction. destruct (f64_of_decimal m k); reflexivity.
  Qed.

  Lemma list_at_named tr items n w : ref_coerce E dt tr (IList items) (StNamed n) w = None.
  Proof.
    rewrite rc_eq. destruct (aget n E) as [[k|vals|fields h]|]; auto.
    - destruct k; reflexivity.
    - destruct tr; reflexivity.
  Qed.

  Definition nested_ok (L : lit) : Prop := forall t w ld g1 g2,
    usage_ok all_fixed E defs L (Some t) ld = true ->
    rcl (abs_lit vv L) t w = Some g2 -> rcl (abs_lit vv (subst_var v r L)) t w = Some g1 -> g1 = g2.

  Lemma items_nested vs t' : Forall nested_ok vs ->
    forallb (fun x => usage_ok all_fixed E defs x (Some t') false) vs = true ->
    forall c1 c2,
      opt_map (fun x => rcl x t' false) (map (abs_lit vv) vs) = Some c2 ->
      opt_map (fun x => rcl x t' false) (map (abs_lit vv) (map (subst_var v r) vs)) = Some c1 -> c1 = c2.
  Proof.
    induction 1 as [|x r0 Hx _ IHr]; intros U c1 c2 O2 O1; simpl in O1, O2.
    - congruence.
    - simpl in U. apply andb_true_iff in U as [Ux U].
      destruct (rcl (abs_lit vv x) t' false) eqn:F2; try discriminate.
      destruct (opt_map _ (map (abs_lit vv) r0)) eqn:R2; try discriminate.
      destruct (rcl (abs_lit vv (subst_var v r x)) t' false) eqn:F1; try discriminate.
      destruct (opt_map _ (map (abs_lit vv) (map (subst_var v r) r0))) eqn:R1; try discriminate.
      inversion O1; inversion O2; subst. f_equal.
      + eapply Hx; eauto.
      + eapply IHr; eauto.
  Qed.

  Lemma map_fst_substp (fs : list (name * lit)) :
    map fst (map (fun p : name * lit => (fst p, subst_var v r (snd p))) fs) = map fst fs.
  Proof. induction fs as [|[k x] r0 IH]; simpl; congruence. Qed.

  Lemma forallb_known_substp (fs : list (name * lit)) (fields : list (name * in_def)) :
    forallb (fun p : name * lit => ahas (fst p) fields) (map (fun p : name * lit => (fst p, subst_var v r (snd p))) fs)
    = forallb (fun p : name * lit => ahas (fst p) fields) fs.
  Proof. induction fs as [|[k x] r0 IH]; simpl; congruence. Qed.

  Lemma aget_substp (fs : list (name * lit)) k :
    aget k (map (fun p : name * lit => (fst p, subst_var v r (snd p))) fs) = option_map (subst_var v r) (aget k fs).
  Proof. induction fs as [|[k' x] r0 IH]; simpl; auto. destruct (bytes_eqb k k'); auto. Qed.

  Lemma object_nested fs fields h n w g1 g2 :
    aget n E = Some (TInput fields h) ->
    Forall (fun p => nested_ok (snd p)) fs ->
    forallb (fun p : name * lit =>
               match aget (fst p) fields with
               | Some fd => usage_ok all_fixed E defs (snd p) (Some (in_type fd)) (field_loc_default fd)
               | None => usage_ok all_fixed E defs (snd p) None false
               end) fs = true ->
    rcl (IObject (map (fun p => match p with (k, l) => (k, abs_lit vv l) end) fs)) (StNamed n) w = Some g2 ->
    rcl (IObject (map (fun p => match p with (k, l) => (k, abs_lit vv l) end)
                      (map (fun p : name * lit => (fst p, subst_var v r (snd p))) fs))) (StNamed n) w = Some g1 ->
    g1 = g2.
  Proof.
    intros Hn IH U H2 H1. rewrite rc_eq, Hn in H1, H2.
    rewrite map_fst_abs_lit, forallb_known_abs_lit in H1, H2.
    rewrite map_fst_substp, forallb_known_substp in H1.
    destruct (dup_names (map fst fs) || negb (forallb (fun p : name * lit => ahas (fst p) fields) fs)); try discriminate.
    match type of H1 with match ?F with _ => _ end = _ => destruct F as [m1|] eqn:F1; try discriminate end.
    match type of H2 with match ?F with _ => _ end = _ => destruct F as [m2|] eqn:F2; try discriminate end.
    assert (m1 = m2); [|subst; congruence].
    eapply obj_fold_routes; [|exact F1|exact F2].
    intros fname fd Hin. rewrite !subs_lookup, aget_substp.
    destruct (aget fname fs) as [x|] eqn:G; cbn [option_map]; auto.
    split.
    - rewrite <- !is_absent_abs_lit. apply is_absent_subst.
    - intros c1 c2 C1 C2.
      rewrite Forall_forall in IH. specialize (IH (fname, x) (aget_In _ _ _ G)). simpl in IH.
      rewrite forallb_forall in U. specialize (U (fname, x) (aget_In _ _ _ G)). simpl in U.
      rewrite (nodup_aget fields fname fd (fields_nodup E HE _ _ _ Hn) Hin) in U.
      eapply IH; eauto.
  Qed.

  Theorem ref_nested : forall L, nested_ok L.
  Proof.
    induction L as [n|z|m k|s|b| |n|vs IHl|fs IHf] using lit_ind'; intros t w ld g1 g2 U H2 H1;
      try (cbn [subst_var] in H1; congruence).
    - (* a variable *)
      cbn [subst_var] in H1. destruct (bytes_eqb n v) eqn:B; [|congruence].
      apply bytes_eqb_eq in B; subst n. cbn [abs_lit] in H2. rewrite Hvv in H2.
      cbn [usage_ok] in U. rewrite Hdef in U. eapply hole; eauto.
    - (* a list literal *)
      cbn [subst_var abs_lit] in H1, H2. revert w ld g1 g2 U H2 H1.
      induction t as [n|t' IHt|t' IHt]; intros w ld g1 g2 U H2 H1.
      + rewrite list_at_named in H2. discriminate.
      + rewrite rc_eq in H1, H2. cbn [usage_ok nullable_type] in U.
        destruct (opt_map (fun x => rcl x t' false) (map (abs_lit vv) vs)) as [c2|] eqn:O2; try discriminate.
        destruct (opt_map (fun x => rcl x t' false) (map (abs_lit vv) (map (subst_var v r) vs))) as [c1|] eqn:O1; try discriminate.
        inversion H1; inversion H2; subst. f_equal. eapply items_nested; eauto.
      + rewrite rc_nn in H1, H2 by reflexivity. apply (IHt w ld g1 g2 U H2 H1).
    - (* an object literal *)
      cbn [subst_var abs_lit] in H1, H2. revert w ld g1 g2 U H2 H1.
      induction t as [n|t' IHt|t' IHt]; intros w ld g1 g2 U H2 H1.
      + cbn [usage_ok leaf_type] in U. cbn [all_fixed fix_item_object] in U.
        destruct (aget n E) as [[k|vals|fields h]|] eqn:Hn.
        * rewrite rc_eq, Hn in H2. destruct k; discriminate.
        * rewrite rc_eq, Hn in H2. discriminate.
        * eapply object_nested; eauto.
        * rewrite rc_eq, Hn in H2. discriminate.
      + apply rc_wrap in H1 as (c1 & C1 & ->); try reflexivity. apply rc_wrap in H2 as (c2 & C2 & ->); try reflexivity.
        f_equal. f_equal. apply (IHt true ld c1 c2); auto.
      + rewrite rc_nn in H1, H2 by reflexivity. apply (IHt w ld g1 g2 U H2 H1).
  Qed.
End Nested.

Lemma subst_nodup v r : lit_nodup r = true -> forall L, lit_nodup L = true -> lit_nodup (subst_var v r L) = true.
Proof.
  intros Hr. induction L as [n|z|m k|s|b| |n|vs IHl|fs IHf] using lit_ind'; intro W; simpl; auto.
  - destruct (bytes_eqb n v); auto.
  - simpl in W. rewrite forallb_forall in *. intros x Hx. apply in_map_iff in Hx as (y & <- & Hy).
    rewrite Forall_forall in IHl. apply IHl; auto.
  - simpl in W. apply andb_true_iff in W as [Wd W]. rewrite map_map. simpl.
    change (map (fun x : name * lit => fst x) fs) with (map fst fs). rewrite Wd. simpl.
    rewrite forallb_forall in *. intros x Hx. apply in_map_iff in Hx as (y & <- & Hy). simpl.
    rewrite Forall_forall in IHf. apply IHf; auto.
Qed.

Lemma closed_abs_lit vv : forall l, lit_vars l = [] -> abs_lit vv l = abs_lit [] l.
Proof.
  induction l as [n|z|m k|s|b| |n|vs IHl|fs IHf] using lit_ind'; intro C; simpl in *; auto; try discriminate.
  - f_equal. apply map_ext_in. intros x Hx. rewrite Forall_forall in IHl. apply IHl; auto.
    destruct (lit_vars x) eqn:Lx; auto. exfalso.
    assert (In n (flat_map lit_vars vs)) by (apply in_flat_map; exists x; split; auto; rewrite Lx; left; auto).
    rewrite C in H. contradiction.
  - f_equal. apply map_ext_in. intros [k x] Hx. rewrite Forall_forall in IHf. f_equal. apply (IHf (k, x) Hx).
    destruct (lit_vars x) eqn:Lx; auto. exfalso.
    assert (In n (flat_map (fun p : name * lit => lit_vars (snd p)) fs))
      by (apply in_flat_map; exists (k, x); split; auto; simpl; rewrite Lx; left; auto).
    rewrite C in H. contradiction.
Qed.

Section ModelRoutes2.
  Variable E : env.
  Variable dt : bytes -> option bytes.
  Hypothesis HE : env_ok E = true.

  (** a variable nested anywhere inside a literal, versus the value written in its place *)
  Theorem route_nested defs vv v r j def c L t a ld g1 g2 :
    find_def v defs = Some def -> aget v vv = Some c ->
    coerce_var_value all_fixed E dt j (vd_type def) true = Ok c ->
    same_value r j -> jval_ok j = true -> lit_nodup L = true ->
    usage_ok all_fixed E defs L (Some t) ld = true ->
    coerce_literal all_fixed E dt vv L t a = Ok g2 ->
    coerce_literal all_fixed E dt vv (subst_var v r L) t a = Ok g1 ->
    g1 = g2.
  Proof.
    intros Hd Hv Hc S W N U H2 H1.
    pose proof (var_value_refines all_fixed E dt eq_refl eq_refl j W (vd_type def) true) as Rc. rewrite Hc in Rc. simpl in Rc.
    pose proof (literal_refines all_fixed E dt HE eq_refl eq_refl vv L N t a) as R2. rewrite H2 in R2. simpl in R2.
    pose proof (literal_refines all_fixed E dt HE eq_refl eq_refl vv (subst_var v r L)
                  (subst_nodup v r (same_value_nodup r j S W) L N) t a) as R1. rewrite H1 in R1. simpl in R1.
    eapply (ref_nested E dt HE defs vv v r j def c Hd Hv Rc S L); eauto.
  Qed.

  (** a variable with a runtime value is handed over as it is *)
  Lemma variable_returns_value vv v c t a g :
    aget v vv = Some c -> coerce_literal all_fixed E dt vv (LVar v) t a = Ok g -> g = c.
  Proof.
    intros Hv H. rewrite cl_eq in H. cbn iota in H. rewrite Hv in H.
    destruct (fix_null_var all_fixed && is_nil c && is_nonnull t); congruence.
  Qed.

  (** omitted in favour of the variable's default: CoerceVariableValues coerces the default literal
      at the variable's type; writing the same literal at the argument gives the same value *)
  Theorem route_variable_default vv l tv t a c g1 :
    lit_vars l = [] -> lit_nodup l = true -> strip_nn t = strip_nn tv ->
    coerce_literal all_fixed E dt [] l tv true = Ok c ->
    coerce_literal all_fixed E dt vv l t a = Ok g1 ->
    g1 = c.
  Proof.
    intros C N S Hc H1.
    pose proof (literal_refines all_fixed E dt HE eq_refl eq_refl [] l N tv true) as Rc. rewrite Hc in Rc. simpl in Rc.
    pose proof (literal_refines all_fixed E dt HE eq_refl eq_refl vv l N t a) as R1. rewrite H1 in R1. simpl in R1.
    rewrite (closed_abs_lit vv l C) in R1.
    eapply ref_nn_insensitive; eauto.
  Qed.

  (** omitted in favour of the argument's default: the declared default is handed over *)
  Theorem route_argument_default argdefs args vv x d dv m :
    has_dup (map fst argdefs) = false -> dup_names (map fst args) = false ->
    In (x, d) argdefs -> in_default d = Some dv ->
    match aget x args with Some (LVar vn) => ahas vn vv | Some _ => true | None => false end = false ->
    coerce_argument_values all_fixed E dt argdefs args vv = Ok m ->
    aget x m = Some (default_value dv).
  Proof.
    intros Hd Da Hin D Hv H. unfold coerce_argument_values in H.
    set (av := fold_left (fun m (a : name * lit) => mset (fst a) (snd a) m) args []) in H.
    assert (Av : aget x av = aget x args).
    { unfold av. rewrite aget_fold_mset_nodup by auto. destruct (aget x args); reflexivity. }
    set (Inv := fun (done : list (name * in_def)) (m : list (name * gval)) =>
                  In (x, d) done -> aget x m = Some (default_value dv)).
    assert (I : Inv ([] ++ argdefs) m).
    { eapply (fold_res_inv2 _ (fun _ => eq_refl) (fun _ => eq_refl) Inv); [| |exact H].
      - intros [].
      - intros pre [aname d'] suf m1 m2 Heq Hi Hs Hx. simpl in Heq.
        apply in_app_or in Hx as [Hx|[Hx|[]]].
        + (* already stored; this step writes another key *)
          assert (Ne : aname <> x).
          { rewrite Heq in Hd. intro; subst. apply (nodup_prefix _ _ _ Hd (x, d) Hx). reflexivity. }
          apply arg_step_cases in Hs as [(dv' & _ & ->)|[(l & c & _ & _ & ->)|(-> & _)]];
            try (rewrite aget_mset_other by auto); auto.
        + inversion Hx; subst aname d'. cbn [arg_step] in Hs. cbv zeta in Hs. rewrite Av, Hv, D in Hs.
          inversion Hs; subst. apply aget_mset_same. }
    apply I. simpl. exact Hin.
  Qed.
End ModelRoutes2.

(** ** the other repaired defects as refutations on the pinned code *)
(** defect 26: $x: Int given the JSON value true is coerced to 1 *)
Lemma refines_refuted_before_fix_bool :
  exists j t g, jval_ok j = true /\
    coerce_var_value pinned E0 dt0 j t true = Ok g /\
    ref_coerce E0 dt0 TJson (abs_json j) t true = None.
Proof. exists (JBool true), (StNamed n_Int), (GInt 1). repeat split; vm_compute; reflexivity. Qed.

(** the non-null wrapper re-enabled item-to-list coercion: [1] at [[Int]!] became [[1]] *)
Lemma refines_refuted_before_fix_nn_flag :
  exists j t g, jval_ok j = true /\
    coerce_var_value pinned E0 dt0 j t true = Ok g /\
    ref_coerce E0 dt0 TJson (abs_json j) t true = None.
Proof.
  exists (JList [JNum (F64 1 0)]), (StList (StNonNull (StList (StNamed n_Int)))), (GList [GList [GInt 1]]).
  repeat split; vm_compute; reflexivity.
Qed.
