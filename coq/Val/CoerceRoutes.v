(** * Val/CoerceRoutes.v — C05: route independence.  The same client value written as a literal
    and passed through a variable (of a type that differs at most in non-null wrappers, which is
    all the validator allows) is coerced to the same value whenever both routes accept it. *)
From Coq Require Import List NArith ZArith Bool Lia.
From ApiFu Require Import Base.Sexp Val.Values Val.MapFacts Val.CoerceModel Val.CoerceSpec Val.CoerceProofs Val.CoerceRefine.
Import ListNotations.

(** [same_value l j]: the literal [l] and the variable value [j] are two spellings of one client
    value.  An integer literal is the JSON number with exactly that value (so that the JSON
    encoding loses nothing: [f64_of_Q z 1 = Some d] says [d] is what ParseFloat makes of the
    literal's text, [f64_to_Z d = Some z] that it is exact) or the Go int; a float literal is the
    JSON number it rounds to; an enum literal is the JSON string of its name; objects list the
    same fields (a Go map has no order: the model's list for it may be taken in the literal's
    order). *)
Fixpoint same_value (l : lit) (j : jval) : Prop :=
  match l, j with
  | LNull, JNull => True
  | LBool b, JBool b' => b = b'
  | LString s, JStr s' => s = s'
  | LEnum n, JStr s => n = s
  | LInt z, JNum d => f64_to_Z d = Some z /\ f64_of_Q z 1 = Some d
  | LInt z, JInt z' => z = z'
  | LFloat m k, JNum d => f64_of_decimal m k = Some d
  | LList ls, JList js =>
      (fix go (ls : list lit) (js : list jval) : Prop :=
         match ls, js with
         | [], [] => True
         | l :: ls', j :: js' => same_value l j /\ go ls' js'
         | _, _ => False
         end) ls js
  | LObject fs, JObj kvs =>
      (fix go (fs : list (name * lit)) (kvs : list (name * jval)) : Prop :=
         match fs, kvs with
         | [], [] => True
         | (k, l) :: fs', (k', j) :: kvs' => k = k' /\ same_value l j /\ go fs' kvs'
         | _, _ => False
         end) fs kvs
  | _, _ => False
  end.

(** types that differ only in non-null wrappers *)
Fixpoint strip_nn (t : sty) : sty :=
  match t with
  | StNonNull t' => strip_nn t'
  | StList t' => StList (strip_nn t')
  | StNamed n => StNamed n
  end.

Lemma compatible_strip : forall lt vt, types_compatible lt vt = true -> strip_nn lt = strip_nn vt.
Proof.
  induction lt as [ln|lt' IH|lt' IH]; intros vt; induction vt as [vn|vt' IHv|vt' IHv]; intro C; rewrite tc_eq in C;
    try discriminate; simpl; auto.
  - apply bytes_eqb_eq in C. congruence.
  - f_equal. auto.
Qed.

Section RefRoutes.
  Variable E : env.
  Variable dt : bytes -> option bytes.
  Notation rcl := (ref_coerce E dt TLiteral).
  Notation rcj := (ref_coerce E dt TJson).

  (** scalars *)
  Lemma scalar_routes vv k l j g1 g2 :
    same_value l j ->
    ref_scalar dt TLiteral k (abs_lit vv l) = Some g1 ->
    ref_scalar dt TJson k (abs_json j) = Some g2 -> g1 = g2.
  Proof.
    intros S H1 H2.
    destruct l; destruct j; simpl in S; try contradiction; subst.
    - (* integer literal, JSON number *)
      destruct S as [Sz Sq]. destruct k; cbn [abs_lit abs_json ref_scalar as_integer] in *; try discriminate;
        rewrite ?Sz, ?Sq in *; cbn [option_map] in *; congruence.
    - (* integer literal, Go int *)
      destruct k; cbn [abs_lit abs_json ref_scalar as_integer] in *; congruence.
    - (* float literal *)
      cbn [abs_lit abs_json] in *. rewrite S in H1.
      destruct k; cbn [ref_scalar as_integer] in *; try discriminate; congruence.
    - destruct k; cbn [abs_lit abs_json ref_scalar as_integer] in *; congruence.
    - destruct k; cbn [abs_lit abs_json ref_scalar as_integer] in *; congruence.
    - destruct k; discriminate.
    - destruct k; cbn [abs_lit abs_json ref_scalar as_integer] in *; discriminate.
    - destruct k; cbn [abs_lit abs_json ref_scalar as_integer] in *; discriminate.
    - destruct k; cbn [abs_lit abs_json ref_scalar as_integer] in *; discriminate.
  Qed.

  Variables tr1 tr2 : transport.
  Notation rc1 := (ref_coerce E dt tr1).
  Notation rc2 := (ref_coerce E dt tr2).

  (** input values proper: not null, not a variable, not invalid *)
  Definition plain (v : ival) : bool :=
    match v with INull | IVarVal _ | IVarAbsent | IInvalid => false | _ => true end.
  Definition nonlist (v : ival) : bool := match v with IList _ => false | _ => true end.

  Lemma rc_nn tr v t w : plain v = true -> ref_coerce E dt tr v (StNonNull t) w = ref_coerce E dt tr v t w.
  Proof. intro P. rewrite (rc_eq E dt tr v (StNonNull t)). destruct v; try discriminate; reflexivity. Qed.

  Lemma rc_wrap tr v t w g : plain v = true -> nonlist v = true ->
    ref_coerce E dt tr v (StList t) w = Some g ->
    exists c, ref_coerce E dt tr v t true = Some c /\ g = GList [c].
  Proof.
    intros P N H. rewrite rc_eq in H. destruct v; try discriminate;
      (destruct w; [|discriminate];
       match type of H with option_map _ ?o = _ => destruct o eqn:C; inversion H; subst; eauto end).
  Qed.

  (** values that are not lists: what happens at named types decides everything *)
  Lemma nonlist_routes v1 v2 :
    plain v1 = true -> plain v2 = true -> nonlist v1 = true -> nonlist v2 = true ->
    (forall n w1 w2 g1 g2, rc1 v1 (StNamed n) w1 = Some g1 -> rc2 v2 (StNamed n) w2 = Some g2 -> g1 = g2) ->
    forall t1 t2 w1 w2 g1 g2, strip_nn t1 = strip_nn t2 ->
      rc1 v1 t1 w1 = Some g1 -> rc2 v2 t2 w2 = Some g2 -> g1 = g2.
  Proof.
    intros P1 P2 N1 N2 Base t1.
    induction t1 as [n1|t1' IH1|t1' IH1]; intros t2; induction t2 as [n2|t2' IH2|t2' IH2];
      intros w1 w2 g1 g2 S H1 H2; simpl in S; try discriminate.
    - inversion S; subst. eapply Base; eauto.
    - rewrite rc_nn in H2 by auto. eapply IH2; eauto.
    - inversion S.
      apply rc_wrap in H1 as (c1 & C1 & ->); auto. apply rc_wrap in H2 as (c2 & C2 & ->); auto.
      f_equal. f_equal. eapply IH1; eauto.
    - rewrite rc_nn in H2 by auto. eapply IH2; eauto.
    - rewrite rc_nn in H1 by auto. apply (IH1 (StNamed n2) w1 w2 g1 g2 S H1 H2).
    - rewrite rc_nn in H1 by auto. apply (IH1 (StList t2') w1 w2 g1 g2 S H1 H2).
    - rewrite rc_nn in H1 by auto. apply (IH1 (StNonNull t2') w1 w2 g1 g2 S H1 H2).
  Qed.

  (** lists: item by item *)
  Lemma opt_map_routes {A B} (f1 : A -> option gval) (f2 : B -> option gval) (R : A -> B -> Prop) :
    forall l1 l2 c1 c2,
      (fix go (l1 : list A) (l2 : list B) : Prop :=
         match l1, l2 with
         | [], [] => True
         | x :: r1, y :: r2 => R x y /\ go r1 r2
         | _, _ => False
         end) l1 l2 ->
      (forall x y g1 g2, In x l1 -> R x y -> f1 x = Some g1 -> f2 y = Some g2 -> g1 = g2) ->
      opt_map f1 l1 = Some c1 -> opt_map f2 l2 = Some c2 -> c1 = c2.
  Proof.
    induction l1 as [|x r1 IH]; intros [|y r2] c1 c2 G H H1 H2; simpl in *; try contradiction.
    - congruence.
    - destruct G as [Rxy G]. destruct (f1 x) eqn:F1; try discriminate. destruct (opt_map f1 r1) eqn:O1; try discriminate.
      destruct (f2 y) eqn:F2; try discriminate. destruct (opt_map f2 r2) eqn:O2; try discriminate.
      inversion H1; inversion H2; subst. f_equal.
      + eapply H; eauto.
      + eapply IH; eauto.
  Qed.

  Lemma list_routes items1 items2 :
    (forall t1 t2 g1 g2, strip_nn t1 = strip_nn t2 ->
       opt_map (fun x => rc1 x t1 false) items1 = Some g1 -> opt_map (fun x => rc2 x t2 false) items2 = Some g2 -> g1 = g2) ->
    forall t1 t2 w1 w2 g1 g2, strip_nn t1 = strip_nn t2 ->
      rc1 (IList items1) t1 w1 = Some g1 -> rc2 (IList items2) t2 w2 = Some g2 -> g1 = g2.
  Proof.
    intros Items t1.
    induction t1 as [n1|t1' IH1|t1' IH1]; intros t2; induction t2 as [n2|t2' IH2|t2' IH2];
      intros w1 w2 g1 g2 S H1 H2; simpl in S; try discriminate.
    - (* a list at a named type: never accepted *)
      exfalso. rewrite rc_eq in H1. destruct (aget n1 E) as [[k|vals|fields h]|]; try discriminate;
        [destruct k; discriminate|destruct tr1; discriminate].
    - rewrite rc_nn in H2 by reflexivity. eapply IH2; eauto.
    - inversion S. rewrite rc_eq in H1, H2.
      destruct (opt_map (fun x => rc1 x t1' false) items1) eqn:O1; try discriminate.
      destruct (opt_map (fun x => rc2 x t2' false) items2) eqn:O2; try discriminate.
      inversion H1; inversion H2; subst. f_equal. eapply Items; eauto.
    - rewrite rc_nn in H2 by reflexivity. eapply IH2; eauto.
    - rewrite rc_nn in H1 by reflexivity. apply (IH1 (StNamed n2) w1 w2 g1 g2 S H1 H2).
    - rewrite rc_nn in H1 by reflexivity. apply (IH1 (StList t2') w1 w2 g1 g2 S H1 H2).
    - rewrite rc_nn in H1 by reflexivity. apply (IH1 (StNonNull t2') w1 w2 g1 g2 S H1 H2).
  Qed.

  (** objects: the declared-field pass, field by field *)
  Lemma obj_fold_routes (subs1 subs2 : list (name * (bool * (sty -> bool -> option gval)))) fields :
    (forall fname fd, In (fname, fd) fields ->
                   match aget fname subs1, aget fname subs2 with
                   | Some (a1, co1), Some (a2, co2) =>
                       a1 = a2 /\
                       forall g1 g2, co1 (in_type fd) true = Some g1 -> co2 (in_type fd) true = Some g2 -> g1 = g2
                   | None, None => True
                   | _, _ => False
                   end) ->
    forall m r1 r2,
      fold_left (ref_field_step subs1) fields (Some m) = Some r1 ->
      fold_left (ref_field_step subs2) fields (Some m) = Some r2 -> r1 = r2.
  Proof.
    induction fields as [|[fname fd] r IH]; intros Rel m r1 r2 H1 H2; simpl in H1, H2.
    - congruence.
    - pose proof (Rel fname fd (or_introl eq_refl)) as Rf.
      assert (Rel' : forall fname fd, In (fname, fd) r ->
                   match aget fname subs1, aget fname subs2 with
                   | Some (a1, co1), Some (a2, co2) =>
                       a1 = a2 /\
                       forall g1 g2, co1 (in_type fd) true = Some g1 -> co2 (in_type fd) true = Some g2 -> g1 = g2
                   | None, None => True
                   | _, _ => False
                   end) by (intros; apply Rel; right; auto).
      destruct (aget fname subs1) as [[a1 co1]|]; destruct (aget fname subs2) as [[a2 co2]|]; try contradiction.
      + destruct Rf as (<- & C). destruct a1.
        * destruct (in_default fd).
          -- eapply IH; eauto.
          -- destruct (is_nonnull (in_type fd)); [rewrite (fold_opt_none _ (fun _ => eq_refl)) in H1; discriminate|].
             eapply IH; eauto.
        * destruct (co1 (in_type fd) true) eqn:C1; [|rewrite (fold_opt_none _ (fun _ => eq_refl)) in H1; discriminate].
          destruct (co2 (in_type fd) true) eqn:C2; [|rewrite (fold_opt_none _ (fun _ => eq_refl)) in H2; discriminate].
          rewrite (C _ _ eq_refl eq_refl) in H1. eapply IH; eauto.
      + destruct (in_default fd).
        * eapply IH; eauto.
        * destruct (is_nonnull (in_type fd)); [rewrite (fold_opt_none _ (fun _ => eq_refl)) in H1; discriminate|].
          eapply IH; eauto.
  Qed.
End RefRoutes.

Section Routes.
  Variable E : env.
  Variable dt : bytes -> option bytes.
  Notation rcl := (ref_coerce E dt TLiteral).
  Notation rcj := (ref_coerce E dt TJson).

  Definition ref_routes (l : lit) : Prop := forall vv j t1 t2 w1 w2 g1 g2,
    same_value l j -> strip_nn t1 = strip_nn t2 ->
    rcl (abs_lit vv l) t1 w1 = Some g1 -> rcj (abs_json j) t2 w2 = Some g2 -> g1 = g2.

  Lemma named_not_object tr v n w g : (forall kvs, v <> IObject kvs) -> plain v = true ->
    ref_coerce E dt tr v (StNamed n) w = Some g ->
    exists td, aget n E = Some td /\
               match td with
               | TScalar k => ref_scalar dt tr k v = Some g
               | TEnum vals => match tr, v with TLiteral, IEnum x => aget x vals | TJson, IString x => aget x vals | _, _ => None end = Some g
               | TInput _ _ => False
               end.
  Proof.
    intros No P H. rewrite rc_eq in H.
    destruct (aget n E) as [td|] eqn:T; [|destruct v; discriminate].
    exists td. split; auto. destruct td as [k|vals|fields h].
    - destruct v; try discriminate; exact H.
    - destruct v; try discriminate; exact H.
    - destruct v; try discriminate. eapply No; eauto.
  Qed.

  Ltac atom_routes S :=
    apply nonlist_routes; try reflexivity;
    let n := fresh "n" in let w1 := fresh "w1" in let w2 := fresh "w2" in
    let g1 := fresh "g1" in let g2 := fresh "g2" in let H1 := fresh "H1" in let H2 := fresh "H2" in
    intros n w1 w2 g1 g2 H1 H2;
    apply named_not_object in H1 as (td1 & T1 & H1); [|intros ? X; discriminate X|reflexivity];
    apply named_not_object in H2 as (td2 & T2 & H2); [|intros ? X; discriminate X|reflexivity];
    rewrite T1 in T2; inversion T2; subst td2;
    destruct td1 as [?sk|?vals|?fields ?h]; [|try congruence|contradiction].

  Theorem ref_routes_all : forall l, ref_routes l.
  Proof.
    induction l as [n|z|m k|s|b| |n|vs IHl|fs IHf] using lit_ind'; intros vv j t1 t2 w1 w2 g1 g2 S;
      destruct j as [|b'|d|z'|s'|js|kvs|]; simpl in S; try contradiction.
    - (* integer literal / JSON number *)
      cbn [abs_lit abs_json]. atom_routes S.
      eapply (scalar_routes dt vv _ (LInt z) (JNum d)); eauto; exact S.
    - (* integer literal / Go int *)
      cbn [abs_lit abs_json]. atom_routes S.
      eapply (scalar_routes dt vv _ (LInt z) (JInt z')); eauto; exact S.
    - (* float literal *)
      cbn [abs_lit abs_json]. rewrite S. atom_routes S.
      eapply (scalar_routes dt vv _ (LFloat m k) (JNum d)); eauto; cbn [abs_lit]; rewrite ?S; eauto.
    - cbn [abs_lit abs_json]. atom_routes S.
      eapply (scalar_routes dt vv _ (LString s) (JStr s')); eauto; exact S.
    - cbn [abs_lit abs_json]. atom_routes S.
      eapply (scalar_routes dt vv _ (LBool b) (JBool b')); eauto; exact S.
    - (* null *)
      intros _ H1 H2. cbn [abs_lit abs_json] in *. rewrite rc_eq in H1, H2.
      destruct (is_nonnull t1); destruct (is_nonnull t2); congruence.
    - (* enum literal / JSON string *)
      cbn [abs_lit abs_json]. atom_routes S.
      eapply (scalar_routes dt vv _ (LEnum n) (JStr s')); eauto; exact S.
    - (* lists *)
      cbn [abs_lit abs_json]. apply list_routes.
      intros t1' t2' c1 c2 St O1 O2.
      revert js S c1 c2 O1 O2. induction vs as [|x r IHr]; intros [|y js'] S c1 c2 O1 O2; simpl in *; try contradiction.
      + congruence.
      + destruct S as [Sxy S]. inversion IHl as [|? ? Hx Hr]; subst.
        destruct (rcl (abs_lit vv x) t1' false) eqn:F1; try discriminate.
        destruct (opt_map (fun x => rcl x t1' false) (map (abs_lit vv) r)) eqn:R1; try discriminate.
        destruct (rcj (abs_json y) t2' false) eqn:F2; try discriminate.
        destruct (opt_map (fun x => rcj x t2' false) (map abs_json js')) eqn:R2; try discriminate.
        inversion O1; inversion O2; subst. f_equal.
        * eapply Hx; eauto.
        * eapply IHr; eauto.
    - (* objects *)
      cbn [abs_lit abs_json]. apply nonlist_routes; try reflexivity.
      intros n w1' w2' c1 c2 H1 H2. rewrite rc_eq in H1, H2.
      destruct (aget n E) as [[k|vals|fields h]|]; try discriminate.
      { destruct k; discriminate. }
      destruct (dup_names _ || _); try discriminate. destruct (dup_names _ || _); try discriminate.
      match type of H1 with match ?F with _ => _ end = _ => destruct F as [m1|] eqn:F1; try discriminate end.
      match type of H2 with match ?F with _ => _ end = _ => destruct F as [m2|] eqn:F2; try discriminate end.
      assert (m1 = m2); [|subst; congruence].
      eapply obj_fold_routes; [|exact F1|exact F2].
      clear F1 F2 H1 H2. intros fname fd _.
      revert kvs S. induction fs as [|[k1 x] r IHr]; intros [|[k2 y] kvs'] S; simpl in *; try contradiction; auto.
      destruct S as (<- & Sxy & S). inversion IHf as [|? ? Hx Hr]; subst.
      destruct (bytes_eqb fname k1).
      + split.
        * destruct x; simpl in Sxy; try contradiction; destruct y; try contradiction; try reflexivity.
          simpl. rewrite Sxy. reflexivity.
        * intros c1' c2' C1 C2. simpl in Hx. eapply Hx; eauto.
      + apply IHr; auto.
  Qed.
End Routes.

(** ** the same statements on the model (through the refinement theorems) *)
Lemma same_value_nodup : forall l j, same_value l j -> jval_ok j = true -> lit_nodup l = true.
Proof.
  induction l as [n|z|m k|s|b| |n|vs IHl|fs IHf] using lit_ind'; intros j S W; try reflexivity.
  - destruct j as [|b'|d|z'|s'|js|kvs|]; simpl in S; try contradiction.
    cbn [jval_ok] in W. cbn [lit_nodup].
    revert js S W. induction vs as [|x r IHr]; intros [|y js'] S W; simpl in *; try contradiction; auto.
    destruct S as [Sxy S]. apply andb_true_iff in W as [Wy W]. inversion IHl; subst.
    apply andb_true_iff. split; eauto.
  - destruct j as [|b'|d|z'|s'|js|kvs|]; simpl in S; try contradiction.
    cbn [jval_ok] in W. apply andb_true_iff in W as [Wd W]. cbn [lit_nodup].
    assert (K : map fst fs = map fst kvs).
    { clear Wd W IHf. revert kvs S. induction fs as [|[k1 x] r IHr]; intros [|[k2 y] kvs'] S; simpl in *; try contradiction; auto.
      destruct S as (-> & _ & S). f_equal. auto. }
    rewrite K, Wd. cbn [andb].
    clear K Wd. revert kvs S W. induction fs as [|[k1 x] r IHr]; intros [|[k2 y] kvs'] S W; simpl in *; try contradiction; auto.
    destruct S as (_ & Sxy & S). apply andb_true_iff in W as [Wy W]. inversion IHf; subst.
    apply andb_true_iff. split; eauto.
Qed.

Section ModelRoutes.
  Variable E : env.
  Variable dt : bytes -> option bytes.
  Hypothesis HE : env_ok E = true.

  (** literal versus variable value *)
  Theorem route_independent vv l j t1 t2 a1 a2 g1 g2 :
    same_value l j -> jval_ok j = true -> strip_nn t1 = strip_nn t2 ->
    coerce_literal all_fixed E dt vv l t1 a1 = Ok g1 ->
    coerce_var_value all_fixed E dt j t2 a2 = Ok g2 ->
    g1 = g2.
  Proof.
    intros S W St H1 H2.
    pose proof (literal_refines all_fixed E dt HE eq_refl eq_refl vv l (same_value_nodup l j S W) t1 a1) as R1.
    pose proof (var_value_refines all_fixed E dt eq_refl eq_refl j W t2 a2) as R2.
    rewrite H1 in R1. rewrite H2 in R2. simpl in R1, R2.
    eapply (ref_routes_all E dt l vv j t1 t2 a1 a2); eauto.
  Qed.
End ModelRoutes.
