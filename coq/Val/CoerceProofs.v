(** * Val/CoerceProofs.v — C05: proofs about the coercion model. *)
From Coq Require Import List NArith ZArith Bool Lia.
From ApiFu Require Import Base.Sexp Val.Values Val.CoerceModel Val.CoerceSpec.
Import ListNotations.

Lemma placeholder_null_literal : forall fx E dt vv t a,
  coerce_literal fx E dt vv LNull t a = (if is_nonnull t then Err else Ok GNil).
Proof. intros. destruct t; reflexivity. Qed.
