(** * Val/CoerceProofs.v — C05: proofs about the coercion model (CoerceModel.v) against the
    reference semantics (CoerceSpec.v). *)
From Coq Require Import List NArith ZArith Bool Lia.
From ApiFu Require Import Base.Sexp Val.Values Val.MapFacts Val.CoerceModel Val.CoerceSpec.
Import ListNotations.

(** ** induction principles for the nested value types *)
Section JvalInd.
  Variable P : jval -> Prop.
  Hypothesis HNull : P JNull.
  Hypothesis HBool : forall b, P (JBool b).
  Hypothesis HNum : forall d, P (JNum d).
  Hypothesis HInt : forall z, P (JInt z).
  Hypothesis HStr : forall s, P (JStr s).
  Hypothesis HList : forall l, Forall P l -> P (JList l).
  Hypothesis HObj : forall kvs, Forall (fun p => P (snd p)) kvs -> P (JObj kvs).
  Hypothesis HOther : P JOther.
  Fixpoint jval_ind' (j : jval) : P j :=
    match j with
    | JNull => HNull
    | JBool b => HBool b
    | JNum d => HNum d
    | JInt z => HInt z
    | JStr s => HStr s
    | JList l => HList l ((fix go (l : list jval) : Forall P l :=
                             match l with [] => Forall_nil _ | x :: r => Forall_cons _ (jval_ind' x) (go r) end) l)
    | JObj kvs => HObj kvs ((fix go (l : list (name * jval)) : Forall (fun p => P (snd p)) l :=
                               match l with [] => Forall_nil _ | p :: r => Forall_cons _ (jval_ind' (snd p)) (go r) end) kvs)
    | JOther => HOther
    end.
End JvalInd.

Section LitInd.
  Variable P : lit -> Prop.
  Hypothesis HVar : forall n, P (LVar n).
  Hypothesis HInt : forall z, P (LInt z).
  Hypothesis HFloat : forall m k, P (LFloat m k).
  Hypothesis HString : forall s, P (LString s).
  Hypothesis HBool : forall b, P (LBool b).
  Hypothesis HNull : P LNull.
  Hypothesis HEnum : forall n, P (LEnum n).
  Hypothesis HList : forall l, Forall P l -> P (LList l).
  Hypothesis HObj : forall fs, Forall (fun p => P (snd p)) fs -> P (LObject fs).
  Fixpoint lit_ind' (l : lit) : P l :=
    match l with
    | LVar n => HVar n
    | LInt z => HInt z
    | LFloat m k => HFloat m k
    | LString s => HString s
    | LBool b => HBool b
    | LNull => HNull
    | LEnum n => HEnum n
    | LList vs => HList vs ((fix go (l : list lit) : Forall P l :=
                               match l with [] => Forall_nil _ | x :: r => Forall_cons _ (lit_ind' x) (go r) end) vs)
    | LObject fs => HObj fs ((fix go (l : list (name * lit)) : Forall (fun p => P (snd p)) l :=
                                match l with [] => Forall_nil _ | p :: r => Forall_cons _ (lit_ind' (snd p)) (go r) end) fs)
    end.
End LitInd.

(** ** small facts *)
Lemma default_value_ref d : default_value d = ref_default d.
Proof. destruct d; reflexivity. Qed.

Lemma f64_eqb_refl d : f64_eqb d d = true.
Proof. unfold f64_eqb. rewrite !Z.eqb_refl. reflexivity. Qed.

Lemma gval_eqb_refl : forall g, gval_eqb g g = true.
Proof.
  fix IH 1. intros g; destruct g as [| |z|z|d|s|b|c|vs|kvs|t v|]; simpl.
  - reflexivity.
  - reflexivity.
  - apply Z.eqb_refl.
  - apply Z.eqb_refl.
  - apply f64_eqb_refl.
  - apply bytes_eqb_refl.
  - apply Bool.eqb_reflx.
  - apply bytes_eqb_refl.
  - induction vs as [|x r IHr]; [reflexivity|]. rewrite IH, IHr; reflexivity.
  - induction kvs as [|[k x] r IHr]; [reflexivity|]. rewrite bytes_eqb_refl, IH, IHr; reflexivity.
  - rewrite bytes_eqb_refl, IH; reflexivity.
  - reflexivity.
Qed.

Lemma dup_names_has_dup l : dup_names l = has_dup l.
Proof. induction l as [|x r IH]; simpl; [reflexivity|]. rewrite IH; reflexivity. Qed.

Lemma nodup_aget {A} (l : list (name * A)) k v :
  dup_names (map fst l) = false -> In (k, v) l -> aget k l = Some v.
Proof.
  induction l as [|[k' v'] r IH]; simpl; intros D []; subst.
  - inversion H; subst. rewrite bytes_eqb_refl; reflexivity.
  - apply orb_false_iff in D as [D1 D2].
    destruct (bytes_eqb k k') eqn:B.
    + apply bytes_eqb_eq in B; subst k'. exfalso.
      assert (X : existsb (bytes_eqb k) (map fst r) = true).
      { apply existsb_exists. exists k. split; [|apply bytes_eqb_refl]. change k with (fst (k, v)). apply in_map; auto. }
      congruence.
    + apply IH; auto.
Qed.

(** ** res_map *)
Lemma res_map_Forall {A} (f : A -> res gval) (P : A -> Prop) (Q : gval -> Prop) l cs :
  Forall P l -> (forall x c, P x -> f x = Ok c -> Q c) -> res_map f l = Ok cs -> Forall Q cs.
Proof.
  intros HP HQ. revert cs. induction HP as [|x r Hx Hr IH]; simpl; intros cs H.
  - inversion H; constructor.
  - destruct (f x) eqn:Fx; try discriminate. destruct (res_map f r) eqn:Fr; try discriminate.
    inversion H; subst. constructor; eauto.
Qed.

(** ** fold_left over a [res] accumulator *)
Section FoldRes.
  Context {A B : Type}.
  Variable step : res A -> B -> res A.
  Hypothesis step_err : forall b, step Err b = Err.
  Hypothesis step_panic : forall b, step Panic b = Panic.

  Lemma fold_res_err l : fold_left step l Err = Err.
  Proof. induction l; simpl; auto. rewrite step_err; auto. Qed.
  Lemma fold_res_panic l : fold_left step l Panic = Panic.
  Proof. induction l; simpl; auto. rewrite step_panic; auto. Qed.

  Lemma fold_res_inv (Inv : list B -> A -> Prop) l : forall pre a0 a,
    Inv pre a0 ->
    (forall pre' b a1 a2, Inv pre' a1 -> In b l -> step (Ok a1) b = Ok a2 -> Inv (pre' ++ [b]) a2) ->
    fold_left step l (Ok a0) = Ok a -> Inv (pre ++ l) a.
  Proof.
    induction l as [|b r IH]; simpl; intros pre a0 a H0 Hs H.
    - inversion H; subst. rewrite app_nil_r; auto.
    - destruct (step (Ok a0) b) as [a1| |] eqn:S.
      + replace (pre ++ b :: r) with ((pre ++ [b]) ++ r) by (rewrite <- app_assoc; reflexivity).
        apply (IH (pre ++ [b]) a1 a).
        * eapply Hs; eauto.
        * intros pre' b' a1' a2' Hi Hin Hst. eapply Hs; eauto.
        * exact H.
      + rewrite fold_res_err in H; discriminate.
      + rewrite fold_res_panic in H; discriminate.
  Qed.

  Lemma fold_res_inv2 (Inv : list B -> A -> Prop) l : forall pre a0 a,
    Inv pre a0 ->
    (forall pre' b suf a1 a2, pre ++ l = pre' ++ b :: suf -> Inv pre' a1 -> step (Ok a1) b = Ok a2 -> Inv (pre' ++ [b]) a2) ->
    fold_left step l (Ok a0) = Ok a -> Inv (pre ++ l) a.
  Proof.
    induction l as [|b r IH]; simpl; intros pre a0 a H0 Hs H.
    - inversion H; subst. rewrite app_nil_r; auto.
    - destruct (step (Ok a0) b) as [a1| |] eqn:S.
      + replace (pre ++ b :: r) with ((pre ++ [b]) ++ r) in * by (rewrite <- app_assoc; reflexivity).
        apply (IH (pre ++ [b]) a1 a).
        * eapply Hs; eauto. rewrite <- app_assoc; reflexivity.
        * intros pre' b' suf a1' a2' Heq Hi Hst. eapply Hs; eauto.
        * exact H.
      + rewrite fold_res_err in H; discriminate.
      + rewrite fold_res_panic in H; discriminate.
  Qed.
End FoldRes.

Section FoldOpt.
  Context {A B : Type}.
  Variable step : option A -> B -> option A.
  Hypothesis step_none : forall b, step None b = None.
  Lemma fold_opt_none l : fold_left step l None = None.
  Proof. induction l; simpl; auto. rewrite step_none; auto. Qed.
  Lemma fold_opt_inv (Inv : list B -> A -> Prop) l : forall pre a0 a,
    Inv pre a0 ->
    (forall pre' b a1 a2, Inv pre' a1 -> In b l -> step (Some a1) b = Some a2 -> Inv (pre' ++ [b]) a2) ->
    fold_left step l (Some a0) = Some a -> Inv (pre ++ l) a.
  Proof.
    induction l as [|b r IH]; simpl; intros pre a0 a H0 Hs H.
    - inversion H; subst. rewrite app_nil_r; auto.
    - destruct (step (Some a0) b) as [a1|] eqn:S.
      + replace (pre ++ b :: r) with ((pre ++ [b]) ++ r) by (rewrite <- app_assoc; reflexivity).
        apply (IH (pre ++ [b]) a1 a).
        * eapply Hs; eauto.
        * intros pre' b' a1' a2' Hi Hin Hst. eapply Hs; eauto.
        * exact H.
      + rewrite fold_opt_none in H; discriminate.
  Qed.
End FoldOpt.

Lemma var_field_step_err subs b : var_field_step subs Err b = Err. Proof. reflexivity. Qed.
Lemma var_field_step_panic subs b : var_field_step subs Panic b = Panic. Proof. reflexivity. Qed.
Lemma lit_default_step_err b : lit_default_step Err b = Err. Proof. reflexivity. Qed.
Lemma lit_default_step_panic b : lit_default_step Panic b = Panic. Proof. reflexivity. Qed.

(** ** unfolding equations *)
Section Equations.
  Variable fx : fixes.
  Variable E : env.
  Variable dt : bytes -> option bytes.

  Lemma cvv_eq j t a : coerce_var_value fx E dt j t a =
    match j with
    | JNull => if is_nonnull t then Err else Ok GNil
    | _ =>
        match t with
        | StNonNull t' => coerce_var_value fx E dt j t' (if fix_nn_flag fx then a else true)
        | StList t' =>
            match j with
            | JList items => res_list (res_map (fun v => coerce_var_value fx E dt v t' false) items)
            | _ => if a then match coerce_var_value fx E dt j t' true with
                             | Ok c => Ok (GList [c]) | Err => Err | Panic => Panic end
                   else Err
            end
        | StNamed n =>
            match aget n E with
            | Some (TScalar k) => of_option (scalar_variable fx dt k j)
            | Some (TEnum vals) => enum_variable vals j
            | Some (TInput fields h) =>
                match j with
                | JObj kvs =>
                    match fold_left (var_field_step (map (fun p => match p with (k, jv) => (k, coerce_var_value fx E dt jv) end) kvs))
                                    fields (Ok []) with
                    | Ok result => if forallb (fun p => ahas (fst p) fields) kvs then apply_hook h result else Err
                    | Err => Err
                    | Panic => Panic
                    end
                | _ => Err
                end
            | None => Panic
            end
        end
    end.
  Proof. destruct j; destruct t; reflexivity. Qed.

  Lemma cl_eq vv l t a : coerce_literal fx E dt vv l t a =
    match l with
    | LNull => if is_nonnull t then Err else Ok GNil
    | _ =>
        match (match l with LVar n => aget n vv | _ => None end) with
        | Some value => if fix_null_var fx && is_nil value && is_nonnull t then Err else Ok value
        | None =>
            match t with
            | StNonNull t' => coerce_literal fx E dt vv l t' (if fix_nn_flag fx then a else true)
            | StList t' =>
                match l with
                | LList vs => res_list (res_map (fun v => coerce_literal fx E dt vv v t' false) vs)
                | _ => if a then match coerce_literal fx E dt vv l t' true with
                                 | Ok c => Ok (GList [c]) | Err => Err | Panic => Panic end
                       else Err
                end
            | StNamed n =>
                match aget n E with
                | Some (TScalar k) => of_option (scalar_literal dt k l)
                | Some (TEnum vals) => enum_literal vals l
                | Some (TInput fields h) =>
                    match l with
                    | LObject fs =>
                        match lit_fields_loop (coerce_literal fx E dt vv) vv fields fs [] with
                        | Ok result =>
                            match fold_left lit_default_step fields (Ok result) with
                            | Ok result' => apply_hook h result'
                            | Err => Err
                            | Panic => Panic
                            end
                        | Err => Err
                        | Panic => Panic
                        end
                    | _ => Err
                    end
                | None => Panic
                end
            end
        end
    end.
  Proof. destruct l; destruct t; reflexivity. Qed.

  Lemma conforms_eq g t : conforms E g t =
    match g with
    | GNil => negb (is_nonnull t)
    | _ =>
        match t with
        | StNonNull t' => conforms E g t'
        | StList t' => match g with GList items => forallb (fun x => conforms E x t') items | _ => false end
        | StNamed n =>
            match aget n E with
            | Some (TScalar k) => scalar_conforms k g
            | Some (TEnum vals) => existsb (fun p => gval_eqb (snd p) g) vals
            | Some (TInput fields h) =>
                match h, g with
                | HNone, GMap kvs => map_ok (conforms E) fields kvs
                | HWrap tag, GTagged tag' (GMap kvs) => bytes_eqb tag tag' && map_ok (conforms E) fields kvs
                | _, _ => false
                end
            | None => false
            end
        end
    end.
  Proof. destruct g; destruct t; reflexivity. Qed.
End Equations.

(** ** conformance of what the coercion functions return *)
Section Conform.
  Variable fx : fixes.
  Variable E : env.
  Variable dt : bytes -> option bytes.
  Hypothesis HE : env_ok E = true.

  Lemma env_ok_lookup n td : aget n E = Some td -> tdef_ok E td = true.
  Proof.
    intro H. apply aget_In in H. unfold env_ok in HE. rewrite forallb_forall in HE.
    apply (HE (n, td)); auto.
  Qed.

  Lemma in_range_within lo hi z : in_range lo hi z = within lo hi z.
  Proof. reflexivity. Qed.

  Lemma scalar_variable_conforms k j g :
    jval_ok j = true -> scalar_variable fx dt k j = Some g -> scalar_conforms k g = true /\ g <> GNil.
  Proof.
    intros W H.
    destruct k; destruct j; cbn [scalar_variable coerce_int coerce_float coerce_long_int is_jbool andb] in H;
      repeat match type of H with
        | context [if ?c then _ else _] => destruct c eqn:?
        | context [match f64_to_Z ?d with _ => _ end] => destruct (f64_to_Z d) eqn:?
        | context [option_map _ ?o] => destruct o eqn:?; cbn [option_map] in H
        end;
      try discriminate; inversion H; subst; cbn [scalar_conforms]; split; try discriminate; auto.
  Qed.

  Lemma scalar_literal_conforms k l g :
    scalar_literal dt k l = Some g -> scalar_conforms k g = true /\ g <> GNil.
  Proof.
    intros H.
    destruct k; destruct l; cbn [scalar_literal] in H;
      repeat match type of H with
        | context [if ?c then _ else _] => destruct c eqn:?
        | context [option_map _ ?o] => destruct o eqn:?; cbn [option_map] in H
        end;
      try discriminate; inversion H; subst; cbn [scalar_conforms]; split; try discriminate; auto.
    all: match goal with Hq : _ && _ = true |- _ => apply andb_true_iff in Hq as [_ Hs]; exact Hs end.
  Qed.

  Lemma enum_value_conforms vals n g :
    forallb (fun p => plain_value (snd p)) vals = true -> aget n vals = Some g ->
    existsb (fun p : name * gval => gval_eqb (snd p) g) vals = true /\ g <> GNil.
  Proof.
    intros Hp H. apply aget_In in H. split.
    - apply existsb_exists. exists (n, g). split; auto. apply gval_eqb_refl.
    - rewrite forallb_forall in Hp. specialize (Hp _ H). simpl in Hp. destruct g; try discriminate.
  Qed.

  Lemma conforms_nonnull g t : g <> GNil -> conforms E g (StNonNull t) = conforms E g t.
  Proof. intro N. rewrite (conforms_eq E g (StNonNull t)). destruct g; auto. contradiction. Qed.

  Lemma conforms_nil t : conforms E GNil t = negb (is_nonnull t).
  Proof. rewrite conforms_eq. reflexivity. Qed.

  Lemma conforms_list cs t : Forall (fun c => conforms E c t = true) cs -> conforms E (GList cs) (StList t) = true.
  Proof. intro H. rewrite conforms_eq. apply forallb_forall. rewrite Forall_forall in H. auto. Qed.

  (** *** the map an input object coercion builds *)
  Definition entry_ok (fields : list (name * in_def)) (p : name * gval) : Prop :=
    exists fd, aget (fst p) fields = Some fd /\ conforms E (snd p) (in_type fd) = true.

  Lemma entries_ok_intro fields m : Forall (entry_ok fields) m -> entries_ok (conforms E) fields m = true.
  Proof.
    induction 1 as [|[k x] r [fd [Hg Hc]] _ IH]; simpl; auto.
    simpl in Hg, Hc. rewrite Hg, Hc. exact IH.
  Qed.

  Definition built (fields : list (name * in_def)) (done : list (name * in_def)) (m : list (name * gval)) : Prop :=
    keys_sorted m = true /\ Forall (entry_ok fields) m /\
    forall f, In f done -> field_present m f = true.

  Lemma built_map_ok fields m : built fields fields m -> map_ok (conforms E) fields m = true.
  Proof.
    intros (S & En & P). unfold map_ok. rewrite S, entries_ok_intro by auto. simpl.
    apply forallb_forall; auto.
  Qed.

  Lemma field_present_mset m k v f : field_present m f = true -> field_present (mset k v m) f = true.
  Proof.
    unfold field_present. rewrite ahas_mset. intro H. apply orb_true_iff in H as [H|H].
    - rewrite H, orb_true_r. reflexivity.
    - rewrite H. apply orb_true_r.
  Qed.

  Lemma built_mset fields done m fname fd c :
    built fields done m -> aget fname fields = Some fd -> conforms E c (in_type fd) = true ->
    built fields (done ++ [(fname, fd)]) (mset fname c m).
  Proof.
    intros (S & En & P) Hg Hc. split; [|split].
    - apply keys_sorted_mset; auto.
    - apply Forall_mset; auto. exists fd; auto.
    - intros f Hf. apply in_app_or in Hf as [Hf|[<-|[]]].
      + apply field_present_mset; auto.
      + unfold field_present. simpl. rewrite ahas_mset, bytes_eqb_refl. reflexivity.
  Qed.

  Lemma built_skip fields done m f :
    built fields done m -> field_present m f = true -> built fields (done ++ [f]) m.
  Proof.
    intros (S & En & P) Hp. split; [|split]; auto.
    intros f' Hf. apply in_app_or in Hf as [Hf|[<-|[]]]; auto.
  Qed.

  Lemma hook_conforms n fields h m g :
    aget n E = Some (TInput fields h) -> map_ok (conforms E) fields m = true -> apply_hook h m = Ok g ->
    conforms E g (StNamed n) = true /\ g <> GNil.
  Proof.
    intros Hn Hm Hh. destruct h; simpl in Hh; inversion Hh; subst; split; try discriminate.
    - rewrite conforms_eq, Hn. exact Hm.
    - rewrite conforms_eq, Hn. rewrite bytes_eqb_refl. exact Hm.
  Qed.

  Lemma fields_nodup n fields h : aget n E = Some (TInput fields h) -> dup_names (map fst fields) = false.
  Proof.
    intro H. apply env_ok_lookup in H. simpl in H. apply andb_true_iff in H as [H _].
    apply negb_true_iff in H. exact H.
  Qed.

  Lemma fields_default_ok n fields h f :
    aget n E = Some (TInput fields h) -> In f fields -> default_ok E (snd f) = true.
  Proof.
    intros H Hf. apply env_ok_lookup in H. simpl in H. apply andb_true_iff in H as [_ H].
    rewrite forallb_forall in H. auto.
  Qed.

  (** *** values that arrive through variables *)
  Definition var_ok (j : jval) : Prop :=
    forall t a g, coerce_var_value fx E dt j t a = Ok g ->
                  conforms E g t = true /\ (j <> JNull -> g <> GNil).

  Lemma aget_subs (kvs : list (name * jval)) k co :
    aget k (map (fun p => match p with (k, jv) => (k, coerce_var_value fx E dt jv) end) kvs) = Some co ->
    exists jv, In (k, jv) kvs /\ co = coerce_var_value fx E dt jv.
  Proof.
    induction kvs as [|[k' jv] r IH]; simpl; intro H; try discriminate.
    destruct (bytes_eqb k k') eqn:B.
    - apply bytes_eqb_eq in B; subst. inversion H; subst. eauto.
    - destruct (IH H) as (jv' & Hin & Hco). eauto.
  Qed.

  Lemma named_scalar_ok n k g : aget n E = Some (TScalar k) -> scalar_conforms k g = true -> g <> GNil ->
    conforms E g (StNamed n) = true.
  Proof. intros Hn Hs Hg. rewrite conforms_eq, Hn. destruct g; auto; contradiction. Qed.

  Lemma named_enum_ok n vals g : aget n E = Some (TEnum vals) ->
    existsb (fun p : name * gval => gval_eqb (snd p) g) vals = true -> g <> GNil -> conforms E g (StNamed n) = true.
  Proof. intros Hn Hs Hg. rewrite conforms_eq, Hn. destruct g; auto; contradiction. Qed.

  Ltac nn_case IHt H :=
    let Hc := fresh "Hc" in let Hn := fresh "Hn" in
    destruct (IHt _ _ H) as [Hc Hn]; split; [rewrite conforms_nonnull; auto; apply Hn; discriminate | exact Hn].

  Ltac wrap_case j t' IHt a H :=
    let C := fresh "C" in
    destruct a; [|discriminate];
    destruct (coerce_var_value fx E dt j t' true) eqn:C; inversion H; subst;
    split; [|intros _; discriminate]; apply conforms_list; constructor; auto; apply (IHt _ _ C).

  Ltac scalar_case j k Hn H :=
    let Sv := fresh "Sv" in let Sc := fresh "Sc" in let Nn := fresh "Nn" in
    unfold of_option in H; destruct (scalar_variable fx dt k j) eqn:Sv; inversion H; subst;
    apply scalar_variable_conforms in Sv as [Sc Nn]; auto; split; auto; eapply named_scalar_ok; eauto.

  Ltac atom_case j W :=
    let t := fresh "t" in let n := fresh "n" in let t' := fresh "t'" in let IHt := fresh "IHt" in
    let a := fresh "a" in let g := fresh "g" in let H := fresh "H" in
    let k := fresh "k" in let vals := fresh "vals" in let fields := fresh "fields" in let h := fresh "h" in
    let Hn := fresh "Hn" in
    intros t; induction t as [n|t' IHt|t' IHt]; intros a g H; rewrite cvv_eq in H;
    [ destruct (aget n E) as [[k|vals|fields h]|] eqn:Hn;
      [ scalar_case j k Hn H | cbn [enum_variable] in H; try discriminate | cbn iota in H; discriminate | discriminate ]
    | wrap_case j t' IHt a H
    | nn_case IHt H ].

  Lemma var_value_ok : forall j, jval_ok j = true -> var_ok j.
  Proof.
    induction j as [|b|d|z|s|l IHl|kvs IHk|] using jval_ind'; intros W.
    - (* JNull *)
      intros t a g H. rewrite cvv_eq in H. destruct (is_nonnull t) eqn:N; inversion H; subst.
      split; [|congruence]. rewrite conforms_nil, N. reflexivity.
    - atom_case (JBool b) W.
    - atom_case (JNum d) W.
    - atom_case (JInt z) W.
    - atom_case (JStr s) W.
      (* JStr at an enum *)
      unfold of_option in H. destruct (aget s vals) eqn:Hv; inversion H; subst.
      pose proof (env_ok_lookup _ _ Hn) as Ht. simpl in Ht.
      destruct (enum_value_conforms _ _ _ Ht Hv). split; auto. eapply named_enum_ok; eauto.
    - (* JList *)
      pose proof W as W0. simpl in W. rewrite forallb_forall in W.
      intros t; induction t as [n|t' IHt|t' IHt]; intros a g H; rewrite cvv_eq in H.
      + destruct (aget n E) as [[k|vals|fields h]|] eqn:Hn; try discriminate.
        scalar_case (JList l) k Hn H.
      + destruct (res_map (fun v => coerce_var_value fx E dt v t' false) l) eqn:R; inversion H; subst.
        split; [|intros _; discriminate]. apply conforms_list.
        eapply res_map_Forall with (P := fun v => jval_ok v = true /\ var_ok v); [| |exact R].
        * rewrite Forall_forall in *. intros x Hx. split; auto.
        * intros x c [Wx Vx] Hc. apply (Vx _ _ _ Hc).
      + nn_case IHt H.
    - (* JObj *)
      pose proof W as W0. simpl in W. apply andb_true_iff in W as [Wd W]. rewrite forallb_forall in W.
      intros t; induction t as [n|t' IHt|t' IHt]; intros a g H; rewrite cvv_eq in H.
      + destruct (aget n E) as [[k|vals|fields h]|] eqn:Hn; try discriminate.
        * scalar_case (JObj kvs) k Hn H.
        * match type of H with context [fold_left ?st fields (Ok [])] => destruct (fold_left st fields (Ok [])) as [result| |] eqn:F end; try discriminate.
          destruct (forallb (fun p => ahas (fst p) fields) kvs) eqn:U; try discriminate.
          match goal with |- ?A /\ (_ -> ?B) => cut (A /\ B); [intros [? ?]; split; auto|] end.
          eapply hook_conforms; eauto. apply built_map_ok.
          change fields with ([] ++ fields) at 2.
          eapply (fold_res_inv _ (var_field_step_err _) (var_field_step_panic _) (built fields)); [| |exact F].
          -- split; [reflexivity|split; [constructor|intros f []]].
          -- intros pre [fname fd] m1 m2 Hb Hin Hs. cbn [var_field_step] in Hs.
             pose proof (nodup_aget _ _ _ (fields_nodup _ _ _ Hn) Hin) as Hg.
             destruct (aget fname _) as [co|] eqn:Hco in Hs.
             ++ apply aget_subs in Hco as (jv & Hjv & ->).
                destruct (coerce_var_value fx E dt jv (in_type fd) true) eqn:C; inversion Hs; subst.
                apply built_mset; auto.
                rewrite Forall_forall in IHk. apply (IHk (fname, jv) Hjv (W _ Hjv) _ _ _ C).
             ++ destruct (in_default fd) eqn:D.
                ** inversion Hs; subst. apply built_mset; auto.
                   pose proof (fields_default_ok _ _ _ _ Hn Hin) as Hd. unfold default_ok in Hd. simpl in Hd.
                   rewrite D in Hd. rewrite default_value_ref. exact Hd.
                ** destruct (is_nonnull (in_type fd)) eqn:N; inversion Hs; subst.
                   apply built_skip; auto. unfold field_present. simpl. rewrite N, D. apply orb_true_r.
      + wrap_case (JObj kvs) t' IHt a H.
      + nn_case IHt H.
    - atom_case JOther W.
  Qed.
End Conform.

Section GvalInd.
  Variable P : gval -> Prop.
  Hypothesis HNil : P GNil.
  Hypothesis HSent : P GNullSentinel.
  Hypothesis HInt : forall z, P (GInt z).
  Hypothesis HInt64 : forall z, P (GInt64 z).
  Hypothesis HFloat : forall d, P (GFloat d).
  Hypothesis HString : forall s, P (GString s).
  Hypothesis HBool : forall b, P (GBool b).
  Hypothesis HTime : forall c, P (GTime c).
  Hypothesis HList : forall l, Forall P l -> P (GList l).
  Hypothesis HMap : forall kvs, Forall (fun p => P (snd p)) kvs -> P (GMap kvs).
  Hypothesis HTagged : forall t v, P v -> P (GTagged t v).
  Hypothesis HOther : P GOther.
  Fixpoint gval_ind' (g : gval) : P g :=
    match g with
    | GNil => HNil
    | GNullSentinel => HSent
    | GInt z => HInt z
    | GInt64 z => HInt64 z
    | GFloat d => HFloat d
    | GString s => HString s
    | GBool b => HBool b
    | GTime c => HTime c
    | GList l => HList l ((fix go (l : list gval) : Forall P l :=
                             match l with [] => Forall_nil _ | x :: r => Forall_cons _ (gval_ind' x) (go r) end) l)
    | GMap kvs => HMap kvs ((fix go (l : list (name * gval)) : Forall (fun p => P (snd p)) l :=
                               match l with [] => Forall_nil _ | p :: r => Forall_cons _ (gval_ind' (snd p)) (go r) end) kvs)
    | GTagged t v => HTagged t v (gval_ind' v)
    | GOther => HOther
    end.
End GvalInd.

Lemma tc_eq lt vt : types_compatible lt vt =
  match lt with
  | StNonNull lt' => match vt with StNonNull vt' => types_compatible lt' vt' | _ => false end
  | _ =>
      match vt with
      | StNonNull vt' => types_compatible lt vt'
      | _ =>
          match lt with
          | StList lt' => match vt with StList vt' => types_compatible lt' vt' | _ => false end
          | StNamed ln => match vt with StNamed vn => bytes_eqb vn ln | _ => false end
          | StNonNull _ => false
          end
      end
  end.
Proof. destruct lt; destruct vt; reflexivity. Qed.

(** a value of the variable's type is a value of every location type the validator lets the
    variable appear at (validateVariableUsage / areTypesCompatible) *)
Section Compat.
  Variable E : env.

  Lemma compat_conforms : forall g lt vt,
    types_compatible lt vt = true -> conforms E g vt = true -> conforms E g lt = true.
  Proof.
    induction g as [| |z|z|d|s|b|c|l IHl|kvs _|tg v _|] using gval_ind'.
    1: { (* nil: a non-null location needs a non-null variable type *)
      intros lt; induction lt as [ln|lt' _|lt' _]; intros vt; induction vt as [vn|vt' IHv|vt' IHv];
        intros C H; rewrite tc_eq in C; rewrite ?conforms_nil in *; simpl in *; try discriminate; auto. }
    all: intros lt; induction lt as [ln|lt' IHlt|lt' IHlt]; intros vt; induction vt as [vn|vt' IHv|vt' IHv];
      intros C H; rewrite tc_eq in C; try discriminate.
    all: try (apply bytes_eqb_eq in C; subst; exact H).
    all: try (apply IHv; auto; rewrite conforms_eq in H; exact H).
    all: try (rewrite conforms_eq; apply IHlt with (vt := vt'); auto; rewrite conforms_eq in H; exact H).
    all: try (rewrite conforms_eq in H; discriminate).
    (* a list at compatible list types *)
    rewrite conforms_eq in H. rewrite conforms_eq.
    rewrite forallb_forall in *. rewrite Forall_forall in IHl. intros x Hx. eapply IHl; eauto.
  Qed.
End Compat.

(** ** literals: what [coerce_literal] returns conforms, given that the variables inside were
    accepted by the static variable-usage rule and hold values of their declared types *)
Section LitConform.
  Variable fx : fixes.
  Variable E : env.
  Variable dt : bytes -> option bytes.
  Hypothesis HE : env_ok E = true.
  Hypothesis Hfix : fix_null_var fx = true.
  Hypothesis Hio : fix_item_object fx = true.
  Variable defs : list vardef.
  Variable vv : cvars.

  Definition vv_ok : Prop :=
    forall n g, aget n vv = Some g ->
                exists def, find_def n defs = Some def /\ conforms E g (vd_type def) = true.
  Hypothesis Hvv : vv_ok.

  Lemma absent_var_not_ok n : aget n vv = None -> forall t a g, coerce_literal fx E dt vv (LVar n) t a <> Ok g.
  Proof.
    intros Hn t. induction t as [m|t' IHt|t' IHt]; intros a g H; rewrite cl_eq in H; rewrite Hn in H.
    - destruct (aget m E) as [[k|vals|fields h]|]; try discriminate. destruct k; discriminate.
    - destruct a; try discriminate. destruct (coerce_literal fx E dt vv (LVar n) t' true) eqn:C; try discriminate.
      eapply IHt; eauto.
    - eapply IHt; eauto.
  Qed.

  Lemma usage_conforms def t ld g :
    var_usage_ok E def t ld = true -> conforms E g (vd_type def) = true ->
    (g = GNil -> is_nonnull t = false) -> conforms E g t = true.
  Proof.
    unfold var_usage_ok. intros U C N. apply andb_true_iff in U as [_ U].
    destruct t as [n|t'|t'].
    - eapply compat_conforms; eauto.
    - eapply compat_conforms; eauto.
    - destruct (is_nonnull (vd_type def)) eqn:V.
      + eapply compat_conforms; eauto.
      + apply andb_true_iff in U as [_ U].
        destruct g; try (rewrite conforms_eq; eapply compat_conforms; eauto; fail).
        specialize (N eq_refl). discriminate.
  Qed.

  Definition lit_conf (l : lit) : Prop :=
    forall t a g ld, coerce_literal fx E dt vv l t a = Ok g -> usage_ok fx E defs l (Some t) ld = true ->
                     conforms E g t = true /\ ((forall n, l <> LVar n) -> l <> LNull -> g <> GNil).

  Ltac lnn_case IHt H U ld :=
    let Hc := fresh "Hc" in let Hn := fresh "Hn" in
    destruct (IHt _ _ ld H U) as [Hc Hn]; split; [rewrite conforms_nonnull; auto; apply Hn; congruence | exact Hn].

  Ltac lwrap_case l t' IHt a H U ld :=
    let C := fresh "C" in
    destruct a; [|discriminate];
    destruct (coerce_literal fx E dt vv l t' true) eqn:C; inversion H; subst;
    split; [|intros _ _; discriminate]; apply conforms_list; constructor; auto; apply (IHt _ _ ld C U).

  Ltac lscalar_case l k Hn H :=
    let Sv := fresh "Sv" in let Sc := fresh "Sc" in let Nn := fresh "Nn" in
    unfold of_option in H; destruct (scalar_literal dt k l) eqn:Sv; inversion H; subst;
    apply scalar_literal_conforms in Sv as [Sc Nn]; split; auto; eapply named_scalar_ok; eauto.

  Ltac latom_case l :=
    let t := fresh "t" in let n := fresh "n" in let t' := fresh "t'" in let IHt := fresh "IHt" in
    let a := fresh "a" in let g := fresh "g" in let H := fresh "H" in let U := fresh "U" in let ld := fresh "ld" in
    let k := fresh "k" in let vals := fresh "vals" in let fields := fresh "fields" in let h := fresh "h" in
    let Hn := fresh "Hn" in
    intros t; induction t as [n|t' IHt|t' IHt]; intros a g ld H U; rewrite cl_eq in H;
    [ destruct (aget n E) as [[k|vals|fields h]|] eqn:Hn;
      [ lscalar_case l k Hn H | cbn [enum_literal] in H; try discriminate | cbn iota in H; discriminate | discriminate ]
    | lwrap_case l t' IHt a H U ld
    | lnn_case IHt H U ld ].

  Lemma lit_fields_loop_built fields fs : forall result result',
    dup_names (map fst fields) = false ->
    Forall (fun p => lit_conf (snd p)) fs ->
    forallb (fun p : name * lit =>
               match aget (fst p) fields with
               | Some fd => usage_ok fx E defs (snd p) (Some (in_type fd)) (field_loc_default fd)
               | None => usage_ok fx E defs (snd p) None false
               end) fs = true ->
    keys_sorted result = true -> Forall (entry_ok E fields) result ->
    lit_fields_loop (coerce_literal fx E dt vv) vv fields fs result = Ok result' ->
    keys_sorted result' = true /\ Forall (entry_ok E fields) result'.
  Proof.
    intros result result' Hd HF. revert result result'.
    induction HF as [|[fname fv] r Hp _ IH]; intros result result' U S En H; simpl in H.
    - inversion H; subst; auto.
    - simpl in U. apply andb_true_iff in U as [U1 U2].
      destruct (aget fname fields) as [fd|] eqn:Hg; try discriminate.
      match type of H with (if ?c then _ else _) = _ => destruct c end.
      + eapply IH; eauto.
      + destruct (coerce_literal fx E dt vv fv (in_type fd) true) eqn:C; try discriminate.
        apply (IH (mset fname a result) result' U2); [| |exact H].
        * apply keys_sorted_mset; auto.
        * apply Forall_mset; auto. exists fd. split; auto. simpl. apply (Hp _ _ _ _ C U1).
  Qed.

  Lemma lit_default_fold_built n fields h result result' :
    aget n E = Some (TInput fields h) ->
    keys_sorted result = true -> Forall (entry_ok E fields) result ->
    fold_left lit_default_step fields (Ok result) = Ok result' ->
    built E fields fields result'.
  Proof.
    intros Hn S En F.
    change fields with ([] ++ fields) at 2.
    eapply (fold_res_inv _ lit_default_step_err lit_default_step_panic (built E fields)); [| |exact F].
    - split; [auto|split; [auto|intros f []]].
    - intros pre [fname fd] m1 m2 Hb Hin Hs. cbn [lit_default_step] in Hs.
      pose proof (nodup_aget _ _ _ (fields_nodup E HE _ _ _ Hn) Hin) as Hg.
      destruct (aget fname m1) as [v|] eqn:G.
      + destruct (in_default fd); (destruct (is_nil v && is_nonnull (in_type fd)); inversion Hs; subst;
          apply built_skip; auto; unfold field_present, ahas; simpl; rewrite G; reflexivity).
      + destruct (in_default fd) eqn:D.
        * inversion Hs; subst. apply built_mset; auto.
          pose proof (fields_default_ok E HE _ _ _ _ Hn Hin) as Hd. unfold default_ok in Hd. simpl in Hd.
          rewrite D in Hd. rewrite default_value_ref. exact Hd.
        * simpl in Hs. destruct (is_nonnull (in_type fd)) eqn:N; inversion Hs; subst.
          apply built_skip; auto. unfold field_present. simpl. rewrite N, D. apply orb_true_r.
  Qed.

  Lemma literal_conf : forall l, lit_conf l.
  Proof.
    induction l as [n|z|m k|s|b| |n|vs IHl|fs IHf] using lit_ind'.
    - (* a variable *)
      intros t a g ld H U. destruct (aget n vv) as [value|] eqn:Hv.
      + rewrite cl_eq, Hv, Hfix in H. simpl in H.
        destruct (is_nil value && is_nonnull t) eqn:N; inversion H; subst.
        split; [|intros X; exfalso; apply (X n); reflexivity].
        cbn [usage_ok] in U. destruct (Hvv _ _ Hv) as (def & Hd & Hc). rewrite Hd in U.
        eapply usage_conforms; eauto. intros ->. simpl in N. exact N.
      + exfalso. eapply absent_var_not_ok; eauto.
    - latom_case (LInt z).
    - latom_case (LFloat m k).
    - latom_case (LString s).
    - latom_case (LBool b).
    - intros t a g ld H U. rewrite cl_eq in H. destruct (is_nonnull t) eqn:N; inversion H; subst.
      split; [|congruence]. rewrite conforms_nil, N. reflexivity.
    - latom_case (LEnum n).
      unfold of_option in H. destruct (aget n vals) eqn:Hv; inversion H; subst.
      pose proof (env_ok_lookup E HE _ _ Hn) as Ht. simpl in Ht.
      destruct (enum_value_conforms _ _ _ Ht Hv). split; auto. eapply named_enum_ok; eauto.
    - (* a list literal *)
      intros t; induction t as [n|t' IHt|t' IHt]; intros a g ld H U; rewrite cl_eq in H.
      + destruct (aget n E) as [[k|vals|fields h]|] eqn:Hn; try discriminate.
        lscalar_case (LList vs) k Hn H.
      + destruct (res_map (fun v => coerce_literal fx E dt vv v t' false) vs) eqn:R; inversion H; subst.
        split; [|intros _ _; discriminate]. apply conforms_list.
        cbn [usage_ok nullable_type] in U. rewrite forallb_forall in U.
        eapply res_map_Forall with (P := fun v => lit_conf v /\ usage_ok fx E defs v (Some t') false = true); [| |exact R].
        * rewrite Forall_forall in *. intros x Hx. split; auto.
        * intros x c [Lx Ux] Hc. apply (Lx _ _ _ _ Hc Ux).
      + assert (U' : usage_ok fx E defs (LList vs) (Some t') ld = true) by exact U.
        lnn_case IHt H U' ld.
    - (* an object literal *)
      intros t; induction t as [n|t' IHt|t' IHt]; intros a g ld H U; rewrite cl_eq in H.
      + destruct (aget n E) as [[k|vals|fields h]|] eqn:Hn; try discriminate.
        * lscalar_case (LObject fs) k Hn H.
        * destruct (lit_fields_loop (coerce_literal fx E dt vv) vv fields fs []) as [r1| |] eqn:L1; try discriminate.
          destruct (fold_left lit_default_step fields (Ok r1)) as [r2| |] eqn:L2; try discriminate.
          match goal with |- ?A /\ (_ -> _ -> ?B) => cut (A /\ B); [intros [? ?]; split; auto|] end.
          eapply hook_conforms; eauto. apply built_map_ok.
          cbn [usage_ok] in U. rewrite Hio in U. cbn [leaf_type] in U. rewrite Hn in U.
          destruct (lit_fields_loop_built fields fs [] r1 (fields_nodup E HE _ _ _ Hn) IHf U eq_refl (Forall_nil _) L1) as [S1 E1].
          eapply lit_default_fold_built; eauto.
      + assert (U' : usage_ok fx E defs (LObject fs) (Some t') ld = true).
        { cbn [usage_ok] in *. rewrite Hio in *. exact U. }
        lwrap_case (LObject fs) t' IHt a H U' ld.
      + assert (U' : usage_ok fx E defs (LObject fs) (Some t') ld = true).
        { cbn [usage_ok] in *. rewrite Hio in *. exact U. }
        lnn_case IHt H U' ld.
  Qed.
End LitConform.

(** ** the two top-level functions *)
Lemma closed_usage_ok fx E defs : forall l e ld, lit_vars l = [] -> usage_ok fx E defs l e ld = true.
Proof.
  induction l as [n|z|m k|s|b| |n|vs IHl|fs IHf] using lit_ind'; intros e ld C; simpl in *; auto; try discriminate.
  - apply forallb_forall. intros x Hx. rewrite Forall_forall in IHl. apply IHl; auto.
    destruct (lit_vars x) eqn:Lx; auto. exfalso.
    assert (In n (flat_map lit_vars vs)) by (apply in_flat_map; exists x; split; auto; rewrite Lx; left; auto).
    rewrite C in H. contradiction.
  - apply forallb_forall. intros [k x] Hx. rewrite Forall_forall in IHf.
    assert (Lx : lit_vars x = []).
    { destruct (lit_vars x) eqn:Lx; auto. exfalso.
      assert (In n (flat_map (fun p : name * lit => lit_vars (snd p)) fs))
        by (apply in_flat_map; exists (k, x); split; auto; simpl; rewrite Lx; left; auto).
      rewrite C in H. contradiction. }
    simpl. destruct (aget k _); apply (IHf (k, x) Hx); auto.
Qed.

Lemma find_def_nodup defs def :
  has_dup (map vd_name defs) = false -> In def defs -> find_def (vd_name def) defs = Some def.
Proof.
  unfold find_def. induction defs as [|d r IH]; simpl; intros D []; subst.
  - rewrite bytes_eqb_refl; reflexivity.
  - apply orb_false_iff in D as [D1 D2].
    destruct (bytes_eqb (vd_name def) (vd_name d)) eqn:B.
    + apply bytes_eqb_eq in B. exfalso.
      assert (X : existsb (bytes_eqb (vd_name d)) (map vd_name r) = true).
      { apply existsb_exists. exists (vd_name def). split; [apply in_map; auto|]. rewrite B. apply bytes_eqb_refl. }
      congruence.
    + apply IH; auto.
Qed.

Lemma nodup_prefix {A} (pre : list (name * A)) x suf :
  has_dup (map fst (pre ++ x :: suf)) = false -> forall y, In y pre -> fst y <> fst x.
Proof.
  induction pre as [|p r IH]; simpl; intros D y []; subst.
  - apply orb_false_iff in D as [D _]. intro Eq.
    assert (X : existsb (bytes_eqb (fst y)) (map fst (r ++ x :: suf)) = true).
    { apply existsb_exists. exists (fst x). split; [apply in_map; apply in_or_app; right; left; auto|].
      rewrite Eq; apply bytes_eqb_refl. }
    congruence.
  - apply orb_false_iff in D as [_ D]. eapply IH; eauto.
Qed.

Lemma aget_fold_mset {A} (args : list (name * A)) : forall m0 k v,
  aget k (fold_left (fun m (a : name * A) => mset (fst a) (snd a) m) args m0) = Some v ->
  In (k, v) args \/ aget k m0 = Some v.
Proof.
  induction args as [|[k' v'] r IH]; simpl; intros m0 k v H; auto.
  apply IH in H as [H|H]; auto. rewrite aget_mset in H.
  destruct (bytes_eqb k k') eqn:B; auto. apply bytes_eqb_eq in B; subst. inversion H; subst. left; left; reflexivity.
Qed.

Section TopLevel.
  Variable fx : fixes.
  Variable E : env.
  Variable dt : bytes -> option bytes.
  Hypothesis HE : env_ok E = true.
  Hypothesis Hfix : fix_null_var fx = true.
  Hypothesis Hio : fix_item_object fx = true.

  Lemma variable_values_ok defs raw vv :
    has_dup (map vd_name defs) = false ->
    (forall def dflt, In def defs -> vd_default def = Some dflt -> lit_vars dflt = []) ->
    (forall p, In p raw -> jval_ok (snd p) = true) ->
    coerce_variable_values fx E dt defs raw = Ok vv -> vv_ok E defs vv.
  Proof.
    intros Hd Hc Hr H. unfold coerce_variable_values in H.
    set (Inv := fun (done : list vardef) (m : cvars) =>
                  forall n g, aget n m = Some g -> exists def, In def done /\ vd_name def = n /\ conforms E g (vd_type def) = true).
    assert (I : Inv ([] ++ defs) vv).
    { eapply (fold_res_inv _ (fun _ => eq_refl) (fun _ => eq_refl) Inv); [| |exact H].
      - intros n g G; discriminate.
      - intros pre def m1 m2 Hi Hin Hs. cbn [var_step] in Hs.
        destruct (negb (type_known E (vd_type def))); try discriminate.
        assert (Ext : forall c, conforms E c (vd_type def) = true -> Inv (pre ++ [def]) (mset (vd_name def) c m1)).
        { intros c Hcf n g G. rewrite aget_mset in G. destruct (bytes_eqb n (vd_name def)) eqn:B.
          - apply bytes_eqb_eq in B. inversion G; subst. exists def. split; [apply in_or_app; right; left; auto|auto].
          - destruct (Hi _ _ G) as (d0 & H0 & H1 & H2). exists d0. split; [apply in_or_app; auto|auto]. }
        destruct (aget (vd_name def) raw) as [value|] eqn:R.
        + destruct (coerce_var_value fx E dt value (vd_type def) true) eqn:C; inversion Hs; subst.
          apply Ext. apply aget_In in R. apply (var_value_ok fx E dt HE value (Hr _ R) _ _ _ C).
        + destruct (vd_default def) as [dflt|] eqn:D.
          * destruct (coerce_literal fx E dt [] dflt (vd_type def) true) eqn:C; inversion Hs; subst.
            apply Ext.
            assert (V0 : vv_ok E defs []) by (intros n g G; discriminate).
            apply (literal_conf fx E dt HE Hfix Hio defs [] V0 dflt _ _ _ false C).
            apply closed_usage_ok. eapply Hc; eauto.
          * destruct (is_nonnull (vd_type def)); inversion Hs; subst.
            intros n g G. destruct (Hi _ _ G) as (d0 & H0 & H1 & H2). exists d0. split; [apply in_or_app; auto|auto]. }
    intros n g G. destruct (I _ _ G) as (def & Hin & Hn & Hcf). exists def. split; auto.
    subst n. apply find_def_nodup; auto.
  Qed.

  (** the outcome of one argument, as CoerceArgumentValues computes it: the declared default, a
      literal coercion of what the document says, or nothing *)
  Ltac lit_arg H d :=
    let C := fresh "C" in
    right; left; destruct (in_default d); rewrite andb_false_r in H; cbn iota in H;
    match type of H with context [coerce_literal ?a ?b ?c ?v ?l ?t true] =>
      destruct (coerce_literal a b c v l t true) eqn:C; inversion H; subst;
      exists l; eexists; split; [reflexivity|split; [exact C|reflexivity]] end.

  Lemma arg_step_cases av vv coerced aname d m2 :
    arg_step fx E dt av vv (Ok coerced) (aname, d) = Ok m2 ->
    (exists dv, in_default d = Some dv /\ m2 = mset aname (default_value dv) coerced)
    \/ (exists l c, aget aname av = Some l /\ coerce_literal fx E dt vv l (in_type d) true = Ok c /\ m2 = mset aname c coerced)
    \/ (m2 = coerced /\ is_nonnull (in_type d) = false /\ in_default d = None).
  Proof.
    intro H. cbn [arg_step] in H. cbv zeta in H.
    destruct (aget aname av) as [l|] eqn:G.
    - destruct l as [vn| | | | | | | |]; [ | lit_arg H d .. ].
      (* a variable as the whole argument *)
      destruct (ahas vn vv) eqn:Hv.
      + right; left. unfold ahas in Hv. destruct (aget vn vv) as [value|] eqn:Gv; try discriminate.
        exists (LVar vn), value. split; auto. rewrite cl_eq, Gv.
        destruct (in_default d); rewrite andb_false_r in H; cbn iota in H;
          (destruct (fix_null_var fx && is_nil value && is_nonnull (in_type d)); inversion H; subst; auto).
      + destruct (in_default d) as [dv|] eqn:D.
        * left. inversion H; subst. eauto.
        * right; right. rewrite andb_true_r in H. destruct (is_nonnull (in_type d)); inversion H; subst; auto.
    - destruct (in_default d) as [dv|] eqn:D.
      + left. inversion H; subst. eauto.
      + right; right. rewrite andb_true_r in H. destruct (is_nonnull (in_type d)); inversion H; subst; auto.
  Qed.

  Theorem argument_values_conform site argdefs defs args vv m :
    has_dup (map fst argdefs) = false ->
    (forall ad, In ad argdefs -> default_ok E (snd ad) = true) ->
    static_ok fx E dt site argdefs defs args = true ->
    vv_ok E defs vv ->
    coerce_argument_values fx E dt argdefs args vv = Ok m ->
    args_conform_b E argdefs m = true.
  Proof.
    intros Hd Hdef St Hvv H. unfold coerce_argument_values in H.
    set (av := fold_left (fun m (a : name * lit) => mset (fst a) (snd a) m) args []) in H.
    (* what validation established for each argument literal *)
    assert (Us : forall aname l d, aget aname av = Some l -> In (aname, d) argdefs ->
                                   usage_ok fx E defs l (Some (in_type d)) (arg_loc_default site d) = true).
    { intros aname l d G Hin. apply aget_fold_mset in G as [G|G]; [|discriminate].
      unfold static_ok in St. repeat (apply andb_true_iff in St as [St ?]).
      match goal with U : forallb (fun a => match aget (fst a) argdefs with Some d => usage_ok _ _ _ _ _ _ | None => false end) args = true |- _ =>
        rewrite forallb_forall in U; specialize (U _ G); simpl in U;
        rewrite (nodup_aget argdefs aname d) in U; [exact U|rewrite dup_names_has_dup; auto|auto] end. }
    set (Inv := fun (done : list (name * in_def)) (m : list (name * gval)) =>
                  (forall p, In p m -> exists ad, In ad done /\ fst ad = fst p) /\
                  (forall ad, In ad done ->
                              match aget (fst ad) m with
                              | Some g => conforms E g (in_type (snd ad)) = true
                              | None => is_nonnull (in_type (snd ad)) = false /\ in_default (snd ad) = None
                              end)).
    assert (I : Inv ([] ++ argdefs) m).
    { eapply (fold_res_inv2 _ (fun _ => eq_refl) (fun _ => eq_refl) Inv); [| |exact H].
      - split; [intros p []|intros ad []].
      - intros pre [aname d] suf m1 m2 Heq [K V] Hs. simpl in Heq.
        assert (Hin : In (aname, d) argdefs) by (rewrite Heq; apply in_or_app; right; left; auto).
        (* the names already done are different from this one, so it is not yet in the map *)
        assert (Fresh : forall y, In y pre -> fst y <> aname).
        { rewrite Heq in Hd. intros y Hy. apply (nodup_prefix _ _ _ Hd y Hy). }
        assert (G0 : aget aname m1 = None).
        { destruct (aget aname m1) eqn:G; auto. apply aget_In in G. destruct (K _ G) as (ad & Ha & Hb).
          exfalso. apply (Fresh ad Ha). exact Hb. }
        assert (Store : forall c, conforms E c (in_type d) = true -> Inv (pre ++ [(aname, d)]) (mset aname c m1)).
        { intros c Hc. split.
          - intros p Hp. apply In_mset in Hp as [->|Hp].
            + exists (aname, d). split; [apply in_or_app; right; left; auto|auto].
            + destruct (K _ Hp) as (ad & Ha & Hb). exists ad. split; [apply in_or_app; auto|auto].
          - intros ad Ha. apply in_app_or in Ha as [Ha|[<-|[]]].
            + rewrite aget_mset_other; [apply V; auto|]. intro X. apply (Fresh ad Ha). auto.
            + simpl. rewrite aget_mset_same. exact Hc. }
        apply arg_step_cases in Hs as [(dv & D & ->)|[(l & c & G & C & ->)|(-> & N & D)]].
        + apply Store. specialize (Hdef _ Hin). unfold default_ok in Hdef. simpl in Hdef. rewrite D in Hdef.
          rewrite default_value_ref. exact Hdef.
        + apply Store.
          apply (literal_conf fx E dt HE Hfix Hio defs vv Hvv l _ _ _ _ C (Us _ _ _ G Hin)).
        + split.
          * intros p Hp. destruct (K _ Hp) as (ad & Ha & Hb). exists ad. split; [apply in_or_app; auto|auto].
          * intros ad Ha. apply in_app_or in Ha as [Ha|[<-|[]]]; [apply V; auto|]. simpl. rewrite G0. auto. }
    destruct I as [K V]. simpl in K, V. unfold args_conform_b. apply andb_true_iff. split.
    - apply forallb_forall. intros [k g] Hp. destruct (K _ Hp) as ([k' d] & Ha & Hb). simpl in *. subst.
      eapply In_ahas; eauto.
    - apply forallb_forall. intros ad Ha. specialize (V _ Ha).
      destruct (aget (fst ad) m); auto. destruct V as [-> ->]. reflexivity.
  Qed.
End TopLevel.

(** ** the stage-1/stage-2 conformance theorem on the whole request, and how to read [conforms] *)
Section Requests.
  Variable E : env.
  Variable dt : bytes -> option bytes.

  Definition schema_ok (argdefs : list (name * in_def)) : Prop :=
    env_ok E = true /\ has_dup (map fst argdefs) = false /\
    forall ad, In ad argdefs -> default_ok E (snd ad) = true.

  Definition request_ok (defs : list vardef) (raw : list (name * jval)) : Prop :=
    (forall def dflt, In def defs -> vd_default def = Some dflt -> lit_vars dflt = []) /\
    (forall p, In p raw -> jval_ok (snd p) = true).

  Lemma static_ok_vardefs fx site argdefs defs args :
    static_ok fx E dt site argdefs defs args = true -> has_dup (map vd_name defs) = false.
  Proof.
    unfold static_ok. intro St. repeat (apply andb_true_iff in St as [St ?]).
    match goal with X : negb (has_dup (map vd_name defs)) = true |- _ => apply negb_true_iff in X; exact X end.
  Qed.

  Theorem args_conform site argdefs defs args raw vv m :
    schema_ok argdefs -> request_ok defs raw ->
    static_ok all_fixed E dt site argdefs defs args = true ->
    coerce_variable_values all_fixed E dt defs raw = Ok vv ->
    coerce_argument_values all_fixed E dt argdefs args vv = Ok m ->
    args_conform_b E argdefs m = true.
  Proof.
    intros (HE & Hd & Hdef) (Hc & Hr) St Hv Ha.
    eapply (argument_values_conform all_fixed E dt HE eq_refl eq_refl); eauto.
    eapply (variable_values_ok all_fixed E dt HE eq_refl eq_refl); eauto.
    eapply static_ok_vardefs; eauto.
  Qed.

  Corollary called_args_conform site argdefs defs args raw m :
    schema_ok argdefs -> request_ok defs raw ->
    run_request all_fixed E dt site argdefs defs args raw = OCalled m ->
    args_conform_b E argdefs m = true.
  Proof.
    intros Hs Hr H. unfold run_request in H.
    destruct (static_ok all_fixed E dt site argdefs defs args) eqn:St; simpl in H; try discriminate.
    destruct (coerce_variable_values all_fixed E dt defs raw) as [vv| |] eqn:Hv; try discriminate.
    destruct (coerce_argument_values all_fixed E dt argdefs args vv) as [m'| |] eqn:Ha; inversion H; subst.
    eapply args_conform; eauto.
  Qed.

  Corollary cost_args_conform site argdefs defs args raw m :
    schema_ok argdefs -> request_ok defs raw ->
    In m (cost_observation all_fixed E dt site argdefs defs args raw) ->
    args_conform_b E argdefs m = true.
  Proof.
    intros Hs Hr H. unfold cost_observation in H. simpl in H.
    destruct (static_ok all_fixed E dt site argdefs defs args) eqn:St; simpl in H; try contradiction.
    destruct (coerce_variable_values all_fixed E dt defs raw) as [vv| |] eqn:Hv; try contradiction.
    destruct (coerce_argument_values all_fixed E dt argdefs args vv) as [m'| |] eqn:Ha; try contradiction.
    destruct H as [<-|[]]. eapply args_conform; eauto.
  Qed.

  (** per argument *)
  Lemma args_conform_b_arg argdefs m a d :
    args_conform_b E argdefs m = true -> In (a, d) argdefs ->
    match aget a m with
    | Some g => conforms E g (in_type d) = true
    | None => is_nonnull (in_type d) = false /\ in_default d = None
    end.
  Proof.
    unfold args_conform_b. intros H Hin. apply andb_true_iff in H as [_ H].
    rewrite forallb_forall in H. specialize (H _ Hin). simpl in H.
    destruct (aget a m); auto. apply andb_true_iff in H as [H1 H2].
    apply negb_true_iff in H1. destruct (in_default d); try discriminate. auto.
  Qed.

  (** how to read [conforms]: never null at a non-null type *)
  Lemma conforms_nonnull_not_nil g t : conforms E g (StNonNull t) = true -> g <> GNil /\ conforms E g t = true.
  Proof.
    intro H. rewrite conforms_eq in H. destruct g; try (split; [discriminate|exact H]). discriminate.
  Qed.

  (** always a list at a list type (or null, when nullable) *)
  Lemma conforms_list_is_list g t : conforms E g (StList t) = true ->
    g = GNil \/ exists items, g = GList items /\ Forall (fun x => conforms E x t = true) items.
  Proof.
    intro H. rewrite conforms_eq in H. destruct g; try discriminate; auto.
    right. exists vs. split; auto. apply Forall_forall. rewrite forallb_forall in H. exact H.
  Qed.

  (** a declared value at an enum type *)
  Lemma conforms_enum_declared g n vals : aget n E = Some (TEnum vals) -> conforms E g (StNamed n) = true ->
    g = GNil \/ exists x v, In (x, v) vals /\ gval_eqb v g = true.
  Proof.
    intros Hn H. rewrite conforms_eq, Hn in H. destruct g; auto; right;
      apply existsb_exists in H as ([x v] & Hin & Heq); exists x, v; auto.
  Qed.

  (** a complete field map at an input object type (wrapped by the InputCoercion hook if any) *)
  Lemma conforms_object_complete g n fields h : aget n E = Some (TInput fields h) -> conforms E g (StNamed n) = true ->
    g = GNil \/
    exists kvs, (g = GMap kvs \/ exists tag, g = GTagged tag (GMap kvs)) /\
                keys_sorted kvs = true /\
                (forall k x, In (k, x) kvs -> exists fd, aget k fields = Some fd /\ conforms E x (in_type fd) = true) /\
                (forall f fd, In (f, fd) fields -> ahas f kvs = true \/ (is_nonnull (in_type fd) = false /\ in_default fd = None)).
  Proof.
    intros Hn H. rewrite conforms_eq, Hn in H.
    assert (M : forall kvs, map_ok (conforms E) fields kvs = true ->
                keys_sorted kvs = true /\
                (forall k x, In (k, x) kvs -> exists fd, aget k fields = Some fd /\ conforms E x (in_type fd) = true) /\
                (forall f fd, In (f, fd) fields -> ahas f kvs = true \/ (is_nonnull (in_type fd) = false /\ in_default fd = None))).
    { intros kvs Hm. unfold map_ok in Hm. apply andb_true_iff in Hm as [Hm P]. apply andb_true_iff in Hm as [S En].
      split; auto. split.
      - clear S P. induction kvs as [|[k' x'] r IH]; intros k x []; simpl in En; apply andb_true_iff in En as [E1 E2].
        + inversion H0; subst. destruct (aget k fields) as [fd|]; try discriminate. eauto.
        + eapply IH; eauto.
      - intros f fd Hin. rewrite forallb_forall in P. specialize (P _ Hin). unfold field_present in P. simpl in P.
        apply orb_true_iff in P as [P|P]; auto. right. apply andb_true_iff in P as [P1 P2].
        apply negb_true_iff in P1. destruct (in_default fd); try discriminate. auto. }
    destruct g; auto; right; destruct h; try discriminate.
    - exists kvs. split; auto.
    - destruct g; try discriminate. apply andb_true_iff in H as [_ H]. exists kvs. split; eauto.
  Qed.
End Requests.

(** ** the repaired defects, as refutations of the same statements on the pinned code *)
Definition n_x : name := [120]%N.
Definition n_s : name := [115]%N.
Definition n_Boolean : name := [66; 111; 111; 108; 101; 97; 110]%N.
Definition n_Int : name := [73; 110; 116]%N.
Definition E0 : env := [(n_Boolean, TScalar KBoolean); (n_Int, TScalar KInt)].
Definition dt0 : bytes -> option bytes := fun _ => None.

(** defect 5: query($s: Boolean = true) { f(x: $s) } with x: Boolean! and variables {"s": null} *)
Lemma args_conform_refuted_before_fix :
  exists argdefs defs args raw m,
    schema_ok E0 argdefs /\ request_ok defs raw /\
    run_request pinned E0 dt0 true argdefs defs args raw = OCalled m /\
    args_conform_b E0 argdefs m = false.
Proof.
  exists [(n_x, {| in_type := StNonNull (StNamed n_Boolean); in_default := None |})],
         [{| vd_name := n_s; vd_type := StNamed n_Boolean; vd_default := Some (LBool true) |}],
         [(n_x, LVar n_s)], [(n_s, JNull)], [(n_x, GNil)].
  split; [|split; [|split]].
  - split; [reflexivity|split; [reflexivity|]]. intros ad [<-|[]]; reflexivity.
  - split.
    + intros def dflt [<-|[]] H; inversion H; reflexivity.
    + intros p [<-|[]]; reflexivity.
  - vm_compute; reflexivity.
  - vm_compute; reflexivity.
Qed.

(** the cost function saw the arguments of documents the standard rules reject:
    query($s: Boolean) { f(x: $s) } with x: Boolean! and {"s": null} *)
Lemma cost_args_conform_refuted_before_fix :
  exists argdefs defs args raw m,
    schema_ok E0 argdefs /\ request_ok defs raw /\
    static_ok pinned E0 dt0 true argdefs defs args = false /\
    In m (cost_observation pinned E0 dt0 true argdefs defs args raw) /\
    args_conform_b E0 argdefs m = false.
Proof.
  exists [(n_x, {| in_type := StNonNull (StNamed n_Boolean); in_default := None |})],
         [{| vd_name := n_s; vd_type := StNamed n_Boolean; vd_default := None |}],
         [(n_x, LVar n_s)], [(n_s, JNull)], [(n_x, GNil)].
  split; [|split; [|split; [|split]]].
  - split; [reflexivity|split; [reflexivity|]]. intros ad [<-|[]]; reflexivity.
  - split.
    + intros def dflt [<-|[]] H; inversion H.
    + intros p [<-|[]]; reflexivity.
  - vm_compute; reflexivity.
  - vm_compute. left; reflexivity.
  - vm_compute; reflexivity.
Qed.

(** ** refinement: the model computes the reference coercion *)
Definition agrees {A} (r : res A) (o : option A) : Prop :=
  match r with Ok g => o = Some g | Err => o = None | Panic => True end.

Lemma agrees_of_option {A} (o : option A) : agrees (of_option o) o.
Proof. destruct o; reflexivity. Qed.

Lemma res_map_opt_map {A B} (f : A -> res gval) (f' : B -> option gval) (g : A -> B) l :
  Forall (fun x => agrees (f x) (f' (g x))) l -> agrees (res_map f l) (opt_map f' (map g l)).
Proof.
  induction 1 as [|x r Hx _ IH]; simpl; [reflexivity|].
  destruct (f x); simpl in Hx; [|rewrite Hx; reflexivity|exact I].
  rewrite Hx. destruct (res_map f r); simpl in IH; [|rewrite IH; reflexivity|exact I].
  rewrite IH. reflexivity.
Qed.

Lemma agrees_res_list r o : agrees r o -> agrees (res_list r) (option_map GList o).
Proof. destruct r; simpl; intro H; subst; auto. Qed.

Lemma agrees_hook h m : agrees (apply_hook h m) (ref_hook h m).
Proof. destruct h; reflexivity. Qed.

From ApiFu Require Import Val.FloatFacts.

Section Refinement.
  Variable fx : fixes.
  Variable E : env.
  Variable dt : bytes -> option bytes.
  Hypothesis Hbool : fix_bool_num fx = true.
  Hypothesis Hnn : fix_nn_flag fx = true.

  Lemma rc_eq tr v t w : ref_coerce E dt tr v t w =
    match v with
    | INull => if is_nonnull t then None else Some GNil
    | IVarVal g => if is_nil g then (if is_nonnull t then None else Some GNil) else Some g
    | IVarAbsent => None
    | IInvalid => None
    | _ =>
        match t with
        | StNonNull t' => ref_coerce E dt tr v t' w
        | StList t' =>
            match v with
            | IList items => option_map GList (opt_map (fun x => ref_coerce E dt tr x t' false) items)
            | _ => if w then option_map (fun c => GList [c]) (ref_coerce E dt tr v t' true) else None
            end
        | StNamed n =>
            match aget n E with
            | Some (TScalar k) => ref_scalar dt tr k v
            | Some (TEnum vals) =>
                match tr, v with
                | TLiteral, IEnum x => aget x vals
                | TJson, IString x => aget x vals
                | _, _ => None
                end
            | Some (TInput fields h) =>
                match v with
                | IObject kvs =>
                    if dup_names (map fst kvs) || negb (forallb (fun p => ahas (fst p) fields) kvs) then None
                    else match fold_left (ref_field_step (map (fun p => match p with (k, x) => (k, (is_absent x, ref_coerce E dt tr x)) end) kvs))
                                         fields (Some []) with
                         | Some m => ref_hook h m
                         | None => None
                         end
                | _ => None
                end
            | None => None
            end
        end
    end.
  Proof. destruct v; destruct t; reflexivity. Qed.

  Lemma scalar_variable_ref k j : jval_ok j = true ->
    scalar_variable fx dt k j = ref_scalar dt TJson k (abs_json j).
  Proof.
    intro W. destruct k; destruct j; cbn [scalar_variable is_jbool abs_json ref_scalar as_integer coerce_int coerce_float coerce_long_int];
      rewrite ?Hbool; cbn [andb]; try reflexivity.
    - (* Float from a Go int *)
      simpl in W. apply andb_true_iff in W as [W1 W2]. apply Z.leb_le in W1. apply Z.leb_le in W2.
      rewrite f64_of_Z_spec by lia. reflexivity.
    - (* ID from a Go int *)
      cbn [jval_ok] in W. unfold within. rewrite W. reflexivity.
  Qed.

  Definition var_refines (j : jval) : Prop :=
    forall t a, agrees (coerce_var_value fx E dt j t a) (ref_coerce E dt TJson (abs_json j) t a).

  Lemma is_absent_abs_json j : is_absent (abs_json j) = false.
  Proof. destruct j; reflexivity. Qed.

  Lemma subs_agree (kvs : list (name * jval)) fname :
    match aget fname (map (fun p => match p with (k, jv) => (k, coerce_var_value fx E dt jv) end) kvs) with
    | Some co => exists jv, In (fname, jv) kvs /\ co = coerce_var_value fx E dt jv /\
                            aget fname (map (fun p => match p with (k, x) => (k, (is_absent x, ref_coerce E dt TJson x)) end)
                                            (map (fun p => match p with (k, v) => (k, abs_json v) end) kvs))
                            = Some (false, ref_coerce E dt TJson (abs_json jv))
    | None => aget fname (map (fun p => match p with (k, x) => (k, (is_absent x, ref_coerce E dt TJson x)) end)
                              (map (fun p => match p with (k, v) => (k, abs_json v) end) kvs)) = None
    end.
  Proof.
    induction kvs as [|[k jv] r IH]; simpl; auto.
    destruct (bytes_eqb fname k) eqn:B.
    - apply bytes_eqb_eq in B; subst. exists jv. rewrite is_absent_abs_json. auto.
    - destruct (aget fname (map _ r)) as [co|]; auto.
      destruct IH as (jv' & Hin & Hco & Hg). exists jv'. auto.
  Qed.

  Definition acc_agrees (a : res (list (name * gval))) (b : option (list (name * gval))) : Prop := agrees a b.

  Lemma var_fold_agrees (kvs : list (name * jval)) fields :
    Forall (fun p => var_refines (snd p)) kvs ->
    forall acc acc', acc_agrees acc acc' ->
    acc_agrees (fold_left (var_field_step (map (fun p => match p with (k, jv) => (k, coerce_var_value fx E dt jv) end) kvs)) fields acc)
               (fold_left (ref_field_step (map (fun p => match p with (k, x) => (k, (is_absent x, ref_coerce E dt TJson x)) end)
                                               (map (fun p => match p with (k, v) => (k, abs_json v) end) kvs))) fields acc').
  Proof.
    intros HF. induction fields as [|[fname fd] r IH]; intros acc acc' Ha; simpl; auto.
    apply IH. destruct acc as [m| |]; simpl in Ha; subst; simpl; auto.
    pose proof (subs_agree kvs fname) as S.
    destruct (aget fname (map _ kvs)) as [co|].
    - destruct S as (jv & Hin & -> & ->). rewrite Forall_forall in HF. specialize (HF _ Hin (in_type fd) true). simpl in HF.
      destruct (coerce_var_value fx E dt jv (in_type fd) true); simpl in HF; rewrite ?HF; simpl; auto.
    - rewrite S. destruct (in_default fd) as [d0|]; [rewrite default_value_ref; reflexivity|].
      destruct (is_nonnull (in_type fd)); reflexivity.
  Qed.

  Lemma map_fst_abs (kvs : list (name * jval)) :
    map fst (map (fun p => match p with (k, v) => (k, abs_json v) end) kvs) = map fst kvs.
  Proof. induction kvs as [|[k v] r IH]; simpl; congruence. Qed.

  Lemma forallb_known_abs (kvs : list (name * jval)) (fields : list (name * in_def)) :
    forallb (fun p => ahas (fst p) fields) (map (fun p => match p with (k, v) => (k, abs_json v) end) kvs)
    = forallb (fun p => ahas (fst p) fields) kvs.
  Proof. induction kvs as [|[k v] r IH]; simpl; congruence. Qed.

  Ltac rnn_case IHt := rewrite Hnn; apply IHt.

  Ltac rwrap_case j t' IHt a :=
    destruct a; [|reflexivity];
    specialize (IHt true);
    unfold agrees in IHt |- *;
    destruct (coerce_var_value fx E dt j t' true); cbn beta iota in IHt |- *; [rewrite IHt; reflexivity|rewrite IHt; reflexivity|exact I].

  Ltac ratom_case j W :=
    let t := fresh "t" in let n := fresh "n" in let t' := fresh "t'" in let IHt := fresh "IHt" in
    let a := fresh "a" in
    intros t; induction t as [n|t' IHt|t' IHt]; intros a; rewrite cvv_eq, rc_eq; cbn [abs_json] in *;
    [ destruct (aget n E) as [[k|vals|fields h]|];
      [ rewrite (scalar_variable_ref k j W); apply agrees_of_option
      | cbn [enum_variable]; try reflexivity
      | reflexivity
      | exact I ]
    | rwrap_case j t' IHt a
    | rnn_case IHt ].

  Theorem var_value_refines : forall j, jval_ok j = true -> var_refines j.
  Proof.
    induction j as [|b|d|z|s|l IHl|kvs IHk|] using jval_ind'; intros W.
    - intros t a. rewrite cvv_eq, rc_eq. cbn [abs_json] in *. destruct (is_nonnull t); reflexivity.
    - ratom_case (JBool b) W.
    - ratom_case (JNum d) W.
    - ratom_case (JInt z) W.
    - ratom_case (JStr s) W. apply agrees_of_option.
    - (* lists *)
      pose proof W as W0. cbn [jval_ok] in W. rewrite forallb_forall in W.
      intros t; induction t as [n|t' IHt|t' IHt]; intros a; rewrite cvv_eq, rc_eq; cbn [abs_json] in *.
      + destruct (aget n E) as [[k|vals|fields h]|]; try reflexivity; try exact I.
        rewrite (scalar_variable_ref k (JList l) W0). apply agrees_of_option.
      + apply agrees_res_list. apply res_map_opt_map.
        rewrite Forall_forall in *. intros x Hx. apply (IHl x Hx (W x Hx)).
      + rnn_case IHt.
    - (* objects *)
      pose proof W as W0. cbn [jval_ok] in W. apply andb_true_iff in W as [Wd W]. rewrite forallb_forall in W.
      intros t; induction t as [n|t' IHt|t' IHt]; intros a; rewrite cvv_eq, rc_eq; cbn [abs_json] in *.
      + destruct (aget n E) as [[k|vals|fields h]|]; try reflexivity; try exact I.
        * rewrite (scalar_variable_ref k (JObj kvs) W0). apply agrees_of_option.
        * rewrite map_fst_abs, forallb_known_abs. apply negb_true_iff in Wd. rewrite Wd. cbn [orb].
          assert (HF : Forall (fun p => var_refines (snd p)) kvs).
          { rewrite Forall_forall in *. intros p Hp. apply (IHk p Hp (W p Hp)). }
          pose proof (var_fold_agrees kvs fields HF (Ok []) (Some []) eq_refl) as FA.
          destruct (fold_left (var_field_step _) fields (Ok [])) as [result| |]; unfold acc_agrees in FA; simpl in FA.
          -- destruct (forallb (fun p => ahas (fst p) fields) kvs); [|reflexivity].
             cbn [negb]. rewrite FA. apply agrees_hook.
          -- destruct (negb (forallb (fun p => ahas (fst p) fields) kvs)); [reflexivity|]. rewrite FA. reflexivity.
          -- exact I.
      + rwrap_case (JObj kvs) t' IHt a.
      + rnn_case IHt.
    - (* a foreign Go value: rejected everywhere *)
      intros t; induction t as [n|t' IHt|t' IHt]; intros a; rewrite cvv_eq, rc_eq; cbn [abs_json] in *.
      + destruct (aget n E) as [[k|vals|fields h]|]; try reflexivity; try exact I.
        destruct k; cbn [scalar_variable is_jbool coerce_int coerce_float coerce_long_int]; rewrite ?Hbool; reflexivity.
      + destruct a; [|reflexivity]. specialize (IHt true). rewrite rc_eq in IHt. unfold agrees in *.
        destruct (coerce_var_value fx E dt JOther t' true); cbn beta iota in *; auto. discriminate.
      + rewrite Hnn. specialize (IHt a). rewrite rc_eq in IHt. exact IHt.
  Qed.
End Refinement.
