(** * Val/FloatText.v — C05 x C04: [float_leaves_agree].  C04's ParseFloat range test
    ([Literals.float_lit_ok]) on the decimal text C05's bridge writes for an Int or Float literal
    accepts exactly when C05's rounding ([f64_of_Q] / [f64_of_decimal]) succeeds. *)
From Coq Require Import List NArith ZArith Bool Lia.
From ApiFu Require Import Base.Sexp Val.Values Val.CoerceModel Val.BridgeC04 Val.DecimalText Val.FloatRange Val.BridgeC04Proofs.
From ApiFu Require Vld.Literals Vld.Ast Vld.ValidatorModel.
Import ListNotations.
Local Open Scope Z_scope.

(** the number of digits [dec_pos] writes: 10^(n-1) <= z < 10^n *)
Lemma dec_pos_len : forall fuel z acc,
  1 <= z < 10 ^ Z.of_nat fuel ->
  let n := Z.of_nat (length (dec_pos fuel z acc)) - Z.of_nat (length acc) in
  1 <= n /\ 10 ^ (n - 1) <= z < 10 ^ n.
Proof.
  induction fuel as [|f IH]; intros z acc Hz; [simpl in Hz; lia|].
  cbn [dec_pos]. destruct (Z.ltb_spec z 10) as [Lt|Ge]; cbv zeta.
  - cbn [length]. rewrite Nat2Z.inj_succ. replace (Z.succ (Z.of_nat (length acc)) - Z.of_nat (length acc)) with 1 by lia.
    simpl. lia.
  - assert (Hq : 1 <= z / 10 < 10 ^ Z.of_nat f).
    { rewrite Nat2Z.inj_succ, Z.pow_succ_r in Hz by lia. split; [apply Z.div_le_lower_bound; lia|apply Z.div_lt_upper_bound; lia]. }
    specialize (IH (z / 10) ((Z.to_N (z mod 10) + 48)%N :: acc) Hq). cbv zeta in IH. cbn [length] in IH.
    rewrite Nat2Z.inj_succ in IH.
    set (L := Z.of_nat (length (dec_pos f (z / 10) ((Z.to_N (z mod 10) + 48)%N :: acc)))) in *.
    set (A := Z.of_nat (length acc)) in *. destruct IH as (N1 & Lo & Hi).
    pose proof (Z.div_mod z 10 ltac:(lia)) as DM. pose proof (Z.mod_pos_bound z 10 ltac:(lia)) as MB.
    split; [lia|].
    replace (L - A - 1) with (Z.succ (L - Z.succ A - 1)) by lia. replace (L - A) with (Z.succ (L - Z.succ A)) by lia.
    rewrite !Z.pow_succ_r by lia. lia.
Qed.

(** the text of a number: sign, digits, their count *)
Lemma dec_text z : z <> 0 ->
  exists D, dec_of_Z z = (if Z.ltb z 0 then [45%N] else []) ++ D /\
            Forall (fun c => Literals.is_digit c = true) D /\ dval D = Z.abs z /\ D <> [] /\
            10 ^ (Z.of_nat (length D) - 1) <= Z.abs z < 10 ^ Z.of_nat (length D).
Proof.
  intro Nz. destruct z as [|p|p]; [congruence| |].
  - destruct (dec_pos_top p) as (F & V & Nn). cbv zeta in F, V, Nn.
    pose proof (dec_pos_len (S (Pos.to_nat (Pos.size p))) (Zpos p) [] ltac:(split; [lia|apply pos_lt_pow10])) as Ln.
    cbv zeta in Ln. change (Z.of_nat (length (@nil BinNums.N))) with 0 in Ln. rewrite Z.sub_0_r in Ln.
    exists (dec_pos (S (Pos.to_nat (Pos.size p))) (Zpos p) []). split; [reflexivity|].
    split; [exact F|split; [exact V|split; [exact Nn|exact (proj2 Ln)]]].
  - destruct (dec_pos_top p) as (F & V & Nn). cbv zeta in F, V, Nn.
    pose proof (dec_pos_len (S (Pos.to_nat (Pos.size p))) (Zpos p) [] ltac:(split; [lia|apply pos_lt_pow10])) as Ln.
    cbv zeta in Ln. change (Z.of_nat (length (@nil BinNums.N))) with 0 in Ln. rewrite Z.sub_0_r in Ln.
    exists (dec_pos (S (Pos.to_nat (Pos.size p))) (Zpos p) []). split; [reflexivity|].
    split; [exact F|split; [exact V|split; [exact Nn|exact (proj2 Ln)]]].
Qed.

Lemma strip_sign_digits D rest : Forall (fun c => Literals.is_digit c = true) D -> D <> [] ->
  Literals.strip_sign (D ++ rest) = (false, D ++ rest).
Proof.
  intros F N. destruct D as [|c r]; [congruence|]. inversion F as [|? ? Hc _]; subst.
  unfold Literals.strip_sign. cbn [app]. unfold Literals.is_digit in Hc. apply andb_true_iff in Hc as [H1 H2].
  apply N.leb_le in H1, H2.
  destruct (N.eq_dec c 45) as [E|E]; [subst; lia|]. destruct (N.eq_dec c 43) as [E'|E']; [subst; lia|].
  destruct c as [|c]; [reflexivity|].
  do 7 (destruct c as [c|c|]; try reflexivity; try (exfalso; apply E; reflexivity); try (exfalso; apply E'; reflexivity)).
Qed.

Lemma f64_of_Q_neg p d : f64_of_Q (Zneg p) d = None <-> f64_of_Q (Zpos p) d = None.
Proof.
  unfold f64_of_Q. cbn [Z.abs]. destruct (f64_quot (Zpos p) d (f64_exp (Zpos p) d)) as [[q r] den].
  destruct (2 ^ 1024 <=? f64_round q r den * 2 ^ Z.max (f64_exp (Zpos p) d) 0); split; intro H; try reflexivity; discriminate.
Qed.

Definition is_some {A} (o : option A) : bool := match o with Some _ => true | None => false end.

(** overflow of the rounding, as a comparison *)
Lemma f64_of_Q_some n d : n <> 0 -> is_some (f64_of_Q n d) = Z.ltb (Z.abs n) (float_limit * Zpos d).
Proof.
  intro Nz. destruct n as [|p|p]; [congruence| |]; cbn [Z.abs].
  - pose proof (f64_of_Q_none_iff p d) as I. destruct (f64_of_Q (Zpos p) d); cbn [is_some].
    + symmetry. apply Z.ltb_lt. destruct (Z_lt_le_dec (Zpos p) (float_limit * Zpos d)); auto.
      apply I in l. discriminate.
    + symmetry. apply Z.ltb_ge. apply I. reflexivity.
  - pose proof (f64_of_Q_none_iff p d) as I. pose proof (f64_of_Q_neg p d) as Ng.
    destruct (f64_of_Q (Zneg p) d); cbn [is_some].
    + symmetry. apply Z.ltb_lt. destruct (Z_lt_le_dec (Zpos p) (float_limit * Zpos d)); auto.
      apply I in l. apply Ng in l. discriminate.
    + symmetry. apply Z.ltb_ge. apply I. apply Ng. reflexivity.
Qed.

(** C04's range test, given what [dec_lit] reads: mantissa |m| with nd digits, exponent k *)
Definition range_ok (m nd k : Z) : bool :=
  if Z.eqb m 0 then true
  else if Z.ltb 320 (k + nd) then false
  else if Z.ltb (k + nd) 300 then true
  else if Z.leb 0 k then Z.ltb (m * 10 ^ k) Literals.float_limit
  else Z.ltb m (Literals.float_limit * 10 ^ (- k)).

Lemma limit_eq : Literals.float_limit = float_limit. Proof. reflexivity. Qed.
Lemma pow10_320 : float_limit <= 10 ^ 320. Proof. unfold float_limit. vm_compute. discriminate. Qed.
Lemma pow10_299 : 10 ^ 299 < float_limit. Proof. unfold float_limit. vm_compute. reflexivity. Qed.

Lemma range_ok_spec m nd k : (m <> 0 -> 1 <= nd /\ 10 ^ (nd - 1) <= Z.abs m < 10 ^ nd) ->
  range_ok (Z.abs m) nd k = is_some (f64_of_decimal m k).
Proof.
  intros Hd. unfold range_ok, f64_of_decimal. destruct (Z.eqb_spec (Z.abs m) 0) as [Z0|Nz].
  - assert (m = 0) by lia. subst m. destruct (Z.leb_spec 0 k).
    + rewrite Z.mul_0_l. reflexivity.
    + assert (0 < 10 ^ (- k)) by (apply Z.pow_pos_nonneg; lia). destruct (10 ^ (- k)); try lia. reflexivity.
  - assert (Nm : m <> 0) by lia. destruct (Hd Nm) as (Nd & Lo & Hi). rewrite limit_eq.
    pose proof pow10_320 as P320. pose proof pow10_299 as P299.
    destruct (Z.leb_spec 0 k) as [Kp|Kn].
    + (* k >= 0: the value is m * 10^k *)
      assert (Pk : 0 < 10 ^ k) by (apply Z.pow_pos_nonneg; lia).
      assert (Nz' : m * 10 ^ k <> 0) by nia.
      rewrite (f64_of_Q_some _ 1 Nz'). rewrite Z.abs_mul, (Z.abs_eq (10 ^ k)) by lia. rewrite Z.mul_1_r.
      destruct (Z.ltb_spec 320 (k + nd)) as [Big|NB].
      * symmetry. apply Z.ltb_ge.
        assert (10 ^ 320 <= 10 ^ (nd - 1) * 10 ^ k) by (rewrite <- Z.pow_add_r by lia; apply Z.pow_le_mono_r; lia). nia.
      * destruct (Z.ltb_spec (k + nd) 300) as [Sm|NS]; [|reflexivity].
        symmetry. apply Z.ltb_lt.
        assert (10 ^ nd * 10 ^ k <= 10 ^ 299) by (rewrite <- Z.pow_add_r by lia; apply Z.pow_le_mono_r; lia). nia.
    + (* k < 0: the value is m / 10^(-k) *)
      assert (Pk : 0 < 10 ^ (- k)) by (apply Z.pow_pos_nonneg; lia).
      destruct (10 ^ (- k)) as [|d|d] eqn:Ed; try lia.
      rewrite (f64_of_Q_some _ d Nm).
      destruct (Z.ltb_spec 320 (k + nd)) as [Big|NB].
      * symmetry. apply Z.ltb_ge.
        assert (10 ^ (nd - 1) = 10 ^ (nd - 1 + k) * 10 ^ (- k)) by (rewrite <- Z.pow_add_r by lia; f_equal; lia).
        assert (10 ^ 320 <= 10 ^ (nd - 1 + k)) by (apply Z.pow_le_mono_r; lia).
        rewrite <- Ed. nia.
      * destruct (Z.ltb_spec (k + nd) 300) as [Sm|NS]; [|rewrite <- Ed; reflexivity].
        symmetry. apply Z.ltb_lt. rewrite <- Ed.
        destruct (Z_lt_le_dec (nd + k) 0) as [Ng|Pn].
        -- assert (10 ^ nd < 10 ^ (- k)) by (apply Z.pow_lt_mono_r; lia).
           assert (1 <= float_limit) by (unfold float_limit; vm_compute; discriminate). nia.
        -- assert (10 ^ nd = 10 ^ (nd + k) * 10 ^ (- k)) by (rewrite <- Z.pow_add_r by lia; f_equal; lia).
           assert (10 ^ (nd + k) <= 10 ^ 299) by (apply Z.pow_le_mono_r; lia). nia.
Qed.

Lemma float_lit_ok_range l : Literals.float_lit_ok l =
  match Literals.dec_lit l with None => false | Some (m, nd, e) => range_ok m nd e end.
Proof. unfold Literals.float_lit_ok, range_ok. destruct (Literals.dec_lit l) as [[[m nd] e]|]; reflexivity. Qed.

(** what [strip_sign] and [digits] make of the text of a number followed by [rest] *)
Lemma mant_part m rest :
  match rest with [] => True | c :: _ => Literals.is_digit c = false end ->
  exists nd, Literals.digits (snd (Literals.strip_sign (dec_of_Z m ++ rest))) 0 0 = (Z.abs m, nd, rest) /\ nd <> 0 /\
             (m <> 0 -> 1 <= nd /\ 10 ^ (nd - 1) <= Z.abs m < 10 ^ nd) /\
             fst (Literals.strip_sign (dec_of_Z m ++ rest)) = Z.ltb m 0.
Proof.
  intro Hr. destruct (Z.eq_dec m 0) as [->|Nz].
  - exists 1. cbn [dec_of_Z app Literals.strip_sign snd fst Z.abs]. 
    change (Literals.strip_sign (48%N :: rest)) with (false, 48%N :: rest). cbn [snd fst Literals.digits].
    change (Literals.is_digit 48) with true. cbn iota.
    pose proof (digits_run [] rest (Forall_nil _) Hr (0 * 10 + Literals.digit_val 48) (0 + 1)) as D. cbn [app fold_left length] in D.
    rewrite D. split; [reflexivity|split; [lia|split; [congruence|reflexivity]]].
  - destruct (dec_text m Nz) as (D & Eq & F & V & Ne & Bd). rewrite Eq.
    exists (Z.of_nat (length D)).
    assert (Len : Z.of_nat (length D) <> 0) by (destruct D; [congruence|cbn [length]; lia]).
    destruct (Z.ltb_spec m 0) as [Ng|Ps].
    + cbn [app Literals.strip_sign snd fst].
      rewrite (digits_run D rest F Hr 0 0). fold (dval D). rewrite V.
      split; [f_equal; f_equal; lia|split; [exact Len|split; [intros _; split; [lia|exact Bd]|reflexivity]]].
    + cbn [app]. rewrite (strip_sign_digits D rest F Ne). cbn [snd fst].
      rewrite (digits_run D rest F Hr 0 0). fold (dval D). rewrite V.
      split; [f_equal; f_equal; lia|split; [exact Len|split; [intros _; split; [lia|exact Bd]|reflexivity]]].
Qed.

Lemma dec_lit_int z : exists nd, Literals.dec_lit (dec_of_Z z) = Some (Z.abs z, nd, 0) /\
  (z <> 0 -> 1 <= nd /\ 10 ^ (nd - 1) <= Z.abs z < 10 ^ nd).
Proof.
  destruct (mant_part z [] I) as (nd & Dg & Nn & Bd & _). rewrite app_nil_r in Dg.
  exists nd. split; [|exact Bd]. unfold Literals.dec_lit.
  destruct (Literals.strip_sign (dec_of_Z z)) as [sg r]. cbn [snd] in Dg. rewrite Dg.
  destruct (Z.eqb_spec nd 0); [contradiction|]. reflexivity.
Qed.

Lemma dec_lit_float m k : exists nd, Literals.dec_lit (dec_of_Z m ++ 101%N :: dec_of_Z k) = Some (Z.abs m, nd, k) /\
  (m <> 0 -> 1 <= nd /\ 10 ^ (nd - 1) <= Z.abs m < 10 ^ nd).
Proof.
  destruct (mant_part m (101%N :: dec_of_Z k) eq_refl) as (nd & Dg & Nn & Bd & _).
  destruct (mant_part k [] I) as (ne & Dk & Nk & _ & Sk). rewrite app_nil_r in Dk, Sk.
  exists nd. split; [|exact Bd]. unfold Literals.dec_lit.
  destruct (Literals.strip_sign (dec_of_Z m ++ 101%N :: dec_of_Z k)) as [sg r]. cbn [snd] in Dg. rewrite Dg.
  destruct (Z.eqb_spec nd 0); [contradiction|].
  change (N.eqb 101 101 || N.eqb 101 69)%bool with true. cbn iota.
  destruct (Literals.strip_sign (dec_of_Z k)) as [eneg r4]. cbn [snd fst] in Dk, Sk. rewrite Dk.
  destruct (Z.eqb_spec ne 0); [contradiction|]. subst eneg.
  f_equal. f_equal. destruct (Z.ltb_spec k 0); lia.
Qed.

Theorem float_leaves_agree_holds dt : float_leaves_agree dt.
Proof.
  intros l NV NN. destruct l; try reflexivity; try (exfalso; (apply NN; reflexivity) || (eapply NV; reflexivity)).
  - (* an Int literal at Float *)
    cbn [tr_lit ValidatorModel.scalar_accepts scalar_literal]. rewrite float_lit_ok_range.
    destruct (dec_lit_int z) as (nd & -> & Bd).
    pose proof (range_ok_spec z nd 0 Bd) as R. unfold f64_of_decimal in R. cbn [Z.leb] in R.
    change (0 <=? 0) with true in R. cbn iota in R. rewrite Z.pow_0_r, Z.mul_1_r in R. rewrite R.
    destruct (f64_of_Q z 1); reflexivity.
  - (* a Float literal *)
    cbn [tr_lit ValidatorModel.scalar_accepts scalar_literal]. rewrite float_lit_ok_range.
    destruct (dec_lit_float m k) as (nd & -> & Bd).
    rewrite (range_ok_spec m nd k Bd). destruct (f64_of_decimal m k); reflexivity.
Qed.
