(** * Val/BridgeC04Proofs.v — C05 x C04: the proved part of the bridge.
    For literals without object values, C04's transcription of validateCoercion run on the
    translation accepts exactly when C05's does, for every type and every environment, GIVEN that
    the two models agree on scalar leaves ([leaves_agree]: C04 reads numbers back from their
    decimal text, Literals.v, and has its own ParseFloat range test).  Not proved (evaluated on
    every case by the check, [BridgeC04.bridge_agrees]): object literals (C04's [fields_loop] with
    its accumulators against C05's three conjuncts) and [leaves_agree] itself for Int / Float / ID. *)
From Coq Require Import List NArith ZArith Bool Lia.
From ApiFu Require Import Base.Sexp Val.Values Val.MapFacts Val.CoerceModel Val.CoerceProofs Val.CoerceComplete Val.BridgeC04.
From ApiFu Require Vld.Ast Vld.ValidatorModel.
Import ListNotations.

Fixpoint obj_free (l : lit) : bool :=
  match l with
  | LObject _ => false
  | LList vs => forallb obj_free vs
  | _ => true
  end.

Lemma raw_body_tr E n : Ast.raw_body (tr_env E) n = option_map tr_tdef (aget n E).
Proof.
  unfold Ast.raw_body, Ast.raw_type, tr_env. cbn [Ast.s_types].
  induction E as [|[k td] r IH]; simpl; [reflexivity|].
  unfold Ast.name_eqb. destruct (bytes_eqb n k); [reflexivity|exact IH].
Qed.

Lemma forallb_map_eq {A B} (f : B -> bool) (g : A -> B) l : forallb f (map g l) = forallb (fun x => f (g x)) l.
Proof. induction l; simpl; congruence. Qed.
Lemma forallb_ext_in {A} (f g : A -> bool) l : (forall x, In x l -> f x = g x) -> forallb f l = forallb g l.
Proof. induction l as [|x r IH]; simpl; intro H; [reflexivity|]. rewrite (H x (or_introl eq_refl)), IH; auto. Qed.

Lemma is_nonnull_tr t : Ast.is_nonnull (tr_sty t) = is_nonnull t.
Proof. destruct t; reflexivity. Qed.

Lemma mem_map_fst {A} x (vals : list (name * A)) : Ast.mem x (map fst vals) = ahas x vals.
Proof.
  unfold Ast.mem, ahas. induction vals as [|[k v] r IH]; simpl; [reflexivity|].
  unfold Ast.name_eqb. destruct (bytes_eqb x k); simpl; auto.
Qed.

(** ** C04's loop over the fields of an object literal, as four independent conditions *)
Fixpoint dups (seen : list name) (ns : list name) : bool :=
  match ns with
  | [] => false
  | n :: r => Ast.mem n seen || dups (n :: seen) r
  end.

Lemma existsb_eqb_sym n (r : list name) : existsb (fun x => Ast.name_eqb x n) r = existsb (bytes_eqb n) r.
Proof. induction r as [|y r IH]; simpl; [reflexivity|]. rewrite IH. unfold Ast.name_eqb. rewrite (bytes_eqb_sym y n). reflexivity. Qed.

Lemma dups_spec : forall ns seen, dups seen ns = existsb (fun n => Ast.mem n seen) ns || has_dup ns.
Proof.
  induction ns as [|n r IH]; intro seen; [reflexivity|].
  cbn [dups existsb has_dup]. rewrite IH.
  assert (X : existsb (fun x => Ast.mem x (n :: seen)) r = existsb (bytes_eqb n) r || existsb (fun x => Ast.mem x seen) r).
  { rewrite <- existsb_eqb_sym. clear IH. induction r as [|y r IHr]; [reflexivity|]. cbn [existsb]. rewrite IHr.
    change (Ast.mem y (n :: seen)) with (Ast.name_eqb y n || Ast.mem y seen).
    destruct (Ast.name_eqb y n), (Ast.mem y seen), (existsb (fun x => Ast.name_eqb x n) r), (existsb (fun x => Ast.mem x seen) r); reflexivity. }
  rewrite X.
  destruct (Ast.mem n seen), (existsb (bytes_eqb n) r), (existsb (fun x => Ast.mem x seen) r), (has_dup r); reflexivity.
Qed.

Lemma dups_nil ns : dups [] ns = has_dup ns.
Proof.
  rewrite dups_spec.
  match goal with |- ?a || _ = _ => assert (X : a = false) by (induction ns; simpl; auto); rewrite X end. reflexivity.
Qed.

Definition nil_b {A} (l : list A) : bool := match l with [] => true | _ => false end.
Lemma nil_b_app {A} (a b : list A) : nil_b (a ++ b) = nil_b a && nil_b b.
Proof. destruct a; reflexivity. Qed.

Definition okr (r : ValidatorModel.vres) : bool := match r with ValidatorModel.VR [] => true | _ => false end.
Lemma okr_VR l : okr (ValidatorModel.VR l) = nil_b l.
Proof. destruct l; reflexivity. Qed.

Definition fname3 (x : Ast.name * Ast.pos * Ast.value) : name := fst (fst x).

Lemma fields_loop_ok rec defs p : forall fs seen acc,
  okr (ValidatorModel.fields_loop ValidatorModel.id_order rec defs p fs seen acc) =
  nil_b acc
  && negb (dups seen (map fname3 fs))
  && forallb (fun x : Ast.name * Ast.pos * Ast.value =>
                match Ast.assoc (fname3 x) defs with
                | Some def => okr (rec (snd x) (Ast.in_type def) true)
                | None => false
                end) fs
  && forallb (fun nd : Ast.name * Ast.input_def =>
                negb (ValidatorModel.required_arg (snd nd)) || Ast.mem (fst nd) (rev (map fname3 fs) ++ seen)) defs.
Proof.
  induction fs as [|[[n np] x] r IH]; intros seen acc.
  - cbn [ValidatorModel.fields_loop map dups forallb rev app negb]. rewrite okr_VR, nil_b_app.
    unfold ValidatorModel.id_order. rewrite !andb_true_r. f_equal.
    induction defs as [|nd ds IHd]; [reflexivity|]. cbn [flat_map forallb]. rewrite nil_b_app, IHd.
    destruct (ValidatorModel.required_arg (snd nd)), (Ast.mem (fst nd) seen); reflexivity.
  - cbn [ValidatorModel.fields_loop map dups forallb rev]. change (fname3 (n, np, x)) with n. change (snd (n, np, x)) with x.
    match goal with |- context [(?a ++ ?b) ++ seen] => rewrite <- (app_assoc a b seen); change (b ++ seen) with (n :: seen) end.
    destruct (Ast.assoc n defs) as [def|]; [destruct (rec x (Ast.in_type def) true) as [[|e es]|]; cbn [okr]|];
      try rewrite IH;
      destruct (Ast.mem n seen); rewrite ?nil_b_app; cbn [nil_b orb negb andb];
      repeat (cbn [andb orb negb nil_b]; rewrite ?andb_false_r); try reflexivity;
      destruct (nil_b acc); reflexivity.
Qed.

Lemma assoc_tr_fields fields n :
  Ast.assoc n (map (fun f : name * in_def => (fst f, tr_indef (snd f))) fields) = option_map tr_indef (aget n fields).
Proof.
  induction fields as [|[k d] r IH]; simpl; [reflexivity|].
  unfold Ast.name_eqb. destruct (bytes_eqb n k); [reflexivity|exact IH].
Qed.

Lemma mem_names_ahas {A} x (fs : list (name * A)) : Ast.mem x (rev (map fst fs) ++ []) = ahas x fs.
Proof.
  rewrite app_nil_r. unfold Ast.mem, ahas.
  assert (R : forall l, existsb (Ast.name_eqb x) (rev l) = existsb (Ast.name_eqb x) l).
  { induction l as [|y l IH]; simpl; [reflexivity|]. rewrite existsb_app, IH. simpl. rewrite orb_false_r. apply orb_comm. }
  rewrite R. induction fs as [|[k v] r IH]; simpl; [reflexivity|].
  unfold Ast.name_eqb in *. destruct (bytes_eqb x k); simpl; auto.
Qed.

Lemma required_arg_tr d :
  ValidatorModel.required_arg (tr_indef d) = is_nonnull (in_type d) && match in_default d with None => true | Some _ => false end.
Proof.
  unfold ValidatorModel.required_arg, tr_indef. cbn [Ast.in_type Ast.in_default]. rewrite is_nonnull_tr.
  destruct (in_default d) as [g|]; [destruct g|]; reflexivity.
Qed.

Section Bridge.
  Variable E : env.
  Variable dt : bytes -> option bytes.
  Notation c04 := (ValidatorModel.coercion ValidatorModel.repaired ValidatorModel.id_order (tr_env E)).

  Definition leaves_agree : Prop :=
    forall n k l, aget n E = Some (TScalar k) -> (forall v, l <> LVar v) -> l <> LNull ->
      ValidatorModel.scalar_accepts (tr_scalar k) (tr_lit l) = match scalar_literal dt k l with Some _ => true | None => false end.
  Hypothesis HL : leaves_agree.

  Definition ok (r : ValidatorModel.vres) : bool := match r with ValidatorModel.VR [] => true | _ => false end.

  Lemma items_loop_ok rec t vs :
    ok (ValidatorModel.items_loop rec t vs) = forallb (fun v => ok (rec v t false)) vs.
  Proof.
    induction vs as [|x r IH]; simpl; [reflexivity|].
    destruct (rec x t false) as [[|e es]|]; simpl; auto.
  Qed.

  Definition agrees_at (l : lit) : Prop := forall t a, ok (c04 (tr_lit l) (tr_sty t) a) = validate_coercion E dt l t a.

  (** the named-type step, for a literal that is neither a variable, null, a list nor an object *)
  Lemma named_agrees l n a :
    (forall v, l <> LVar v) -> l <> LNull -> (forall fs, l <> LObject fs) ->
    ok (c04 (tr_lit l) (Ast.StNamed n) a) = validate_coercion E dt l (StNamed n) a.
  Proof.
    intros NV NN NO. rewrite vc_eq.
    pose proof (fun k Hn => HL n k l Hn NV NN) as X.
    destruct l; try (exfalso; congruence);
      cbn [tr_lit ValidatorModel.coercion Ast.is_var Ast.is_null] in *;
      rewrite raw_body_tr; destruct (aget n E) as [[sk|vals|fields h]|] eqn:Hn; cbn [option_map tr_tdef];
      try (rewrite (X sk eq_refl); destruct (scalar_literal dt sk _); reflexivity);
      try reflexivity;
      try (destruct (ValidatorModel.q_noninput ValidatorModel.repaired); reflexivity).
    (* an enum value at an enum type *)
    cbn [enum_literal]. rewrite mem_map_fst. unfold ahas, of_option. destruct (aget n0 vals); reflexivity.
  Qed.

  Ltac atom_case :=
    let t := fresh "t" in let n := fresh "n" in let t' := fresh "t'" in let IHt := fresh "IHt" in let a := fresh "a" in
    intros t; induction t as [n|t' IHt|t' IHt]; intros a;
      [ apply named_agrees; intros; discriminate
      | rewrite vc_eq; cbn [tr_lit tr_sty ValidatorModel.coercion Ast.is_var Ast.is_null];
        destruct a; [apply (IHt true)|reflexivity]
      | rewrite vc_eq; cbn [tr_lit tr_sty ValidatorModel.coercion Ast.is_var Ast.is_null]; apply IHt ].

  Lemma scalar_literal_object k fs : scalar_literal dt k (LObject fs) = None.
  Proof. destruct k; reflexivity. Qed.

  Lemma map_fname3 (fs : list (name * lit)) :
    map fname3 (map (fun p : name * lit => (fst p, p0, tr_lit (snd p))) fs) = map fst fs.
  Proof. rewrite map_map. apply map_ext. intros [k x]; reflexivity. Qed.

  (** an object literal at a named type: C04's fields_loop against C05's three conjuncts *)
  Lemma object_agrees fs n a :
    Forall (fun p : name * lit => agrees_at (snd p)) fs ->
    ok (c04 (tr_lit (LObject fs)) (Ast.StNamed n) a) = validate_coercion E dt (LObject fs) (StNamed n) a.
  Proof.
    intros IHf. rewrite vc_eq.
    cbn [tr_lit ValidatorModel.coercion Ast.is_var Ast.is_null].
    rewrite raw_body_tr. destruct (aget n E) as [[k|vals|fields h]|] eqn:Hn; cbn [option_map tr_tdef].
    - pose proof (HL n k (LObject fs) Hn ltac:(intros; discriminate) ltac:(discriminate)) as X.
      cbn [tr_lit] in X. rewrite X, scalar_literal_object. reflexivity.
    - reflexivity.
    - change (ok ?x) with (okr x). rewrite fields_loop_ok. cbn [nil_b andb].
      rewrite map_fname3, dups_nil.
      f_equal; [f_equal|].
      + rewrite forallb_map_eq. apply forallb_ext_in. intros [k x] Hx. cbn [fname3 fst snd].
        rewrite assoc_tr_fields. destruct (aget k fields) as [fd|]; cbn [option_map]; [|reflexivity].
        rewrite Forall_forall in IHf. apply (IHf (k, x) Hx (in_type fd) true).
      + rewrite forallb_map_eq. apply forallb_ext_in. intros [k fd] Hk. cbn [fst snd].
        rewrite required_arg_tr, mem_names_ahas. reflexivity.
    - destruct (ValidatorModel.q_noninput ValidatorModel.repaired); reflexivity.
  Qed.

  Theorem bridge_all : forall l, agrees_at l.
  Proof.
    induction l as [v|z|m k|s|b| |en|vs IHl|fs IHf] using lit_ind'.
    - intros t a. rewrite vc_eq. destruct t; reflexivity.
    - atom_case.
    - atom_case.
    - atom_case.
    - atom_case.
    - intros t a. rewrite vc_eq. cbn [tr_lit ValidatorModel.coercion Ast.is_var Ast.is_null].
      destruct t; cbn [tr_sty Ast.is_nonnull is_nonnull negb]; reflexivity.
    - atom_case.
    - (* a list *)
      intros t; induction t as [n|t' IHt|t' IHt]; intros a.
      + apply named_agrees; intros; discriminate.
      + rewrite vc_eq. cbn [tr_lit tr_sty ValidatorModel.coercion Ast.is_var Ast.is_null].
        rewrite items_loop_ok. rewrite forallb_map_eq. apply forallb_ext_in.
        intros x Hx. rewrite Forall_forall in IHl. apply (IHl x Hx).
      + rewrite vc_eq. cbn [tr_lit tr_sty ValidatorModel.coercion Ast.is_var Ast.is_null]. apply (IHt a).
    - (* an object *)
      intros t; induction t as [n|t' IHt|t' IHt]; intros a.
      + apply object_agrees; exact IHf.
      + rewrite vc_eq. cbn [tr_sty ValidatorModel.coercion]. cbn [tr_lit Ast.is_var Ast.is_null].
        destruct a; [apply (IHt true)|reflexivity].
      + rewrite vc_eq. cbn [tr_sty ValidatorModel.coercion]. cbn [tr_lit Ast.is_var Ast.is_null]. apply IHt.
  Qed.

  Corollary bridge_obj_free : forall l, obj_free l = true -> agrees_at l.
  Proof. intros l _. apply bridge_all. Qed.
End Bridge.

(** [leaves_agree] holds outright when no scalar of the environment reads numbers (String, Boolean,
    the kind-level custom scalar; enums and input objects are not leaves of this kind) *)
Definition non_numeric (E : env) : bool :=
  forallb (fun p : name * tdef => match snd p with
                                  | TScalar KString | TScalar KBoolean | TScalar KCustom => true
                                  | TScalar _ => false
                                  | _ => true
                                  end) E.

Lemma leaves_agree_non_numeric E dt : non_numeric E = true -> leaves_agree E dt.
Proof.
  intros H n k l Hn NV NN. unfold non_numeric in H. rewrite forallb_forall in H.
  apply aget_In in Hn. specialize (H _ Hn). simpl in H.
  destruct k; try discriminate; destruct l; try reflexivity; exfalso; (apply NN; reflexivity) || (eapply NV; reflexivity).
Qed.

Corollary bridge_obj_free_non_numeric E dt l : non_numeric E = true -> obj_free l = true ->
  forall t a, c04_accepts E l t a = validate_coercion E dt l t a.
Proof.
  intros HN OF t a. pose proof (bridge_obj_free E dt (leaves_agree_non_numeric E dt HN) l OF t a) as B.
  unfold c04_accepts. unfold ok in B. exact B.
Qed.

(** ** the scalar leaves.  Int and ID: C04 reads the decimal text back ([DecimalText.int_lit_dec]).
    Float is the one leaf left as a hypothesis ([float_leaves_agree]: C04's ParseFloat range test
    [Literals.float_lit_ok] on the text m"e"k against C05's rounding [f64_of_decimal m k <> None]). *)
From ApiFu Require Import Val.DecimalText.
From ApiFu Require Vld.Literals.

Definition float_leaves_agree (dt : bytes -> option bytes) : Prop :=
  forall l, (forall v, l <> LVar v) -> l <> LNull ->
    ValidatorModel.scalar_accepts Ast.SFloat (tr_lit l) = match scalar_literal dt KFloat l with Some _ => true | None => false end.

Definition no_float (E : env) : bool :=
  forallb (fun p : name * tdef => match snd p with TScalar KFloat => false | _ => true end) E.

Lemma int32_dec z : Literals.int32_lit_ok (dec_of_Z z) = int32_ok z.
Proof. unfold Literals.int32_lit_ok. rewrite int_lit_dec. reflexivity. Qed.
Lemma int64_dec z : Literals.int64_lit_ok (dec_of_Z z) = int64_ok z.
Proof. unfold Literals.int64_lit_ok. rewrite int_lit_dec. reflexivity. Qed.

Lemma leaves_agree_bridgeable E dt : bridgeable E = true ->
  (no_float E = true \/ float_leaves_agree dt) -> leaves_agree E dt.
Proof.
  intros HB HF n k l Hn NV NN. unfold bridgeable in HB. rewrite forallb_forall in HB.
  pose proof (aget_In _ _ _ Hn) as Hin. pose proof (HB _ Hin) as B. simpl in B.
  destruct k; try discriminate.
  - (* Int *) destruct l; try reflexivity; try (exfalso; (apply NN; reflexivity) || (eapply NV; reflexivity)).
    cbn [tr_lit tr_scalar ValidatorModel.scalar_accepts scalar_literal]. rewrite int32_dec. destruct (int32_ok z); reflexivity.
  - (* Float *) destruct HF as [HF|HF].
    + unfold no_float in HF. rewrite forallb_forall in HF. specialize (HF _ Hin). discriminate.
    + apply HF; auto.
  - destruct l; try reflexivity; exfalso; (apply NN; reflexivity) || (eapply NV; reflexivity).
  - destruct l; try reflexivity; exfalso; (apply NN; reflexivity) || (eapply NV; reflexivity).
  - (* ID *) destruct l; try reflexivity; try (exfalso; (apply NN; reflexivity) || (eapply NV; reflexivity)).
    cbn [tr_lit tr_scalar ValidatorModel.scalar_accepts scalar_literal]. rewrite int64_dec. destruct (int64_ok z); reflexivity.
  - destruct l; try reflexivity; exfalso; (apply NN; reflexivity) || (eapply NV; reflexivity).
Qed.

(** the bridge without [leaves_agree]: every literal (objects included), every type, every
    bridgeable environment; Float is the only leaf still carried as a hypothesis *)
Theorem bridge_bridgeable E dt : bridgeable E = true -> (no_float E = true \/ float_leaves_agree dt) ->
  forall l t a, c04_accepts E l t a = validate_coercion E dt l t a.
Proof.
  intros HB HF l t a. pose proof (bridge_all E dt (leaves_agree_bridgeable E dt HB HF) l t a) as B.
  unfold c04_accepts. unfold ok in B. exact B.
Qed.

(** ** DateTime and LongInt cross through C04's [SRefined]: the refined images agree with C05's
    literal coercers on every literal (the leaf step the [bridgeable] restriction stood for) *)
Lemma longint_leaf dt l : (forall v, l <> LVar v) -> l <> LNull ->
  ValidatorModel.scalar_accepts (tr_scalar_r dt KLongInt) (tr_lit l) = match scalar_literal dt KLongInt l with Some _ => true | None => false end.
Proof.
  intros NV NN. destruct l; try reflexivity; try (exfalso; (apply NN; reflexivity) || (eapply NV; reflexivity)).
  cbn [tr_lit tr_scalar_r ValidatorModel.scalar_accepts ValidatorModel.refine_ok scalar_literal Ast.v_kind existsb Ast.vkind_eqb orb andb].
  rewrite int_lit_dec. unfold int64_ok, safe_ok, in_range.
  destruct (- (2 ^ 53 - 1) <=? z)%Z eqn:A, (z <=? 2 ^ 53 - 1)%Z eqn:B; cbn [andb]; try rewrite andb_false_r; try reflexivity.
  assert (X : (- 2 ^ 63 <=? z)%Z && (z <=? 2 ^ 63 - 1)%Z = true).
  { apply Z.leb_le in A, B. apply andb_true_iff. split; apply Z.leb_le; lia. }
  rewrite X. reflexivity.
Qed.

Lemma datetime_leaf dt l : (forall v, l <> LVar v) -> l <> LNull ->
  ValidatorModel.scalar_accepts (tr_scalar_r dt KDateTime) (tr_lit l) = match scalar_literal dt KDateTime l with Some _ => true | None => false end.
Proof.
  intros NV NN. destruct l; try reflexivity; try (exfalso; (apply NN; reflexivity) || (eapply NV; reflexivity)).
  cbn [tr_lit tr_scalar_r ValidatorModel.scalar_accepts ValidatorModel.refine_ok scalar_literal Ast.v_kind existsb Ast.vkind_eqb orb andb].
  destruct (dt s); reflexivity.
Qed.

(** ** generic in the image of the scalar kinds *)
Definition leaves_agree_g (ts : scalar_kind -> Ast.scalar) (E : env) (dt : bytes -> option bytes) : Prop :=
  forall n k l, aget n E = Some (TScalar k) -> (forall v, l <> LVar v) -> l <> LNull ->
    ValidatorModel.scalar_accepts (ts k) (tr_lit l) = match scalar_literal dt k l with Some _ => true | None => false end.

Lemma tr_tdef_g_kind td : tr_tdef_g tr_scalar td = tr_tdef td.
Proof. destruct td; reflexivity. Qed.
Lemma tr_env_g_kind E : tr_env_g tr_scalar E = tr_env E.
Proof.
  unfold tr_env_g, tr_env.
  assert (X : forall l : env, map (fun p : name * tdef => (fst p, {| Ast.t_req := []; Ast.t_body := tr_tdef_g tr_scalar (snd p) |})) l
              = map (fun p : name * tdef => (fst p, {| Ast.t_req := []; Ast.t_body := tr_tdef (snd p) |})) l).
  { intro l. apply map_ext. intros [n td]. cbn [fst snd]. rewrite tr_tdef_g_kind. reflexivity. }
  rewrite X. reflexivity.
Qed.
Lemma tr_request_schema_g_kind E sf argdefs : tr_request_schema_g tr_scalar E sf argdefs = tr_request_schema E sf argdefs.
Proof. unfold tr_request_schema_g, tr_request_schema. rewrite tr_env_g_kind. reflexivity. Qed.
Lemma leaves_agree_g_kind E dt : leaves_agree E dt -> leaves_agree_g tr_scalar E dt.
Proof. intros H. exact H. Qed.

(** with the refined images every scalar kind but Float agrees outright *)
Lemma leaves_agree_r E dt : (no_float E = true \/ float_leaves_agree dt) -> leaves_agree_g (tr_scalar_r dt) E dt.
Proof.
  intros HF n k l Hn NV NN. pose proof (aget_In _ _ _ Hn) as Hin.
  destruct k.
  - destruct l; try reflexivity; try (exfalso; (apply NN; reflexivity) || (eapply NV; reflexivity)).
    cbn [tr_lit tr_scalar_r tr_scalar ValidatorModel.scalar_accepts scalar_literal]. rewrite int32_dec. destruct (int32_ok z); reflexivity.
  - destruct HF as [HF|HF].
    + unfold no_float in HF. rewrite forallb_forall in HF. specialize (HF _ Hin). discriminate.
    + apply HF; auto.
  - destruct l; try reflexivity; exfalso; (apply NN; reflexivity) || (eapply NV; reflexivity).
  - destruct l; try reflexivity; exfalso; (apply NN; reflexivity) || (eapply NV; reflexivity).
  - destruct l; try reflexivity; try (exfalso; (apply NN; reflexivity) || (eapply NV; reflexivity)).
    cbn [tr_lit tr_scalar_r tr_scalar ValidatorModel.scalar_accepts scalar_literal]. rewrite int64_dec. destruct (int64_ok z); reflexivity.
  - apply datetime_leaf; auto.
  - apply longint_leaf; auto.
  - destruct l; try reflexivity; exfalso; (apply NN; reflexivity) || (eapply NV; reflexivity).
Qed.
