(** * Val/BridgeC04Proofs.v — C05 x C04: the proved part of the bridge.
    For literals without object values, C04's transcription of validateCoercion run on the
    translation accepts exactly when C05's does, for every type and every environment, GIVEN that
    the two models agree on scalar leaves ([leaves_agree]: C04 reads numbers back from their
    decimal text, Literals.v, and has its own ParseFloat range test).  Not proved (evaluated on
    every case by the check, [BridgeC04.bridge_agrees]): object literals (C04's [fields_loop] with
    its accumulators against C05's three conjuncts) and [leaves_agree] itself for Int / Float / ID. *)
From Coq Require Import List NArith ZArith Bool.
From ApiFu Require Import Base.Sexp Val.Values Val.MapFacts Val.CoerceModel Val.CoerceProofs Val.CoerceComplete Val.BridgeC04.
From ApiFu Require Vld.Ast Vld.ValidatorModel.
Import ListNotations.

Fixpoint obj_free (l : lit) : bool :=
  match l with
  | LObject _ => false
  | LList vs => forallb obj_free vs
  | _ => true
  end.

Lemma raw_body_tr E n : Ast.raw_body (tr_env E) n = option_map tr_tdef (aget n E).
Proof.
  unfold Ast.raw_body, Ast.raw_type, tr_env. cbn [Ast.s_types].
  induction E as [|[k td] r IH]; simpl; [reflexivity|].
  unfold Ast.name_eqb. destruct (bytes_eqb n k); [reflexivity|exact IH].
Qed.

Lemma forallb_map_eq {A B} (f : B -> bool) (g : A -> B) l : forallb f (map g l) = forallb (fun x => f (g x)) l.
Proof. induction l; simpl; congruence. Qed.
Lemma forallb_ext_in {A} (f g : A -> bool) l : (forall x, In x l -> f x = g x) -> forallb f l = forallb g l.
Proof. induction l as [|x r IH]; simpl; intro H; [reflexivity|]. rewrite (H x (or_introl eq_refl)), IH; auto. Qed.

Lemma is_nonnull_tr t : Ast.is_nonnull (tr_sty t) = is_nonnull t.
Proof. destruct t; reflexivity. Qed.

Lemma mem_map_fst {A} x (vals : list (name * A)) : Ast.mem x (map fst vals) = ahas x vals.
Proof.
  unfold Ast.mem, ahas. induction vals as [|[k v] r IH]; simpl; [reflexivity|].
  unfold Ast.name_eqb. destruct (bytes_eqb x k); simpl; auto.
Qed.

Section Bridge.
  Variable E : env.
  Variable dt : bytes -> option bytes.
  Notation c04 := (ValidatorModel.coercion ValidatorModel.repaired ValidatorModel.id_order (tr_env E)).

  Definition leaves_agree : Prop :=
    forall n k l, aget n E = Some (TScalar k) -> (forall v, l <> LVar v) -> l <> LNull ->
      ValidatorModel.scalar_accepts (tr_scalar k) (tr_lit l) = match scalar_literal dt k l with Some _ => true | None => false end.
  Hypothesis HL : leaves_agree.

  Definition ok (r : ValidatorModel.vres) : bool := match r with ValidatorModel.VR [] => true | _ => false end.

  Lemma items_loop_ok rec t vs :
    ok (ValidatorModel.items_loop rec t vs) = forallb (fun v => ok (rec v t false)) vs.
  Proof.
    induction vs as [|x r IH]; simpl; [reflexivity|].
    destruct (rec x t false) as [[|e es]|]; simpl; auto.
  Qed.

  Definition agrees_at (l : lit) : Prop := forall t a, ok (c04 (tr_lit l) (tr_sty t) a) = validate_coercion E dt l t a.

  (** the named-type step, for a literal that is neither a variable, null, a list nor an object *)
  Lemma named_agrees l n a :
    (forall v, l <> LVar v) -> l <> LNull -> (forall fs, l <> LObject fs) ->
    ok (c04 (tr_lit l) (Ast.StNamed n) a) = validate_coercion E dt l (StNamed n) a.
  Proof.
    intros NV NN NO. rewrite vc_eq.
    pose proof (fun k Hn => HL n k l Hn NV NN) as X.
    destruct l; try (exfalso; congruence);
      cbn [tr_lit ValidatorModel.coercion Ast.is_var Ast.is_null] in *;
      rewrite raw_body_tr; destruct (aget n E) as [[sk|vals|fields h]|] eqn:Hn; cbn [option_map tr_tdef];
      try (rewrite (X sk eq_refl); destruct (scalar_literal dt sk _); reflexivity);
      try reflexivity;
      try (destruct (ValidatorModel.q_noninput ValidatorModel.repaired); reflexivity).
    (* an enum value at an enum type *)
    cbn [enum_literal]. rewrite mem_map_fst. unfold ahas, of_option. destruct (aget n0 vals); reflexivity.
  Qed.

  Ltac atom_case :=
    let t := fresh "t" in let n := fresh "n" in let t' := fresh "t'" in let IHt := fresh "IHt" in let a := fresh "a" in
    intros t; induction t as [n|t' IHt|t' IHt]; intros a;
      [ apply named_agrees; intros; discriminate
      | rewrite vc_eq; cbn [tr_lit tr_sty ValidatorModel.coercion Ast.is_var Ast.is_null];
        destruct a; [apply (IHt true)|reflexivity]
      | rewrite vc_eq; cbn [tr_lit tr_sty ValidatorModel.coercion Ast.is_var Ast.is_null]; apply IHt ].

  Theorem bridge_obj_free : forall l, obj_free l = true -> agrees_at l.
  Proof.
    induction l as [v|z|m k|s|b| |en|vs IHl|fs IHf] using lit_ind'; intros OF.
    - intros t a. rewrite vc_eq. destruct t; reflexivity.
    - atom_case.
    - atom_case.
    - atom_case.
    - atom_case.
    - intros t a. rewrite vc_eq. cbn [tr_lit ValidatorModel.coercion Ast.is_var Ast.is_null].
      destruct t; cbn [tr_sty Ast.is_nonnull is_nonnull negb]; reflexivity.
    - atom_case.
    - (* a list *)
      intros t; induction t as [n|t' IHt|t' IHt]; intros a.
      + apply named_agrees; intros; discriminate.
      + rewrite vc_eq. cbn [tr_lit tr_sty ValidatorModel.coercion Ast.is_var Ast.is_null].
        rewrite items_loop_ok. rewrite forallb_map_eq. apply forallb_ext_in.
        intros x Hx. rewrite Forall_forall in IHl. cbn [obj_free] in OF. rewrite forallb_forall in OF.
        apply (IHl x Hx (OF x Hx)).
      + rewrite vc_eq. cbn [tr_lit tr_sty ValidatorModel.coercion Ast.is_var Ast.is_null]. apply (IHt a).
    - discriminate.
  Qed.
End Bridge.

(** [leaves_agree] holds outright when no scalar of the environment reads numbers (String, Boolean,
    the kind-level custom scalar; enums and input objects are not leaves of this kind) *)
Definition non_numeric (E : env) : bool :=
  forallb (fun p : name * tdef => match snd p with
                                  | TScalar KString | TScalar KBoolean | TScalar KCustom => true
                                  | TScalar _ => false
                                  | _ => true
                                  end) E.

Lemma leaves_agree_non_numeric E dt : non_numeric E = true -> leaves_agree E dt.
Proof.
  intros H n k l Hn NV NN. unfold non_numeric in H. rewrite forallb_forall in H.
  apply aget_In in Hn. specialize (H _ Hn). simpl in H.
  destruct k; try discriminate; destruct l; try reflexivity; exfalso; (apply NN; reflexivity) || (eapply NV; reflexivity).
Qed.

Corollary bridge_obj_free_non_numeric E dt l : non_numeric E = true -> obj_free l = true ->
  forall t a, c04_accepts E l t a = validate_coercion E dt l t a.
Proof.
  intros HN OF t a. pose proof (bridge_obj_free E dt (leaves_agree_non_numeric E dt HN) l OF t a) as B.
  unfold c04_accepts. unfold ok in B. exact B.
Qed.
