(** * Val/DecimalText.v — C05 x C04: the decimal text [BridgeC04.dec_of_Z] writes is read back by
    C04's [Literals.digits] / [int_lit] as the same integer. *)
From Coq Require Import List NArith ZArith Bool Lia.
From ApiFu Require Import Base.Sexp Val.BridgeC04.
From ApiFu Require Vld.Literals.
Import ListNotations.
Local Open Scope Z_scope.

Definition dstep (a : Z) (c : N) : Z := a * 10 + Literals.digit_val c.
Definition dval (l : list N) : Z := fold_left dstep l 0.

Lemma fold_dstep l : forall a, fold_left dstep l a = a * 10 ^ Z.of_nat (length l) + fold_left dstep l 0.
Proof.
  induction l as [|c r IH]; intro a; cbn [fold_left length].
  - simpl. lia.
  - rewrite IH. rewrite (IH (dstep 0 c)). unfold dstep. rewrite Nat2Z.inj_succ, Z.pow_succ_r by lia. lia.
Qed.

(** [digits] on a run of digits followed by nothing or by a non-digit *)
Lemma digits_run l rest : Forall (fun c => Literals.is_digit c = true) l ->
  match rest with [] => True | c :: _ => Literals.is_digit c = false end ->
  forall a cnt, Literals.digits (l ++ rest) a cnt = (fold_left dstep l a, cnt + Z.of_nat (length l), rest).
Proof.
  intros Hl Hr. induction Hl as [|c r Hc _ IH]; intros a cnt.
  - cbn [app fold_left length]. destruct rest as [|c r]; simpl; [f_equal; f_equal; lia|].
    rewrite Hr. f_equal. f_equal. lia.
  - cbn [app Literals.digits fold_left length]. rewrite Hc, IH. unfold dstep. f_equal. f_equal. lia.
Qed.

Definition dchar (z : Z) : N := (Z.to_N z + 48)%N.
Lemma dchar_digit z : 0 <= z < 10 -> Literals.is_digit (dchar z) = true /\ Literals.digit_val (dchar z) = z.
Proof.
  intros Hz. unfold Literals.is_digit, Literals.digit_val, dchar.
  assert (Z.to_N z < 10)%N by lia.
  split.
  - apply andb_true_iff. split; apply N.leb_le; lia.
  - replace (Z.to_N z + 48 - 48)%N with (Z.to_N z) by lia. lia.
Qed.

Lemma dec_pos_spec : forall fuel z acc,
  1 <= z < 10 ^ Z.of_nat fuel -> Forall (fun c => Literals.is_digit c = true) acc ->
  Forall (fun c => Literals.is_digit c = true) (dec_pos fuel z acc) /\
  dval (dec_pos fuel z acc) = z * 10 ^ Z.of_nat (length acc) + dval acc /\
  dec_pos fuel z acc <> [].
Proof.
  induction fuel as [|f IH]; intros z acc Hz Ha.
  - simpl in Hz. lia.
  - cbn [dec_pos]. destruct (Z.ltb_spec z 10) as [Lt|Ge].
    + destruct (dchar_digit z ltac:(lia)) as [D1 D2]. fold (dchar z). split; [constructor; auto|split; [|discriminate]].
      unfold dval. cbn [fold_left]. rewrite fold_dstep. unfold dstep at 1. rewrite D2. lia.
    + assert (Hm : 0 <= z mod 10 < 10) by (apply Z.mod_pos_bound; lia).
      destruct (dchar_digit (z mod 10) Hm) as [D1 D2]. fold (dchar (z mod 10)).
      assert (Hq : 1 <= z / 10 < 10 ^ Z.of_nat f).
      { rewrite Nat2Z.inj_succ, Z.pow_succ_r in Hz by lia. split.
        - apply Z.div_le_lower_bound; lia.
        - apply Z.div_lt_upper_bound; lia. }
      destruct (IH (z / 10) (dchar (z mod 10) :: acc) Hq (Forall_cons _ D1 Ha)) as (F & V & N).
      split; [exact F|split; [|exact N]]. rewrite V. cbn [length]. unfold dval. cbn [fold_left].
      rewrite (fold_dstep acc (dstep 0 (dchar (z mod 10)))). unfold dstep. rewrite D2.
      rewrite Nat2Z.inj_succ, Z.pow_succ_r by lia.
      pose proof (Z.div_mod z 10 ltac:(lia)). nia.
Qed.

Lemma pos_lt_pow10 p : Zpos p < 10 ^ Z.of_nat (S (Pos.to_nat (Pos.size p))).
Proof.
  assert (B : Zpos p < 2 ^ Z.of_nat (Pos.to_nat (Pos.size p))).
  { rewrite positive_nat_Z. pose proof (Pos.size_gt p) as G. 
    change (2 ^ Zpos (Pos.size p)) with (Z.pow_pos 2 (Pos.size p)). rewrite <- Pos2Z.inj_pow_pos. lia. }
  set (n := Pos.to_nat (Pos.size p)) in *.
  assert (2 ^ Z.of_nat n <= 10 ^ Z.of_nat n) by (apply Z.pow_le_mono_l; lia).
  rewrite Nat2Z.inj_succ, Z.pow_succ_r by lia.
  assert (0 < 10 ^ Z.of_nat n) by (apply Z.pow_pos_nonneg; lia). lia.
Qed.

(** the digits of a positive number *)
Lemma dec_pos_top p :
  let l := dec_pos (S (Pos.to_nat (Pos.size p))) (Zpos p) [] in
  Forall (fun c => Literals.is_digit c = true) l /\ dval l = Zpos p /\ l <> [].
Proof.
  cbv zeta. destruct (dec_pos_spec (S (Pos.to_nat (Pos.size p))) (Zpos p) []) as (F & V & N).
  - split; [lia|apply pos_lt_pow10].
  - constructor.
  - split; [exact F|split; [|exact N]]. rewrite V. cbn [length]. unfold dval. simpl. lia.
Qed.

Theorem int_lit_dec z : Literals.int_lit (dec_of_Z z) = Some z.
Proof.
  unfold Literals.int_lit, dec_of_Z. destruct z as [|p|p].
  - reflexivity.
  - destruct (dec_pos_top p) as (F & V & N). cbv zeta in F, V, N.
    set (l := dec_pos _ _ _) in *.
    assert (Hs : Literals.strip_sign l = (false, l)).
    { destruct l as [|c r]; [congruence|]. inversion F as [|? ? Hc _]; subst.
      unfold Literals.strip_sign. destruct c as [|c]; [reflexivity|].
      unfold Literals.is_digit in Hc. apply andb_true_iff in Hc as [H1 H2]. apply N.leb_le in H1, H2.
      destruct (N.eq_dec (Npos c) 45) as [E|E]; [rewrite E in H1; lia|].
      destruct (N.eq_dec (Npos c) 43) as [E'|E']; [rewrite E' in H1; lia|].
      do 7 (destruct c as [c|c|]; try reflexivity; try (exfalso; apply E; reflexivity); try (exfalso; apply E'; reflexivity)). }
    rewrite Hs. pose proof (digits_run l [] F I 0 0) as D. rewrite app_nil_r in D. rewrite D.
    fold (dval l). rewrite V.
    destruct l as [|c r]; [congruence|]. cbn [length]. 
    destruct (Z.eqb_spec (0 + Z.of_nat (S (length r))) 0); [lia|reflexivity].
  - destruct (dec_pos_top p) as (F & V & N). cbv zeta in F, V, N.
    set (l := dec_pos _ _ _) in *. cbn [Literals.strip_sign].
    pose proof (digits_run l [] F I 0 0) as D. rewrite app_nil_r in D. rewrite D.
    fold (dval l). rewrite V.
    destruct l as [|c r]; [congruence|]. cbn [length].
    destruct (Z.eqb_spec (0 + Z.of_nat (S (length r))) 0); [lia|reflexivity].
Qed.
