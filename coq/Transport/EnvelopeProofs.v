(** * Transport/EnvelopeProofs.v — C17: the decoders are left inverses of the canonical encoders,
    they accept exactly the well-formed envelopes, and every transport hands the same request to
    the same pipeline. *)
From Coq Require Import List NArith ZArith Bool Lia.
From ApiFu Require Import Base.Sexp Transport.EnvelopeModel Transport.EnvelopeSpec.
Import ListNotations.
Open Scope N_scope.

(** ** induction over value trees *)
Section JsonInd.
  Variable P : json -> Prop.
  Hypothesis Hnull : P JNull.
  Hypothesis Hbool : forall b, P (JBool b).
  Hypothesis Hnum : forall n, P (JNum n).
  Hypothesis Hrange : P JNumRange.
  Hypothesis Hstr : forall s, P (JStr s).
  Hypothesis Harr : forall l, Forall P l -> P (JArr l).
  Hypothesis Hobj : forall l, Forall (fun kv => P (snd kv)) l -> P (JObj l).

  Fixpoint json_ind' (j : json) : P j :=
    match j with
    | JNull => Hnull
    | JBool b => Hbool b
    | JNum n => Hnum n
    | JNumRange => Hrange
    | JStr s => Hstr s
    | JArr l =>
        Harr l ((fix go (l : list json) : Forall P l :=
                   match l with
                   | [] => Forall_nil _
                   | x :: r => Forall_cons x (json_ind' x) (go r)
                   end) l)
    | JObj l =>
        Hobj l ((fix go (l : list (bytes * json)) : Forall (fun kv => P (snd kv)) l :=
                   match l with
                   | [] => Forall_nil _
                   | p :: r => Forall_cons p (match p as p0 return P (snd p0) with (_, x) => json_ind' x end) (go r)
                   end) l)
    end.
End JsonInd.

(** ** the nested recursions, named *)
Definition conv_kv (p : bytes * json) : option (bytes * json) :=
  match p with (k, x) => match to_go x with Some y => Some (k, y) | None => None end end.

Lemma to_go_arr l :
  to_go (JArr l) = match map_opt to_go l with Some l' => Some (JArr l') | None => None end.
Proof.
  cbn [to_go].
  match goal with |- match ?f l with _ => _ end = _ => assert (A : f l = map_opt to_go l) end.
  { induction l as [|x r IH]; [reflexivity|].
    cbn [map_opt]. rewrite <- IH. reflexivity. }
  rewrite A. reflexivity.
Qed.

Lemma to_go_obj l :
  to_go (JObj l) = match map_opt conv_kv l with Some l' => Some (JObj (norm_obj l')) | None => None end.
Proof.
  cbn [to_go].
  match goal with |- match ?f l with _ => _ end = _ => assert (A : f l = map_opt conv_kv l) end.
  { induction l as [|[k x] r IH]; [reflexivity|].
    cbn [map_opt conv_kv]. rewrite <- IH. destruct (to_go x); reflexivity. }
  rewrite A. reflexivity.
Qed.

Lemma has_range_arr l : has_range (JArr l) = existsb has_range l.
Proof. reflexivity. Qed.

Lemma has_range_obj l : has_range (JObj l) = existsb (fun p => has_range (snd p)) l.
Proof.
  cbn [has_range]. induction l as [|[k x] r IH]; [reflexivity|].
  cbn [existsb snd]. rewrite <- IH. reflexivity.
Qed.

Lemma wf_json_arr l : wf_json (JArr l) = forallb wf_json l.
Proof. reflexivity. Qed.

Lemma wf_json_obj l : wf_json (JObj l) = sorted_keys l && forallb (fun p => wf_json (snd p)) l.
Proof.
  cbn [wf_json]. f_equal. induction l as [|[k x] r IH]; [reflexivity|].
  cbn [forallb snd]. rewrite <- IH. reflexivity.
Qed.

Lemma map_opt_id {A} (f : A -> option A) l : Forall (fun x => f x = Some x) l -> map_opt f l = Some l.
Proof.
  induction 1 as [|x r Hx _ IH]; [reflexivity|]. cbn [map_opt]. rewrite Hx, IH. reflexivity.
Qed.

Lemma map_opt_none {A B} (f : A -> option B) l :
  map_opt f l = None <-> exists x, In x l /\ f x = None.
Proof.
  induction l as [|x r IH]; cbn [map_opt].
  - split; [discriminate|]. intros (x & [] & _).
  - destruct (f x) eqn:E.
    + destruct (map_opt f r) eqn:E2.
      * split; [discriminate|]. intros (y & [<-|Hy] & Hn); [congruence|].
        assert (None = None :> option (list B)) as _ by reflexivity.
        destruct IH as [_ IH]. specialize (IH (ex_intro _ y (conj Hy Hn))). discriminate.
      * split; [|reflexivity]. intros _. destruct IH as [IH _]. destruct (IH eq_refl) as (y & Hy & Hn).
        exists y. split; [right; exact Hy|exact Hn].
    + split; [|reflexivity]. intros _. exists x. split; [left; reflexivity|exact E].
Qed.

(** ** maps in normal form are left alone *)
Lemma norm_obj_sorted l : sorted_keys l = true -> norm_obj l = l.
Proof.
  induction l as [|[k v] r IH]; intro H; [reflexivity|].
  unfold norm_obj in *. cbn [fold_right fst snd].
  destruct r as [|[k' v'] r'].
  - reflexivity.
  - cbn [sorted_keys] in H. destruct (bytes_cmp k k') eqn:E; try discriminate.
    rewrite IH by exact H. cbn [ins_keep]. rewrite E. reflexivity.
Qed.

Lemma to_go_wf : forall j, wf_json j = true -> to_go j = Some j.
Proof.
  induction j as [| b | n | | s | l IH | l IH] using json_ind'; intro H; try reflexivity; try discriminate.
  - rewrite wf_json_arr in H. rewrite to_go_arr.
    rewrite (map_opt_id to_go l); [reflexivity|].
    rewrite forallb_forall in H. rewrite Forall_forall in *. intros x Hx. apply IH; [exact Hx|apply H; exact Hx].
  - rewrite wf_json_obj in H. apply andb_true_iff in H as [Hs Hf].
    rewrite to_go_obj. rewrite (map_opt_id conv_kv l).
    + rewrite norm_obj_sorted by exact Hs. reflexivity.
    + rewrite forallb_forall in Hf. rewrite Forall_forall in *. intros [k x] Hx. cbn [conv_kv].
      pose proof (IH (k, x) Hx (Hf (k, x) Hx)) as E. cbn [snd] in E. rewrite E. reflexivity.
Qed.

Lemma to_go_none_iff : forall j, to_go j = None <-> has_range j = true.
Proof.
  induction j as [| b | n | | s | l IH | l IH] using json_ind'; try (split; discriminate); try (split; reflexivity).
  - rewrite to_go_arr, has_range_arr, existsb_exists.
    destruct (map_opt to_go l) eqn:E.
    + split; [discriminate|]. intros (x & Hx & Hr).
      assert (N : map_opt to_go l = None).
      { apply map_opt_none. exists x. split; [exact Hx|]. rewrite Forall_forall in IH. apply IH; assumption. }
      congruence.
    + split; [|reflexivity]. intros _. apply map_opt_none in E as (x & Hx & Hn). exists x. split; [exact Hx|].
      rewrite Forall_forall in IH. apply IH; assumption.
  - rewrite to_go_obj, has_range_obj, existsb_exists.
    destruct (map_opt conv_kv l) eqn:E.
    + split; [discriminate|]. intros ([k x] & Hx & Hr). cbn [snd] in Hr.
      assert (N : map_opt conv_kv l = None).
      { apply map_opt_none. exists (k, x). split; [exact Hx|]. cbn [conv_kv].
        rewrite Forall_forall in IH. destruct (IH (k, x) Hx) as [_ H2]. cbn [snd] in H2. rewrite (H2 Hr). reflexivity. }
      congruence.
    + split; [|reflexivity]. intros _. apply map_opt_none in E as ([k x] & Hx & Hn). exists (k, x). split; [exact Hx|].
      cbn [snd]. cbn [conv_kv] in Hn. rewrite Forall_forall in IH. apply (IH (k, x) Hx). cbn [snd].
      destruct (to_go x); [discriminate|reflexivity].
Qed.

Lemma to_go_obj_shape l j : to_go (JObj l) = Some j -> exists l', j = JObj l'.
Proof. rewrite to_go_obj. destruct (map_opt conv_kv l); [|discriminate]. intros [= <-]. eexists; reflexivity. Qed.

(** ** field setters *)
Lemma set_string_some fl cur v : (exists s, set_string fl cur v = Some s) <-> str_or_null v = true.
Proof. destruct v; cbn; split; try discriminate; try (intros (? & [=])); eauto. Qed.

Lemma set_map_some cur v : (exists m, set_map cur v = Some m) <-> obj_or_null v && negb (has_range v) = true.
Proof.
  destruct v as [| b | n | | s | l | l]; cbn [set_map obj_or_null andb]; try (split; [intros (? & [=])|discriminate]).
  - split; eauto.
  - destruct (to_go (JObj l)) as [j|] eqn:E.
    + destruct (to_go_obj_shape _ _ E) as (l' & ->). split; [|eauto]. intros _.
      destruct (has_range (JObj l)) eqn:R; [|reflexivity]. apply to_go_none_iff in R. congruence.
    + apply to_go_none_iff in E. rewrite E. split; [intros (? & [=])|discriminate].
Qed.

Lemma set_map_wf m : wf_json (JObj m) = true -> set_map None (JObj m) = Some (Some m).
Proof.
  intro H. cbn [set_map]. rewrite (to_go_wf _ H). rewrite norm_obj_sorted; [reflexivity|].
  rewrite wf_json_obj in H. apply andb_true_iff in H as [H _]. exact H.
Qed.

(** ** one member at a time (the field names are closed terms: these hold by computation) *)
Definition with_query (b : body) s := {| b_query := s; b_opname := b_opname b; b_vars := b_vars b; b_ext := b_ext b |}.
Definition with_opname (b : body) s := {| b_query := b_query b; b_opname := s; b_vars := b_vars b; b_ext := b_ext b |}.
Definition with_vars (b : body) m := {| b_query := b_query b; b_opname := b_opname b; b_vars := m; b_ext := b_ext b |}.

Lemma df_query fl we v r b :
  decode_fields fl we ((k_query, v) :: r) b =
  match set_string fl (b_query b) v with Some s => decode_fields fl we r (with_query b s) | None => None end.
Proof. reflexivity. Qed.

Lemma df_opname fl we v r b :
  decode_fields fl we ((k_opname, v) :: r) b =
  match set_string fl (b_opname b) v with Some s => decode_fields fl we r (with_opname b s) | None => None end.
Proof. reflexivity. Qed.

Lemma df_variables fl we v r b :
  decode_fields fl we ((k_variables, v) :: r) b =
  match set_map (b_vars b) v with Some m => decode_fields fl we r (with_vars b m) | None => None end.
Proof. reflexivity. Qed.

(** ** the decoders accept exactly the well-formed values *)
Lemma decode_fields_some_iff fl we kvs : forall b,
  (exists b', decode_fields fl we kvs b = Some b') <-> forallb (member_ok fl we) kvs = true.
Proof.
  induction kvs as [|[k v] r IH]; intro b.
  - cbn. split; eauto.
  - cbn [decode_fields forallb member_ok].
    destruct (key_is k_query k) eqn:Kq; cbn [orb].
    { destruct (set_string fl (b_query b) v) as [s|] eqn:E.
      - rewrite IH. assert (S : str_or_null v = true) by (apply (set_string_some fl (b_query b)); eauto).
        rewrite S. reflexivity.
      - destruct (str_or_null v) eqn:S.
        + apply (set_string_some fl (b_query b)) in S as (s & S). congruence.
        + split; [intros (? & [=])|discriminate]. }
    destruct (key_is k_opname k) eqn:Ko; cbn [orb].
    { destruct (set_string fl (b_opname b) v) as [s|] eqn:E.
      - rewrite IH. assert (S : str_or_null v = true) by (apply (set_string_some fl (b_opname b)); eauto).
        rewrite S. reflexivity.
      - destruct (str_or_null v) eqn:S.
        + apply (set_string_some fl (b_opname b)) in S as (s & S). congruence.
        + split; [intros (? & [=])|discriminate]. }
    destruct (key_is k_variables k) eqn:Kv; cbn [orb].
    { destruct (set_map (b_vars b) v) as [m|] eqn:E.
      - rewrite IH. assert (S : obj_or_null v && negb (has_range v) = true) by (apply (set_map_some (b_vars b)); eauto).
        rewrite S. reflexivity.
      - destruct (obj_or_null v && negb (has_range v)) eqn:S.
        + apply (set_map_some (b_vars b)) in S as (m & S). congruence.
        + split; [intros (? & [=])|discriminate]. }
    destruct (we && key_is k_extensions k) eqn:Ke.
    { destruct (set_map (b_ext b) v) as [m|] eqn:E.
      - rewrite IH. assert (S : obj_or_null v && negb (has_range v) = true) by (apply (set_map_some (b_ext b)); eauto).
        rewrite S. reflexivity.
      - destruct (obj_or_null v && negb (has_range v)) eqn:S.
        + apply (set_map_some (b_ext b)) in S as (m & S). congruence.
        + split; [intros (? & [=])|discriminate]. }
    destruct fl.
    + rewrite IH. reflexivity.
    + destruct (has_range v); cbn [negb andb].
      * split; [intros (? & [=])|discriminate].
      * rewrite IH. reflexivity.
Qed.

Lemma decode_struct_some_iff fl we j :
  (exists b, decode_struct fl we j = Some b) <-> shape_ok fl we j = true.
Proof.
  destruct j; cbn [decode_struct shape_ok]; try (split; [intros (? & [=])|discriminate]).
  - split; eauto.
  - apply decode_fields_some_iff.
Qed.

Section Decoders.
  Variable parse : bytes -> jparse.

  Lemma url_param_map_some text :
    (exists m, url_param_map parse text = Some m) <-> param_ok parse text = true.
  Proof.
    unfold url_param_map, param_ok. destruct (is_empty text); cbn [orb]; [split; eauto|].
    unfold unmarshal_map. destruct (parse text) as [j| j |]; try (split; [intros (? & [=])|discriminate]).
    apply set_map_some.
  Qed.

  (** NewRequestFromHTTP (repaired code) accepts an envelope iff it is well formed ... *)
  Theorem http_accept_iff_well_formed e :
    (exists r, new_request_from_http fixed parse e = Accept r) <-> http_well_formed parse e = true.
  Proof.
    unfold new_request_from_http, http_well_formed.
    destruct (bytes_eqb (e_method e) m_get).
    - destruct (url_param_map parse (url_get k_variables (e_url e))) as [v|] eqn:Ev.
      + assert (Pv : param_ok parse (url_get k_variables (e_url e)) = true) by (apply url_param_map_some; eauto).
        rewrite Pv. cbn [andb].
        destruct (url_param_map parse (url_get k_extensions (e_url e))) as [x|] eqn:Ex.
        * assert (Px : param_ok parse (url_get k_extensions (e_url e)) = true) by (apply url_param_map_some; eauto).
          rewrite Px. split; eauto.
        * destruct (param_ok parse (url_get k_extensions (e_url e))) eqn:Px.
          { apply url_param_map_some in Px as (m & Px). congruence. }
          split; [intros (? & [=])|discriminate].
      + destruct (param_ok parse (url_get k_variables (e_url e))) eqn:Pv.
        { apply url_param_map_some in Pv as (m & Pv). congruence. }
        cbn [andb]. split; [intros (? & [=])|discriminate].
    - destruct (bytes_eqb (e_method e) m_post); [|split; [intros (? & [=])|discriminate]].
      destruct (bytes_eqb (e_media e) mt_json).
      + unfold decode_post_body. cbn [q_trailing fixed].
        destruct (parse (e_body e)) as [j| j |]; try (split; [intros (? & [=])|discriminate]).
        rewrite <- decode_struct_some_iff.
        destruct (decode_struct StdJson true j); split; eauto; try (intros (? & [=])).
      + destruct (bytes_eqb (e_media e) mt_graphql); split; eauto; try discriminate. intros (? & [=]).
  Qed.

  (** ... and every refusal carries a 4xx status, whatever the quirks *)
  Theorem http_reject_4xx qk e c :
    new_request_from_http qk parse e = Reject c -> (c = 400 \/ c = 405)%Z.
  Proof.
    unfold new_request_from_http.
    destruct (bytes_eqb (e_method e) m_get).
    - destruct (url_param_map parse (url_get k_variables (e_url e))); [|intros [= <-]; auto].
      destruct (url_param_map parse (url_get k_extensions (e_url e))); [discriminate|intros [= <-]; auto].
    - destruct (bytes_eqb (e_method e) m_post); [|intros [= <-]; auto].
      destruct (bytes_eqb (e_media e) mt_json).
      + destruct (decode_post_body qk parse (e_body e)); [discriminate|intros [= <-]; auto].
      + destruct (bytes_eqb (e_media e) mt_graphql); [discriminate|intros [= <-]; auto].
  Qed.

  (** a start / subscribe message on an initialised connection reaches HandleStart iff it is well
      formed; otherwise it is ignored (graphql-ws) or the connection is closed with 4400 *)
  Theorem ws_start_iff_well_formed p f :
    f_type f = start_type p ->
    (exists id q v n, handle_message parse p true (Some f) = WsStart id q v n) <-> ws_well_formed parse (Some f) = true.
  Proof.
    intro Ht. unfold handle_message, ws_well_formed, decode_payload. rewrite Ht, bytes_eqb_refl. cbn [negb].
    assert (NB : forall id q v n, bad_message p <> WsStart id q v n) by (intros; destruct p; discriminate).
    destruct (f_payload f) as [text|].
    - destruct (parse text) as [j| j |].
      + rewrite <- decode_struct_some_iff.
        destruct (decode_struct StdJson false j) as [b|].
        * split; [intros _; eauto|intros _; do 4 eexists; reflexivity].
        * split; [intros (? & ? & ? & ? & H); exfalso; exact (NB _ _ _ _ H)|intros (? & [=])].
      + split; [intros (? & ? & ? & ? & H); exfalso; exact (NB _ _ _ _ H)|discriminate].
      + split; [intros (? & ? & ? & ? & H); exfalso; exact (NB _ _ _ _ H)|discriminate].
    - split; [intros (? & ? & ? & ? & H); exfalso; exact (NB _ _ _ _ H)|discriminate].
  Qed.

  Theorem ws_malformed_refused p di fo :
    (match fo with Some f => f_type f = start_type p | None => True end) ->
    di && ws_well_formed parse fo = false ->
    handle_message parse p di fo = WsIgnored \/ handle_message parse p di fo = WsClosed 4400.
  Proof.
    intros Ht H. unfold handle_message. destruct fo as [f|]; [|destruct p; cbn; auto].
    rewrite Ht, bytes_eqb_refl. destruct di; cbn [negb andb] in *; [|auto].
    unfold ws_well_formed in H. unfold decode_payload.
    destruct (f_payload f) as [text|]; [|destruct p; cbn; auto].
    destruct (parse text) as [j| j |]; try (destruct p; cbn; auto; fail).
    destruct (decode_struct StdJson false j) as [b|] eqn:E; [|destruct p; cbn; auto].
    assert (S : shape_ok StdJson false j = true) by (apply decode_struct_some_iff; eauto). congruence.
  Qed.
End Decoders.

(** ** decoding is a left inverse of the canonical encoding *)
Lemma fold_key_query fl : fold_key fl k_query = k_query. Proof. destruct fl; reflexivity. Qed.
Lemma fold_key_variables fl : fold_key fl k_variables = k_variables. Proof. destruct fl; reflexivity. Qed.
Lemma fold_key_opname fl : fold_key fl k_opname = k_opname. Proof. destruct fl; reflexivity. Qed.

Lemma decode_body_json fl we wq o :
  wf_op o = true ->
  decode_struct fl we (body_json wq o) =
  Some {| b_query := if wq then o_query o else []; b_opname := o_opname o; b_vars := o_vars o; b_ext := None |}.
Proof.
  unfold wf_op, body_json. intro W.
  assert (N : (if is_empty (o_opname o) then [] else [(k_opname, JStr (o_opname o))]) = [] /\ o_opname o = [] \/
              (if is_empty (o_opname o) then [] else [(k_opname, JStr (o_opname o))]) = [(k_opname, JStr (o_opname o))]).
  { destruct (o_opname o); cbn; auto. }
  destruct wq; destruct (o_vars o) as [m|]; cbn [app decode_struct];
    destruct N as [[-> ->]| ->];
    cbn [fold_members map fst snd app]; rewrite ?fold_key_query, ?fold_key_variables, ?fold_key_opname;
    repeat (first [rewrite df_query | rewrite df_variables | rewrite df_opname];
            cbn [set_string with_query with_vars with_opname zero_body b_query b_opname b_vars b_ext];
            try rewrite (set_map_wf _ W));
    reflexivity.
Qed.

Section Roundtrip.
  Variable render : json -> bytes.              (* the client's serialiser *)
  Variable parse_std parse_jsi : bytes -> jparse.
  Variable clean : json -> Prop.                (* values on which the JSON text layer is faithful *)
  Hypothesis std_faithful : forall j, clean j -> parse_std (render j) = PTree j.
  Hypothesis jsi_faithful : forall j, clean j -> parse_jsi (render j) = PTree j.
  Hypothesis render_nonempty : forall j, clean j -> is_empty (render j) = false.

  Lemma if_query_nonempty (q : bytes) : (if false || negb (is_empty q) then q else []) = q.
  Proof. destruct q; reflexivity. Qed.

  Theorem roundtrip_get id o :
    wf_op o = true -> (forall j, In j (sent_json HttpGet o) -> clean j) ->
    decode fixed parse_std parse_jsi (encode render HttpGet id o) = Some (o, None).
  Proof.
    intros W C. destruct o as [q v n]. unfold wf_op in W. cbn [o_vars o_query o_opname sent_json] in *.
    cbn [encode decode o_query o_vars o_opname]. unfold new_request_from_http. cbn [e_method e_url].
    change (bytes_eqb m_get m_get) with true. cbn match.
    destruct v as [m|]; destruct n as [|c n']; cbn [is_empty app url_get];
      repeat match goal with
             | |- context [bytes_eqb ?a ?b] =>
                 first [ change (bytes_eqb a b) with true | change (bytes_eqb a b) with false ]; cbn match
             end;
      unfold url_param_map; rewrite ?(render_nonempty (JObj m) (C _ (or_introl eq_refl))); cbn [is_empty];
      rewrite ?(std_faithful (JObj m) (C _ (or_introl eq_refl))); cbn [unmarshal_map];
      rewrite ?(set_map_wf m W); reflexivity.
  Qed.

  Theorem roundtrip_post_json id o :
    wf_op o = true -> (forall j, In j (sent_json HttpPostJson o) -> clean j) ->
    decode fixed parse_std parse_jsi (encode render HttpPostJson id o) = Some (o, None).
  Proof.
    intros W C. cbn [encode decode]. unfold new_request_from_http. cbn [e_method e_media e_url e_body].
    change (bytes_eqb m_post m_get) with false. change (bytes_eqb m_post m_post) with true.
    change (bytes_eqb mt_json mt_json) with true. cbn match.
    unfold decode_post_body. rewrite (std_faithful _ (C _ (or_introl eq_refl))).
    rewrite (decode_body_json StdJson true true o W). cbn [b_query b_opname b_vars b_ext url_get q_overwrite fixed].
    rewrite if_query_nonempty. destruct o; reflexivity.
  Qed.

  Theorem roundtrip_post_graphql id o :
    carries HttpPostGraphql o = true ->
    decode fixed parse_std parse_jsi (encode render HttpPostGraphql id o) = Some (o, None).
  Proof.
    destruct o as [q v n]. cbn [carries o_vars o_opname]. destruct v; [discriminate|]. destruct n; [|discriminate]. intros _.
    cbn [encode decode o_query]. unfold new_request_from_http. cbn [e_method e_media e_url e_body].
    change (bytes_eqb m_post m_get) with false. change (bytes_eqb m_post m_post) with true.
    change (bytes_eqb mt_graphql mt_json) with false. change (bytes_eqb mt_graphql mt_graphql) with true. cbn match.
    cbn [url_get q_overwrite fixed]. rewrite if_query_nonempty. reflexivity.
  Qed.

  (** the sixth shape: POST application/json with the query in the URL (needs the repair) *)
  Theorem roundtrip_post_url_query id o :
    wf_op o = true -> (forall j, In j (sent_json HttpPostUrlQuery o) -> clean j) ->
    decode fixed parse_std parse_jsi (encode render HttpPostUrlQuery id o) = Some (o, None).
  Proof.
    intros W C. cbn [encode decode]. unfold new_request_from_http. cbn [e_method e_media e_url e_body].
    change (bytes_eqb m_post m_get) with false. change (bytes_eqb m_post m_post) with true.
    change (bytes_eqb mt_json mt_json) with true. cbn match.
    unfold decode_post_body. rewrite (std_faithful _ (C _ (or_introl eq_refl))).
    rewrite (decode_body_json StdJson true false o W). cbn [b_query b_opname b_vars b_ext url_get q_overwrite fixed is_empty negb orb].
    change (bytes_eqb k_query k_query) with true. cbn match. destruct o; reflexivity.
  Qed.

  Theorem roundtrip_ws p id o :
    wf_op o = true -> (forall j, In j (sent_json (match p with GraphqlWS => WsGraphqlWs | TransportWS => WsTransportWs end) o) -> clean j) ->
    decode fixed parse_std parse_jsi (encode render (match p with GraphqlWS => WsGraphqlWs | TransportWS => WsTransportWs end) id o) = Some (o, None).
  Proof.
    intros W C.
    assert (E : encode render (match p with GraphqlWS => WsGraphqlWs | TransportWS => WsTransportWs end) id o =
                WWs p {| f_type := start_type p; f_id := id; f_payload := Some (render (body_json true o)) |}) by (destruct p; reflexivity).
    rewrite E. cbn [decode]. unfold handle_message. cbn [f_type f_id f_payload]. rewrite bytes_eqb_refl. cbn [negb].
    unfold decode_payload. rewrite jsi_faithful by (apply C; destruct p; left; reflexivity).
    rewrite (decode_body_json StdJson false true o W). cbn [b_query b_opname b_vars]. destruct o; reflexivity.
  Qed.

  (** all of them at once *)
  Theorem envelope_roundtrip t id o :
    wf_op o = true -> carries t o = true -> (forall j, In j (sent_json t o) -> clean j) ->
    decode fixed parse_std parse_jsi (encode render t id o) = Some (o, None).
  Proof.
    intros W Cr C. destruct t.
    - apply roundtrip_get; assumption.
    - apply roundtrip_post_json; assumption.
    - apply roundtrip_post_graphql; assumption.
    - apply roundtrip_post_url_query; assumption.
    - apply (roundtrip_ws GraphqlWS); assumption.
    - apply (roundtrip_ws TransportWS); assumption.
  Qed.
End Roundtrip.

(** ** the pipeline behind the envelopes *)
Section PipelineProofs.
  Variables Schema Features Ctx Doc Resp SchemaDef : Type.
  Variable no_features : Features.
  Variable parse_validate : Schema -> Features -> Z * Z -> bytes -> bytes -> option gomap -> pv_result Doc Resp.
  Variable is_subscription : Doc -> bytes -> bool.
  Variable execute : bool -> Schema -> exec_request Features Doc -> Z -> Resp.
  Variable run_subscription : bool -> Schema -> exec_request Features Doc -> Z -> list Resp.
  Variable pq_ext : (request -> Resp * list (event Features Ctx Doc)) -> request -> Resp * list (event Features Ctx Doc).
  Variable marshal : Resp -> option bytes.
  Variable build : SchemaDef -> Schema.
  Variable clone : SchemaDef -> SchemaDef.
  Variable render : json -> bytes.
  Variable parse_std parse_jsi : bytes -> jparse.
  Variable clean : json -> Prop.
  Hypothesis std_faithful : forall j, clean j -> parse_std (render j) = PTree j.
  Hypothesis jsi_faithful : forall j, clean j -> parse_jsi (render j) = PTree j.
  Hypothesis render_nonempty : forall j, clean j -> is_empty (render j) = false.
  (** C18: without a persistedQuery extension the wrapper is the identity; and it only uses its
      argument by calling it *)
  Hypothesis pq_no_ext : forall ex r, r_ext r = None -> pq_ext ex r = ex r.
  Hypothesis pq_ext_ext : forall ex1 ex2, (forall r, ex1 r = ex2 r) -> forall r, pq_ext ex1 r = pq_ext ex2 r.

  Let serve := serve_graphql no_features parse_validate execute pq_ext marshal fixed parse_std.
  Let servews := serve_ws (Ctx := Ctx) parse_validate is_subscription execute run_subscription marshal parse_jsi.
  Let resp := respond no_features parse_validate is_subscription execute run_subscription pq_ext marshal fixed parse_std parse_jsi render.

  Definition request_of (o : op) : request :=
    {| r_query := o_query o; r_vars := o_vars o; r_opname := o_opname o; r_ext := None |}.

  Definition features_events (a : api Schema Features Ctx) (c : Ctx) : list (event Features Ctx Doc) :=
    match a_features a with Some _ => [EvFeatures c] | None => [] end.

  Definition is_http (t : transport) : bool :=
    match t with WsGraphqlWs | WsTransportWs => false | _ => true end.

  (** an HTTP transport: the decoded request goes to [validate_execute] with the features of the
      request's context *)
  Lemma respond_http t a c id o :
    is_http t = true -> wf_op o = true -> carries t o = true -> (forall j, In j (sent_json t o) -> clean j) ->
    resp t a c id o =
    (let (r, tr) := validate_execute parse_validate execute a (features_of no_features a c) (request_of o) in
     (match marshal r with Some body => Some [body] | None => None end, features_events a c ++ tr)).
  Proof.
    intros Ht W Cr Cl.
    pose proof (envelope_roundtrip render parse_std parse_jsi clean std_faithful jsi_faithful render_nonempty t id o W Cr Cl) as RT.
    unfold resp, respond. destruct (encode render t id o) as [e|p f] eqn:E; [|destruct t; discriminate].
    cbn [decode] in RT. unfold serve_graphql.
    destruct (new_request_from_http fixed parse_std e) as [r|] eqn:D; [|discriminate].
    injection RT as Ho Hx.
    assert (R : r = request_of o) by (destruct r; subst o; cbn in *; subst; reflexivity).
    subst r. rewrite (pq_no_ext _ _ (eq_refl : r_ext (request_of o) = None)).
    destruct (a_pq a);
      destruct (validate_execute parse_validate execute a (features_of no_features a c) (request_of o)) as [rs tr];
      destruct (marshal rs); reflexivity.
  Qed.

  Lemma handle_message_id p di f id q v n :
    handle_message parse_jsi p di (Some f) = WsStart id q v n -> id = f_id f.
  Proof.
    unfold handle_message. destruct (bytes_eqb (f_type f) (start_type p)).
    - destruct (negb di); [discriminate|]. destruct (decode_payload parse_jsi (f_payload f)); [intros [= <- _ _ _]; reflexivity|destruct p; discriminate].
    - destruct (other_type p (f_type f)); [discriminate|destruct p; discriminate].
  Qed.

  (** a socket: the decoded operation goes to [handle_start] with the features of the connection *)
  Lemma respond_ws t a c id o :
    is_http t = false -> wf_op o = true -> (forall j, In j (sent_json t o) -> clean j) ->
    resp t a c id o =
    (let (out, tr) := handle_start parse_validate is_subscription execute run_subscription marshal a (features_of no_features a c) false
                                   id (o_query o) (o_vars o) (o_opname o) in
     (Some (data_of out), features_events a c ++ tr)).
  Proof.
    intros Ht W Cl.
    assert (Cr : carries t o = true) by (destruct t; try discriminate; reflexivity).
    pose proof (envelope_roundtrip render parse_std parse_jsi clean std_faithful jsi_faithful render_nonempty t id o W Cr Cl) as RT.
    unfold resp, respond. destruct (encode render t id o) as [e|p f] eqn:E; [destruct t; discriminate|].
    assert (Fid : f_id f = id) by (destruct t; try discriminate; injection E as <- <-; reflexivity).
    cbn [decode] in RT. unfold handle_init, serve_ws.
    destruct (handle_message parse_jsi p true (Some f)) as [| | id' q v n |] eqn:D; try discriminate.
    apply handle_message_id in D as Hid. rewrite Fid in Hid. subst id'.
    injection RT as Ho. subst o. cbn [o_query o_vars o_opname].
    fold (features_events a c).
    destruct (handle_start parse_validate is_subscription execute run_subscription marshal a (features_of no_features a c) false id q v n) as [out tr].
    reflexivity.
  Qed.

  (** for an operation that is not a subscription, HandleStart and ServeGraphQL's execute do the same *)
  Lemma handle_start_validate_execute (a : api Schema Features Ctx) f id o :
    (forall d cost, parse_validate (a_schema a) f (a_default_cost a) (o_query o) (o_opname o) (o_vars o) = PVOk d cost ->
                    is_subscription d (o_opname o) = false) ->
    handle_start parse_validate is_subscription execute run_subscription marshal a f false id (o_query o) (o_vars o) (o_opname o) =
    (let (r, tr) := validate_execute parse_validate execute a f (request_of o) in (send_data marshal id r ++ [WsComplete id], tr)).
  Proof.
    intro NS. unfold handle_start, validate_execute. cbn [request_of r_query r_vars r_opname r_ext].
    destruct (parse_validate (a_schema a) f (a_default_cost a) (o_query o) (o_opname o) (o_vars o)) as [r|d cost] eqn:E; [reflexivity|].
    rewrite (NS d cost eq_refl). reflexivity.
  Qed.

  (** *** the same response, and the same calls into the pipeline, through every transport *)
  Theorem transport_same_response t1 t2 a c id1 id2 o :
    wf_op o = true -> carries t1 o = true -> carries t2 o = true ->
    (forall j, In j (sent_json t1 o) \/ In j (sent_json t2 o) -> clean j) ->
    (forall d cost, parse_validate (a_schema a) (features_of no_features a c) (a_default_cost a) (o_query o) (o_opname o) (o_vars o) = PVOk d cost ->
                    is_subscription d (o_opname o) = false) ->
    (forall r tr, validate_execute parse_validate execute a (features_of no_features a c) (request_of o) = (r, tr) -> marshal r <> None) ->
    resp t1 a c id1 o = resp t2 a c id2 o /\ exists body, fst (resp t1 a c id1 o) = Some [body].
  Proof.
    intros W C1 C2 Cl NS MO.
    destruct (validate_execute parse_validate execute a (features_of no_features a c) (request_of o)) as [r tr] eqn:VE.
    destruct (marshal r) as [body|] eqn:Mr; [|exfalso; exact (MO r tr eq_refl Mr)].
    assert (G : forall t id, carries t o = true -> (forall j, In j (sent_json t o) -> clean j) ->
                resp t a c id o = (Some [body], features_events a c ++ tr)).
    { intros t id Cr Cl'. destruct (is_http t) eqn:H.
      - rewrite respond_http by assumption. rewrite VE, Mr. reflexivity.
      - rewrite respond_ws by assumption. rewrite handle_start_validate_execute by exact NS.
        rewrite VE. unfold send_data. rewrite Mr. reflexivity. }
    rewrite (G t1 id1 C1) by (intros j Hj; apply Cl; left; exact Hj).
    rewrite (G t2 id2 C2) by (intros j Hj; apply Cl; right; exact Hj).
    split; [reflexivity|]. exists body. reflexivity.
  Qed.

  (** the two socket protocols agree on every operation, subscriptions included (same ids) *)
  Theorem ws_same_response a c id o :
    wf_op o = true -> clean (body_json true o) ->
    resp WsGraphqlWs a c id o = resp WsTransportWs a c id o.
  Proof.
    intros W Cl. rewrite !respond_ws; try reflexivity; try assumption; intros j [<-|[]]; exact Cl.
  Qed.

  (** *** malformed envelopes: a 4xx status, and the pipeline is not entered *)
  Theorem malformed_http_4xx_no_exec a c e :
    http_well_formed parse_std e = false ->
    exists code, serve a c e = (HttpError code, []) /\ (400 <= code < 500)%Z.
  Proof.
    intro M. unfold serve, serve_graphql.
    destruct (new_request_from_http fixed parse_std e) as [r|code] eqn:D.
    - assert (T : http_well_formed parse_std e = true) by (apply http_accept_iff_well_formed; eauto). congruence.
    - exists code. split; [reflexivity|]. destruct (http_reject_4xx _ _ _ _ D); lia.
  Qed.

  Theorem malformed_ws_no_exec a p di hf fo :
    (match fo with Some f => f_type f = start_type p | None => True end) ->
    di && ws_well_formed parse_jsi fo = false ->
    servews a p di hf fo = (WsNothing, []) \/ servews a p di hf fo = (WsCloses 4400, []).
  Proof.
    intros Ht M. unfold servews, serve_ws.
    destruct (ws_malformed_refused parse_jsi p di fo Ht M) as [-> | ->]; auto.
  Qed.

  (** *** the clone path *)
  Definition with_preprocess (cfg : config Features Ctx SchemaDef) (pre : option (SchemaDef -> SchemaDef)) : config Features Ctx SchemaDef :=
    {| c_def := c_def cfg; c_preprocess := pre; c_features := c_features cfg; c_default_cost := c_default_cost cfg;
       c_hook := c_hook cfg; c_pq := c_pq cfg |}.

  Lemma validate_execute_obs_eq (a1 a2 : api Schema Features Ctx) f r :
    schema_obs_eq parse_validate execute run_subscription (a_schema a1) (a_schema a2) ->
    a_default_cost a1 = a_default_cost a2 -> a_hook a1 = a_hook a2 ->
    validate_execute parse_validate execute a1 f r = validate_execute parse_validate execute a2 f r.
  Proof.
    intros (Hpv & Hex & _) Hc Hh. unfold validate_execute. rewrite Hpv, Hc, Hh.
    destruct (parse_validate (a_schema a2) f (a_default_cost a2) (r_query r) (r_opname r) (r_vars r)); [reflexivity|].
    rewrite Hex. reflexivity.
  Qed.

  Lemma serve_obs_eq (a1 a2 : api Schema Features Ctx) :
    schema_obs_eq parse_validate execute run_subscription (a_schema a1) (a_schema a2) ->
    a_features a1 = a_features a2 -> a_default_cost a1 = a_default_cost a2 -> a_hook a1 = a_hook a2 -> a_pq a1 = a_pq a2 ->
    (forall c e, serve a1 c e = serve a2 c e) /\ (forall p di hf fo, servews a1 p di hf fo = servews a2 p di hf fo).
  Proof.
    intros EQ Hf Hc Hh Hp. split.
    - intros c e. unfold serve, serve_graphql.
      destruct (new_request_from_http fixed parse_std e) as [r|code]; [|reflexivity].
      assert (F : features_of no_features a1 c = features_of no_features a2 c) by (unfold features_of; rewrite Hf; reflexivity).
      rewrite F, Hf, Hp.
      assert (V : forall r', validate_execute parse_validate execute a1 (features_of no_features a2 c) r' =
                             validate_execute parse_validate execute a2 (features_of no_features a2 c) r').
      { intro r'. apply validate_execute_obs_eq; assumption. }
      destruct (a_pq a2); [rewrite (pq_ext_ext _ _ V r)|rewrite V]; reflexivity.
    - intros p di hf fo. unfold servews, serve_ws.
      destruct (handle_message parse_jsi p di fo) as [| code | id q v n |]; try reflexivity.
      unfold handle_start. destruct EQ as (Hpv & Hex & Hsub). rewrite Hpv, Hc, Hh.
      destruct (parse_validate (a_schema a2) hf (a_default_cost a2) q n v) as [r|d cost]; [reflexivity|].
      rewrite Hex, Hsub. reflexivity.
  Qed.

  (** an API built through PreprocessGraphQLSchemaDefinition (on the clone) answers every envelope
      of every transport like the API built directly, provided the two schemas are
      observationally equal (which is what C10 establishes for clone + documentation edits) *)
  Theorem clone_same_response cfg pre :
    schema_obs_eq parse_validate execute run_subscription (build (pre (clone (c_def cfg)))) (build (c_def cfg)) ->
    (forall c e, serve (api_of_config build clone (with_preprocess cfg (Some pre))) c e =
                 serve (api_of_config build clone (with_preprocess cfg None)) c e) /\
    (forall p di hf fo, servews (api_of_config build clone (with_preprocess cfg (Some pre))) p di hf fo =
                        servews (api_of_config build clone (with_preprocess cfg None)) p di hf fo).
  Proof. intro EQ. apply serve_obs_eq; try reflexivity. exact EQ. Qed.

  (** *** feature plumbing: whatever the transport, parser/validator and executor see exactly the
      feature set Config.Features returns for the session's context (or none) *)
  Theorem transport_features t a c id o :
    wf_op o = true -> carries t o = true -> (forall j, In j (sent_json t o) -> clean j) ->
    forall ev, In ev (snd (resp t a c id o)) ->
      match ev with
      | EvFeatures c' => c' = c /\ a_features a <> None
      | EvValidate f _ _ _ => f = features_of no_features a c
      | EvExecute x _ | EvSubscribe x _ => x_features x = features_of no_features a c
      end.
  Proof.
    intros W Cr Cl ev.
    assert (FE : forall ev, In ev (features_events a c) -> match ev with EvFeatures c' => c' = c /\ a_features a <> None | _ => False end).
    { unfold features_events. destruct (a_features a); intros e Hin; [destruct Hin as [<-|[]]; split; [reflexivity|discriminate]|destruct Hin]. }
    destruct (is_http t) eqn:H.
    - unfold resp. fold resp. rewrite respond_http by assumption. unfold validate_execute. cbn [request_of r_query r_vars r_opname r_ext].
      destruct (parse_validate (a_schema a) (features_of no_features a c) (a_default_cost a) (o_query o) (o_opname o) (o_vars o));
        cbn [snd]; rewrite in_app_iff; intros [Hin|Hin];
        try (specialize (FE _ Hin); destruct ev; try contradiction; exact FE);
        cbn in Hin; repeat destruct Hin as [<-|Hin]; try contradiction; reflexivity.
    - unfold resp. fold resp. rewrite respond_ws by assumption. unfold handle_start.
      destruct (parse_validate (a_schema a) (features_of no_features a c) (a_default_cost a) (o_query o) (o_opname o) (o_vars o)) as [r|d cost];
        [|destruct (is_subscription d (o_opname o))];
        cbn [snd]; rewrite in_app_iff; intros [Hin|Hin];
        try (specialize (FE _ Hin); destruct ev; try contradiction; exact FE);
        cbn in Hin; repeat destruct Hin as [<-|Hin]; try contradiction; reflexivity.
  Qed.
End PipelineProofs.

(** ** the pinned tree violated the property at two points (both repaired) *)
Definition toy_parse (t : bytes) : jparse :=
  if bytes_eqb t [123; 125] then PTree (JObj [])
  else if bytes_eqb t [123; 125; 125] then PTrail (JObj [])
  else PBad.
Definition toy_render (j : json) : bytes := [123; 125].
Definition op_a : op := {| o_query := [123; 97; 125]; o_vars := None; o_opname := [] |}.   (* {a} *)

(** defect 24: POST application/json, query in the URL, body {}: the operation was lost *)
Theorem post_url_query_refuted_before_fix :
  wf_op op_a = true /\ carries HttpPostUrlQuery op_a = true /\
  toy_parse (toy_render (body_json false op_a)) = PTree (body_json false op_a) /\
  decode pinned toy_parse toy_parse (encode toy_render HttpPostUrlQuery [] op_a) <> Some (op_a, None) /\
  decode fixed toy_parse toy_parse (encode toy_render HttpPostUrlQuery [] op_a) = Some (op_a, None).
Proof. repeat split; vm_compute; congruence. Qed.

(** bytes after the JSON value of a POST body: bad JSON, yet accepted *)
Theorem trailing_bytes_refuted_before_fix :
  let e := {| e_method := m_post; e_media := mt_json; e_url := []; e_body := [123; 125; 125] |} in
  http_well_formed toy_parse e = false /\
  (exists r, new_request_from_http pinned toy_parse e = Accept r) /\
  new_request_from_http fixed toy_parse e = Reject 400.
Proof. vm_compute. repeat split; eauto. Qed.

(** ** the two struct decoders agree outside two corner cases

    encoding/json (HTTP body, with the extensions member) and jsoniter (socket payload, without)
    read the same (query, variables, operationName) from the same JSON object, provided no number
    is outside the float64 range and "query" / "operationName" are not repeated (the libraries
    differ on [null] after an earlier value, and on out-of-range numbers in members that are not
    read). *)
Lemma has_member_cons name k v r :
  has_member name ((k, v) :: r) = key_is name k || has_member name r.
Proof. reflexivity. Qed.

Lemma df_std_jsi kvs : forall b1 b2,
  forallb (fun kv => negb (has_range (snd kv))) kvs = true ->
  single_string_members kvs = true ->
  body_op b1 = body_op b2 ->
  (has_member k_query kvs = true -> b_query b1 = []) ->
  (has_member k_opname kvs = true -> b_opname b1 = []) ->
  forall r1, decode_fields StdJson true kvs b1 = Some r1 ->
  exists r2, decode_fields Jsoniter false kvs b2 = Some r2 /\ body_op r1 = body_op r2.
Proof.
  induction kvs as [|[k v] r IH]; intros b1 b2 NR SG EQ Hq Hn r1 D.
  - cbn in D. injection D as <-. exists b2. split; [reflexivity|exact EQ].
  - cbn [forallb snd] in NR. apply andb_true_iff in NR as [NRv NRr]. apply negb_true_iff in NRv.
    cbn [single_string_members] in SG. apply andb_true_iff in SG as [SG SGr]. apply andb_true_iff in SG as [SGq SGn].
    apply negb_true_iff in SGq. apply negb_true_iff in SGn.
    rewrite has_member_cons in Hq, Hn.
    unfold body_op in EQ. injection EQ as Eq1 Eq2 Eq3.
    cbn [decode_fields] in D |- *.
    destruct (key_is k_query k) eqn:Kq.
    { cbn [andb orb] in *.
      assert (Hn' : has_member k_opname r = true -> b_opname b1 = []) by (intro H; apply Hn; rewrite H; apply orb_true_r).
      destruct v; cbn [set_string] in D |- *; try discriminate.
      - (* null: encoding/json keeps the current value, which is still empty *)
        rewrite (Hq eq_refl) in D.
        refine (IH _ _ NRr SGr _ _ _ _ D); cbn [b_query b_opname b_vars];
          [unfold body_op; cbn; congruence | reflexivity | exact Hn'].
      - refine (IH _ _ NRr SGr _ _ _ _ D); cbn [b_query b_opname b_vars];
          [unfold body_op; cbn; congruence | rewrite SGq; discriminate | exact Hn']. }
    destruct (key_is k_opname k) eqn:Ko.
    { cbn [andb orb] in *.
      destruct v; cbn [set_string] in D |- *; try discriminate.
      - rewrite (Hn eq_refl) in D.
        refine (IH _ _ NRr SGr _ _ _ _ D); cbn [b_query b_opname b_vars];
          [unfold body_op; cbn; congruence | exact Hq | reflexivity].
      - refine (IH _ _ NRr SGr _ _ _ _ D); cbn [b_query b_opname b_vars];
          [unfold body_op; cbn; congruence | exact Hq | rewrite SGn; discriminate]. }
    cbn [orb] in Hq, Hn.
    destruct (key_is k_variables k) eqn:Kv.
    { rewrite <- Eq2. destruct (set_map (b_vars b1) v) as [m|]; [|discriminate].
      refine (IH _ _ NRr SGr _ _ _ _ D); cbn [b_query b_opname b_vars];
        [unfold body_op; cbn; congruence | exact Hq | exact Hn]. }
    cbn [andb]. rewrite NRv.
    destruct (key_is k_extensions k).
    { cbn [andb] in D. destruct (set_map (b_ext b1) v) as [m|]; [|discriminate].
      refine (IH _ _ NRr SGr _ _ _ _ D); cbn [b_query b_opname b_vars];
        [unfold body_op; cbn; congruence | exact Hq | exact Hn]. }
    cbn [andb] in D. refine (IH _ _ NRr SGr _ _ _ _ D); [unfold body_op; congruence | exact Hq | exact Hn].
Qed.

Theorem std_jsoniter_agree kvs b :
  fold_members StdJson kvs = fold_members Jsoniter kvs ->
  has_range (JObj kvs) = false -> single_string_members (fold_members StdJson kvs) = true ->
  decode_struct StdJson true (JObj kvs) = Some b ->
  exists b', decode_struct Jsoniter false (JObj kvs) = Some b' /\ body_op b = body_op b'.
Proof.
  intros FE NR SG D. cbn [decode_struct] in *. rewrite <- FE.
  eapply (df_std_jsi (fold_members StdJson kvs) zero_body zero_body); try eassumption; try reflexivity.
  rewrite has_range_obj in NR. rewrite forallb_forall. intros kv Hin.
  unfold fold_members in Hin. apply in_map_iff in Hin as (kv0 & <- & Hin). cbn [snd].
  apply negb_true_iff. destruct (has_range (snd kv0)) eqn:E; [|reflexivity].
  assert (X : existsb (fun p => has_range (snd p)) kvs = true) by (apply existsb_exists; eauto). congruence.
Qed.

(** after the repair both transports use encoding/json: whatever the body decoder (which also
    reads "extensions") accepts, the payload decoder accepts, as the same operation *)
Lemma df_ext_irrelevant kvs : forall b1 b2,
  body_op b1 = body_op b2 ->
  forall r1, decode_fields StdJson true kvs b1 = Some r1 ->
  exists r2, decode_fields StdJson false kvs b2 = Some r2 /\ body_op r1 = body_op r2.
Proof.
  induction kvs as [|[k v] r IH]; intros b1 b2 EQ r1 D.
  - cbn in D. injection D as <-. exists b2. split; [reflexivity|exact EQ].
  - unfold body_op in EQ. injection EQ as Eq1 Eq2 Eq3.
    cbn [decode_fields] in D |- *.
    destruct (key_is k_query k).
    { rewrite <- Eq1. destruct (set_string StdJson (b_query b1) v) as [s|]; [|discriminate].
      refine (IH _ _ _ _ D). unfold body_op; cbn; congruence. }
    destruct (key_is k_opname k).
    { rewrite <- Eq3. destruct (set_string StdJson (b_opname b1) v) as [s|]; [|discriminate].
      refine (IH _ _ _ _ D). unfold body_op; cbn; congruence. }
    destruct (key_is k_variables k).
    { rewrite <- Eq2. destruct (set_map (b_vars b1) v) as [m|]; [|discriminate].
      refine (IH _ _ _ _ D). unfold body_op; cbn; congruence. }
    cbn [andb]. destruct (key_is k_extensions k); cbn [andb] in D.
    { destruct (set_map (b_ext b1) v) as [m|]; [|discriminate].
      refine (IH _ _ _ _ D). unfold body_op; cbn; congruence. }
    refine (IH _ _ _ _ D). unfold body_op; congruence.
Qed.

(** on the wire: the same JSON text as POST application/json body (no ?query=) and as start /
    subscribe payload is read as the same operation — for every text, without side conditions *)
Theorem post_body_and_ws_payload_agree parse_std text p id o x :
  decode fixed parse_std parse_std (WHttp {| e_method := m_post; e_media := mt_json; e_url := []; e_body := text |}) = Some (o, x) ->
  decode fixed parse_std parse_std (WWs p {| f_type := start_type p; f_id := id; f_payload := Some text |}) = Some (o, None).
Proof.
  cbn [decode]. unfold new_request_from_http. cbn [e_method e_media e_url e_body].
  change (bytes_eqb m_post m_get) with false. change (bytes_eqb m_post m_post) with true.
  change (bytes_eqb mt_json mt_json) with true. cbn match.
  unfold decode_post_body. cbn [q_trailing fixed].
  destruct (parse_std text) as [j| j |] eqn:Ps; try discriminate.
  destruct (decode_struct StdJson true j) as [b|] eqn:D; [|discriminate].
  assert (D' : exists b', decode_struct StdJson false j = Some b' /\ body_op b = body_op b').
  { destruct j; cbn [decode_struct] in *; try discriminate.
    - injection D as <-. eexists. split; reflexivity.
    - eapply df_ext_irrelevant; [reflexivity|exact D]. }
  destruct D' as (b' & D' & EQ).
  intros [= <- <-]. unfold handle_message. cbn [f_type f_id f_payload]. rewrite bytes_eqb_refl. cbn [negb].
  unfold decode_payload. rewrite Ps, D'. unfold body_op in EQ. injection EQ as E1 E2 E3.
  cbn [url_get q_overwrite fixed orb]. unfold op_of_request. cbn [r_query r_vars r_opname].
  rewrite <- E1, <- E2, <- E3. f_equal. f_equal.
  destruct (b_query b); reflexivity.
Qed.
