(** * Transport/JsonTextProofs.v — the Gallina JSON reader is a left inverse of the canonical
    serialiser, for both library flavours: [parse_text fl numval (print numprint j) = PTree j].
    With it the faithfulness hypotheses of the envelope theorems are discharged down to the
    conversion of number tokens (strconv.ParseFloat / the client's float formatting). *)
From Coq Require Import List NArith ZArith Bool Lia Arith.
From ApiFu Require Import Base.Sexp Transport.EnvelopeModel Transport.JsonText Transport.EnvelopeSpec Transport.EnvelopeProofs.
Import ListNotations.
Open Scope N_scope.

(** ** strings *)

(** strings the reader of flavour [fl] returns unchanged: encoding/json rewrites bytes that are
    not valid UTF-8, so its strings must be valid UTF-8 ([utf8_ok]: the sequences utf8.DecodeRune
    accepts); jsoniter copies every byte.  [pend]: continuation bytes still expected. *)
Definition sclean_p (fl : flavour) (pend : nat) (s : bytes) : bool :=
  match fl with
  | StdJson => utf8_ok pend s
  | Jsoniter => match pend with O => true | S _ => false end
  end.
Definition sclean (fl : flavour) (s : bytes) : bool := sclean_p fl 0 s.

Lemma hex_low c : c <? 32 = true -> hex4 48 48 (hexdigit (c / 16)) (hexdigit (c mod 16)) = Some c.
Proof.
  intro H. apply N.ltb_lt in H.
  assert (A : forallb (fun c => match hex4 48 48 (hexdigit (c / 16)) (hexdigit (c mod 16)) with
                                | Some u => u =? c
                                | None => false
                                end) (map N.of_nat (seq 0 32)) = true) by (vm_compute; reflexivity).
  rewrite forallb_forall in A.
  assert (I : In c (map N.of_nat (seq 0 32))).
  { rewrite <- (N2Nat.id c). apply in_map. apply in_seq. lia. }
  specialize (A c I).
  destruct (hex4 48 48 (hexdigit (c / 16)) (hexdigit (c mod 16))) as [u|]; [|discriminate].
  apply N.eqb_eq in A. subst. reflexivity.
Qed.

Lemma rstr_quote fl t acc : rstr fl (92 :: 34 :: t) 0 acc = rstr fl t 0 (34 :: acc).
Proof. reflexivity. Qed.
Lemma rstr_backslash fl t acc : rstr fl (92 :: 92 :: t) 0 acc = rstr fl t 0 (92 :: acc).
Proof. reflexivity. Qed.

Lemma rstr_u fl a b c d t acc u :
  hex4 a b c d = Some u -> u <? 128 = true ->
  rstr fl (92 :: 117 :: a :: b :: c :: d :: t) 0 acc = rstr fl t 0 (u :: acc).
Proof.
  intros H L.
  assert (S : is_surrogate u = false).
  { unfold is_surrogate. apply N.ltb_lt in L. apply andb_false_iff. left. apply N.leb_gt. lia. }
  change (rstr fl (92 :: 117 :: a :: b :: c :: d :: t) 0 acc)
    with (match hex4 a b c d with
          | None => None
          | Some u =>
              if is_surrogate u then
                match t with
                | b1 :: u1 :: a2 :: b2 :: c2 :: d2 :: r11 =>
                    if (b1 =? 92) && (u1 =? 117) then
                      match hex4 a2 b2 c2 d2 with
                      | Some u2 =>
                          if is_high u && is_low u2 then rstr fl r11 0 (rev_append (utf8_enc (pair_rune u u2)) acc)
                          else match fl with
                               | StdJson => rstr fl t 0 (rev_append replacement acc)
                               | Jsoniter => rstr fl r11 0 (rev_append (enc_rune u2) (rev_append replacement acc))
                               end
                      | None =>
                          match fl with
                          | StdJson => rstr fl t 0 (rev_append replacement acc)
                          | Jsoniter => None
                          end
                      end
                    else rstr fl t 0 (rev_append replacement acc)
                | _ => rstr fl t 0 (rev_append replacement acc)
                end
              else rstr fl t 0 (rev_append (utf8_enc u) acc)
          end).
  rewrite H, S. unfold utf8_enc. rewrite L. reflexivity.
Qed.

Lemma rstr_plain fl c t acc :
  c =? 34 = false -> c <? 32 = false -> c =? 92 = false ->
  (c <? 128 = true \/ fl = Jsoniter) ->
  rstr fl (c :: t) 0 acc = rstr fl t 0 (c :: acc).
Proof.
  intros E34 E32 E92 H. cbn [rstr]. rewrite E34, E32, E92.
  destruct (c <? 128) eqn:E; [reflexivity|].
  destruct H as [H|H]; [discriminate|]. subst fl. reflexivity.
Qed.

Lemma esc_hi c : 128 <=? c = true -> esc_byte c = [c].
Proof.
  intro H. apply N.leb_le in H. unfold esc_byte.
  assert (E1 : c =? 34 = false) by (apply N.eqb_neq; lia).
  assert (E2 : c =? 92 = false) by (apply N.eqb_neq; lia).
  assert (E3 : c <? 32 = false) by (apply N.ltb_ge; lia).
  rewrite E1, E2, E3. reflexivity.
Qed.

Lemma in_rng_hi lo hi c : 128 <= lo -> in_rng lo hi c = true -> 128 <=? c = true.
Proof. unfold in_rng. intros L H. apply andb_true_iff in H as [H _]. apply N.leb_le in H. apply N.leb_le. lia. Qed.

Lemma lead_hi c c1 :
  (if c =? 224 then in_rng 160 191 c1 else if c =? 237 then in_rng 128 159 c1 else cont c1) = true -> 128 <=? c1 = true.
Proof. destruct (c =? 224); [|destruct (c =? 237)]; apply in_rng_hi; lia. Qed.
Lemma lead4_hi c c1 :
  (if c =? 240 then in_rng 144 191 c1 else if c =? 244 then in_rng 128 143 c1 else cont c1) = true -> 128 <=? c1 = true.
Proof. destruct (c =? 240); [|destruct (c =? 244)]; apply in_rng_hi; lia. Qed.

(** the sequence test looks only at continuation bytes, which the serialiser leaves alone *)
Lemma seq_len_esc c s t p : seq_len c s = S p -> seq_len c (flat_map esc_byte s ++ t) = S p.
Proof.
  unfold seq_len.
  destruct (in_rng 194 223 c).
  { destruct s as [|c1 s1]; [discriminate|]. destruct (cont c1) eqn:E1; [|discriminate]. intro H.
    cbn [flat_map]. rewrite (esc_hi c1 (in_rng_hi _ _ _ (N.le_refl _) E1)). cbn [app]. rewrite E1. exact H. }
  destruct (in_rng 224 239 c).
  { destruct s as [|c1 [|c2 s2]]; try discriminate.
    destruct ((if c =? 224 then in_rng 160 191 c1 else if c =? 237 then in_rng 128 159 c1 else cont c1) && cont c2) eqn:E; [|discriminate].
    intro H. apply andb_true_iff in E as [E1 E2].
    cbn [flat_map]. rewrite (esc_hi c1 (lead_hi c c1 E1)), (esc_hi c2 (in_rng_hi _ _ _ (N.le_refl _) E2)). cbn [app].
    rewrite E1, E2. exact H. }
  destruct (in_rng 240 244 c); [|discriminate].
  destruct s as [|c1 [|c2 [|c3 s3]]]; try discriminate.
  destruct ((if c =? 240 then in_rng 144 191 c1 else if c =? 244 then in_rng 128 143 c1 else cont c1) && cont c2 && cont c3) eqn:E; [|discriminate].
  intro H. apply andb_true_iff in E as [E E3]. apply andb_true_iff in E as [E1 E2].
  cbn [flat_map]. rewrite (esc_hi c1 (lead4_hi c c1 E1)), (esc_hi c2 (in_rng_hi _ _ _ (N.le_refl _) E2)), (esc_hi c3 (in_rng_hi _ _ _ (N.le_refl _) E3)).
  cbn [app]. rewrite E1, E2, E3. exact H.
Qed.

Lemma rstr_pend fl c t p acc : rstr fl (c :: t) (S p) acc = rstr fl t p (c :: acc).
Proof. reflexivity. Qed.

Lemma rstr_lead c t acc p :
  c =? 34 = false -> c <? 32 = false -> c =? 92 = false -> c <? 128 = false -> seq_len c t = S p ->
  rstr StdJson (c :: t) 0 acc = rstr StdJson t (S p) (c :: acc).
Proof. intros E34 E32 E92 E128 SL. cbn [rstr]. rewrite E34, E32, E92, E128, SL. reflexivity. Qed.

Theorem rstr_print_p fl : forall s pend acc rest,
  sclean_p fl pend s = true ->
  rstr fl (flat_map esc_byte s ++ 34 :: rest) pend acc = Some (rev acc ++ s, rest).
Proof.
  induction s as [|c s IH]; intros pend acc rest C.
  - destruct pend as [|p]; [|destruct fl; discriminate]. cbn. rewrite app_nil_r. reflexivity.
  - assert (Fin : rev (c :: acc) ++ s = rev acc ++ c :: s) by (cbn [rev]; rewrite <- app_assoc; reflexivity).
    destruct pend as [|p].
    2:{ destruct fl; [|discriminate]. cbn [sclean_p utf8_ok] in C. apply andb_true_iff in C as [Hc C'].
        cbn [flat_map]. rewrite (esc_hi c Hc). cbn [app]. rewrite rstr_pend, (IH p (c :: acc) rest C'), Fin. reflexivity. }
    cbn [flat_map]. rewrite <- app_assoc. unfold esc_byte.
    destruct (c =? 34) eqn:E34.
    { apply N.eqb_eq in E34. subst c. cbn [app]. rewrite rstr_quote, (IH 0%nat) by (destruct fl; exact C). rewrite Fin. reflexivity. }
    destruct (c =? 92) eqn:E92.
    { apply N.eqb_eq in E92. subst c. cbn [app]. rewrite rstr_backslash, (IH 0%nat) by (destruct fl; exact C). rewrite Fin. reflexivity. }
    destruct (c <? 32) eqn:E32.
    { assert (L : c <? 128 = true) by (apply N.ltb_lt in E32; apply N.ltb_lt; lia).
      cbn [app]. rewrite (rstr_u fl _ _ _ _ _ _ c (hex_low c E32) L).
      rewrite (IH 0%nat) by (destruct fl; [cbn [sclean_p utf8_ok] in C; rewrite L in C; exact C | exact C]).
      rewrite Fin. reflexivity. }
    cbn [app]. destruct (c <? 128) eqn:E128.
    { rewrite rstr_plain by auto.
      rewrite (IH 0%nat) by (destruct fl; [cbn [sclean_p utf8_ok] in C; rewrite E128 in C; exact C | exact C]).
      rewrite Fin. reflexivity. }
    destruct fl.
    + cbn [sclean_p utf8_ok] in C. rewrite E128 in C.
      destruct (seq_len c s) as [|p] eqn:SL; [discriminate|].
      rewrite (rstr_lead c _ acc p E34 E32 E92 E128 (seq_len_esc c s _ p SL)).
      rewrite (IH (S p) (c :: acc) rest C), Fin. reflexivity.
    + rewrite rstr_plain by auto. rewrite (IH 0%nat) by exact C. rewrite Fin. reflexivity.
Qed.

Theorem rstr_print fl : forall s acc rest,
  sclean fl s = true ->
  rstr fl (flat_map esc_byte s ++ 34 :: rest) 0 acc = Some (rev acc ++ s, rest).
Proof. intros s acc rest C. apply rstr_print_p, C. Qed.

(** ** values *)
Definition no_num_head (s : bytes) : Prop :=
  match s with [] => True | c :: _ => num_char c = false end.

Lemma span_num_app t : forall rest,
  forallb num_char t = true -> no_num_head rest -> span_num (t ++ rest) = (t, rest).
Proof.
  induction t as [|c t IH]; intros rest F N.
  - cbn [app]. destruct rest as [|c r]; [reflexivity|]. cbn in N. cbn [span_num]. rewrite N. reflexivity.
  - cbn [forallb] in F. apply andb_true_iff in F as [Fc Ft].
    cbn [app span_num]. rewrite Fc, (IH rest Ft N). reflexivity.
Qed.

Lemma num_char_cases c :
  num_char c = true -> (48 <= c <= 57) \/ c = 45 \/ c = 43 \/ c = 46 \/ c = 101 \/ c = 69.
Proof.
  unfold num_char, is_digit. rewrite !orb_true_iff, andb_true_iff, !N.eqb_eq, !N.leb_le. tauto.
Qed.

(** what a value starts with: not white space, not a closing bracket *)
Definition good_head (c : N) : bool := negb (is_ws c) && negb (c =? 93) && negb (c =? 125).

Lemma num_char_good c : num_char c = true -> good_head c = true.
Proof.
  intro H. apply num_char_cases in H. unfold good_head, is_ws.
  rewrite !andb_true_iff, !negb_true_iff, !orb_false_iff, !N.eqb_neq. lia.
Qed.

Lemma num_char_dispatch c : num_char c = true ->
  c =? 34 = false /\ c =? 123 = false /\ c =? 91 = false /\ c =? 116 = false /\ c =? 102 = false /\ c =? 110 = false.
Proof. intro H. apply num_char_cases in H. rewrite !N.eqb_neq. lia. Qed.

Lemma skip_ws_good c t : good_head c = true -> skip_ws (c :: t) = c :: t.
Proof.
  unfold good_head. intro H. apply andb_true_iff in H as [H _]. apply andb_true_iff in H as [H _].
  apply negb_true_iff in H. cbn [skip_ws]. rewrite H. reflexivity.
Qed.

Lemma skip_ws_nonws c t : is_ws c = false -> skip_ws (c :: t) = c :: t.
Proof. intro H. cbn [skip_ws]. rewrite H. reflexivity. Qed.

Lemma good_head_93 c : good_head c = true -> c =? 93 = false.
Proof. unfold good_head. rewrite !andb_true_iff, !negb_true_iff. tauto. Qed.
Lemma good_head_125 c : good_head c = true -> c =? 125 = false.
Proof. unfold good_head. rewrite !andb_true_iff, !negb_true_iff. tauto. Qed.

Section Values.
  Variable fl : flavour.
  Variable numval : bytes -> option N.
  Variable numprint : N -> bytes.
  Variable numclean : N -> Prop.
  (** the number layer (trusted): the client's formatting of a float64 is a JSON number token that
      strconv.ParseFloat reads back *)
  Hypothesis num_nonempty : forall b, numclean b -> numprint b <> [].
  Hypothesis num_chars : forall b, numclean b -> forallb num_char (numprint b) = true.
  Hypothesis num_grammar : forall b, numclean b -> num_ok (numprint b) = true.
  Hypothesis num_back : forall b, numclean b -> numval (numprint b) = Some b.

  (** values whose text is read back exactly *)
  Inductive tclean : json -> Prop :=
  | TCnull : tclean JNull
  | TCbool b : tclean (JBool b)
  | TCnum b : numclean b -> tclean (JNum b)
  | TCstr s : sclean fl s = true -> tclean (JStr s)
  | TCarr l : Forall tclean l -> tclean (JArr l)
  | TCobj l : Forall (fun kv => sclean fl (fst kv) = true /\ tclean (snd kv)) l -> tclean (JObj l).

  Notation pr := (print numprint).

  Fixpoint parr (l : list json) : bytes :=
    match l with
    | [] => [93]
    | x :: r => pr x ++ match r with [] => [93] | _ :: _ => 44 :: parr r end
    end.
  Fixpoint pobj (l : list (bytes * json)) : bytes :=
    match l with
    | [] => [125]
    | (k, x) :: r => print_str k ++ 58 :: pr x ++ match r with [] => [125] | _ :: _ => 44 :: pobj r end
    end.

  Lemma print_arr l : pr (JArr l) = 91 :: parr l.
  Proof.
    cbn [print]. f_equal.
  Qed.
  Lemma print_obj l : pr (JObj l) = 123 :: pobj l.
  Proof.
    cbn [print]. f_equal.
  Qed.

  Lemma print_head j : tclean j -> exists c t, pr j = c :: t /\ good_head c = true.
  Proof.
    intro C. destruct C as [|b|b Hb|s Hs|l Hl|l Hl].
    - do 2 eexists. split; reflexivity.
    - destruct b; do 2 eexists; (split; reflexivity).
    - cbn [print]. pose proof (num_nonempty b Hb) as NE. pose proof (num_chars b Hb) as NC.
      destruct (numprint b) as [|c t]; [congruence|]. exists c, t. split; [reflexivity|].
      cbn [forallb] in NC. apply andb_true_iff in NC as [NC _]. apply num_char_good, NC.
    - do 2 eexists. split; reflexivity.
    - rewrite print_arr. do 2 eexists. split; reflexivity.
    - rewrite print_obj. do 2 eexists. split; reflexivity.
  Qed.

  Lemma print_len_pos j : tclean j -> (1 <= length (pr j))%nat.
  Proof. intro C. destruct (print_head j C) as (c & t & -> & _). cbn. lia. Qed.

  Lemma skip_ws_print j rest : tclean j -> skip_ws (pr j ++ rest) = pr j ++ rest.
  Proof. intro C. destruct (print_head j C) as (c & t & -> & G). cbn [app]. apply skip_ws_good, G. Qed.

  Lemma parr_len l : Forall tclean l ->
    (length l <= length (parr l))%nat /\ Forall (fun x => (length (pr x) <= length (parr l))%nat) l.
  Proof.
    induction 1 as [|x r Hx Hr IH]; [cbn; split; [lia|constructor]|].
    destruct IH as [IH1 IH2]. pose proof (print_len_pos x Hx) as P.
    cbn [parr]. rewrite app_length. split.
    - destruct r; cbn [length] in *; lia.
    - constructor; [lia|]. eapply Forall_impl; [|exact IH2]. cbn beta. intros a Ha.
      destruct r; [cbn [parr length] in *; lia|]. cbn [length]. lia.
  Qed.

  Definition mclean (kv : bytes * json) : Prop := sclean fl (fst kv) = true /\ tclean (snd kv).

  Lemma pobj_len l : Forall mclean l ->
    (length l <= length (pobj l))%nat /\ Forall (fun kv => (length (pr (snd kv)) <= length (pobj l))%nat) l.
  Proof.
    induction 1 as [|[k x] r Hx Hr IH]; [cbn; split; [lia|constructor]|].
    destruct IH as [IH1 IH2]. destruct Hx as [_ Hx]. cbn [snd] in Hx. pose proof (print_len_pos x Hx) as P.
    cbn [pobj]. rewrite app_length. cbn [length]. rewrite app_length. split.
    - destruct r; cbn [length] in *; lia.
    - constructor; [cbn [snd]; lia|]. eapply Forall_impl; [|exact IH2]. cbn beta. intros a Ha.
      destruct r; [cbn [pobj length] in *; lia|]. cbn [length]. lia.
  Qed.

  Section Loops.
    Variable self : bytes -> option (json * bytes).
    Definition reads (y : json) : Prop :=
      tclean y /\ forall rest', no_num_head rest' -> self (pr y ++ rest') = Some (y, rest').

    Lemma pelems_print : forall l x acc n rest,
      Forall reads (x :: l) -> (length (x :: l) <= n)%nat ->
      pelems self n (parr (x :: l) ++ rest) acc = Some (rev acc ++ x :: l, rest).
    Proof.
      induction l as [|y l IH]; intros x acc n rest F Ln.
      - inversion F as [|? ? [Cx Fx] _]; subst. destruct n as [|n]; [cbn in Ln; lia|].
        cbn [parr pelems]. rewrite <- app_assoc. rewrite Fx by reflexivity.
        cbn [app]. rewrite (skip_ws_nonws 93 rest eq_refl).
        change (93 =? 44) with false. change (93 =? 93) with true. cbn match. reflexivity.
      - inversion F as [|? ? [Cx Fx] Fr]; subst. destruct n as [|n]; [cbn in Ln; lia|].
        assert (Cy : tclean y) by (inversion Fr as [|? ? [Cy _] _]; exact Cy).
        cbn [pelems]. change (parr (x :: y :: l)) with (pr x ++ 44 :: parr (y :: l)).
        rewrite <- app_assoc. rewrite Fx by reflexivity.
        cbn [app]. rewrite (skip_ws_nonws 44 _ eq_refl).
        change (44 =? 44) with true. cbn match.
        assert (S : skip_ws (parr (y :: l) ++ rest) = parr (y :: l) ++ rest).
        { cbn [parr]. rewrite <- app_assoc. apply skip_ws_print, Cy. }
        rewrite S, (IH y (x :: acc) n rest Fr) by (cbn [length] in *; lia).
        cbn [rev]. rewrite <- app_assoc. reflexivity.
    Qed.

    Definition mreads (kv : bytes * json) : Prop := sclean fl (fst kv) = true /\ reads (snd kv).

    Lemma pobj_head k x l rest : exists t, pobj ((k, x) :: l) ++ rest = 34 :: t.
    Proof. cbn [pobj]. unfold print_str. cbn [app]. eexists. reflexivity. Qed.

    Lemma pmembers_step k x tail rest acc n :
      sclean fl k = true -> reads x -> no_num_head (tail ++ rest) ->
      pmembers fl self (S n) ((print_str k ++ 58 :: pr x ++ tail) ++ rest) acc =
      match skip_ws (tail ++ rest) with
      | c2 :: r3 =>
          if c2 =? 44 then pmembers fl self n (skip_ws r3) ((k, x) :: acc)
          else if c2 =? 125 then Some (rev ((k, x) :: acc), r3)
          else None
      | [] => None
      end.
    Proof.
      intros Ck [Cx Fx] NT.
      assert (E : (print_str k ++ 58 :: pr x ++ tail) ++ rest =
                  34 :: (flat_map esc_byte k ++ 34 :: (58 :: (pr x ++ (tail ++ rest))))).
      { unfold print_str. cbn [app]. rewrite <- !app_assoc. cbn [app]. rewrite <- !app_assoc. reflexivity. }
      rewrite E. cbn [pmembers]. change (34 =? 34) with true. cbn match.
      rewrite (rstr_print fl k [] _ Ck). cbn [rev app].
      rewrite (skip_ws_nonws 58 _ eq_refl). change (58 =? 58) with true. cbn match.
      rewrite (skip_ws_print x _ Cx), (Fx _ NT). reflexivity.
    Qed.

    Lemma pmembers_print : forall l k x acc n rest,
      Forall mreads ((k, x) :: l) -> (length ((k, x) :: l) <= n)%nat ->
      pmembers fl self n (pobj ((k, x) :: l) ++ rest) acc = Some (rev acc ++ (k, x) :: l, rest).
    Proof.
      induction l as [|[k' y] l IH]; intros k x acc n rest F Ln.
      - inversion F as [|? ? [Ck Rx] _]; subst. cbn [fst snd] in *. destruct n as [|n]; [cbn in Ln; lia|].
        cbn [pobj]. rewrite (pmembers_step k x [125] rest acc n Ck Rx) by reflexivity.
        cbn [app]. rewrite (skip_ws_nonws 125 rest eq_refl).
        change (125 =? 44) with false. change (125 =? 125) with true. cbn match. reflexivity.
      - inversion F as [|? ? [Ck Rx] Fr]; subst. cbn [fst snd] in *. destruct n as [|n]; [cbn in Ln; lia|].
        change (pobj ((k, x) :: (k', y) :: l)) with (print_str k ++ 58 :: pr x ++ 44 :: pobj ((k', y) :: l)).
        rewrite (pmembers_step k x (44 :: pobj ((k', y) :: l)) rest acc n Ck Rx) by reflexivity.
        cbn [app]. rewrite (skip_ws_nonws 44 _ eq_refl). change (44 =? 44) with true. cbn match.
        destruct (pobj_head k' y l rest) as (t & Et). rewrite Et, (skip_ws_nonws 34 t eq_refl), <- Et.
        rewrite (IH k' y ((k, x) :: acc) n rest Fr) by (cbn [length] in *; lia).
        cbn [rev]. rewrite <- app_assoc. reflexivity.
    Qed.

    Lemma pval_step_arr r c t :
      skip_ws r = c :: t -> c =? 93 = false ->
      pval_step fl numval self (91 :: r) =
      match pelems self (length r) (c :: t) [] with Some (l, r') => Some (JArr l, r') | None => None end.
    Proof.
      intros E H.
      change (pval_step fl numval self (91 :: r))
        with (match skip_ws r with
              | c1 :: r1 => if c1 =? 93 then Some (JArr [], r1)
                            else match pelems self (length r) (skip_ws r) [] with Some (l, r') => Some (JArr l, r') | None => None end
              | [] => None
              end).
      rewrite E, H. reflexivity.
    Qed.

    Lemma pval_step_obj r c t :
      skip_ws r = c :: t -> c =? 125 = false ->
      pval_step fl numval self (123 :: r) =
      match pmembers fl self (length r) (c :: t) [] with Some (l, r') => Some (JObj l, r') | None => None end.
    Proof.
      intros E H.
      change (pval_step fl numval self (123 :: r))
        with (match skip_ws r with
              | c1 :: r1 => if c1 =? 125 then Some (JObj [], r1)
                            else match pmembers fl self (length r) (skip_ws r) [] with Some (l, r') => Some (JObj l, r') | None => None end
              | [] => None
              end).
      rewrite E, H. reflexivity.
    Qed.
  End Loops.

  (** the reader inverts the serialiser, for every value, at any nesting depth *)
  Theorem pval_print : forall j, tclean j -> forall fuel rest,
    (length (pr j) <= fuel)%nat -> no_num_head rest ->
    pval fl numval fuel (pr j ++ rest) = Some (j, rest).
  Proof.
    induction j as [| b | b | | s | l IH | l IH] using json_ind'; intros C fuel rest L NR;
      pose proof (print_len_pos _ C) as P; (destruct fuel as [|f]; [lia|]); cbn [pval]; inversion C; subst.
    - reflexivity.
    - destruct b; reflexivity.
    - match goal with H : numclean b |- _ => rename H into Hb end.
      cbn [print] in *. pose proof (num_nonempty b Hb) as NE. pose proof (num_chars b Hb) as NC.
      pose proof (num_grammar b Hb) as NG. pose proof (num_back b Hb) as NB.
      destruct (numprint b) as [|c t]; [congruence|].
      assert (Hc : num_char c = true) by (cbn [forallb] in NC; apply andb_true_iff in NC; tauto).
      destruct (num_char_dispatch c Hc) as (E1 & E2 & E3 & E4 & E5 & E6).
      cbn [app]. unfold pval_step. rewrite E1, E2, E3, E4, E5, E6.
      change (c :: t ++ rest) with ((c :: t) ++ rest). rewrite (span_num_app (c :: t) rest NC NR), NG, NB. reflexivity.
    - match goal with H : sclean fl s = true |- _ => rename H into Hs end.
      cbn [print]. unfold print_str. cbn [app]. rewrite <- app_assoc. cbn [app].
      unfold pval_step. change (34 =? 34) with true. cbn match.
      rewrite (rstr_print fl s [] rest Hs). reflexivity.
    - match goal with H : Forall tclean l |- _ => rename H into Hl end.
      rewrite print_arr in *. cbn [app]. destruct l as [|x l'].
      + reflexivity.
      + cbn [length] in L. destruct (parr_len _ Hl) as [Ln Le].
        assert (Cx : tclean x) by (inversion Hl; assumption).
        assert (S : skip_ws (parr (x :: l') ++ rest) = parr (x :: l') ++ rest).
        { cbn [parr]. rewrite <- app_assoc. apply skip_ws_print, Cx. }
        destruct (print_head x Cx) as (c & t & Ex & G).
        assert (S' : exists t', skip_ws (parr (x :: l') ++ rest) = c :: t').
        { rewrite S. cbn [parr]. rewrite Ex. cbn [app]. eexists. reflexivity. }
        destruct S' as (t' & S').
        rewrite (pval_step_arr (pval fl numval f) _ c t' S' (good_head_93 c G)).
        rewrite <- S', S.
        rewrite (pelems_print (pval fl numval f) l' x [] _ rest).
        * reflexivity.
        * rewrite Forall_forall in *. intros y Hy. split; [apply Hl, Hy|].
          intros rest' NR'. apply IH; [exact Hy | apply Hl, Hy | specialize (Le y Hy); lia | exact NR'].
        * rewrite app_length. lia.
    - match goal with H : Forall _ l |- _ => rename H into Hl end.
      rewrite print_obj in *. cbn [app]. destruct l as [|[k x] l'].
      + reflexivity.
      + cbn [length] in L. destruct (pobj_len _ Hl) as [Ln Le].
        destruct (pobj_head k x l' rest) as (t' & Et).
        assert (S' : skip_ws (pobj ((k, x) :: l') ++ rest) = 34 :: t') by (rewrite Et; apply (skip_ws_nonws 34 t' eq_refl)).
        rewrite (pval_step_obj (pval fl numval f) _ 34 t' S' eq_refl).
        rewrite <- Et.
        rewrite (pmembers_print (pval fl numval f) l' k x [] _ rest).
        * reflexivity.
        * rewrite Forall_forall in *. intros kv Hkv. destruct (Hl kv Hkv) as [Ck Cv]. split; [exact Ck|]. split; [exact Cv|].
          intros rest' NR'. apply (IH kv Hkv); [exact Cv | specialize (Le kv Hkv); lia | exact NR'].
        * rewrite app_length. lia.
  Qed.

  Theorem parse_print j : tclean j -> parse_text fl numval (pr j) = PTree j.
  Proof.
    intro C. unfold parse_text.
    pose proof (skip_ws_print j [] C) as S. rewrite app_nil_r in S. rewrite S.
    pose proof (pval_print j C (Datatypes.S (length (pr j))) [] (Nat.le_succ_diag_r _) I) as P.
    rewrite app_nil_r in P. rewrite P. reflexivity.
  Qed.

  Lemma print_nonempty j : tclean j -> is_empty (pr j) = false.
  Proof. intro C. destruct (print_head j C) as (c & t & -> & _). reflexivity. Qed.
End Values.

(** ** the envelope theorems over bytes *)
Lemma tclean_jsi numclean : forall j, tclean StdJson numclean j -> tclean Jsoniter numclean j.
Proof.
  induction j as [| b | b | | s | l IH | l IH] using json_ind'; intro C; inversion C; subst; try (constructor; auto; fail).
  - constructor. rewrite Forall_forall in *. auto.
  - constructor. rewrite Forall_forall in *. intros kv Hkv.
    match goal with H : forall x, In x l -> _ /\ _ |- _ => destruct (H kv Hkv) as [_ Cv] end.
    split; [reflexivity|]. apply (IH kv Hkv), Cv.
Qed.

Section Bytes.
  Variable numval : bytes -> option N.
  Variable numprint : N -> bytes.
  Variable numclean : N -> Prop.
  Hypothesis num_nonempty : forall b, numclean b -> numprint b <> [].
  Hypothesis num_chars : forall b, numclean b -> forallb num_char (numprint b) = true.
  Hypothesis num_grammar : forall b, numclean b -> num_ok (numprint b) = true.
  Hypothesis num_back : forall b, numclean b -> numval (numprint b) = Some b.

  (** values the library reads back exactly: clean numbers, valid UTF-8, and a text within the
      nesting limit *)
  Definition text_clean (j : json) : Prop := tclean StdJson numclean j /\ too_deep (print numprint j) = false.

  Lemma std_faithful_bytes j : text_clean j -> parse_json StdJson numval (print numprint j) = PTree j.
  Proof. intros [C D]. unfold parse_json. rewrite D. apply (parse_print StdJson numval numprint numclean); assumption. Qed.
  Lemma jsi_faithful_bytes j : text_clean j -> parse_json Jsoniter numval (print numprint j) = PTree j.
  Proof.
    intros [C D]. unfold parse_json. rewrite D.
    apply (parse_print Jsoniter numval numprint numclean); try assumption. apply tclean_jsi, C.
  Qed.

  (** [print numprint j] is never the empty text (for any [j]: the first byte is fixed by the
      constructor, except for numbers) *)
  Lemma render_nonempty_bytes_clean j : text_clean j -> is_empty (print numprint j) = false.
  Proof. intros [C _]. exact (print_nonempty StdJson numprint numclean num_nonempty num_chars j C). Qed.
End Bytes.

(** ** witnesses: one text, two readings (replayed on the real code by the harness, raw kinds
    name-long-s and surrogates-var) *)
Definition wit_long_s : bytes :=   (* {"query":"{a}","variable<U+017F>":{"x":null}} *)
  [123;34;113;117;101;114;121;34;58;34;123;97;125;34;44;34;118;97;114;105;97;98;108;101;197;191;34;58;123;34;120;34;58;110;117;108;108;125;125].
Definition wit_surrogates : bytes :=   (* "\ud800𐀀" *)
  [34; 92;117;100;56;48;48; 92;117;100;56;48;48; 92;117;100;99;48;48; 34].

(** what the pinned tree did with socket payloads: jsoniter ([parse_text Jsoniter] +
    [decode_struct Jsoniter]) against encoding/json on HTTP — the same bytes, two operations *)
Definition payload_op (fl : flavour) (text : bytes) : option op :=
  match parse_text fl (fun _ => None) text with
  | PTree j => option_map body_op (decode_struct fl false j)
  | _ => None
  end.

Definition wit_null_after : bytes :=   (* {"query":"{a}","query":null} *)
  [123;34;113;117;101;114;121;34;58;34;123;97;125;34;44;34;113;117;101;114;121;34;58;110;117;108;108;125].

Theorem ws_payload_library_refuted_before_fix :
  (exists text o1 o2, payload_op StdJson text = Some o1 /\ payload_op Jsoniter text = Some o2 /\ o_vars o1 <> o_vars o2) /\
  (exists text o1 o2, payload_op StdJson text = Some o1 /\ payload_op Jsoniter text = Some o2 /\ o_query o1 <> o_query o2) /\
  (exists text s1 s2,
     parse_text StdJson (fun _ => None) text = PTree (JStr s1) /\
     parse_text Jsoniter (fun _ => None) text = PTree (JStr s2) /\ s1 <> s2).
Proof.
  split; [|split].
  - exists wit_long_s. do 2 eexists.
    split; [vm_compute; reflexivity|]. split; [vm_compute; reflexivity|]. discriminate.
  - exists wit_null_after. do 2 eexists.
    split; [vm_compute; reflexivity|]. split; [vm_compute; reflexivity|]. discriminate.
  - exists wit_surrogates. do 2 eexists.
    split; [vm_compute; reflexivity|]. split; [vm_compute; reflexivity|]. discriminate.
Qed.
