(** * Transport/InitModel.v — connection_init on a socket (C17, feature plumbing)

    graphqlws.go, graphqlWSHandler.HandleInit (both socket protocols call it for every
    connection_init message, also a repeated one):
      1. if Config.HandleGraphQLWSInit is set: ctx, err := hook(h.Context, parameters);
         an error refuses the init (the connection is closed, nothing changes); otherwise h.Context = ctx;
      2. if Config.Features is set: h.features = Features(h.Context)   — the context the hook returned.
    HandleStart then uses h.features.  [swapped]: the two steps in the other order (a seeded change).
    No proofs in this file. *)
From Coq Require Import List Bool.
From ApiFu Require Import Base.Sexp Transport.EnvelopeModel.
Import ListNotations.

Section Init.
  Variables Schema Features Ctx : Type.
  Variable hook : option (Ctx -> option bytes -> option Ctx).   (* Config.HandleGraphQLWSInit; [None]: it returns an error *)

  (** handler state: h.Context, h.features *)
  Definition hstate := (Ctx * Features)%type.

  Definition handle_init_msg (swapped : bool) (a : api Schema Features Ctx) (st : hstate) (params : option bytes) : option hstate :=
    if swapped then
      let f := match a_features a with Some g => g (fst st) | None => snd st end in
      match (match hook with Some h => h (fst st) params | None => Some (fst st) end) with
      | None => None
      | Some c' => Some (c', f)
      end
    else
      match (match hook with Some h => h (fst st) params | None => Some (fst st) end) with
      | None => None
      | Some c' => Some (c', match a_features a with Some g => g c' | None => snd st end)
      end.

  (** the connection_init messages of a connection, in order; [None]: one was refused (closed) *)
  Fixpoint run_inits (swapped : bool) (a : api Schema Features Ctx) (st : hstate) (inits : list (option bytes)) : option hstate :=
    match inits with
    | [] => Some st
    | p :: r => match handle_init_msg swapped a st p with
                | Some st' => run_inits swapped a st' r
                | None => None
                end
    end.

  (** Spec: the context returned by the latest accepted init's hook *)
  Fixpoint ctx_after (c : Ctx) (inits : list (option bytes)) : option Ctx :=
    match inits with
    | [] => Some c
    | p :: r => match (match hook with Some h => h c p | None => Some c end) with
                | Some c' => ctx_after c' r
                | None => None
                end
    end.
End Init.
Arguments handle_init_msg {Schema Features Ctx}.
Arguments run_inits {Schema Features Ctx}.
Arguments ctx_after {Ctx}.
