(** * Transport/JsonText.v — the JSON text layer of the request envelopes (C17, stage B)

    [parse_text fl numval text] is what the JSON library of flavour [fl] makes of the bytes [text]:
    encoding/json ([StdJson]: NewRequestFromHTTP's body decoder and [json.Unmarshal] of the
    [variables] / [extensions] URL parameters) or jsoniter ([Jsoniter]: the payload of a start /
    subscribe message, which encoding/json has already validated as part of the frame).

    Transcribed from the libraries' observable behaviour (go1.23.5 encoding/json scanner.go,
    decode.go [unquoteBytes]; json-iterator iter_str.go [readEscapedChar], [appendRune]):
    - white space is space, tab, LF, CR; nothing else (a byte order mark is an error);
    - strings: no raw byte below 0x20; escapes backslash + one of quote, backslash, slash, b f n r t, uXXXX
      (hex digits of either case); a [\uXXXX] pair of a high and a low surrogate is one code point;
      an unpaired surrogate becomes U+FFFD — encoding/json then re-reads the following escape,
      jsoniter consumes a following [\uXXXX] together with it;
      raw bytes >= 0x80: encoding/json replaces every byte that does not start a valid UTF-8
      sequence by U+FFFD, jsoniter copies the bytes as they are;
    - numbers: an optional minus, then 0 or a digit 1-9 followed by digits, then optionally a dot
      and one or more digits, then optionally e or E, an optional sign and one or more digits; the value of a token is
      *not* computed here: [numval tok] stands for strconv.ParseFloat ([None]: outside float64);
    - literals [true], [false], [null]; arrays and objects without trailing commas; object members
      in textual order, duplicates kept (the struct / map layer of EnvelopeModel decides).
    The nesting limit of 10000 of both libraries: [too_deep], [parse_json].
    The jsoniter flavour is only meant for texts encoding/json accepts (json.RawMessage).

    [print numprint j] is the canonical client serialiser (compact, minimal escapes).
    No proofs in this file. *)
From Coq Require Import List NArith Bool.
From ApiFu Require Import Base.Sexp Transport.EnvelopeModel.
Import ListNotations.
Open Scope N_scope.

Definition is_ws (c : N) : bool := (c =? 32) || (c =? 9) || (c =? 10) || (c =? 13).

Fixpoint skip_ws (s : bytes) : bytes :=
  match s with
  | c :: r => if is_ws c then skip_ws r else s
  | [] => []
  end.

Definition hexval (c : N) : option N :=
  if (48 <=? c) && (c <=? 57) then Some (c - 48)
  else if (97 <=? c) && (c <=? 102) then Some (c - 87)
  else if (65 <=? c) && (c <=? 70) then Some (c - 55)
  else None.

Definition hex4 (a b c d : N) : option N :=
  match hexval a, hexval b, hexval c, hexval d with
  | Some x, Some y, Some z, Some w => Some (x * 4096 + y * 256 + z * 16 + w)
  | _, _, _, _ => None
  end.

Definition is_surrogate (u : N) : bool := (55296 <=? u) && (u <=? 57343).   (* D800..DFFF *)
Definition is_high (u : N) : bool := (55296 <=? u) && (u <=? 56319).        (* D800..DBFF *)
Definition is_low (u : N) : bool := (56320 <=? u) && (u <=? 57343).         (* DC00..DFFF *)

Definition utf8_enc (u : N) : bytes :=
  if u <? 128 then [u]
  else if u <? 2048 then [192 + u / 64; 128 + u mod 64]
  else if u <? 65536 then [224 + u / 4096; 128 + (u / 64) mod 64; 128 + u mod 64]
  else [240 + u / 262144; 128 + (u / 4096) mod 64; 128 + (u / 64) mod 64; 128 + u mod 64].

Definition replacement : bytes := [239; 191; 189].                           (* U+FFFD *)
Definition enc_rune (u : N) : bytes := if is_surrogate u then replacement else utf8_enc u.
Definition pair_rune (hi lo : N) : N := 65536 + (hi - 55296) * 1024 + (lo - 56320).

(** UTF-8 as utf8.DecodeRune accepts it: the number of continuation bytes of the sequence that
    starts with the lead byte [c] and goes on in [r]; [0]: [c] does not start a valid sequence *)
Definition in_rng (lo hi c : N) : bool := (lo <=? c) && (c <=? hi).
Definition cont (c : N) : bool := in_rng 128 191 c.

Definition seq_len (c : N) (r : bytes) : nat :=
  if in_rng 194 223 c then
    match r with c1 :: _ => if cont c1 then 1%nat else 0%nat | _ => 0%nat end
  else if in_rng 224 239 c then
    match r with
    | c1 :: c2 :: _ =>
        if (if c =? 224 then in_rng 160 191 c1 else if c =? 237 then in_rng 128 159 c1 else cont c1) && cont c2
        then 2%nat else 0%nat
    | _ => 0%nat
    end
  else if in_rng 240 244 c then
    match r with
    | c1 :: c2 :: c3 :: _ =>
        if (if c =? 240 then in_rng 144 191 c1 else if c =? 244 then in_rng 128 143 c1 else cont c1) && cont c2 && cont c3
        then 3%nat else 0%nat
    | _ => 0%nat
    end
  else 0%nat.

Definition simple_escape (e : N) : option N :=
  if e =? 34 then Some 34 else if e =? 92 then Some 92 else if e =? 47 then Some 47
  else if e =? 98 then Some 8 else if e =? 102 then Some 12 else if e =? 110 then Some 10
  else if e =? 114 then Some 13 else if e =? 116 then Some 9 else None.

(** ** strings.  [s]: the text after the opening quote; [pend]: bytes of an already validated
    UTF-8 sequence still to be copied; [acc]: the result so far, reversed.
    Answer: the string and the text after the closing quote. *)
Fixpoint rstr (fl : flavour) (s : bytes) (pend : nat) (acc : bytes) : option (bytes * bytes) :=
  match s with
  | [] => None
  | c :: r =>
      match pend with
      | S p => rstr fl r p (c :: acc)
      | O =>
          if c =? 34 then Some (rev acc, r)
          else if c <? 32 then None
          else if c =? 92 then
            match r with
            | [] => None
            | e :: r1 =>
                if e =? 117 then
                  match r1 with
                  | a :: b :: c' :: d :: r5 =>
                      match hex4 a b c' d with
                      | None => None
                      | Some u =>
                          if is_surrogate u then
                            match r5 with
                            | b1 :: u1 :: a2 :: b2 :: c2 :: d2 :: r11 =>
                                if (b1 =? 92) && (u1 =? 117) then
                                  match hex4 a2 b2 c2 d2 with
                                  | Some u2 =>
                                      if is_high u && is_low u2 then rstr fl r11 0 (rev_append (utf8_enc (pair_rune u u2)) acc)
                                      else match fl with
                                           | StdJson => rstr fl r5 0 (rev_append replacement acc)
                                           | Jsoniter => rstr fl r11 0 (rev_append (enc_rune u2) (rev_append replacement acc))
                                           end
                                  | None =>
                                      match fl with
                                      | StdJson => rstr fl r5 0 (rev_append replacement acc)
                                      | Jsoniter => None
                                      end
                                  end
                                else rstr fl r5 0 (rev_append replacement acc)
                            | _ => rstr fl r5 0 (rev_append replacement acc)
                            end
                          else rstr fl r5 0 (rev_append (utf8_enc u) acc)
                      end
                  | _ => None
                  end
                else match simple_escape e with
                     | Some x => rstr fl r1 0 (x :: acc)
                     | None => None
                     end
            end
          else if c <? 128 then rstr fl r 0 (c :: acc)
          else match fl with
               | Jsoniter => rstr fl r 0 (c :: acc)
               | StdJson =>
                   match seq_len c r with
                   | O => rstr fl r 0 (rev_append replacement acc)
                   | S p => rstr fl r (S p) (c :: acc)
                   end
               end
      end
  end.

(** ** numbers *)
Definition is_digit (c : N) : bool := (48 <=? c) && (c <=? 57).
Definition num_char (c : N) : bool := is_digit c || (c =? 45) || (c =? 43) || (c =? 46) || (c =? 101) || (c =? 69).

Fixpoint span_num (s : bytes) : bytes * bytes :=
  match s with
  | c :: r => if num_char c then let (t, r') := span_num r in (c :: t, r') else ([], s)
  | [] => ([], [])
  end.

Fixpoint digits (s : bytes) : bytes :=
  match s with
  | c :: r => if is_digit c then digits r else s
  | [] => []
  end.
Definition digits1 (s : bytes) : option bytes :=
  match s with
  | c :: r => if is_digit c then Some (digits r) else None
  | [] => None
  end.

Definition num_ok (t : bytes) : bool :=
  let t1 := match t with c :: r => if c =? 45 then r else t | [] => [] end in
  match (match t1 with
         | c :: r => if c =? 48 then Some r else if is_digit c then Some (digits r) else None
         | [] => None
         end) with
  | None => false
  | Some t2 =>
      match (match t2 with
             | c :: r => if c =? 46 then digits1 r else Some t2
             | [] => Some []
             end) with
      | None => false
      | Some t3 =>
          match t3 with
          | [] => true
          | c :: r =>
              if (c =? 101) || (c =? 69) then
                match (match r with
                       | s :: r' => if (s =? 43) || (s =? 45) then digits1 r' else digits1 r
                       | [] => None
                       end) with
                | Some [] => true
                | _ => false
                end
              else false
          end
      end
  end.

Fixpoint strip (w s : bytes) : option bytes :=
  match w, s with
  | [], _ => Some s
  | a :: w', b :: s' => if a =? b then strip w' s' else None
  | _ :: _, [] => None
  end.

(** ** values *)
Section Parse.
  Variable fl : flavour.
  Variable numval : bytes -> option N.       (* strconv.ParseFloat(tok, 64): the bits; None = out of range *)

  Section Step.
    Variable self : bytes -> option (json * bytes).    (* a value at the head of the text *)

    (** after the opening bracket and white space, the array being non-empty *)
    Fixpoint pelems (n : nat) (s : bytes) (acc : list json) : option (list json * bytes) :=
      match n with
      | O => None
      | S n' =>
          match self s with
          | None => None
          | Some (j, r) =>
              match skip_ws r with
              | c :: r' =>
                  if c =? 44 then pelems n' (skip_ws r') (j :: acc)
                  else if c =? 93 then Some (rev (j :: acc), r')
                  else None
              | [] => None
              end
          end
      end.

    (** after the opening brace and white space, the object being non-empty *)
    Fixpoint pmembers (n : nat) (s : bytes) (acc : list (bytes * json)) : option (list (bytes * json) * bytes) :=
      match n with
      | O => None
      | S n' =>
          match s with
          | q :: s1 =>
              if q =? 34 then
                match rstr fl s1 0 [] with
                | None => None
                | Some (k, r) =>
                    match skip_ws r with
                    | c :: r1 =>
                        if c =? 58 then
                          match self (skip_ws r1) with
                          | None => None
                          | Some (j, r2) =>
                              match skip_ws r2 with
                              | c2 :: r3 =>
                                  if c2 =? 44 then pmembers n' (skip_ws r3) ((k, j) :: acc)
                                  else if c2 =? 125 then Some (rev ((k, j) :: acc), r3)
                                  else None
                              | [] => None
                              end
                          end
                        else None
                    | [] => None
                    end
                end
              else None
          | [] => None
          end
      end.

    Definition pval_step (s : bytes) : option (json * bytes) :=
      match s with
      | [] => None
      | c :: r =>
          if c =? 34 then
            match rstr fl r 0 [] with
            | Some (str, r') => Some (JStr str, r')
            | None => None
            end
          else if c =? 123 then
            match skip_ws r with
            | c1 :: r1 =>
                if c1 =? 125 then Some (JObj [], r1)
                else match pmembers (length r) (skip_ws r) [] with
                     | Some (l, r') => Some (JObj l, r')
                     | None => None
                     end
            | [] => None
            end
          else if c =? 91 then
            match skip_ws r with
            | c1 :: r1 =>
                if c1 =? 93 then Some (JArr [], r1)
                else match pelems (length r) (skip_ws r) [] with
                     | Some (l, r') => Some (JArr l, r')
                     | None => None
                     end
            | [] => None
            end
          else if c =? 116 then
            match strip [114; 117; 101] r with Some r' => Some (JBool true, r') | None => None end
          else if c =? 102 then
            match strip [97; 108; 115; 101] r with Some r' => Some (JBool false, r') | None => None end
          else if c =? 110 then
            match strip [117; 108; 108] r with Some r' => Some (JNull, r') | None => None end
          else
            let (tok, r') := span_num s in
            if num_ok tok then Some (match numval tok with Some b => JNum b | None => JNumRange end, r')
            else None
      end.
  End Step.

  Fixpoint pval (fuel : nat) (s : bytes) : option (json * bytes) :=
    match fuel with
    | O => None
    | S f => pval_step (pval f) s
    end.

  (** the whole text: one value between optional white space ([PTree]); a value followed by
      something else ([PTrail]: what Decoder.Decode leaves unread); no value ([PBad]) *)
  Definition parse_text (text : bytes) : jparse :=
    match pval (S (length text)) (skip_ws text) with
    | None => PBad
    | Some (j, r) => match skip_ws r with [] => PTree j | _ :: _ => PTrail j end
    end.
End Parse.

(** ** the nesting limit.  Both libraries refuse a text that opens more than 10000 arrays / objects
    at once (encoding/json scanner.go maxNestingDepth; "exceeded max depth"), whatever follows.
    [too_deep]: a lexical scan — brackets outside strings. *)
Fixpoint too_deep_aux (s : bytes) (in_str esc : bool) (opened : N) : bool :=
  match s with
  | [] => false
  | c :: r =>
      if in_str then
        if esc then too_deep_aux r true false opened
        else if c =? 92 then too_deep_aux r true true opened
        else if c =? 34 then too_deep_aux r false false opened
        else too_deep_aux r true false opened
      else if c =? 34 then too_deep_aux r true false opened
      else if (c =? 91) || (c =? 123) then (10000 <? opened + 1) || too_deep_aux r false false (opened + 1)
      else if (c =? 93) || (c =? 125) then too_deep_aux r false false (opened - 1)
      else too_deep_aux r false false opened
  end.
Definition too_deep (s : bytes) : bool := too_deep_aux s false false 0.

(** what the library makes of a text: [parse_text] within the nesting limit *)
Definition parse_json (fl : flavour) (numval : bytes -> option N) (text : bytes) : jparse :=
  if too_deep text then PBad else parse_text fl numval text.

(** ** integer tokens: the float64 of a token without fraction and exponent whose value is below
    2^53 is exact, and its IEEE-754 bits are computed here (sign, biased exponent 1023 + floor(log2 v),
    the 52 bits after the leading one); [None]: not such a token (the value comes from [numval]) *)
Fixpoint dec_value (s : bytes) (acc : N) : option N :=
  match s with
  | [] => Some acc
  | c :: r => if is_digit c then dec_value r (acc * 10 + (c - 48)) else None
  end.

Definition float_bits_of_int (v : N) : N :=
  match v with
  | 0 => 0
  | _ => let e := N.log2 v in (1023 + e) * 4503599627370496 + (v * 2 ^ (52 - e) - 4503599627370496)
  end.

Definition int_bits (tok : bytes) : option N :=
  let (neg, ds) := match tok with c :: r => if c =? 45 then (true, r) else (false, tok) | [] => (false, []) end in
  match ds with
  | [] => None
  | _ :: _ =>
      if Nat.ltb 16 (length ds) then None
      else match dec_value ds 0 with
           | Some v => if v <? 9007199254740992
                       then Some ((if neg then 9223372036854775808 else 0) + float_bits_of_int v)
                       else None
           | None => None
           end
  end.

(** the number tokens of a text (maximal runs of number characters outside strings that are
    well-formed numbers): what [numval] will be asked about *)
Fixpoint num_tokens (n : nat) (s : bytes) : list bytes :=
  match n with
  | O => []
  | S n' =>
      match s with
      | [] => []
      | c :: r =>
          if c =? 34 then
            match rstr Jsoniter r 0 [] with
            | Some (_, r') => num_tokens n' r'
            | None => []
            end
          else if num_char c then
            let (tok, r') := span_num s in
            if num_ok tok then tok :: num_tokens n' r' else num_tokens n' r'
          else num_tokens n' r
      end
  end.

(** ** the canonical serialiser *)
Definition hexdigit (x : N) : N := if x <? 10 then 48 + x else 87 + x.

Definition esc_byte (c : N) : bytes :=
  if c =? 34 then [92; 34]
  else if c =? 92 then [92; 92]
  else if c <? 32 then [92; 117; 48; 48; hexdigit (c / 16); hexdigit (c mod 16)]
  else [c].

Definition print_str (s : bytes) : bytes := 34 :: flat_map esc_byte s ++ [34].

Section Print.
  Variable numprint : N -> bytes.            (* the client's formatting of a float64 *)

  Fixpoint print (j : json) : bytes :=
    match j with
    | JNull => [110; 117; 108; 108]
    | JBool true => [116; 114; 117; 101]
    | JBool false => [102; 97; 108; 115; 101]
    | JNum b => numprint b
    | JNumRange => [49; 101; 57; 57; 57]                                    (* 1e999 *)
    | JStr s => print_str s
    | JArr l =>
        91 :: (fix go (l : list json) : bytes :=
                 match l with
                 | [] => [93]
                 | x :: r => print x ++ match r with [] => [93] | _ :: _ => 44 :: go r end
                 end) l
    | JObj l =>
        123 :: (fix go (l : list (bytes * json)) : bytes :=
                  match l with
                  | [] => [125]
                  | p :: r => match p with
                              | (k, x) => print_str k ++ 58 :: print x ++ match r with [] => [125] | _ :: _ => 44 :: go r end
                              end
                  end) l
    end.
End Print.

(** valid UTF-8, by the same sequence test the reader uses *)
Fixpoint utf8_ok (pend : nat) (s : bytes) : bool :=
  match s with
  | [] => match pend with O => true | S _ => false end
  | c :: r =>
      match pend with
      | S p => (128 <=? c) && utf8_ok p r
      | O => if c <? 128 then utf8_ok 0 r
             else match seq_len c r with O => false | S p => utf8_ok (S p) r end
      end
  end.
