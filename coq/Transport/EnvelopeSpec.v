(** * Transport/EnvelopeSpec.v — what C17 demands, written from the property text.

    The property quantifies over operations [(query, variables, operationName)].  For every
    transport there is a canonical way a client submits an operation ([encode]); the server must
    read the same operation back from it ([decode] is a left inverse of [encode]) and hand it to
    the same pipeline, so that the response does not depend on the transport.  Envelopes that are
    not well formed — bad JSON, a JSON value of the wrong shape, unsupported content type or
    method — must be refused with a 4xx status (sockets: ignored / closed with 44xx) without
    anything being executed. *)
From Coq Require Import List NArith ZArith Bool.
From ApiFu Require Import Base.Sexp Transport.EnvelopeModel.
Import ListNotations.
Open Scope N_scope.

(** ** operations *)
Record op := { o_query : bytes; o_vars : option gomap; o_opname : bytes }.

(** values a client can send and a Go map can hold: numbers inside the float64 range, object
    members in strictly ascending key order (a map has no order and no duplicates) *)
Fixpoint sorted_keys (l : list (bytes * json)) : bool :=
  match l with
  | [] => true
  | (k, _) :: r =>
      match r with
      | [] => true
      | (k', _) :: _ => match bytes_cmp k k' with Lt => sorted_keys r | _ => false end
      end
  end.

Fixpoint wf_json (j : json) : bool :=
  match j with
  | JNumRange => false
  | JArr l => (fix go (l : list json) : bool := match l with [] => true | x :: r => wf_json x && go r end) l
  | JObj l => sorted_keys l &&
              (fix go (l : list (bytes * json)) : bool :=
                 match l with [] => true | p :: r => match p with (_, x) => wf_json x && go r end end) l
  | _ => true
  end.

Definition wf_op (o : op) : bool :=
  match o_vars o with Some m => wf_json (JObj m) | None => true end.

(** ** transports and their canonical envelopes *)
Inductive transport :=
| HttpGet            (* GET, everything in URL parameters *)
| HttpPostJson       (* POST application/json, everything in the body *)
| HttpPostGraphql    (* POST application/graphql, the body is the query text *)
| HttpPostUrlQuery   (* POST application/json, query in the URL, the rest in the body (sixth shape) *)
| WsGraphqlWs        (* graphql-ws "start" *)
| WsTransportWs.     (* graphql-transport-ws "subscribe" *)

(** which operations a transport can carry.  application/graphql has no place for variables or an
    operation name (the code reads neither from the URL of a POST).  URL length limits of servers
    and proxies are outside the model. *)
Definition carries (t : transport) (o : op) : bool :=
  match t with
  | HttpPostGraphql => match o_vars o with None => is_empty (o_opname o) | Some _ => false end
  | _ => true
  end.

Definition body_json (with_query : bool) (o : op) : json :=
  JObj ((if with_query then [(k_query, JStr (o_query o))] else []) ++
        (match o_vars o with Some m => [(k_variables, JObj m)] | None => [] end) ++
        (if is_empty (o_opname o) then [] else [(k_opname, JStr (o_opname o))])).

Inductive wire := WHttp (e : envelope) | WWs (p : proto) (f : frame).

Section Encode.
  Variable render : json -> bytes.        (* the client's JSON serialiser *)

  Definition encode (t : transport) (id : bytes) (o : op) : wire :=
    match t with
    | HttpGet =>
        WHttp {| e_method := m_get; e_media := [];
                 e_url := [(k_query, o_query o)] ++
                          (match o_vars o with Some m => [(k_variables, render (JObj m))] | None => [] end) ++
                          (if is_empty (o_opname o) then [] else [(k_opname, o_opname o)]);
                 e_body := [] |}
    | HttpPostJson =>
        WHttp {| e_method := m_post; e_media := mt_json; e_url := []; e_body := render (body_json true o) |}
    | HttpPostGraphql =>
        WHttp {| e_method := m_post; e_media := mt_graphql; e_url := []; e_body := o_query o |}
    | HttpPostUrlQuery =>
        WHttp {| e_method := m_post; e_media := mt_json; e_url := [(k_query, o_query o)]; e_body := render (body_json false o) |}
    | WsGraphqlWs =>
        WWs GraphqlWS {| f_type := t_start; f_id := id; f_payload := Some (render (body_json true o)) |}
    | WsTransportWs =>
        WWs TransportWS {| f_type := t_subscribe; f_id := id; f_payload := Some (render (body_json true o)) |}
    end.
End Encode.

(** ** reading an operation back (the server side, through the model) *)
Definition op_of_request (r : request) : op :=
  {| o_query := r_query r; o_vars := r_vars r; o_opname := r_opname r |}.

Section Decode.
  Variable qk : quirks.
  Variable parse_std parse_jsi : bytes -> jparse.

  (** [Some (o, x)]: the envelope is accepted and carries operation [o] (and extensions [x]);
      [None]: it is refused *)
  Definition decode (w : wire) : option (op * option gomap) :=
    match w with
    | WHttp e => match new_request_from_http qk parse_std e with
                 | Accept r => Some (op_of_request r, r_ext r)
                 | Reject _ => None
                 end
    | WWs p f => match handle_message parse_jsi p true (Some f) with
                 | WsStart _ q v n => Some ({| o_query := q; o_vars := v; o_opname := n |}, None)
                 | _ => None
                 end
    end.
End Decode.

(** ** well-formed envelopes *)
Definition str_or_null (j : json) : bool := match j with JStr _ | JNull => true | _ => false end.
Definition obj_or_null (j : json) : bool := match j with JObj _ | JNull => true | _ => false end.

(** a member of the request object: the named members have the right JSON type and hold numbers
    a float64 can represent; other members are not looked at — except that jsoniter (sockets)
    refuses out-of-range numbers everywhere *)
Definition member_ok (fl : flavour) (with_ext : bool) (kv : bytes * json) : bool :=
  let (k, v) := kv in
  if key_is k_query k || key_is k_opname k then str_or_null v
  else if key_is k_variables k || (with_ext && key_is k_extensions k) then obj_or_null v && negb (has_range v)
  else match fl with StdJson => true | Jsoniter => negb (has_range v) end.

Definition shape_ok (fl : flavour) (with_ext : bool) (j : json) : bool :=
  match j with
  | JNull => true
  | JObj l => forallb (member_ok fl with_ext) (fold_members fl l)     (* names as the library compares them *)
  | _ => false
  end.

Section WellFormed.
  Variable parse : bytes -> jparse.

  Definition param_ok (text : bytes) : bool :=
    is_empty text || match parse text with PTree j => obj_or_null j && negb (has_range j) | _ => false end.

  Definition http_well_formed (e : envelope) : bool :=
    if bytes_eqb (e_method e) m_get then
      param_ok (url_get k_variables (e_url e)) && param_ok (url_get k_extensions (e_url e))
    else if bytes_eqb (e_method e) m_post then
      if bytes_eqb (e_media e) mt_json then
        match parse (e_body e) with PTree j => shape_ok StdJson true j | _ => false end
      else bytes_eqb (e_media e) mt_graphql
    else false.

  (** a start / subscribe message: a deserialisable frame with a payload of the right shape *)
  Definition ws_well_formed (f : option frame) : bool :=
    match f with
    | None => false
    | Some f => match f_payload f with
                | None => false
                | Some text => match parse text with PTree j => shape_ok StdJson false j | _ => false end
                end
    end.
End WellFormed.

(** ** the oracle on observations *)
Inductive okind := KStatus (c : Z) | KData | KIgnored | KClosed (c : Z) | KOther.

(** the answer as it was on the wire: Content-Type, Content-Length, body of an HTTP answer; the text
    frames received for the operation and the payload bytes the harness cut out of them *)
Inductive wobs := WoHttp (ctype : bytes) (clen : Z) (body : bytes) | WoWs (frames raws : list bytes) | WoNone.

Record obs := {
  ob_kind : okind;
  ob_payloads : list bytes;     (* canonical response(s): data with key order; errors as sorted (message, locations, path) *)
  ob_completed : bool;
  ob_resolvers : bytes;         (* resolver call log: field, arguments with their Go dynamic types, feature set *)
  ob_hooks : bytes;             (* Execute hook log: query, operationName, variables, features, RequestInfo.Cost *)
  ob_wire : wobs
}.

Fixpoint list_eqb {A} (eq : A -> A -> bool) (a b : list A) : bool :=
  match a, b with
  | [], [] => true
  | x :: a', y :: b' => eq x y && list_eqb eq a' b'
  | _, _ => false
  end.

Definition answered (o : obs) : bool :=
  match ob_kind o with
  | KStatus c => Z.eqb c 200
  | KData => true
  | _ => false
  end && ob_completed o.

(** the same response: same canonical payload(s), and the pipeline saw the same request (same
    resolver calls with the same argument types, same hook inputs incl. features and cost) *)
Definition same_answer (a b : obs) : bool :=
  answered a && answered b &&
  list_eqb bytes_eqb (ob_payloads a) (ob_payloads b) &&
  bytes_eqb (ob_resolvers a) (ob_resolvers b) && bytes_eqb (ob_hooks a) (ob_hooks b).

Definition oracle_same (group : list obs) : bool :=
  match group with
  | [] => true
  | o :: r => forallb (same_answer o) r
  end.

(** refused with a 4xx status (sockets: nothing, or closed with a 44xx code), nothing executed *)
Definition refused (o : obs) : bool :=
  match ob_kind o with
  | KStatus c => (400 <=? c)%Z && (c <? 500)%Z
  | KIgnored => true
  | KClosed c => (4400 <=? c)%Z && (c <? 4500)%Z
  | _ => false
  end.
Definition nothing_executed (o : obs) : bool :=
  is_empty (ob_resolvers o) && is_empty (ob_hooks o) && match ob_payloads o with [] => true | _ => false end.
Definition oracle_malformed (o : obs) : bool := refused o && nothing_executed o.

(** the JSON values a transport sends as text when it carries [o] *)
Definition sent_json (t : transport) (o : op) : list json :=
  match t with
  | HttpGet => match o_vars o with Some m => [JObj m] | None => [] end
  | HttpPostGraphql => []
  | HttpPostUrlQuery => [body_json false o]
  | HttpPostJson | WsGraphqlWs | WsTransportWs => [body_json true o]
  end.

(** ** "the response via transport t" *)
Section Respond.
  Variables Schema Features Ctx Doc Resp : Type.
  Variable no_features : Features.
  Variable parse_validate : Schema -> Features -> Z * Z -> bytes -> bytes -> option gomap -> pv_result Doc Resp.
  Variable is_subscription : Doc -> bytes -> bool.
  Variable execute : bool -> Schema -> exec_request Features Doc -> Z -> Resp.
  Variable run_subscription : bool -> Schema -> exec_request Features Doc -> Z -> list Resp.
  Variable pq_ext : (request -> Resp * list (event Features Ctx Doc)) -> request -> Resp * list (event Features Ctx Doc).
  Variable marshal : Resp -> option bytes.
  Variable qk : quirks.
  Variable parse_std parse_jsi : bytes -> jparse.
  Variable render : json -> bytes.

  Definition data_of (out : list ws_out) : list bytes :=
    flat_map (fun x => match x with WsData _ payload => [payload] | WsComplete _ => [] end) out.

  (** What a client that submits [o] through [t] (in a session whose context is [c]; on a socket:
      a connection initialised with that context, operation id [id]) gets back — the marshalled
      response payload(s); [None] when there is no 200 answer / the message is not answered — and
      what the pipeline was called with. *)
  Definition respond (t : transport) (a : api Schema Features Ctx) (c : Ctx) (id : bytes) (o : op)
    : option (list bytes) * list (event Features Ctx Doc) :=
    match encode render t id o with
    | WHttp e =>
        match serve_graphql no_features parse_validate execute pq_ext marshal qk parse_std a c e with
        | (HttpOK body, tr) => (Some [body], tr)
        | (HttpError _, tr) => (None, tr)
        end
    | WWs p f =>
        let (hf, tr0) := handle_init (Doc := Doc) no_features a c in
        match serve_ws parse_validate is_subscription execute run_subscription marshal parse_jsi a p true hf (Some f) with
        | (WsAnswers out, tr) => (Some (data_of out), tr0 ++ tr)
        | (_, tr) => (None, tr0 ++ tr)
        end
    end.

  (** two schemas no request can tell apart *)
  Definition schema_obs_eq (s1 s2 : Schema) : Prop :=
    (forall f dc q n v, parse_validate s1 f dc q n v = parse_validate s2 f dc q n v) /\
    (forall h x c, execute h s1 x c = execute h s2 x c) /\
    (forall h x c, run_subscription h s1 x c = run_subscription h s2 x c).
End Respond.

Arguments respond {Schema Features Ctx Doc Resp}.
Arguments schema_obs_eq {Schema Features Doc Resp}.

(** ** beyond the canonical envelopes: the same JSON value as POST body and as socket payload *)
Definition has_member (name : bytes) (l : list (bytes * json)) : bool :=
  existsb (fun kv => key_is name (fst kv)) l.

(** the members "query" and "operationName" occur at most once (in any letter case) *)
Fixpoint single_string_members (l : list (bytes * json)) : bool :=
  match l with
  | [] => true
  | (k, _) :: r =>
      negb (key_is k_query k && has_member k_query r) &&
      negb (key_is k_opname k && has_member k_opname r) &&
      single_string_members r
  end.

Definition body_op (b : body) : op := {| o_query := b_query b; o_vars := b_vars b; o_opname := b_opname b |}.
