(** * Transport/StreamModel.v — the body of an HTTP request as a stream (C17)

    graphql/graphql.go NewRequestFromHTTP reads [r.Body]; what it can read depends on how the
    client framed the body, not only on the bytes it sent:
    - [ContentLength n]: net/http hands the handler at most [n] bytes; when fewer than [n] arrive
      before the client stops, the read that reaches the end fails (io.ErrUnexpectedEOF);
    - [Chunked sizes]: Transfer-Encoding: chunked, the body cut into chunks of these sizes (the rest
      in a last chunk): the handler reads the concatenation, there is no announced length.
    [delivered]: the bytes the handler can read and whether the stream ends early.
    POST application/json: json.Decoder meets the read error in Decode or in the Token() that must
    return io.EOF: 400.  POST application/graphql: ioutil.ReadAll returns the error: 400 (since fix
    141f4ba; before, the error was ignored: [ignore_read_error]).  GET and the refusals (content
    type, method) never read the body.  No proofs in this file. *)
From Coq Require Import List NArith ZArith Bool Arith.
From ApiFu Require Import Base.Sexp Transport.EnvelopeModel.
Import ListNotations.

Inductive framing := ContentLength (n : nat) | Chunked (sizes : list nat).

Fixpoint chunks (sizes : list nat) (b : bytes) : list bytes :=
  match sizes with
  | [] => [b]
  | n :: r => firstn n b :: chunks r (skipn n b)
  end.

Definition delivered (f : framing) (sent : bytes) : bytes * bool :=
  match f with
  | ContentLength n => if Nat.leb n (length sent) then (firstn n sent, false) else (sent, true)
  | Chunked sizes => (concat (chunks sizes sent), false)
  end.

Definition with_body (e : envelope) (b : bytes) : envelope :=
  {| e_method := e_method e; e_media := e_media e; e_url := e_url e; e_body := b |}.

Section Stream.
  Variable ignore_read_error : bool.     (* the tree before fix 141f4ba (application/graphql only) *)
  Variable qk : quirks.
  Variable parse : bytes -> jparse.

  (** [e]: method, media type, URL; its body is what the handler can read; [early]: the read that
      reaches the end of the body fails *)
  Definition new_request_from_stream (e : envelope) (early : bool) : decoded :=
    if early && bytes_eqb (e_method e) m_post &&
       (bytes_eqb (e_media e) mt_json || (bytes_eqb (e_media e) mt_graphql && negb ignore_read_error))
    then Reject 400
    else new_request_from_http qk parse e.

  (** the request as sent: headers [e] (its [e_body] = the bytes the client sends), framing [f] *)
  Definition new_request_from_wire (e : envelope) (f : framing) : decoded :=
    let (b, early) := delivered f (e_body e) in new_request_from_stream (with_body e b) early.
End Stream.

(** API.ServeGraphQL on the request as sent *)
Section ServeWire.
  Variables Schema Features Ctx Doc Resp : Type.
  Variable no_features : Features.
  Variable parse_validate : Schema -> Features -> Z * Z -> bytes -> bytes -> option gomap -> pv_result Doc Resp.
  Variable execute : bool -> Schema -> exec_request Features Doc -> Z -> Resp.
  Variable pq_ext : (request -> Resp * list (event Features Ctx Doc)) -> request -> Resp * list (event Features Ctx Doc).
  Variable marshal : Resp -> option bytes.
  Variable parse : bytes -> jparse.

  Definition serve_graphql_wire (a : api Schema Features Ctx) (c : Ctx) (e : envelope) (f : framing)
    : http_outcome * list (event Features Ctx Doc) :=
    match new_request_from_wire false fixed parse e f with
    | Reject code => (HttpError code, [])
    | Accept _ => serve_graphql no_features parse_validate execute pq_ext marshal fixed parse a c
                                (with_body e (fst (delivered f (e_body e))))
    end.
End ServeWire.
Arguments serve_graphql_wire {Schema Features Ctx Doc Resp}.
