(** * Transport/FrameText.v — a WebSocket text frame as [json.Unmarshal(data, &Message)] reads it
    (both socket protocols): Message{Id string "id"; Type string "type"; Payload json.RawMessage
    "payload"}.  The whole text must be one JSON value; an object's members are matched to the
    fields like any struct (names folded, later duplicates win, [null] leaves a string field as it
    is); [Payload] receives the raw bytes of its value (also for [null]); a value of the wrong type
    for id / type, or a text that is not an object or [null], is an error.
    [frame_of_text] gives the [frame] the dispatcher ([EnvelopeModel.handle_message]) works on;
    [None]: not a deserialisable message.  No proofs in this file. *)
From Coq Require Import List NArith Bool String.
From ApiFu Require Import Base.Sexp Transport.EnvelopeModel Transport.JsonText.
Import ListNotations.
Open Scope list_scope.
Open Scope N_scope.

Definition k_id : bytes := Eval vm_compute in bytes_of_string "id"%string.
Definition k_type : bytes := Eval vm_compute in bytes_of_string "type"%string.
Definition k_payload : bytes := Eval vm_compute in bytes_of_string "payload"%string.

Section Frame.
  Variable numval : bytes -> option N.

  (** the members of an object with the raw text of every value; [s]: after the opening brace and
      white space, the object being non-empty.  Answer: members in order and the text after the
      closing brace. *)
  Fixpoint raw_members (n : nat) (s : bytes) (acc : list (bytes * (bytes * json)))
    : option (list (bytes * (bytes * json)) * bytes) :=
    match n with
    | O => None
    | S n' =>
        match s with
        | q :: s1 =>
            if q =? 34 then
              match rstr StdJson s1 0 [] with
              | None => None
              | Some (k, r) =>
                  match skip_ws r with
                  | c :: r1 =>
                      if c =? 58 then
                        let s0 := skip_ws r1 in
                        match pval StdJson numval (S (List.length s0)) s0 with
                        | None => None
                        | Some (j, r2) =>
                            let raw := firstn (List.length s0 - List.length r2)%nat s0 in
                            match skip_ws r2 with
                            | c2 :: r3 =>
                                if c2 =? 44 then raw_members n' (skip_ws r3) ((k, (raw, j)) :: acc)
                                else if c2 =? 125 then Some (rev ((k, (raw, j)) :: acc), r3)
                                else None
                            | [] => None
                            end
                        end
                      else None
                  | [] => None
                  end
              end
            else None
        | [] => None
        end
    end.

  Fixpoint fill (ms : list (bytes * (bytes * json))) (f : frame) : option frame :=
    match ms with
    | [] => Some f
    | (k, (raw, j)) :: r =>
        let name := fold_key StdJson k in
        if key_is k_id name then
          match set_string StdJson (f_id f) j with
          | Some s => fill r {| f_type := f_type f; f_id := s; f_payload := f_payload f |}
          | None => None
          end
        else if key_is k_type name then
          match set_string StdJson (f_type f) j with
          | Some s => fill r {| f_type := s; f_id := f_id f; f_payload := f_payload f |}
          | None => None
          end
        else if key_is k_payload name then fill r {| f_type := f_type f; f_id := f_id f; f_payload := Some raw |}
        else fill r f
    end.

  Definition zero_frame : frame := {| f_type := []; f_id := []; f_payload := None |}.

  Definition frame_of_text (text : bytes) : option frame :=
    match parse_json StdJson numval text with
    | PTree JNull => Some zero_frame
    | PTree (JObj []) => Some zero_frame
    | PTree (JObj (_ :: _)) =>
        match skip_ws text with
        | _ :: r =>                                     (* the opening brace *)
            match raw_members (List.length r) (skip_ws r) [] with
            | Some (ms, _) => fill ms zero_frame
            | None => None
            end
        | [] => None
        end
    | _ => None
    end.
End Frame.
