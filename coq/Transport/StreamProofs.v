(** * Transport/StreamProofs.v — the framing of the body does not matter as long as the bytes arrive;
    a body that ends early is refused with 400 and nothing is executed. *)
From Coq Require Import List NArith ZArith Bool Arith Lia.
From ApiFu Require Import Base.Sexp Transport.EnvelopeModel Transport.StreamModel.
Import ListNotations.

Lemma concat_chunks sizes : forall b, concat (chunks sizes b) = b.
Proof.
  induction sizes as [|n r IH]; intro b; cbn [chunks concat].
  - apply app_nil_r.
  - rewrite IH. apply firstn_skipn.
Qed.

Lemma with_body_id e : with_body e (e_body e) = e.
Proof. destruct e; reflexivity. Qed.

Section StreamProofs.
  Variable parse : bytes -> jparse.

  (** any chunking, and the exact Content-Length, deliver the bytes that were sent *)
  Lemma delivered_chunked sizes sent : delivered (Chunked sizes) sent = (sent, false).
  Proof. cbn [delivered]. rewrite concat_chunks. reflexivity. Qed.
  Lemma delivered_exact sent : delivered (ContentLength (length sent)) sent = (sent, false).
  Proof. cbn [delivered]. rewrite Nat.leb_refl, firstn_all. reflexivity. Qed.

  (** hence the request that is decoded does not depend on the framing *)
  Theorem framing_irrelevant ig qk e f :
    delivered f (e_body e) = (e_body e, false) ->
    new_request_from_wire ig qk parse e f = new_request_from_http qk parse e.
  Proof.
    intro D. unfold new_request_from_wire. rewrite D. unfold new_request_from_stream.
    cbn [andb]. rewrite with_body_id. reflexivity.
  Qed.

  Corollary chunked_same_request ig qk e sizes :
    new_request_from_wire ig qk parse e (Chunked sizes) = new_request_from_http qk parse e.
  Proof. apply framing_irrelevant, delivered_chunked. Qed.

  (** a Content-Length smaller than what is sent: the request is the one of the prefix *)
  Theorem short_length_is_prefix ig qk e n :
    (n <= length (e_body e))%nat ->
    new_request_from_wire ig qk parse e (ContentLength n) = new_request_from_http qk parse (with_body e (firstn n (e_body e))).
  Proof.
    intro L. unfold new_request_from_wire. cbn [delivered].
    apply Nat.leb_le in L. rewrite L. unfold new_request_from_stream. reflexivity.
  Qed.

  (** a POST body that ends before the announced length: 400, for both media types that read it *)
  Theorem early_end_refused qk e n :
    (length (e_body e) < n)%nat -> e_method e = m_post -> (e_media e = mt_json \/ e_media e = mt_graphql) ->
    new_request_from_wire false qk parse e (ContentLength n) = Reject 400.
  Proof.
    intros L M T. unfold new_request_from_wire. cbn [delivered].
    assert (E : Nat.leb n (length (e_body e)) = false) by (apply Nat.leb_gt; exact L). rewrite E.
    unfold new_request_from_stream. cbn [with_body e_method e_media andb]. rewrite M, bytes_eqb_refl.
    destruct T as [-> | ->]; reflexivity.
  Qed.
End StreamProofs.

(** before fix 141f4ba: an application/graphql body that ended early was executed *)
Theorem graphql_read_error_refuted_before_fix :
  exists (e : envelope) n r,
    (length (e_body e) < n)%nat /\ e_method e = m_post /\ e_media e = mt_graphql /\
    new_request_from_wire true fixed (fun _ => PBad) e (ContentLength n) = Accept r /\
    new_request_from_wire false fixed (fun _ => PBad) e (ContentLength n) = Reject 400.
Proof.
  exists {| e_method := m_post; e_media := mt_graphql; e_url := []; e_body := [123; 97]%N |}, 9%nat.
  eexists. repeat split; try (cbn; lia); vm_compute; reflexivity.
Qed.

Section ServeWireProofs.
  Variables Schema Features Ctx Doc Resp : Type.
  Variable no_features : Features.
  Variable parse_validate : Schema -> Features -> Z * Z -> bytes -> bytes -> option gomap -> pv_result Doc Resp.
  Variable execute : bool -> Schema -> exec_request Features Doc -> Z -> Resp.
  Variable pq_ext : (request -> Resp * list (event Features Ctx Doc)) -> request -> Resp * list (event Features Ctx Doc).
  Variable marshal : Resp -> option bytes.
  Variable parse : bytes -> jparse.

  Notation serve := (serve_graphql no_features parse_validate execute pq_ext marshal fixed parse).
  Notation serve_wire := (serve_graphql_wire no_features parse_validate execute pq_ext marshal parse).

  (** whatever the framing, as long as the bytes arrive: the same answer and the same calls *)
  Theorem serve_framing_irrelevant (a : api Schema Features Ctx) c e f :
    delivered f (e_body e) = (e_body e, false) -> serve_wire a c e f = serve a c e.
  Proof.
    intro D. unfold serve_graphql_wire. rewrite (framing_irrelevant parse false fixed e f D), D. cbn [fst].
    rewrite with_body_id. unfold serve_graphql.
    destruct (new_request_from_http fixed parse e); reflexivity.
  Qed.

  Corollary serve_chunked_same (a : api Schema Features Ctx) c e sizes :
    serve_wire a c e (Chunked sizes) = serve a c e.
  Proof. apply serve_framing_irrelevant, delivered_chunked. Qed.

  (** a POST body that ends early: 400 and no call into the pipeline *)
  Theorem serve_early_end_refused (a : api Schema Features Ctx) c e n :
    (length (e_body e) < n)%nat -> e_method e = m_post -> (e_media e = mt_json \/ e_media e = mt_graphql) ->
    serve_wire a c e (ContentLength n) = (HttpError 400, []).
  Proof.
    intros L M T. unfold serve_graphql_wire. rewrite (early_end_refused parse fixed e n L M T). reflexivity.
  Qed.
End ServeWireProofs.
