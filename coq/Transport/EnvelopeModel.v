(** * Transport/EnvelopeModel.v — transcription of the request envelopes of api-fu (C17)

    - [new_request_from_http]   graphql/graphql.go  NewRequestFromHTTP
    - [handle_message]          graphql/transport/graphqlws/connection.go and
                                graphql/transport/graphqltransportws/connection.go, handleMessage
                                (the [start] / [subscribe] branch and what surrounds it)
    - [serve_graphql]           api.go  API.ServeGraphQL
    - [handle_init], [handle_start]   graphqlws.go  graphqlWSHandler.HandleInit / HandleStart
    - [api_of_config]           config.go  graphqlSchemaDefinition / graphqlSchema, api.go NewAPI

    The envelopes are *parsed* envelopes: method, media type as [mime.ParseMediaType] returns it,
    URL query parameters as the association list [url.Values] is built from, body bytes.  JSON text
    is turned into a value tree by a function [parse] that stands for the JSON library's
    text-to-value layer (encoding/json on HTTP, jsoniter on the sockets); what the libraries do
    *with* the value tree (struct fields, maps, type errors, duplicate members) is transcribed
    here.  No proofs in this file. *)
From Coq Require Import List NArith ZArith Bool String Ascii.
From ApiFu Require Import Base.Sexp.
Import ListNotations.
Open Scope N_scope.

(** ** byte strings *)
Fixpoint bytes_of_string (s : string) : bytes :=
  match s with
  | EmptyString => []
  | String c r => N_of_ascii c :: bytes_of_string r
  end.

Definition k_query : bytes := Eval vm_compute in bytes_of_string "query".
Definition k_variables : bytes := Eval vm_compute in bytes_of_string "variables".
Definition k_opname : bytes := Eval vm_compute in bytes_of_string "operationName".
Definition k_extensions : bytes := Eval vm_compute in bytes_of_string "extensions".
Definition m_get : bytes := Eval vm_compute in bytes_of_string "GET".
Definition m_post : bytes := Eval vm_compute in bytes_of_string "POST".
Definition mt_json : bytes := Eval vm_compute in bytes_of_string "application/json".
Definition mt_graphql : bytes := Eval vm_compute in bytes_of_string "application/graphql".
Definition t_start : bytes := Eval vm_compute in bytes_of_string "start".
Definition t_subscribe : bytes := Eval vm_compute in bytes_of_string "subscribe".
Definition t_connection_init : bytes := Eval vm_compute in bytes_of_string "connection_init".
Definition t_stop : bytes := Eval vm_compute in bytes_of_string "stop".
Definition t_connection_terminate : bytes := Eval vm_compute in bytes_of_string "connection_terminate".
Definition t_complete : bytes := Eval vm_compute in bytes_of_string "complete".
Definition t_pong : bytes := Eval vm_compute in bytes_of_string "pong".

Definition is_empty (b : bytes) : bool := match b with [] => true | _ => false end.

(** ASCII case folding: how both JSON libraries match object members to struct fields whose names
    are ASCII (encoding/json: exact name, else case-insensitive; jsoniter: exact name, else
    lower-cased).  Non-ASCII foldings (U+017F, U+212A) are outside the model. *)
Definition lower (c : N) : N := if (65 <=? c) && (c <=? 90) then c + 32 else c.
Definition key_is (name k : bytes) : bool := bytes_eqb (map lower k) (map lower name).

(** lexicographic order on byte strings (Go's string order) *)
Fixpoint bytes_cmp (a b : bytes) : comparison :=
  match a, b with
  | [], [] => Eq
  | [], _ :: _ => Lt
  | _ :: _, [] => Gt
  | x :: xs, y :: ys => match N.compare x y with Eq => bytes_cmp xs ys | c => c end
  end.

(** ** JSON value trees *)
Inductive json :=
| JNull
| JBool (b : bool)
| JNum (bits : N)        (* a number token inside the float64 range: the IEEE-754 bits of its value *)
| JNumRange              (* a syntactically valid number token outside the float64 range (1e400) *)
| JStr (s : bytes)
| JArr (l : list json)
| JObj (l : list (bytes * json)).   (* members in textual order, duplicates possible *)

(** what a JSON parser makes of a text *)
Inductive jparse :=
| PTree (j : json)       (* exactly one JSON value, surrounded by optional white space *)
| PTrail (j : json)      (* a JSON value followed by further non-white-space bytes *)
| PBad.                  (* anything else (also the empty text) *)

(** a Go [map[string]interface{}]: keys strictly ascending, values already converted *)
Definition gomap := list (bytes * json).

Fixpoint ins_keep (k : bytes) (v : json) (l : gomap) : gomap :=
  match l with
  | [] => [(k, v)]
  | (k', v') :: r =>
      match bytes_cmp k k' with
      | Lt => (k, v) :: l
      | Eq => l
      | Gt => (k', v') :: ins_keep k v r
      end
  end.

(** members in textual order into a map: a later member with the same key wins *)
Definition norm_obj (l : list (bytes * json)) : gomap :=
  fold_right (fun kv acc => ins_keep (fst kv) (snd kv) acc) [] l.

(** decoding a value tree into [interface{}]: numbers become float64 (an out-of-range token is an
    error in both libraries), objects become maps.  [None] = the library reports an error. *)
Fixpoint to_go (j : json) : option json :=
  match j with
  | JNull | JBool _ | JNum _ | JStr _ => Some j
  | JNumRange => None
  | JArr l =>
      match (fix go (l : list json) : option (list json) :=
               match l with
               | [] => Some []
               | x :: r => match to_go x, go r with
                           | Some y, Some s => Some (y :: s)
                           | _, _ => None
                           end
               end) l with
      | Some l' => Some (JArr l')
      | None => None
      end
  | JObj l =>
      match (fix go (l : list (bytes * json)) : option (list (bytes * json)) :=
               match l with
               | [] => Some []
               | p :: r => match p with
                           | (k, x) => match to_go x, go r with
                                       | Some y, Some s => Some ((k, y) :: s)
                                       | _, _ => None
                                       end
                           end
               end) l with
      | Some l' => Some (JObj (norm_obj l'))
      | None => None
      end
  end.

(** does an out-of-range number occur anywhere in the value *)
Fixpoint has_range (j : json) : bool :=
  match j with
  | JNumRange => true
  | JArr l => (fix go (l : list json) : bool := match l with [] => false | x :: r => has_range x || go r end) l
  | JObj l => (fix go (l : list (bytes * json)) : bool :=
                 match l with [] => false | p :: r => match p with (_, x) => has_range x || go r end end) l
  | _ => false
  end.

(** ** decoding into the request structs

    HTTP body (encoding/json):   struct { Query string; OperationName string; Variables, Extensions map[string]interface{} }
    socket payload (jsoniter):   struct { Query string; Variables map[string]interface{}; OperationName string } *)
Inductive flavour := StdJson | Jsoniter.

Record body := {
  b_query : bytes;
  b_opname : bytes;
  b_vars : option gomap;      (* None = nil map *)
  b_ext : option gomap
}.
Definition zero_body : body := {| b_query := []; b_opname := []; b_vars := None; b_ext := None |}.

(** a string field.  [null]: encoding/json leaves the field as it is, jsoniter stores "". *)
Definition set_string (fl : flavour) (cur : bytes) (v : json) : option bytes :=
  match v with
  | JStr s => Some s
  | JNull => Some (match fl with StdJson => cur | Jsoniter => [] end)
  | _ => None
  end.

(** a map field.  [null] makes it nil; an object is decoded *into* the existing map (both
    libraries), so a repeated member merges. *)
Definition set_map (cur : option gomap) (v : json) : option (option gomap) :=
  match v with
  | JNull => Some None
  | JObj _ =>
      match to_go v with
      | Some (JObj l') => Some (Some (norm_obj (match cur with Some m => (m ++ l')%list | None => l' end)))
      | _ => None
      end
  | _ => None
  end.

(** Members are visited in textual order.  A type error makes the whole decode fail (both libraries
    go on and report the first error at the end; the caller only looks at error / no error).
    Members that match no field are skipped: encoding/json skips them without looking at number
    ranges, jsoniter's skip rejects out-of-range numbers. *)
Fixpoint decode_fields (fl : flavour) (with_ext : bool) (kvs : list (bytes * json)) (b : body) : option body :=
  match kvs with
  | [] => Some b
  | (k, v) :: r =>
      if key_is k_query k then
        match set_string fl (b_query b) v with
        | Some s => decode_fields fl with_ext r {| b_query := s; b_opname := b_opname b; b_vars := b_vars b; b_ext := b_ext b |}
        | None => None
        end
      else if key_is k_opname k then
        match set_string fl (b_opname b) v with
        | Some s => decode_fields fl with_ext r {| b_query := b_query b; b_opname := s; b_vars := b_vars b; b_ext := b_ext b |}
        | None => None
        end
      else if key_is k_variables k then
        match set_map (b_vars b) v with
        | Some m => decode_fields fl with_ext r {| b_query := b_query b; b_opname := b_opname b; b_vars := m; b_ext := b_ext b |}
        | None => None
        end
      else if with_ext && key_is k_extensions k then
        match set_map (b_ext b) v with
        | Some m => decode_fields fl with_ext r {| b_query := b_query b; b_opname := b_opname b; b_vars := b_vars b; b_ext := m |}
        | None => None
        end
      else
        match fl with
        | StdJson => decode_fields fl with_ext r b
        | Jsoniter => if has_range v then None else decode_fields fl with_ext r b
        end
  end.

(** Member names beyond ASCII.  encoding/json compares names under Unicode simple case folding
    (fold.go [foldName]): U+017F (long s, bytes C5 BF) is in the fold set of s, U+212A (Kelvin
    sign, bytes E2 84 AA) in that of k.  jsoniter looks up [strings.ToLower(name)]: U+212A
    lower-cases to k and U+0130 (capital I with dot, bytes C4 B0) to i; U+017F stays.  No other
    character folds / lower-cases to an ASCII letter.  [fold_key] rewrites these characters to
    their ASCII partners, so that [key_is] on the result is the library's comparison with an
    ASCII field name. *)
Fixpoint fold_key (fl : flavour) (k : bytes) : bytes :=
  match k with
  | [] => []
  | c :: r =>
      match r with
      | c1 :: r1 =>
          if (c =? 197) && (c1 =? 191) then
            match fl with StdJson => 115 :: fold_key fl r1 | Jsoniter => c :: fold_key fl r end
          else if (c =? 196) && (c1 =? 176) then
            match fl with Jsoniter => 105 :: fold_key fl r1 | StdJson => c :: fold_key fl r end
          else
            match r1 with
            | c2 :: r2 => if (c =? 226) && (c1 =? 132) && (c2 =? 170) then 107 :: fold_key fl r2 else c :: fold_key fl r
            | [] => c :: fold_key fl r
            end
      | [] => [c]
      end
  end.

Definition fold_members (fl : flavour) (kvs : list (bytes * json)) : list (bytes * json) :=
  map (fun kv => (fold_key fl (fst kv), snd kv)) kvs.

(** [null] leaves the zero struct; anything but an object or [null] is a type error *)
Definition decode_struct (fl : flavour) (with_ext : bool) (j : json) : option body :=
  match j with
  | JNull => Some zero_body
  | JObj kvs => decode_fields fl with_ext (fold_members fl kvs) zero_body
  | _ => None
  end.

(** [json.Unmarshal(text, &m)] with [m] a nil [map[string]interface{}] (GET parameters) *)
Definition unmarshal_map (p : jparse) : option (option gomap) :=
  match p with
  | PTree j => set_map None j
  | _ => None
  end.

(** ** NewRequestFromHTTP *)
Record envelope := {
  e_method : bytes;
  e_media : bytes;                    (* first result of mime.ParseMediaType(Content-Type) *)
  e_url : list (bytes * bytes);       (* URL query parameters, in order *)
  e_body : bytes
}.

Record request := {
  r_query : bytes;
  r_vars : option gomap;
  r_opname : bytes;
  r_ext : option gomap
}.

Inductive decoded := Accept (r : request) | Reject (status : Z).

(** [url.Values.Get]: the first value of the key, "" when absent *)
Fixpoint url_get (k : bytes) (ps : list (bytes * bytes)) : bytes :=
  match ps with
  | [] => []
  | (k', v) :: r => if bytes_eqb k k' then v else url_get k r
  end.

(** the two repaired defects, kept as switches so that the pinned tree remains expressible:
    [q_overwrite]: POST bodies overwrite the [?query=] parameter even when they carry no query;
    [q_trailing]:  bytes after the JSON value of a POST body are not looked at. *)
Record quirks := { q_overwrite : bool; q_trailing : bool }.
Definition fixed : quirks := {| q_overwrite := false; q_trailing := false |}.
Definition pinned : quirks := {| q_overwrite := true; q_trailing := true |}.

Section Http.
  Variable qk : quirks.
  Variable parse : bytes -> jparse.     (* encoding/json, text to value *)

  (** [json.NewDecoder(r.Body).Decode(&body)] followed (repaired code) by the check that nothing
      but white space follows *)
  Definition decode_post_body (text : bytes) : option body :=
    match parse text with
    | PTree j => decode_struct StdJson true j
    | PTrail j => if q_trailing qk then decode_struct StdJson true j else None
    | PBad => None
    end.

  Definition url_param_map (text : bytes) : option (option gomap) :=
    if is_empty text then Some None else unmarshal_map (parse text).

  Definition new_request_from_http (e : envelope) : decoded :=
    if bytes_eqb (e_method e) m_get then
      let q := url_get k_query (e_url e) in
      match url_param_map (url_get k_variables (e_url e)) with
      | None => Reject 400
      | Some v =>
          let n := url_get k_opname (e_url e) in
          match url_param_map (url_get k_extensions (e_url e)) with
          | None => Reject 400
          | Some x => Accept {| r_query := q; r_vars := v; r_opname := n; r_ext := x |}
          end
      end
    else if bytes_eqb (e_method e) m_post then
      let q := url_get k_query (e_url e) in
      if bytes_eqb (e_media e) mt_json then
        match decode_post_body (e_body e) with
        | None => Reject 400
        | Some b =>
            Accept {| r_query := if q_overwrite qk || negb (is_empty (b_query b)) then b_query b else q;
                      r_vars := b_vars b; r_opname := b_opname b; r_ext := b_ext b |}
        end
      else if bytes_eqb (e_media e) mt_graphql then
        Accept {| r_query := if q_overwrite qk || negb (is_empty (e_body e)) then e_body e else q;
                  r_vars := None; r_opname := []; r_ext := None |}
      else Reject 400
    else Reject 405.
End Http.

(** ** the WebSocket dispatchers: what a text frame does *)
Inductive proto := GraphqlWS | TransportWS.

(** a frame that [json.Unmarshal(data, &Message)] accepts: type, id, raw payload if present *)
Record frame := { f_type : bytes; f_id : bytes; f_payload : option bytes }.

Inductive ws_action :=
| WsIgnored                                   (* nothing happens *)
| WsClosed (code : Z)                         (* the connection is closed with this code *)
| WsStart (id q : bytes) (v : option gomap) (n : bytes)   (* Handler.HandleStart(id, q, v, n) *)
| WsOther.                                    (* the other message types (init, stop, ...): not C17's *)

Definition start_type (p : proto) : bytes := match p with GraphqlWS => t_start | TransportWS => t_subscribe end.
Definition bad_message (p : proto) : ws_action := match p with GraphqlWS => WsIgnored | TransportWS => WsClosed 4400 end.
Definition other_type (p : proto) (t : bytes) : bool :=
  match p with
  | GraphqlWS => bytes_eqb t t_connection_init || bytes_eqb t t_stop || bytes_eqb t t_connection_terminate
  | TransportWS => bytes_eqb t t_connection_init || bytes_eqb t t_complete || bytes_eqb t t_pong
  end.

Section Ws.
  Variable parse : bytes -> jparse.     (* the payload's text to value: encoding/json (jsoniter before the repair) *)

  Definition decode_payload (pl : option bytes) : option body :=
    match pl with
    | None => None                      (* jsoniter.Unmarshal(nil, ...) fails *)
    | Some text => match parse text with
                   | PTree j => decode_struct StdJson false j     (* json.Unmarshal(msg.Payload, &payload); jsoniter before the repair *)
                   | _ => None
                   end
    end.

  (** [f = None]: the frame is not a deserialisable Message *)
  Definition handle_message (p : proto) (did_init : bool) (f : option frame) : ws_action :=
    match f with
    | None => bad_message p
    | Some f =>
        if bytes_eqb (f_type f) (start_type p) then
          if negb did_init then WsIgnored
          else match decode_payload (f_payload f) with
               | None => bad_message p
               | Some b => WsStart (f_id f) (b_query b) (b_vars b) (b_opname b)
               end
        else if other_type p (f_type f) then WsOther
        else bad_message p      (* unknown message type: ignored / closed 4400 *)
    end.
End Ws.

(** ** the pipeline behind the envelopes

    Everything below the envelope (parser, validator, cost rule, executor, the schema) is
    abstract: the property is that every transport hands the *same* request to the *same*
    functions.  [event]s record which of them are called, with what. *)
Section Pipeline.
  Variables Schema Features Ctx Doc Resp : Type.
  Variable no_features : Features.                 (* the nil FeatureSet *)

  (** graphql.Request after ParseAndValidate, as handed to [api.execute] *)
  Record exec_request := {
    x_query : bytes; x_doc : Doc; x_opname : bytes; x_vars : option gomap;
    x_features : Features; x_ext : option gomap
  }.

  Inductive pv_result := PVErrors (r : Resp) | PVOk (d : Doc) (cost : Z).

  Inductive event :=
  | EvFeatures (c : Ctx)
  | EvValidate (f : Features) (q n : bytes) (v : option gomap)
  | EvExecute (x : exec_request) (cost : Z)
  | EvSubscribe (x : exec_request) (cost : Z).

  (** ParseAndValidate(query, schema, features, ValidateCost(opName, vars, -1, &info.Cost, defaultCost)) *)
  Variable parse_validate : Schema -> Features -> Z * Z -> bytes -> bytes -> option gomap -> pv_result.
  Variable is_subscription : Doc -> bytes -> bool.
  (** api.execute: Config.Execute, or graphql.Execute; the second argument is RequestInfo.Cost *)
  Variable execute : bool -> Schema -> exec_request -> Z -> Resp.
  (** graphql.Subscribe + the event loop of HandleStart: the responses sent as data frames *)
  Variable run_subscription : bool -> Schema -> exec_request -> Z -> list Resp.
  (** PersistedQueryExtension(storage, execute) (property C18) *)
  Variable pq_ext : (request -> Resp * list event) -> request -> Resp * list event.
  (** jsoniter.Marshal of a response; [None]: the response does not marshal (C03's subject) *)
  Variable marshal : Resp -> option bytes.

  Record api := {
    a_schema : Schema;
    a_features : option (Ctx -> Features);     (* Config.Features *)
    a_default_cost : Z * Z;                    (* Config.DefaultFieldCost (Resolver, Multiplier) *)
    a_hook : bool;                             (* Config.Execute given *)
    a_pq : bool                                (* Config.PersistedQueryStorage given *)
  }.

  Definition features_of (a : api) (c : Ctx) : Features :=
    match a_features a with Some g => g c | None => no_features end.

  (** the eight lines that api.go and graphqlws.go share (ParseAndValidate with the cost rule, then
      api.execute) *)
  Definition validate_execute (a : api) (f : Features) (r : request) : Resp * list event :=
    match parse_validate (a_schema a) f (a_default_cost a) (r_query r) (r_opname r) (r_vars r) with
    | PVErrors resp => (resp, [EvValidate f (r_query r) (r_opname r) (r_vars r)])
    | PVOk d cost =>
        let x := {| x_query := r_query r; x_doc := d; x_opname := r_opname r; x_vars := r_vars r;
                    x_features := f; x_ext := r_ext r |} in
        (execute (a_hook a) (a_schema a) x cost, [EvValidate f (r_query r) (r_opname r) (r_vars r); EvExecute x cost])
    end.

  Inductive http_outcome := HttpError (status : Z) | HttpOK (body : bytes).

  Section Serve.
    Variable qk : quirks.
    Variable parse_std : bytes -> jparse.
    Variable parse_jsi : bytes -> jparse.

    (** API.ServeGraphQL *)
    Definition serve_graphql (a : api) (c : Ctx) (e : envelope) : http_outcome * list event :=
      match new_request_from_http qk parse_std e with
      | Reject code => (HttpError code, [])
      | Accept r =>
          let f := features_of a c in
          let ex := validate_execute a f in
          let (resp, tr) := if a_pq a then pq_ext ex r else ex r in
          (match marshal resp with Some body => HttpOK body | None => HttpError 500 end,
           ((match a_features a with Some _ => [EvFeatures c] | None => [] end) ++ tr)%list)
      end.

    (** graphqlWSHandler.HandleInit: the feature set is computed once per connection *)
    Definition handle_init (a : api) (c : Ctx) : Features * list event :=
      (features_of a c, match a_features a with Some _ => [EvFeatures c] | None => [] end).

    Inductive ws_out := WsData (id : bytes) (payload : bytes) | WsComplete (id : bytes).

    (** Connection.SendData: a response that does not marshal is logged, no frame is sent *)
    Definition send_data (id : bytes) (r : Resp) : list ws_out :=
      match marshal r with Some payload => [WsData id payload] | None => [] end.

    (** graphqlWSHandler.HandleStart ([subscribed]: an operation with this id is already running) *)
    Definition handle_start (a : api) (hf : Features) (subscribed : bool) (id q : bytes) (v : option gomap) (n : bytes)
      : list ws_out * list event :=
      match parse_validate (a_schema a) hf (a_default_cost a) q n v with
      | PVErrors resp => ((send_data id resp ++ [WsComplete id])%list, [EvValidate hf q n v])
      | PVOk d cost =>
          let x := {| x_query := q; x_doc := d; x_opname := n; x_vars := v; x_features := hf; x_ext := None |} in
          if is_subscription d n then
            if subscribed then ([], [EvValidate hf q n v])
            else ((flat_map (send_data id) (run_subscription (a_hook a) (a_schema a) x cost) ++ [WsComplete id])%list,
                  [EvValidate hf q n v; EvSubscribe x cost])
          else ((send_data id (execute (a_hook a) (a_schema a) x cost) ++ [WsComplete id])%list,
                [EvValidate hf q n v; EvExecute x cost])
      end.

    Inductive ws_result :=
    | WsNothing                     (* ignored *)
    | WsCloses (code : Z)
    | WsAnswers (out : list ws_out)
    | WsNotStart.

    (** one text frame on a connection whose handler state is [hf] (features from HandleInit) *)
    Definition serve_ws (a : api) (p : proto) (did_init : bool) (hf : Features) (f : option frame) : ws_result * list event :=
      match handle_message parse_jsi p did_init f with
      | WsIgnored => (WsNothing, [])
      | WsClosed c => (WsCloses c, [])
      | WsOther => (WsNotStart, [])
      | WsStart id q v n => let (out, tr) := handle_start a hf false id q v n in (WsAnswers out, tr)
      end.
  End Serve.

  (** ** NewAPI: the schema is built from the definition, or from the preprocessed clone *)
  Variable SchemaDef : Type.
  Variable build : SchemaDef -> Schema.            (* graphql.NewSchema (assumed to succeed) *)
  Variable clone : SchemaDef -> SchemaDef.         (* SchemaDefinition.Clone = deepCopySchemaDefinition *)

  Record config := {
    c_def : SchemaDef;
    c_preprocess : option (SchemaDef -> SchemaDef);   (* PreprocessGraphQLSchemaDefinition, mutating the clone *)
    c_features : option (Ctx -> Features);
    c_default_cost : Z * Z;
    c_hook : bool;
    c_pq : bool
  }.

  Definition api_of_config (c : config) : api :=
    {| a_schema := match c_preprocess c with
                   | Some pre => build (pre (clone (c_def c)))
                   | None => build (c_def c)
                   end;
       a_features := c_features c; a_default_cost := c_default_cost c; a_hook := c_hook c; a_pq := c_pq c |}.
End Pipeline.

Arguments x_query {Features Doc}. Arguments x_doc {Features Doc}. Arguments x_opname {Features Doc}.
Arguments x_vars {Features Doc}. Arguments x_features {Features Doc}. Arguments x_ext {Features Doc}.
Arguments Build_exec_request {Features Doc}.
Arguments PVErrors {Doc Resp}. Arguments PVOk {Doc Resp}.
Arguments EvFeatures {Features Ctx Doc}. Arguments EvValidate {Features Ctx Doc}.
Arguments EvExecute {Features Ctx Doc}. Arguments EvSubscribe {Features Ctx Doc}.
Arguments a_schema {Schema Features Ctx}. Arguments a_features {Schema Features Ctx}.
Arguments a_default_cost {Schema Features Ctx}. Arguments a_hook {Schema Features Ctx}. Arguments a_pq {Schema Features Ctx}.
Arguments Build_api {Schema Features Ctx}.
Arguments features_of {Schema Features Ctx}.
Arguments validate_execute {Schema Features Ctx Doc Resp}.

Arguments serve_graphql {Schema Features Ctx Doc Resp}.
Arguments handle_init {Schema Features Ctx Doc}.

Arguments handle_start {Schema Features Ctx Doc Resp}.

Arguments serve_ws {Schema Features Ctx Doc Resp}.
Arguments c_def {Features Ctx SchemaDef}. Arguments c_preprocess {Features Ctx SchemaDef}.
Arguments c_features {Features Ctx SchemaDef}. Arguments c_default_cost {Features Ctx SchemaDef}.
Arguments c_hook {Features Ctx SchemaDef}. Arguments c_pq {Features Ctx SchemaDef}.
Arguments Build_config {Features Ctx SchemaDef}.
Arguments api_of_config {Schema Features Ctx SchemaDef}.
Arguments send_data {Resp}.
