(** * Transport/InitProofs.v — the effective feature set of a socket operation is
    Config.Features(the context returned by the latest accepted init's hook). *)
From Coq Require Import List Bool ZArith.
From ApiFu Require Import Base.Sexp Transport.EnvelopeModel Transport.InitModel.
Import ListNotations.

Section InitProofs.
  Variables Schema Features Ctx : Type.
  Variable no_features : Features.
  Variable hook : option (Ctx -> option bytes -> option Ctx).

  Lemma run_inits_ctx (a : api Schema Features Ctx) : forall inits st st',
    run_inits hook false a st inits = Some st' -> ctx_after hook (fst st) inits = Some (fst st').
  Proof.
    induction inits as [|p r IH]; intros st st' H; cbn in *.
    - injection H as <-. reflexivity.
    - unfold handle_init_msg in H. cbn in H.
      destruct (match hook with Some h => h (fst st) p | None => Some (fst st) end) as [c'|]; [|discriminate].
      apply IH in H. exact H.
  Qed.

  Lemma step_features (a : api Schema Features Ctx) st p st' :
    handle_init_msg hook false a st p = Some st' ->
    (a_features a = None -> snd st = no_features) ->
    snd st' = features_of no_features a (fst st').
  Proof.
    unfold handle_init_msg. cbn.
    destruct (match hook with Some h => h (fst st) p | None => Some (fst st) end) as [c'|]; [|discriminate].
    intros [= <-] Inv. cbn [fst snd]. unfold features_of.
    destruct (a_features a) as [g|]; [reflexivity|]. apply Inv. reflexivity.
  Qed.

  Lemma run_features (a : api Schema Features Ctx) : forall inits st st',
    run_inits hook false a st inits = Some st' ->
    snd st = features_of no_features a (fst st) ->
    snd st' = features_of no_features a (fst st').
  Proof.
    induction inits as [|p r IH]; intros st st' H Hs; cbn [run_inits] in H.
    - injection H as <-. exact Hs.
    - destruct (handle_init_msg hook false a st p) as [st1|] eqn:E; [|discriminate].
      apply (IH st1 st' H). apply (step_features a st p st1 E).
      intro N. rewrite Hs. unfold features_of. rewrite N. reflexivity.
  Qed.

  (** a connection as ServeGraphQLWS creates it (context [c0] of the upgrade request, nil feature
      set) after the connection_init messages [inits], all accepted, at least one *)
  Theorem ws_effective_features (a : api Schema Features Ctx) c0 inits st' :
    inits <> [] -> run_inits hook false a (c0, no_features) inits = Some st' ->
    ctx_after hook c0 inits = Some (fst st') /\ snd st' = features_of no_features a (fst st').
  Proof.
    intros NE H. split; [exact (run_inits_ctx a inits (c0, no_features) st' H)|].
    destruct inits as [|p r]; [congruence|]. cbn [run_inits] in H.
    destruct (handle_init_msg hook false a (c0, no_features) p) as [st1|] eqn:E; [|discriminate].
    apply (run_features a r st1 st' H). apply (step_features a _ p st1 E). reflexivity.
  Qed.

  (** ... which is exactly the handler state the transport theorems assume for a socket session with
      context [fst st'] ([handle_init]) *)
  Corollary ws_session_is_handle_init (Doc : Type) (a : api Schema Features Ctx) c0 inits st' :
    inits <> [] -> run_inits hook false a (c0, no_features) inits = Some st' ->
    snd st' = fst (handle_init (Doc := Doc) no_features a (fst st')).
  Proof. intros NE H. exact (proj2 (ws_effective_features a c0 inits st' NE H)). Qed.
End InitProofs.

(** the two steps in the other order: the feature set is the one of the context BEFORE the hook
    installed the principal *)
Theorem init_order_refuted_when_swapped :
  exists (a : api unit bool bool) (hook : option (bool -> option bytes -> option bool)) c0 inits st',
    inits <> [] /\ run_inits hook true a (c0, false) inits = Some st' /\
    snd st' <> features_of false a (fst st').
Proof.
  exists {| a_schema := tt; a_features := Some (fun c => c); a_default_cost := (0, 0)%Z; a_hook := false; a_pq := false |}.
  exists (Some (fun _ _ => Some true)), false, [None], (true, false).
  split; [discriminate|]. split; [reflexivity|]. cbn. discriminate.
Qed.
