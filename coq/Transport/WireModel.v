(** * Transport/WireModel.v — the answer on the wire (C17, response side)

    - [http_frame]   api.go ServeGraphQL: [http.Error(w, err.Error(), code)] for a refused envelope
                     and for a response that does not marshal (500); otherwise status 200,
                     Content-Type application/json, Content-Length, the marshalled response
    - [ws_frame]     Connection.SendData / SendComplete + sendMessage of both socket protocols:
                     jsoniter.Marshal of Message{Id (omitempty), Type, Payload (RawMessage, omitempty)}
    - [jsi_quote]    jsoniter's string encoder with HTML escaping (stream_str.go), for the id
    Every GraphQL-level outcome (syntax error, validation error, cost limit, execution error,
    PersistedQueryNotFound) is a Response value: the framing does not look inside it.  A resolver
    panic is not recovered by api.go or the executor (net/http aborts the HTTP response; on a socket
    it is raised in the connection's read loop): outside the model.
    No proofs in this file. *)
From Coq Require Import List NArith ZArith Bool String.
From ApiFu Require Import Base.Sexp Transport.EnvelopeModel Transport.JsonText Transport.EnvelopeSpec.
Import ListNotations.
Open Scope list_scope.
Open Scope N_scope.

Definition ct_json : bytes := Eval vm_compute in bytes_of_string "application/json"%string.
Definition ct_text : bytes := Eval vm_compute in bytes_of_string "text/plain; charset=utf-8"%string.

(** what an HTTP client sees; the body of an error answer is the error text, which the property
    does not name: [None] *)
Record http_wire := { hw_status : Z; hw_ctype : bytes; hw_body : option bytes }.

Definition http_frame (o : http_outcome) : http_wire :=
  match o with
  | HttpOK body => {| hw_status := 200; hw_ctype := ct_json; hw_body := Some body |}
  | HttpError c => {| hw_status := c; hw_ctype := ct_text; hw_body := None |}
  end.

(** jsoniter, WriteStringWithHTMLEscaped: backslash and quote get a backslash; LF, CR, tab their
    short escapes; other bytes below 0x20 and the HTML characters (less-than, greater-than,
    ampersand) become u00XX with lower-case hex digits; U+2028 / U+2029 are escaped; everything
    else, including DEL and valid multi-byte sequences, is copied (ids with invalid UTF-8 are outside
    the model) *)
Definition jq_byte (c : N) : bytes :=
  if c =? 34 then [92; 34]
  else if c =? 92 then [92; 92]
  else if c =? 10 then [92; 110]
  else if c =? 13 then [92; 114]
  else if c =? 9 then [92; 116]
  else if (c <? 32) || (c =? 60) || (c =? 62) || (c =? 38) then [92; 117; 48; 48; hexdigit (c / 16); hexdigit (c mod 16)]
  else [c].

Fixpoint jq_body (s : bytes) : bytes :=
  match s with
  | [] => []
  | c :: r =>
      match r with
      | c1 :: c2 :: r2 =>
          if (c =? 226) && (c1 =? 128) && ((c2 =? 168) || (c2 =? 169))
          then [92; 117; 50; 48; 50; (if c2 =? 168 then 56 else 57)] ++ jq_body r2
          else jq_byte c ++ jq_body r
      | _ => jq_byte c ++ jq_body r
      end
  end.
Definition jsi_quote (s : bytes) : bytes := 34 :: jq_body s ++ [34].

Definition k_id_m : bytes := Eval vm_compute in bytes_of_string """id"":"%string.
Definition k_type_m : bytes := Eval vm_compute in bytes_of_string """type"":"%string.
Definition k_payload_m : bytes := Eval vm_compute in bytes_of_string ",""payload"":"%string.
Definition t_data : bytes := Eval vm_compute in bytes_of_string "data"%string.
Definition t_next : bytes := Eval vm_compute in bytes_of_string "next"%string.

Definition data_type (p : proto) : bytes := match p with GraphqlWS => t_data | TransportWS => t_next end.

(** the head of a message: brace, the id member unless the id is empty, the type member *)
Definition frame_head (id ty : bytes) : bytes :=
  123 :: (if is_empty id then [] else k_id_m ++ jsi_quote id ++ [44]) ++ k_type_m ++ 34 :: ty ++ [34].

Definition ws_frame (p : proto) (o : ws_out) : bytes :=
  match o with
  | WsData id payload =>
      frame_head id (data_type p) ++ (if is_empty payload then [] else k_payload_m ++ payload) ++ [125]
  | WsComplete id => frame_head id t_complete ++ [125]
  end.

(** the complete answer a client gets *)
Inductive wire_answer :=
| WaHttp (w : http_wire)
| WaFrames (frames : list bytes)        (* text frames sent for this operation, in order *)
| WaSilent                              (* nothing is sent *)
| WaClosed (code : Z).

(** the transport's framing of a list of marshalled responses *)
Definition http_transport (t : transport) : bool :=
  match t with WsGraphqlWs | WsTransportWs => false | _ => true end.
Definition proto_of (t : transport) : proto := match t with WsTransportWs => TransportWS | _ => GraphqlWS end.

Definition frame_answer (t : transport) (id : bytes) (ps : list bytes) : wire_answer :=
  if http_transport t then
    match ps with
    | [body] => WaHttp (http_frame (HttpOK body))
    | _ => WaSilent                      (* an HTTP request is answered by exactly one response *)
    end
  else WaFrames (map (ws_frame (proto_of t)) (map (WsData id) ps ++ [WsComplete id])).

Section Wire.
  Variables Schema Features Ctx Doc Resp : Type.
  Variable no_features : Features.
  Variable parse_validate : Schema -> Features -> Z * Z -> bytes -> bytes -> option gomap -> pv_result Doc Resp.
  Variable is_subscription : Doc -> bytes -> bool.
  Variable execute : bool -> Schema -> exec_request Features Doc -> Z -> Resp.
  Variable run_subscription : bool -> Schema -> exec_request Features Doc -> Z -> list Resp.
  Variable pq_ext : (request -> Resp * list (event Features Ctx Doc)) -> request -> Resp * list (event Features Ctx Doc).
  Variable marshal : Resp -> option bytes.
  Variable qk : quirks.
  Variable parse_std parse_jsi : bytes -> jparse.
  Variable render : json -> bytes.

  (** what the client that submits [o] through [t] receives, byte for byte (error texts excepted) *)
  Definition wire_respond (t : transport) (a : api Schema Features Ctx) (c : Ctx) (id : bytes) (o : op) : wire_answer :=
    match encode render t id o with
    | WHttp e => WaHttp (http_frame (fst (serve_graphql no_features parse_validate execute pq_ext marshal qk parse_std a c e)))
    | WWs p f =>
        match fst (serve_ws parse_validate is_subscription execute run_subscription marshal parse_jsi a p true
                            (fst (handle_init (Doc := Doc) no_features a c)) (Some f)) with
        | WsAnswers out => WaFrames (map (ws_frame p) out)
        | WsCloses code => WaClosed code
        | WsNothing | WsNotStart => WaSilent
        end
    end.
End Wire.
Arguments wire_respond {Schema Features Ctx Doc Resp}.
