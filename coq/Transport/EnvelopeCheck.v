(** * Transport/EnvelopeCheck.v — C17 correspondence: decode a case, run the model on every
    envelope, compare with what the implementation's decoders and the API did, run the Spec oracle
    (same answer for the same operation; malformed envelopes refused, nothing executed).
    Executable only (extracted / vm_compute). *)
From Coq Require Import List NArith ZArith Bool String.
From ApiFu Require Import Base.Sexp Transport.EnvelopeModel Transport.JsonText Transport.EnvelopeSpec Transport.WireModel Transport.FrameText Transport.InitModel Transport.EnvelopeCompose Transport.StreamModel.
Import ListNotations.
Open Scope string_scope.

(** ** decoding the case *)
Fixpoint dec_json (s : sexp) : option json :=
  match s with
  | SSym x => if String.eqb x "null" then Some JNull else if String.eqb x "nr" then Some JNumRange else None
  | SL (SSym t :: args) =>
      if String.eqb t "b" then match args with [x] => option_map JBool (as_bool x) | _ => None end
      else if String.eqb t "n" then match args with [x] => option_map JNum (as_N x) | _ => None end
      else if String.eqb t "s" then match args with [x] => option_map JStr (as_bytes x) | _ => None end
      else if String.eqb t "a" then
        option_map JArr
          ((fix go (l : list sexp) : option (list json) :=
              match l with
              | [] => Some []
              | x :: r => match dec_json x, go r with Some y, Some ys => Some (y :: ys) | _, _ => None end
              end) args)
      else if String.eqb t "o" then
        option_map JObj
          ((fix go (l : list sexp) : option (list (bytes * json)) :=
              match l with
              | [] => Some []
              | SL [SStr k; v] :: r => match dec_json v, go r with Some y, Some ys => Some ((k, y) :: ys) | _, _ => None end
              | _ => None
              end) args)
      else None
  | _ => None
  end.

Definition dec_optmap (s : sexp) : option (option gomap) :=
  match as_option dec_json s with
  | Some None => Some None
  | Some (Some (JObj l)) => Some (Some l)
  | _ => None
  end.

Definition dec_parse (s : sexp) : option jparse :=
  if is_sym "bad" s then Some PBad
  else match untag s with
       | Some (t, [j]) =>
           if String.eqb t "tree" then option_map PTree (dec_json j)
           else if String.eqb t "trail" then option_map PTrail (dec_json j)
           else None
       | _ => None
       end.

Definition dec_entry (s : sexp) : option (bytes * jparse) :=
  match s with
  | SL [SStr t; p] => match dec_parse p with Some x => Some (t, x) | None => None end
  | _ => None
  end.

(** The JSON texts are parsed by the model itself ([JsonText.parse_text]) from the raw bytes of the
    body / URL parameter / payload.  The harness supplies (a) the float64 bits of the number tokens
    ([nums], strconv.ParseFloat) and (b) for the texts it built from its own value trees, the tree
    ([json] table): a second opinion on the model's parser, not an input of the model. *)
Definition jtable := list (bytes * jparse).
Definition tbl_find (T : jtable) (t : bytes) : option jparse :=
  match find (fun e => bytes_eqb (fst e) t) T with Some (_, p) => Some p | None => None end.

Definition ntable := list (bytes * option N).
Definition dec_num (s : sexp) : option (bytes * option N) :=
  match s with
  | SL [SStr t; v] => if is_sym "nr" v then Some (t, None) else match as_N v with Some b => Some (t, Some b) | None => None end
  | _ => None
  end.
Definition num_find (NT : ntable) (t : bytes) : option (option N) :=
  match find (fun e => bytes_eqb (fst e) t) NT with Some (_, v) => Some v | None => None end.
(** integer tokens below 2^53 are converted by the model itself ([JsonText.int_bits]); the table
    (strconv.ParseFloat) answers for the others, and must agree on the integers ([nums_agree]) *)
Definition numval_of (NT : ntable) (t : bytes) : option N :=
  match int_bits t with
  | Some b => Some b
  | None => match num_find NT t with Some v => v | None => None end
  end.
Definition nums_agree (NT : ntable) : bool :=
  forallb (fun e => match int_bits (fst e) with
                    | Some b => match snd e with Some b' => N.eqb b b' | None => false end
                    | None => true
                    end) NT.
Definition tbl_parse (fl : flavour) (NT : ntable) (t : bytes) : jparse := parse_json fl (numval_of NT) t.

(** [early]: the request body ended before the announced Content-Length (net/http reports
    io.ErrUnexpectedEOF to whoever reads the body to its end) *)
Inductive env := EHttp (e : envelope) (early : bool) | EWs (p : proto) (did_init : bool) (f : option frame).

Definition dec_pair (s : sexp) : option (bytes * bytes) :=
  match s with SL [SStr k; SStr v] => Some (k, v) | _ => None end.

Definition dec_ws (p di fr : sexp) : option env :=
  match (if is_sym "gws" p then Some GraphqlWS else if is_sym "tws" p then Some TransportWS else None), as_bool di with
  | Some p', Some di' =>
      if is_sym "bad-frame" fr then Some (EWs p' di' None)
      else match tagged "frame" fr with
           | Some [ty; id; pl] =>
               match as_bytes ty, as_bytes id, as_option as_bytes pl with
               | Some ty', Some id', Some pl' => Some (EWs p' di' (Some {| f_type := ty'; f_id := id'; f_payload := pl' |}))
               | _, _, _ => None
               end
           | _ => None
           end
  | _, _ => None
  end.

Definition dec_env (s : sexp) : option env :=
  match untag s with
  | Some (t, [a1; a2; a3; a4]) =>
      if String.eqb t "http" then
        match a3 with
        | SL ps =>
            match as_bytes a1, as_bytes a2, map_opt dec_pair ps, as_bytes a4 with
            | Some m', Some md, Some ps', Some b' => Some (EHttp {| e_method := m'; e_media := md; e_url := ps'; e_body := b' |} false)
            | _, _, _, _ => None
            end
        | _ => None
        end
      else if String.eqb t "ws" then dec_ws a1 a2 a3
      else None
  | Some (t, [a1; a2; SL ps; a4; fr]) =>
      (* the bytes the client sent and how it framed them: the model works out what the handler can
         read ([StreamModel.delivered]) *)
      if String.eqb t "http" then
        match as_bytes a1, as_bytes a2, map_opt dec_pair ps, as_bytes a4,
              (match untag fr with
               | Some (ft, args) =>
                   match map_opt as_N args with
                   | Some ns =>
                       if String.eqb ft "cl" then match ns with [n] => Some (ContentLength (N.to_nat n)) | _ => None end
                       else if String.eqb ft "chunked" then Some (Chunked (map N.to_nat ns))
                       else None
                   | None => None
                   end
               | None => None
               end) with
        | Some m', Some md, Some ps', Some sent, Some f =>
            let (b', early) := delivered f sent in
            Some (EHttp {| e_method := m'; e_media := md; e_url := ps'; e_body := b' |} early)
        | _, _, _, _, _ => None
        end
      else None
  | _ => None
  end.

(** what the implementation's decoder did with the envelope *)
Inductive dobs :=
| DAccept (q : bytes) (v : option gomap) (n : bytes) (x : option gomap)
| DReject (c : Z)
| DStart (id q : bytes) (v : option gomap) (n : bytes)
| DIgnored
| DClosed (c : Z)
| DUnexpected.

Definition dec_dobs (s : sexp) : option dobs :=
  match untag s with
  | Some (t, [q; v; n; x]) =>
      if String.eqb t "accept" then
        match as_bytes q, dec_optmap v, as_bytes n, dec_optmap x with
        | Some q', Some v', Some n', Some x' => Some (DAccept q' v' n' x')
        | _, _, _, _ => Some DUnexpected      (* a Go value outside the JSON data model *)
        end
      else if String.eqb t "start" then
        match as_bytes q, as_bytes v, dec_optmap n, as_bytes x with
        | Some id, Some q', Some v', Some n' => Some (DStart id q' v' n')
        | _, _, _, _ => Some DUnexpected
        end
      else None
  | Some (t, [c]) =>
      if String.eqb t "reject" then option_map DReject (as_Z c)
      else if String.eqb t "closed" then option_map DClosed (as_Z c)
      else None
  | Some (t, []) =>
      if String.eqb t "ignored" then Some DIgnored else Some DUnexpected   (* timeout, start-unknown *)
  | _ => None
  end.

Definition dec_wire (s : sexp) : option wobs :=
  match untag s with
  | Some (t, [ct; cl; b]) =>
      if String.eqb t "wire-http" then
        match as_bytes ct, as_Z cl, as_bytes b with
        | Some ct', Some cl', Some b' => Some (WoHttp ct' cl' b')
        | _, _, _ => None
        end
      else None
  | Some (t, [SL fs; SL rs]) =>
      if String.eqb t "wire-ws" then
        match map_opt as_bytes fs, map_opt as_bytes rs with
        | Some fs', Some rs' => Some (WoWs fs' rs')
        | _, _ => None
        end
      else None
  | Some (t, []) => if String.eqb t "wire-none" then Some WoNone else None
  | _ => None
  end.

Definition dec_obs (s : sexp) : option obs :=
  match tagged "obs" s with
  | Some [k; SL ps; c; r; h; w] =>
      match untag k, map_opt as_bytes ps, as_bool c, as_bytes r, as_bytes h, dec_wire w with
      | Some (kt, [code]), Some ps', Some c', Some r', Some h', Some w' =>
          match as_Z code with
          | Some z =>
              let kind := if String.eqb kt "status" then KStatus z
                          else if String.eqb kt "data" then KData
                          else if String.eqb kt "ignored" then KIgnored
                          else if String.eqb kt "closed" then KClosed z
                          else KOther in
              Some {| ob_kind := kind; ob_payloads := ps'; ob_completed := c'; ob_resolvers := r'; ob_hooks := h'; ob_wire := w' |}
          | None => None
          end
      | _, _, _, _, _, _ => None
      end
  | _ => None
  end.

(** the observations of a submission (one per API variant); [(same)] repeats the previous one *)
Fixpoint dec_obs_list (prev : option obs) (l : list sexp) : option (list obs) :=
  match l with
  | [] => Some []
  | x :: r =>
      match (match tagged "same" x with Some [] => prev | _ => dec_obs x end) with
      | Some o => match dec_obs_list (Some o) r with Some os => Some (o :: os) | None => None end
      | None => None
      end
  end.

Record sub := {
  s_transport : string; s_role : string; s_label : string;
  s_env : env; s_dec : dobs; s_obs : list obs;
  s_raw : bytes       (* sockets: the frame text *)
}.

(** the text of the frame that was sent (sockets) *)
Definition dec_raw (s : sexp) : bytes :=
  match untag s with
  | Some (_, [_; _; _; SStr raw]) => raw
  | _ => []
  end.

Definition dec_sub (s : sexp) : option sub :=
  match tagged "sub" s with
  | Some [t; r; l; e; d; SL os] =>
      match as_sym t, as_sym r, as_sym l, dec_env e, dec_dobs d, dec_obs_list None os with
      | Some t', Some r', Some l', Some e', Some d', Some os' =>
          Some {| s_transport := t'; s_role := r'; s_label := l'; s_env := e'; s_dec := d'; s_obs := os'; s_raw := dec_raw e |}
      | _, _, _, _, _, _ => None
      end
  | _ => None
  end.

(** ** equality on values *)
Fixpoint json_eqb (a b : json) : bool :=
  match a, b with
  | JNull, JNull => true
  | JBool x, JBool y => Bool.eqb x y
  | JNum x, JNum y => N.eqb x y
  | JNumRange, JNumRange => true
  | JStr x, JStr y => bytes_eqb x y
  | JArr x, JArr y =>
      (fix go (x y : list json) : bool :=
         match x, y with
         | [], [] => true
         | p :: ps, q :: qs => json_eqb p q && go ps qs
         | _, _ => false
         end) x y
  | JObj x, JObj y =>
      (fix go (x y : list (bytes * json)) : bool :=
         match x, y with
         | [], [] => true
         | p :: ps, q :: qs => match p, q with (k, v), (k', v') => bytes_eqb k k' && json_eqb v v' && go ps qs end
         | _, _ => false
         end) x y
  | _, _ => false
  end.

Definition optmap_eqb (a b : option gomap) : bool :=
  match a, b with
  | None, None => true
  | Some x, Some y => json_eqb (JObj x) (JObj y)
  | _, _ => false
  end.

Definition op_eqb (a b : op) : bool :=
  bytes_eqb (o_query a) (o_query b) && optmap_eqb (o_vars a) (o_vars b) && bytes_eqb (o_opname a) (o_opname b).

(** ** the model on one envelope *)
Inductive mres :=
| MAccept (o : op) (x : option gomap)
| MReject (c : Z)
| MStart (id : bytes) (o : op)
| MIgnored
| MClosed (c : Z)
| MOther.

Definition run_model (T : ntable) (e : env) : mres :=
  match e with
  | EHttp h early =>
      (* a POST whose branch reads the body to its end (both media types do) meets the read error: 400 *)
      match new_request_from_stream false fixed (tbl_parse StdJson T) h early with
               | Accept r => MAccept (op_of_request r) (r_ext r)
               | Reject c => MReject c
               end
  | EWs p di f => match handle_message (tbl_parse StdJson T) p di f with
                  | WsStart id q v n => MStart id {| o_query := q; o_vars := v; o_opname := n |}
                  | WsIgnored => MIgnored
                  | WsClosed c => MClosed c
                  | WsOther => MOther
                  end
  end.

(** the texts the model will ask the table about *)
Definition needed_texts (e : env) : list bytes :=
  match e with
  | EHttp h _ =>
      if bytes_eqb (e_method h) m_get then
        filter (fun t => negb (is_empty t)) [url_get k_variables (e_url h); url_get k_extensions (e_url h)]
      else if bytes_eqb (e_method h) m_post && bytes_eqb (e_media h) mt_json then [e_body h]
      else []
  | EWs p _ (Some f) => if bytes_eqb (f_type f) (start_type p) then match f_payload f with Some t => [t] | None => [] end else []
  | EWs _ _ None => []
  end.

Definition class_eq (a b : Z) : bool := Z.eqb (a / 100) (b / 100).

(** the model's decoding against the implementation's decoder (NewRequestFromHTTP called directly;
    the Connection types with a recording handler).  Status and close codes are compared by class. *)
Definition dec_agrees (m : mres) (d : dobs) : bool :=
  match m, d with
  | MAccept o x, DAccept q v n x' =>
      op_eqb o {| o_query := q; o_vars := v; o_opname := n |} && optmap_eqb x x'
  | MReject c, DReject c' => class_eq c c'
  | MStart id o, DStart id' q v n => bytes_eqb id id' && op_eqb o {| o_query := q; o_vars := v; o_opname := n |}
  | MIgnored, DIgnored => true
  | MClosed c, DClosed c' => class_eq c c'
  | _, _ => false
  end.

(** the model's outcome against what the API did (ServeGraphQL / ServeGraphQLWS); the pipeline
    behind the envelope is abstract, so only the kind of outcome is compared here *)
Definition api_agrees (m : mres) (o : obs) : bool :=
  match m, ob_kind o with
  | MAccept _ _, KStatus c => Z.eqb c 200
  | MReject c, KStatus c' => class_eq c c'
  | MStart _ _, KData => true
  | MIgnored, KIgnored => true
  | MClosed c, KClosed c' => class_eq c c'
  | _, _ => false
  end.

(** the answer on the wire against the model's framing (WireModel): an accepted HTTP envelope is
    answered 200 with [http_frame (HttpOK body)] (Content-Type, Content-Length = the body's length);
    a refused one with the Content-Type of [http_frame (HttpError c)]; on a socket the frames
    received for the operation are exactly [ws_frame] of the data / next payloads followed by complete *)
Definition proto_of_env (e : env) : proto := match e with EWs p _ _ => p | EHttp _ _ => GraphqlWS end.

Definition wire_agrees (e : env) (m : mres) (o : obs) : bool :=
  match m, ob_wire o with
  | MAccept _ _, WoHttp ct cl body =>
      let w := http_frame (HttpOK body) in
      bytes_eqb ct (hw_ctype w) && Z.eqb cl (Z.of_nat (List.length body)) && negb (is_empty body)
  | MReject c, WoHttp ct _ _ => bytes_eqb ct (hw_ctype (http_frame (HttpError c)))
  | MStart id _, WoWs frames raws =>
      list_eqb bytes_eqb frames
        (map (ws_frame (proto_of_env e)) (List.app (map (WsData id) raws) (if ob_completed o then [WsComplete id] else [])))
      && ob_completed o
  | MIgnored, WoWs frames _ => match frames with [] => true | _ => false end
  | MClosed _, WoWs frames _ => match frames with [] => true | _ => false end
  | _, WoNone => true
  | _, _ => false
  end.

Definition well_formed (T : ntable) (e : env) : bool :=
  match e with
  | EHttp h early =>
      negb (early && bytes_eqb (e_method h) m_post && (bytes_eqb (e_media h) mt_json || bytes_eqb (e_media h) mt_graphql)) &&
      http_well_formed (tbl_parse StdJson T) h
  | EWs p di f =>
      di && match f with
            | Some fr => bytes_eqb (f_type fr) (start_type p) && ws_well_formed (tbl_parse StdJson T) f
            | None => false
            end
  end.

Definition accepted_op (m : mres) : option op :=
  match m with
  | MAccept o _ => Some o
  | MStart _ o => Some o
  | _ => None
  end.

Definition name_of (s : sub) : string :=
  if String.eqb (s_role s) "canonical" then s_transport s
  else s_transport s ++ "/" ++ s_label s.

(** ** the frame level: the model splits the frame text itself ([FrameText.frame_of_text]); the
    harness's own split (type / id / raw payload, or "not a message") is a second opinion *)
Definition frame_eqb (a b : option frame) : bool :=
  match a, b with
  | None, None => true
  | Some x, Some y =>
      bytes_eqb (f_type x) (f_type y) && bytes_eqb (f_id x) (f_id y) &&
      match f_payload x, f_payload y with
      | None, None => true
      | Some u, Some v => bytes_eqb u v
      | _, _ => false
      end
  | _, _ => false
  end.


(** the harness's payload text may carry white space around the value; json.RawMessage does not *)
Definition trim_frame (f : option frame) : option frame :=
  match f with
  | Some x => Some {| f_type := f_type x; f_id := f_id x;
                      f_payload := match f_payload x with
                                   | Some t => Some (rev (skip_ws (rev (skip_ws t))))
                                   | None => None
                                   end |}
  | None => None
  end.

(** a submission with the model's results, computed once: the frame as the model splits it (and
    whether the harness's split agrees), what the model decodes, whether the envelope is well formed *)
Record esub := { e_sub :> sub; e_split_ok : bool; e_model : mres; e_wf : bool }.

Definition refit (T : ntable) (s : sub) : esub :=
  match s_env s with
  | EWs p di hf =>
      let mf := frame_of_text (numval_of T) (s_raw s) in
      let e' := EWs p di mf in
      {| e_sub := {| s_transport := s_transport s; s_role := s_role s; s_label := s_label s;
                     s_env := e'; s_dec := s_dec s; s_obs := s_obs s; s_raw := s_raw s |};
         e_split_ok := frame_eqb mf (trim_frame hf);
         e_model := run_model T e'; e_wf := well_formed T e' |}
  | EHttp _ _ => {| e_sub := s; e_split_ok := true; e_model := run_model T (s_env s); e_wf := well_formed T (s_env s) |}
  end.

(** ** per-submission checks *)
Fixpoint first_some {A B} (f : A -> option B) (l : list A) : option B :=
  match l with
  | [] => None
  | x :: r => match f x with Some y => Some y | None => first_some f r end
  end.

(** the Spec oracle on one submission: a malformed envelope must be refused, nothing executed *)
Definition jparse_eqb (a b : jparse) : bool :=
  match a, b with
  | PTree x, PTree y => json_eqb x y
  | PTrail x, PTrail y => json_eqb x y
  | PBad, PBad => true
  | _, _ => false
  end.

Definition flavour_of (e : env) : flavour := match e with EHttp _ _ => StdJson | EWs _ _ _ => StdJson end.

(** roles of a submission inside a per-connection history: "setup" only builds the history (a
    subscription that stays active, the client's stop) and is not judged; "held-sub" is a start /
    subscribe of a SUBSCRIPTION whose id is held by an uncompleted subscription: HandleStart drops it
    ([handle_start] with [subscribed = true]: no frame, nothing executed) *)
Definition is_setup (s : sub) : bool := String.eqb (s_role s) "setup".
Definition is_held_sub (s : sub) : bool := String.eqb (s_role s) "held-sub".

Definition oracle_sub (J : jtable) (T : ntable) (s : esub) : option sexp :=
  if is_setup s then None else
  if negb (forallb (fun t => forallb (fun tok => match num_find T tok with Some _ => true | None => false end)
                                     (num_tokens (List.length t) t)) (s_raw s :: needed_texts (s_env s))) then
    Some (v_bad "number-table-incomplete")
  else if negb (forallb (fun t => match tbl_find J t with
                                  | Some p => jparse_eqb (tbl_parse (flavour_of (s_env s)) T t) p
                                  | None => true
                                  end) (needed_texts (s_env s))) then
    Some (v_bad "json-table-disagrees")
  else if negb (e_wf s) && negb (forallb oracle_malformed (s_obs s)) then
    Some (v_oracle_fail ("malformed-not-refused:" ++ s_transport s ++ ":" ++ s_label s) [])
  else None.

(** model against implementation on one submission *)
Definition dropped (o : obs) : bool :=
  match ob_kind o with KIgnored => true | _ => false end && nothing_executed o &&
  match ob_wire o with WoWs [] _ => true | WoNone => true | _ => false end.

Definition check_sub (T : ntable) (o : op) (s : esub) : option sexp :=
  let m := e_model s in
  if is_setup s then None
  else if is_held_sub s then
    if dec_agrees m (s_dec s) && forallb dropped (s_obs s) then None
    else Some (v_mismatch ("held-id:" ++ name_of s) [])
  else if negb (dec_agrees m (s_dec s)) then
    Some (v_mismatch ("decoder:" ++ name_of s) [])
  else if negb (forallb (api_agrees m) (s_obs s)) then
    Some (v_mismatch ("outcome:" ++ name_of s) [])
  else if negb (forallb (wire_agrees (s_env s) m) (s_obs s)) then
    Some (v_mismatch ("wire:" ++ name_of s) [])
  else if String.eqb (s_role s) "canonical" &&
          negb (match m with
                | MAccept o' None => op_eqb o o'
                | MStart _ o' => op_eqb o o'
                | _ => false
                end) then
    Some (v_mismatch ("roundtrip:" ++ s_transport s) [])
  else None.

(** ** same answer for the same operation *)
(** how PersistedQueryExtension sees the request's extensions (C18's [ext] through [pq_view]):
    requests are grouped by operation AND this view — a persisted-query lookup is another request *)
Definition pq_key (m : mres) : option (bool * bytes) :=
  match m with
  | MAccept _ x => match pq_view x with
                   | Some e => Some (Api.PersistedQueryModel.ext_version_one e, Api.PersistedQueryModel.ext_hash e)
                   | None => None
                   end
  | _ => None
  end.
Definition pq_key_eqb (a b : option (bool * bytes)) : bool :=
  match a, b with
  | None, None => true
  | Some (v, h), Some (v', h') => Bool.eqb v v' && bytes_eqb h h'
  | _, _ => false
  end.

Record entry := { en_name : string; en_sub : nat; en_op : op; en_pq : option (bool * bytes); en_obs : obs }.

Fixpoint entries (T : ntable) (i : nat) (ss : list esub) : list entry :=
  match ss with
  | [] => []
  | s :: r =>
      List.app
        match (if is_setup s || is_held_sub s then None else accepted_op (e_model s)) with
        | Some o => map (fun ob => {| en_name := name_of s; en_sub := i; en_op := o; en_pq := pq_key (e_model s); en_obs := ob |}) (s_obs s)
        | None => []
        end
        (entries T (S i) r)
  end.

Definition differs_key (a b : entry) : string :=
  if Nat.eqb (en_sub a) (en_sub b) then "clone-differs:" ++ en_name a
  else "differs:" ++ en_name a ++ ":" ++ en_name b.

Fixpoint check_same (es : list entry) : option sexp :=
  match es with
  | [] => None
  | e :: r =>
      match first_some (fun e' => if op_eqb (en_op e) (en_op e') && pq_key_eqb (en_pq e) (en_pq e') && negb (same_answer (en_obs e) (en_obs e'))
                                  then Some (v_oracle_fail (differs_key e e') []) else None) r with
      | Some v => Some v
      | None => check_same r
      end
  end.

(** Spec oracle, beyond the canonical envelopes: the same bytes as POST application/json body
    (no ?query=) and as start / subscribe payload on an initialised connection: whatever
    NewRequestFromHTTP accepts, the socket decoder must hand to HandleStart as the same operation
    (judged on what the implementation's decoders did, not on the model) *)
Definition same_text_pair (s1 s2 : sub) : option sexp :=
  match s_env s1, s_env s2 with
  | EHttp h false, EWs p true (Some f) =>
      if bytes_eqb (e_method h) m_post && bytes_eqb (e_media h) mt_json && is_empty (url_get k_query (e_url h)) &&
         bytes_eqb (f_type f) (start_type p) &&
         match f_payload f with Some t => bytes_eqb t (e_body h) | None => false end then
        match s_dec s1 with
        | DAccept q v n _ =>
            match s_dec s2 with
            | DStart _ q' v' n' =>
                if op_eqb {| o_query := q; o_vars := v; o_opname := n |} {| o_query := q'; o_vars := v'; o_opname := n' |} then None
                else Some (v_oracle_fail ("same-text-differs:" ++ s_label s1) [])
            | _ => Some (v_oracle_fail ("same-text-differs:" ++ s_label s1) [])
            end
        | _ => None
        end
      else None
  | _, _ => None
  end.

Definition check_same_text (ss : list sub) : option sexp :=
  first_some (fun s1 => first_some (same_text_pair s1) ss) ss.

(** every transport that can carry the operation must be among the canonical submissions *)
Definition has_canonical (ss : list sub) (t : string) : bool :=
  existsb (fun s => String.eqb (s_role s) "canonical" && String.eqb (s_transport s) t) ss.

Definition canonical_complete (o : op) (is_sub : bool) (ss : list sub) : bool :=
  has_canonical ss "gws" && has_canonical ss "tws" &&
  (is_sub ||
   (has_canonical ss "get" && has_canonical ss "post-json" && has_canonical ss "post-url" &&
    Bool.eqb (has_canonical ss "post-graphql") (carries HttpPostGraphql o))).

(** ** evidence classes *)
Definition classes (T : ntable) (o : op) (is_sub : bool) (ss : list esub) : list string :=
  let canon := filter (fun s : esub => String.eqb (s_role s) "canonical") ss in
  let executed := existsb (fun s : esub => existsb (fun ob => negb (is_empty (ob_resolvers ob))) (s_obs s)) canon in
  let refused := filter (fun s : esub => negb (e_wf s)) ss in
  let alias_same := existsb (fun s : esub => negb (String.eqb (s_role s) "canonical") &&
                                      match accepted_op (e_model s) with Some o' => op_eqb o o' | None => false end) ss in
  let alias_other := existsb (fun s : esub => negb (String.eqb (s_role s) "canonical") &&
                                       match accepted_op (e_model s) with Some o' => negb (op_eqb o o') | None => false end) ss in
  (* the same bytes as POST body and as socket payload, read as different operations *)
  let text_diverges :=
    existsb (fun s1 : esub => existsb (fun s2 : esub =>
       String.eqb (s_label s1) (s_label s2) && negb (String.eqb (s_role s1) "canonical") &&
       match s_env s1, s_env s2 with
       | EHttp _ _, EWs _ _ _ =>
           match accepted_op (e_model s1), accepted_op (e_model s2) with
           | Some o1, Some o2 => negb (op_eqb o1 o2)
           | _, _ => false
           end
       | _, _ => false
       end) ss) ss in
  let http_refused := existsb (fun s : esub => match s_env s with EHttp _ _ => true | _ => false end) refused in
  let ws_refused := existsb (fun s : esub => match s_env s with EWs _ _ _ => true | _ => false end) refused in
  List.concat [
    (if executed then ["executed"] else ["not-executed"]);
    (if is_sub then ["ws-only"] else if carries HttpPostGraphql o then ["six-carriers"] else ["five-carriers"]);
    (match o_vars o with Some (_ :: _) => ["with-variables"] | _ => [] end);
    (if is_empty (o_opname o) then [] else ["with-opname"]);
    (if alias_same then ["alias-same-op"] else []); (if alias_other then ["alias-other-op"] else []);
    (if text_diverges then ["same-text-other-op"] else []);
    (if existsb (fun s : esub => is_held_sub s) ss then ["id-held-by-active-subscription"] else []);
    (if existsb (fun s : esub => String.eqb (s_label s) "reuse-id" || String.eqb (s_label s) "reuse-id-after-client-complete") ss then ["id-reused"] else []);
    (if existsb (fun s : esub => match s_env s with EHttp _ true => true | _ => false end) ss then ["body-ends-early"] else []);
    (if http_refused then ["refused-http"] else []); (if ws_refused then ["refused-ws"] else []);
    (if executed || http_refused || ws_refused then ["nontrivial"] else []) ].

(** the connection_init sequence the case's socket connections went through must install the case's
    principal: [run_inits] (InitModel) over plans — "deny" is refused by the hook, "beta" is the
    principal with the feature, anything else one without; Features reads the plan from the context *)
Definition k_beta : bytes := Eval vm_compute in bytes_of_string "beta".
Definition k_deny : bytes := Eval vm_compute in bytes_of_string "deny".
Definition plan_hook (_ : bool) (p : option bytes) : option bool :=
  match p with
  | Some t => if bytes_eqb t k_deny then None else Some (bytes_eqb t k_beta)
  | None => Some false
  end.
Definition plan_api : api unit bool bool :=
  {| a_schema := tt; a_features := Some (fun c => c); a_default_cost := (0, 0)%Z; a_hook := false; a_pq := false |}.
Definition inits_install (feat : bool) (plans : list bytes) : bool :=
  match plans with
  | [] => false
  | _ => match run_inits (Some plan_hook) false plan_api (false, false) (map Some plans) with
         | Some (_, f) => Bool.eqb f feat
         | None => false
         end
  end.

Definition check (c : sexp) : sexp :=
  match tagged "case" c with
  | Some l =>
      match field "op" l, field "classes" l, field1 "json" l, field "nums" l, field "subs" l with
      | Some [q; v; n; sb], Some cls, Some (SL ts), Some ns, Some ss =>
          match as_bytes q, dec_optmap v, as_bytes n, as_bool sb, map_opt as_sym cls, map_opt dec_entry ts, map_opt dec_num ns, map_opt dec_sub ss with
          | Some q', Some v', Some n', Some is_sub, Some cls', Some J, Some T, Some subs =>
              (* the operation as a Go map holds it (what every decoder must hand on) *)
              match (match v' with
                     | Some m => match to_go (JObj m) with Some (JObj m') => Some (Some m') | _ => None end
                     | None => Some None
                     end) with
              | None => v_bad "operation-not-representable"
              | Some vars =>
                  let o := {| o_query := q'; o_vars := vars; o_opname := n' |} in
                  if negb (match field "cfg" l, field "inits" l with
                           | Some [_; ft], Some ps =>
                               match as_bool ft, map_opt as_bytes ps with
                               | Some ft', Some ps' => inits_install ft' ps'
                               | _, _ => false
                               end
                           | _, _ => false
                           end) then v_bad "init-sequence-does-not-install-the-principal"
                  else if negb (nums_agree T) then v_mismatch "number-conversion" []
                  else if negb (canonical_complete o is_sub subs) then v_bad "missing-canonical-transport"
                  else
                    let subs := map (refit T) subs in
                    if negb (forallb e_split_ok subs) then v_bad "frame-split-disagrees"
                    else
                    match first_some (oracle_sub J T) subs with
                    | Some v => v
                    | None =>
                        match (match check_same (entries T 0 subs) with Some v => Some v | None => check_same_text (map e_sub subs) end) with
                        | Some v => v
                        | None =>
                            match first_some (check_sub T o) subs with
                            | Some v => v
                            | None => v_ok (List.app cls' (classes T o is_sub subs))
                            end
                        end
                    end
              end
          | _, _, _, _, _, _, _, _ => v_bad "decode"
          end
      | _, _, _, _, _ => v_bad "fields"
      end
  | None => v_bad "shape"
  end.
