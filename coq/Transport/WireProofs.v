(** * Transport/WireProofs.v — the transport's framing is injective on responses, and the complete
    wire answer is the framing of the pipeline's marshalled responses: "the same response" holds
    byte for byte on the wire, modulo the framing function. *)
From Coq Require Import List NArith ZArith Bool Lia.
From ApiFu Require Import Base.Sexp Transport.EnvelopeModel Transport.JsonText Transport.EnvelopeSpec Transport.WireModel.
Import ListNotations.
Open Scope N_scope.

(** ** the framing functions are injective *)
Lemma frame_head_split id ty :
  frame_head id ty = (123 :: (if is_empty id then [] else k_id_m ++ jsi_quote id ++ [44]) ++ k_type_m ++ [34]) ++ ty ++ [34].
Proof. unfold frame_head. cbn [app]. rewrite <- !app_assoc. reflexivity. Qed.

Definition payload_part (x : bytes) : bytes := if is_empty x then [] else k_payload_m ++ x.

Lemma payload_part_inj x y : payload_part x = payload_part y -> x = y.
Proof.
  unfold payload_part. destruct x as [|a x], y as [|b y]; cbn [is_empty]; intro H; try reflexivity.
  - destruct (k_payload_m) eqn:K; [vm_compute in K; discriminate|]. discriminate.
  - destruct (k_payload_m) eqn:K; [vm_compute in K; discriminate|]. discriminate.
  - apply app_inv_head in H. exact H.
Qed.

Theorem ws_frame_data_inj p id x y : ws_frame p (WsData id x) = ws_frame p (WsData id y) -> x = y.
Proof.
  cbn [ws_frame]. fold (payload_part x). fold (payload_part y). intro H.
  apply app_inv_head in H. apply app_inv_tail in H. apply payload_part_inj, H.
Qed.

Lemma ws_frame_data_ne_complete p id x : ws_frame p (WsData id x) <> ws_frame p (WsComplete id).
Proof.
  cbn [ws_frame]. rewrite !frame_head_split. rewrite <- !app_assoc. intro H.
  apply app_inv_head in H. destruct p; vm_compute in H; discriminate.
Qed.

Lemma cons_eq {A} (a b : A) l l' : a :: l = b :: l' -> a = b /\ l = l'.
Proof. intro H. injection H as H1 H2. split; assumption. Qed.

Lemma ws_frames_inj p id : forall ps ps',
  map (ws_frame p) (map (WsData id) ps ++ [WsComplete id]) = map (ws_frame p) (map (WsData id) ps' ++ [WsComplete id]) -> ps = ps'.
Proof.
  induction ps as [|x ps IH]; intros [|y ps'] H.
  - reflexivity.
  - change (ws_frame p (WsComplete id) :: [] =
            ws_frame p (WsData id y) :: map (ws_frame p) (map (WsData id) ps' ++ [WsComplete id])) in H.
    apply cons_eq in H as [H _]. symmetry in H. exfalso. exact (ws_frame_data_ne_complete p id y H).
  - change (ws_frame p (WsData id x) :: map (ws_frame p) (map (WsData id) ps ++ [WsComplete id]) =
            ws_frame p (WsComplete id) :: []) in H.
    apply cons_eq in H as [H _]. exfalso. exact (ws_frame_data_ne_complete p id x H).
  - change (ws_frame p (WsData id x) :: map (ws_frame p) (map (WsData id) ps ++ [WsComplete id]) =
            ws_frame p (WsData id y) :: map (ws_frame p) (map (WsData id) ps' ++ [WsComplete id])) in H.
    apply cons_eq in H as [H1 H2]. f_equal; [exact (ws_frame_data_inj p id x y H1)|exact (IH ps' H2)].
Qed.

(** the framing of a transport is injective on (lists of) marshalled responses: two answers that
    are equal on the wire carry the same response bytes *)
Theorem frame_answer_inj_ws t id ps ps' :
  http_transport t = false -> frame_answer t id ps = frame_answer t id ps' -> ps = ps'.
Proof.
  unfold frame_answer. intros -> H. injection H as H. exact (ws_frames_inj _ id ps ps' H).
Qed.

Theorem frame_answer_inj_http t id b b' :
  http_transport t = true -> frame_answer t id [b] = frame_answer t id [b'] -> b = b'.
Proof. unfold frame_answer. intros -> H. injection H as H. exact H. Qed.

(** ** the wire answer is the framing of the pipeline's responses *)
Lemma data_of_app a b : data_of (a ++ b) = data_of a ++ data_of b.
Proof. unfold data_of. apply flat_map_app. Qed.

Section WireOf.
  Variables Schema Features Ctx Doc Resp : Type.
  Variable no_features : Features.
  Variable parse_validate : Schema -> Features -> Z * Z -> bytes -> bytes -> option gomap -> pv_result Doc Resp.
  Variable is_subscription : Doc -> bytes -> bool.
  Variable execute : bool -> Schema -> exec_request Features Doc -> Z -> Resp.
  Variable run_subscription : bool -> Schema -> exec_request Features Doc -> Z -> list Resp.
  Variable pq_ext : (request -> Resp * list (event Features Ctx Doc)) -> request -> Resp * list (event Features Ctx Doc).
  Variable marshal : Resp -> option bytes.
  Variable qk : quirks.
  Variable parse_std parse_jsi : bytes -> jparse.
  Variable render : json -> bytes.

  Lemma send_data_shape id r : map (WsData id) (data_of (send_data marshal id r)) = send_data marshal id r.
  Proof. unfold send_data. destruct (marshal r); reflexivity. Qed.

  Lemma send_all_shape id rs :
    map (WsData id) (data_of (flat_map (send_data marshal id) rs)) = flat_map (send_data marshal id) rs.
  Proof.
    induction rs as [|r rs IH]; [reflexivity|].
    cbn [flat_map]. rewrite data_of_app, map_app, send_data_shape, IH. reflexivity.
  Qed.

  (** everything HandleStart sends for operation [id]: data frames, then one complete *)
  Lemma handle_start_shape (a : api Schema Features Ctx) hf id q v n out tr :
    handle_start parse_validate is_subscription execute run_subscription marshal a hf false id q v n = (out, tr) ->
    out = map (WsData id) (data_of out) ++ [WsComplete id].
  Proof.
    unfold handle_start.
    destruct (parse_validate (a_schema a) hf (a_default_cost a) q n v) as [r|d cost].
    - intros [= <- _]. rewrite data_of_app. change (data_of [WsComplete id]) with (@nil bytes).
      rewrite app_nil_r, send_data_shape. reflexivity.
    - destruct (is_subscription d n); intros [= <- _].
      + rewrite data_of_app. change (data_of [WsComplete id]) with (@nil bytes).
        rewrite app_nil_r, send_all_shape. reflexivity.
      + rewrite data_of_app. change (data_of [WsComplete id]) with (@nil bytes).
        rewrite app_nil_r, send_data_shape. reflexivity.
  Qed.

  Notation resp := (respond no_features parse_validate is_subscription execute run_subscription pq_ext marshal qk parse_std parse_jsi render).
  Notation wire := (wire_respond no_features parse_validate is_subscription execute run_subscription pq_ext marshal qk parse_std parse_jsi render).

  (** whenever the client is answered with payloads [ps] (the marshalled responses of the pipeline),
      what it receives on the wire is exactly the transport's framing of [ps] *)
  Theorem wire_of_respond t (a : api Schema Features Ctx) c id o ps :
    fst (resp t a c id o) = Some ps -> wire t a c id o = frame_answer t id ps.
  Proof.
    unfold respond, wire_respond, frame_answer.
    destruct (encode render t id o) as [e|p f] eqn:E.
    - assert (Ht : http_transport t = true) by (destruct t; try reflexivity; discriminate). rewrite Ht.
      destruct (serve_graphql no_features parse_validate execute pq_ext marshal qk parse_std a c e) as [[code|body] tr];
        cbn [fst]; [discriminate|]. intros [= <-]. reflexivity.
    - assert (Ht : http_transport t = false /\ p = proto_of t /\ f_id f = id).
      { destruct t; try discriminate; cbn [encode] in E; injection E as <- <-; repeat split. }
      destruct Ht as (Ht & -> & Hid). rewrite Ht.
      unfold handle_init. cbn [fst].
      unfold serve_ws.
      destruct (handle_message parse_jsi (proto_of t) true (Some f)) as [| code | id' q v n |] eqn:HM; cbn [fst]; try discriminate.
      assert (Eid : id' = id).
      { unfold handle_message in HM. destruct (bytes_eqb (f_type f) (start_type (proto_of t))).
        - cbn [negb] in HM. destruct (decode_payload parse_jsi (f_payload f)); [injection HM as <- _ _ _; exact Hid | destruct (proto_of t); discriminate].
        - destruct (other_type (proto_of t) (f_type f)); [discriminate | destruct (proto_of t); discriminate]. }
      subst id'.
      destruct (handle_start parse_validate is_subscription execute run_subscription marshal a (features_of no_features a c) false id q v n) as [out tr] eqn:HS.
      cbn [fst]. intros [= <-]. rewrite (handle_start_shape _ _ _ _ _ _ _ _ HS) at 1. reflexivity.
  Qed.

  (** hence: two transports that give the same payloads give wire answers that are the two framings
      of one list of response bytes *)
  Corollary wire_same_response t1 t2 (a : api Schema Features Ctx) c id1 id2 o body :
    resp t1 a c id1 o = resp t2 a c id2 o -> fst (resp t1 a c id1 o) = Some [body] ->
    wire t1 a c id1 o = frame_answer t1 id1 [body] /\ wire t2 a c id2 o = frame_answer t2 id2 [body].
  Proof.
    intros EQ F. split; [apply wire_of_respond, F|]. apply wire_of_respond. rewrite <- EQ. exact F.
  Qed.
End WireOf.

(** ** the full statement: same wire answer modulo framing, and the same calls *)
From ApiFu Require Import Transport.EnvelopeProofs.

Section SameWire.
  Variable render : json -> bytes.
  Variable parse_std parse_jsi : bytes -> jparse.
  Variable clean : json -> Prop.
  Hypothesis std_faithful : forall j, clean j -> parse_std (render j) = PTree j.
  Hypothesis jsi_faithful : forall j, clean j -> parse_jsi (render j) = PTree j.
  Hypothesis render_nonempty : forall j, clean j -> is_empty (render j) = false.
  Variables Schema Features Ctx Doc Resp : Type.
  Variable no_features : Features.
  Variable parse_validate : Schema -> Features -> Z * Z -> bytes -> bytes -> option gomap -> pv_result Doc Resp.
  Variable is_subscription : Doc -> bytes -> bool.
  Variable execute : bool -> Schema -> exec_request Features Doc -> Z -> Resp.
  Variable run_subscription : bool -> Schema -> exec_request Features Doc -> Z -> list Resp.
  Variable pq_ext : (request -> Resp * list (event Features Ctx Doc)) -> request -> Resp * list (event Features Ctx Doc).
  Variable marshal : Resp -> option bytes.
  Hypothesis pq_no_ext : forall ex r, r_ext r = None -> pq_ext ex r = ex r.

  Notation resp := (respond no_features parse_validate is_subscription execute run_subscription pq_ext marshal fixed parse_std parse_jsi render).
  Notation wire := (wire_respond no_features parse_validate is_subscription execute run_subscription pq_ext marshal fixed parse_std parse_jsi render).

  Theorem transport_same_wire_answer t1 t2 (a : api Schema Features Ctx) c id1 id2 o :
    wf_op o = true -> carries t1 o = true -> carries t2 o = true ->
    (forall j, In j (sent_json t1 o) \/ In j (sent_json t2 o) -> clean j) ->
    (forall d cost, parse_validate (a_schema a) (features_of no_features a c) (a_default_cost a) (o_query o) (o_opname o) (o_vars o) = PVOk d cost ->
                    is_subscription d (o_opname o) = false) ->
    (forall r tr, validate_execute parse_validate execute a (features_of no_features a c) (request_of o) = (r, tr) -> marshal r <> None) ->
    exists body,
      wire t1 a c id1 o = frame_answer t1 id1 [body] /\ wire t2 a c id2 o = frame_answer t2 id2 [body] /\
      snd (resp t1 a c id1 o) = snd (resp t2 a c id2 o).
  Proof.
    intros W C1 C2 Cl NS MO.
    destruct (transport_same_response Schema Features Ctx Doc Resp no_features parse_validate is_subscription execute run_subscription
                pq_ext marshal render parse_std parse_jsi clean std_faithful jsi_faithful render_nonempty pq_no_ext
                t1 t2 a c id1 id2 o W C1 C2 Cl NS MO) as (EQ & body & F).
    exists body.
    destruct (wire_same_response Schema Features Ctx Doc Resp no_features parse_validate is_subscription execute run_subscription
                pq_ext marshal fixed parse_std parse_jsi render t1 t2 a c id1 id2 o body EQ F) as [W1 W2].
    repeat split; try assumption. rewrite EQ. reflexivity.
  Qed.

  (** a refused envelope: the 4xx status, Content-Type text/plain, nothing of the pipeline *)
  Theorem malformed_http_wire (a : api Schema Features Ctx) c e :
    http_well_formed parse_std e = false ->
    exists code, http_frame (fst (serve_graphql no_features parse_validate execute pq_ext marshal fixed parse_std a c e)) =
                 {| hw_status := code; hw_ctype := ct_text; hw_body := None |} /\ (400 <= code < 500)%Z /\
                 snd (serve_graphql no_features parse_validate execute pq_ext marshal fixed parse_std a c e) = [].
  Proof.
    intro H.
    destruct (malformed_http_4xx_no_exec Schema Features Ctx Doc Resp no_features parse_validate execute pq_ext marshal parse_std a c e H)
      as (code & E & R).
    exists code. rewrite E. repeat split; try reflexivity; apply R.
  Qed.
End SameWire.
