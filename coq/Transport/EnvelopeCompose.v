(** * Transport/EnvelopeCompose.v — C17 composed with C18: the [pq_ext] of the envelope model
    instantiated by C18's model of PersistedQueryExtension ([Api.PersistedQueryModel.step]), and
    the two facts the transport theorems need of it, derived from C18's theorem instead of assumed. *)
From Coq Require Import List NArith ZArith Bool String.
From ApiFu Require Import Base.Sexp Transport.EnvelopeModel Api.PersistedQueryModel Api.PersistedQueryProofs.
Import ListNotations.
Open Scope string_scope.
Open Scope N_scope.

Definition k_persisted : bytes := Eval vm_compute in bytes_of_string "persistedQuery".
Definition k_version : bytes := Eval vm_compute in bytes_of_string "version".
Definition k_hash : bytes := Eval vm_compute in bytes_of_string "sha256Hash".

Fixpoint map_get (k : bytes) (m : gomap) : option json :=
  match m with
  | [] => None
  | (k', v) :: r => if bytes_eqb k k' then Some v else map_get k r
  end.

(** how PersistedQueryExtension looks at [Request.Extensions] (C18's [ext]): the member
    "persistedQuery" if it is an object; its "version" is 1 (a float64 after JSON decoding: bits
    0x3FF0000000000000); its "sha256Hash" if a string *)
Definition pq_view (x : option gomap) : option ext :=
  match x with
  | None => None
  | Some m =>
      match map_get k_persisted m with
      | Some (JObj e) =>
          Some {| ext_version_one := match map_get k_version e with Some (JNum b) => b =? 4607182418800017408 | _ => false end;
                  ext_hash := match map_get k_hash e with Some (JStr s) => s | _ => [] end |}
      | _ => None
      end
  end.

Section Compose.
  Variables Resp Ev : Type.
  Variable sha : bytes -> bytes.
  Variable not_found : Resp.               (* the PersistedQueryNotFound response *)

  (** PersistedQueryExtension(storage, execute) on a storage in state [st] *)
  Definition pq_of (st : storage) (ex : EnvelopeModel.request -> Resp * list Ev) (r : EnvelopeModel.request) : Resp * list Ev :=
    match snd (fst (step sha false st {| rq_query := r_query r; rq_ext := pq_view (r_ext r) |})) with
    | Exec q => ex {| r_query := q; r_vars := r_vars r; r_opname := r_opname r; r_ext := r_ext r |}
    | NotFound => (not_found, [])
    end.

  (** from C18 ([disabled_equiv]): a request without extensions passes through unchanged *)
  Lemma pq_of_no_ext st ex r : r_ext r = None -> pq_of st ex r = ex r.
  Proof.
    intro H. unfold pq_of.
    rewrite (disabled_equiv sha st {| rq_query := r_query r; rq_ext := pq_view (r_ext r) |})
      by (left; cbn [rq_ext]; rewrite H; reflexivity).
    cbn [fst snd rq_query]. destruct r; reflexivity.
  Qed.

  Lemma pq_of_ext st ex1 ex2 : (forall r, ex1 r = ex2 r) -> forall r, pq_of st ex1 r = pq_of st ex2 r.
  Proof. intros H r. unfold pq_of. destruct (snd (fst (step sha false st _))); [apply H|reflexivity]. Qed.
End Compose.
