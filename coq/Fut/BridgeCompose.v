(** * Fut/BridgeCompose.v — C02's schedule independence composed with C01's refinement: every
    fair schedule and every choice of asynchronous resolvers yields the data of the GraphQL
    execution algorithm ([exec_spec]) and of C01's model of the synchronous executor. *)
From Coq Require Import List NArith ZArith Bool Lia.
From ApiFu Require Import Base.Sexp Fut.Plan Fut.Future Fut.ExecAsync Fut.ExecSync Fut.Denote Fut.FutSpec
     Fut.AsyncRun Fut.FutProofs Fut.BridgeC01 Fut.BridgeProofs Fut.BridgeNulls Fut.BridgeCands.
From ApiFu Require Exe.ExecData Exe.ExecSpec Exe.ExecModel Exe.ExecHyps Exe.ExecProofs.
Import ListNotations.

Lemma same_outcomes_ddata a b : same_outcomes a b -> ddata a = ddata b.
Proof. unfold same_outcomes. intros H. rewrite <- (strip_ddata a), H. apply strip_ddata. Qed.

Theorem schedule_yields_reference_data
  (code : ExecData.json -> Z) S Doc E fuel n W d errs md root sigma fuelr jfuel :
  ExecHyps.type_names_okb S = true -> ExecHyps.doc_positions_okb Doc = true ->
  ExecSpec.doc_ok S Doc E fuel n = true ->
  ExecModel.run ExecModel.fixed S Doc E fuel W = ExecModel.Done d errs ->
  same_outcomes root (plan_of code S Doc E fuel W) ->
  fair sigma -> count_async root <= fuelr -> resp_depth root < jfuel ->
  exists r, run fixed_flags sigma md fuelr jfuel root = Done r /\
            r_data r = tr_data code d /\
            r_data r = tr_data code (ExecSpec.data (ExecSpec.exec_spec S Doc E fuel W)) /\
            conforms root (r_data r) (r_errors r).
Proof.
  intros Hn Hp Hd Hr Same Fa Hf Hj.
  destruct (run_conforms md sigma fuelr jfuel root Fa Hf Hj) as (r & Er & C & Ds & _).
  exists r. split; auto.
  assert (X : r_data r = tr_data code (ExecSpec.data (ExecSpec.exec_spec S Doc E fuel W))).
  { rewrite Ds. unfold data_shape. rewrite (same_outcomes_ddata _ _ Same). apply bridge_data. }
  split; [|split; auto].
  rewrite X. f_equal. symmetry. exact (ExecProofs.exec_data_eq S Doc E fuel Hn Hp n Hd W d errs Hr).
Qed.

(** the failure-nulls of the reference sit at the paths of the plan's visible nulls, and every one
    of them gets an error under every schedule *)
Theorem schedule_yields_reference_nulls
  (code : ExecData.json -> Z) S Doc E fuel W md root sigma fuelr jfuel :
  same_outcomes root (plan_of code S Doc E fuel W) ->
  fair sigma -> count_async root <= fuelr -> resp_depth root < jfuel ->
  exists r, run fixed_flags sigma md fuelr jfuel root = Done r /\
            null_paths (ExecSpec.failure_nulls (ExecSpec.exec_spec S Doc E fuel W)) = site_paths (visible_nulls root) /\
            Forall (fun x => exists e, In e (r_errors r) /\ lands e x) (visible_nulls root).
Proof.
  intros Same Fa Hf Hj.
  destruct (run_conforms md sigma fuelr jfuel root Fa Hf Hj) as (r & Er & C & _).
  exists r. split; auto. split; [|apply (cf_nulls _ _ _ C)].
  rewrite (bridge_null_paths code S Doc E fuel W). f_equal.
  unfold same_outcomes in Same. rewrite <- (strip_visible root), Same. symmetry. apply strip_visible.
Qed.

(** data, failure-nulls and their candidates together: the response of every schedule against the
    reference of the GraphQL algorithm (source locations erased on C01's side, error kinds on this
    side, leaf values through [code]) *)
Theorem schedule_yields_reference_response
  (code : ExecData.json -> Z) S Doc E fuel n W d errs md root sigma fuelr jfuel :
  ExecHyps.type_names_okb S = true -> ExecHyps.doc_positions_okb Doc = true ->
  ExecSpec.doc_ok S Doc E fuel n = true ->
  ExecModel.run ExecModel.fixed S Doc E fuel W = ExecModel.Done d errs ->
  same_outcomes root (plan_of code S Doc E fuel W) ->
  fair sigma -> count_async root <= fuelr -> resp_depth root < jfuel ->
  exists r, run fixed_flags sigma md fuelr jfuel root = Done r /\
            r_data r = tr_data code d /\
            null_sites (ExecSpec.failure_nulls (ExecSpec.exec_spec S Doc E fuel W)) = plan_sites (visible_nulls root) /\
            conforms root (r_data r) (r_errors r).
Proof.
  intros Hn Hp Hd Hr Same Fa Hf Hj.
  destruct (schedule_yields_reference_data code S Doc E fuel n W d errs md root sigma fuelr jfuel
              Hn Hp Hd Hr Same Fa Hf Hj) as (r & Er & D1 & _ & C).
  exists r. split; auto. split; auto. split; auto.
  rewrite (bridge_candidates code S Doc E fuel n W Hd). f_equal.
  unfold same_outcomes in Same. rewrite <- (strip_visible root), Same. symmetry. apply strip_visible.
Qed.
