(** * Fut/SyncMust.v — the synchronous reference reports an error for every failure-null it leaves
    visible (completeness of its errors); with [run_sync_ok] (SyncProofs.v) it [conforms] to its
    own plan. *)
From Coq Require Import List NArith ZArith Bool Lia Permutation.
From ApiFu Require Import Base.Sexp Fut.Plan Fut.ExecSync Fut.Denote Fut.SubPerm Fut.SyncProofs Fut.FutSpec.
Import ListNotations.

Definition fired (errs : list err) (x : site) : Prop := exists e, In e errs /\ lands e x.

Lemma Forall_fired_mono errs de l : Forall (fired errs) l -> Forall (fired (errs ++ de)) l.
Proof.
  intros H. eapply Forall_impl; [|exact H]. intros x (e & I & L). exists e. split; auto.
  apply in_or_app. now left.
Qed.

Definition on_ok (out : sres * list err) (must : list site) : Prop :=
  match fst out with SOk _ => Forall (fired (snd out)) must | SFail _ => True end.

Definition QV (v : vplan) : Prop := forall p errs, on_ok (sync_inner v p errs) (must_I v p).
Definition QF (f : fplan) : Prop := forall p errs, on_ok (sync_field f p errs) (must_F f p).

Lemma sync_nn_ok_inv nn p r j : sync_nn nn p r = SOk j -> r = SOk j.
Proof. unfold sync_nn. destruct nn; auto. destruct r as [[| | |]|]; auto; discriminate. Qed.

(** one list item, after the non-null wrapper and the catch *)
Lemma item_must inn x q errs : QV x ->
  let '(r, e1) := sync_inner x q errs in
  let '(r1, e2) := sync_catch inn (sync_nn inn q r) e1 in
  match r1 with SOk _ => Forall (fired e2) (must_CI inn x q) | SFail _ => True end.
Proof.
  intros Hx. pose proof (Hx q errs) as H. pose proof (proj1 sync_char x q errs) as C.
  destruct (sync_inner x q errs) as [r e1]. unfold on_ok in H. cbn [fst snd] in *.
  destruct C as (de & ls & _ & _ & _ & M). unfold must_CI, must_catch, sync_catch. destruct inn.
  - destruct (sync_nn true q r) as [j|e] eqn:E; auto. apply sync_nn_ok_inv in E. subst r. exact H.
  - unfold sync_nn. destruct r as [j|e].
    + destruct M as [Fl _]. unfold fails_w. rewrite Fl. simpl. exact H.
    + destruct M as [Fl In]. unfold fails_w. rewrite Fl. simpl. constructor; [|constructor].
      exists e. split; [apply in_or_app; right; now left | exact In].
Qed.

Lemma items_must inn p l : Forall QV l -> forall i errs,
  first_fail (fst (sync_items sync_inner inn p l i errs)) = None ->
  Forall (fired (snd (sync_items sync_inner inn p l i errs))) (must_items must_I inn p l i).
Proof.
  induction 1 as [|x tl Hx Ft IH]; intros i errs FF; [constructor|].
  pose proof (item_must inn x (PIdx i :: p) errs Hx) as It.
  simpl in FF |- *. destruct (sync_inner x (PIdx i :: p) errs) as [r e1].
  destruct (sync_catch inn (sync_nn inn (PIdx i :: p) r) e1) as [r1 e2].
  pose proof (IH (S i) e2) as IHt.
  assert (Ft' : Forall PV tl) by (apply Forall_forall; intros y _; apply (proj1 sync_char)).
  destruct (sync_items_ok inn p tl Ft' (S i) e2) as (de & _ & E & _).
  destruct (sync_items sync_inner inn p tl (S i) e2) as [rs e3]. cbn [fst snd] in *.
  destruct r1 as [j|e]; [|discriminate]. apply Forall_app. split.
  - rewrite E. now apply Forall_fired_mono.
  - now apply IHt.
Qed.

(** one field of a selection set, after the catch *)
Lemma field_must f q errs : QF f ->
  let '(r, e1) := sync_field f q errs in
  match sync_catch (fp_nn f) r e1 with
  | (SOk _, e2) => Forall (fired e2) (must_CF f q)
  | (SFail _, _) => True
  end.
Proof.
  intros Hf. pose proof (Hf q errs) as H. pose proof (proj2 sync_char f q errs) as C.
  destruct (sync_field f q errs) as [r e1]. unfold on_ok in H. cbn [fst snd] in *.
  destruct C as (de & ls & _ & _ & _ & M). unfold must_CF, must_catch, sync_catch. destruct (fp_nn f).
  - destruct r; auto.
  - destruct r as [j|e].
    + destruct M as [Fl _]. rewrite Fl. exact H.
    + destruct M as [Fl In]. rewrite Fl. constructor; [|constructor].
      exists e. split; [apply in_or_app; right; now left | exact In].
Qed.

Lemma sel_must p l : Forall (fun kf => QF (snd kf)) l -> forall acc errs,
  on_ok (sync_sel sync_field p l acc errs) (must_sel must_F p l).
Proof.
  induction 1 as [|[k f] tl Hf Ft IH]; intros acc errs; [constructor|].
  simpl in Hf. pose proof (field_must f (PKey k :: p) errs Hf) as Fm.
  unfold on_ok. simpl. destruct (sync_field f (PKey k :: p) errs) as [r e1].
  replace (match f with FP _ nn _ => nn end) with (fp_nn f) by (now destruct f).
  destruct (sync_catch (fp_nn f) r e1) as [[j|e] e2]; [|exact I].
  pose proof (IH ((k, j) :: acc) e2) as IHt. unfold on_ok in IHt.
  assert (Ft' : Forall (fun kf => PF (snd kf)) tl) by (apply Forall_forall; intros y _; apply (proj2 sync_char)).
  destruct (sync_sel_ok p tl Ft' ((k, j) :: acc) e2) as (de & _ & E & _).
  destruct (sync_sel sync_field p tl ((k, j) :: acc) e2) as [[j2|e'] e3]; cbn [fst snd] in *; [|exact I].
  apply Forall_app. split; [rewrite E; now apply Forall_fired_mono | exact IHt].
Qed.

Theorem sync_must : (forall v, QV v) /\ (forall f, QF f).
Proof.
  apply plan_ind.
  - intros p errs. constructor.
  - intros z p errs. constructor.
  - intros p errs. exact I.
  - intros inn items F p errs. unfold on_ok.
    change (sync_inner (VList inn items) p errs)
      with (let '(rs, errs1) := sync_items sync_inner inn p items 0 errs in
            (match first_fail rs with Some e => SFail e | None => SOk (JList (oks rs)) end, errs1)).
    pose proof (items_must inn p items F 0 errs) as H.
    destruct (sync_items sync_inner inn p items 0 errs) as [rs e1]. cbn [fst snd] in *.
    destruct (first_fail rs); [exact I | now apply H].
  - intros fields F p errs. apply (sel_must p fields F [] errs).
  - intros tag nn p errs. exact I.
  - intros tag nn v Hv p errs. unfold on_ok. simpl. pose proof (Hv p errs) as H. unfold on_ok in H.
    destruct (sync_inner v p errs) as [r e1]. cbn [fst snd] in *.
    destruct (sync_nn nn p r) as [j|e] eqn:E; auto. apply sync_nn_ok_inv in E. now subst r.
Qed.

(** the reference conforms to its own plan *)
Theorem run_sync_conforms root : conforms root (sr_data (run_sync root)) (sr_errors (run_sync root)).
Proof.
  constructor; [reflexivity | apply (run_sync_ok root) |].
  unfold run_sync, visible_nulls.
  pose proof (proj1 sync_must (VObj root) [] []) as H. unfold on_ok in H.
  destruct (proj1 sync_char (VObj root) [] []) as (de & ls & _ & _ & _ & M).
  destruct (sync_inner (VObj root) [] []) as [[j|e] errs]; cbn [fst snd sr_errors] in *.
  - destruct M as [Fl _]. rewrite Fl. exact H.
  - destruct M as [Fl In]. rewrite Fl. constructor; [|constructor].
    exists e. split; [apply in_or_app; right; now left | exact In].
Qed.
