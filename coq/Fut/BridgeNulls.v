(** * Fut/BridgeNulls.v — the bridge to C01, second part: the failure-nulls C01's reference leaves
    visible ([failure_nulls]) sit at exactly the response paths of the plan's [visible_nulls]. *)
From Coq Require Import List NArith ZArith Bool Lia.
From ApiFu Require Import Base.Sexp Fut.Plan Fut.ExecSync Fut.Denote Fut.FutSpec Fut.BridgeC01 Fut.BridgeProofs.
From ApiFu Require ExeA.ArgData ExeA.ArgArgs ExeA.ArgSpec Val.Values.
Import ListNotations.

Definition trc (c : D.pathc) : pelem :=
  match c with D.PKey k => PKey k | D.PIdx i => PIdx (N.to_nat i) end.
Definition trp (p : D.rpath) : list pelem := map trc p.

Section BridgeNulls.
  Variable code : D.json -> Z.
  Variables (S : D.schema) (Doc : D.document) (E : D.env) (fuel : nat).
  Notation planner := BridgeC01.planner.

  Definition null_paths (l : list (D.rpath * list D.gerror)) : list (list pelem) := map (fun s => trp (fst s)) l.
  Definition site_paths (l : list site) : list (list pelem) := map fst l.

  (** a completed value and the plan of its position, seen from the nulls *)
  Definition NRel (x : X.sout) (res : option vplan) (path : D.rpath) (p : rpath) : Prop :=
    trp path = slice p ->
    match X.so_val x with
    | Some _ => null_paths (X.so_nulls x) = site_paths (must_I (unres res) p)
    | None => True
    end.
  Definition CNRel (c : X.scompleter) (pc : planner) : Prop :=
    CRel code c pc /\ forall ty fields path p, NRel (c ty fields path) (pc ty fields) path p.

  (** after the position wrapper *)
  Definition NPRel (nn : bool) (x : X.sout) (v : vplan) (q : rpath) : Prop :=
    match X.so_val x with
    | Some _ => null_paths (X.so_nulls x) =
                site_paths (must_catch nn q (fails_w nn v) (fst (cand_nn nn q v (cand_inner v q))) (must_I v q))
    | None => True
    end.

  Lemma site_paths_catch nn q fails esc inner :
    site_paths (must_catch nn q fails esc inner) =
    if nn then site_paths inner else if fails then [slice q] else site_paths inner.
  Proof. unfold must_catch. destruct nn; auto. destruct fails; auto. Qed.

  Lemma position_nrel t path q x res :
    Rel code t x res -> NRel x res path q -> trp path = slice q ->
    NPRel (is_nn t) (X.s_position t path x) (unres res) q.
  Proof.
    intros R N Ep. specialize (N Ep). unfold NPRel. rewrite site_paths_catch.
    unfold Rel, pos_fails in R. set (v := unres res) in *. unfold fails_w.
    destruct t as [n|t'|t']; simpl in *.
    - unfold X.s_catch. rewrite orb_false_r in *. destruct (X.so_val x) as [j|] eqn:Ex.
      + rewrite Ex. destruct R as [F _]. rewrite F. exact N.
      + simpl. rewrite R. unfold null_paths. simpl. now rewrite Ep.
    - unfold X.s_catch. rewrite orb_false_r in *. destruct (X.so_val x) as [j|] eqn:Ex.
      + rewrite Ex. destruct R as [F _]. rewrite F. exact N.
      + simpl. rewrite R. unfold null_paths. simpl. now rewrite Ep.
    - destruct (X.so_val x) as [j|]; auto.
  Qed.

  Lemma null_paths_app a b : null_paths (a ++ b) = null_paths a ++ null_paths b.
  Proof. unfold null_paths. apply map_app. Qed.
  Lemma site_paths_app a b : site_paths (a ++ b) = site_paths a ++ site_paths b.
  Proof. unfold site_paths. apply map_app. Qed.

  Lemma trp_snoc path c : trp (path ++ [c]) = trp path ++ [trc c].
  Proof. unfold trp. now rewrite map_app. Qed.
  Lemma slice_cons e p : slice (e :: p) = slice p ++ [e].
  Proof. reflexivity. Qed.

  (** ** selection sets *)
  Definition ENRel (p : rpath) (e : D.name * X.sout) (pe : bytes * fplan) : Prop :=
    match X.so_val (snd e) with
    | Some _ => null_paths (X.so_nulls (snd e)) = site_paths (must_CF (snd pe) (PKey (fst pe) :: p))
    | None => True
    end.

  Lemma must_CF_paths nn res q :
    site_paths (must_CF (FP None nn res) q) =
    site_paths (must_catch nn q (fails_w nn (unres res)) (fst (cand_nn nn q (unres res) (cand_inner (unres res) q)))
                           (must_I (unres res) q)).
  Proof.
    unfold must_CF. rewrite !site_paths_catch. cbn [fp_nn].
    replace (fails_f (FP None nn res)) with (fails_w nn (unres res)) by (destruct res; reflexivity).
    replace (must_F (FP None nn res) q) with (must_I (unres res) q) by (destruct res; reflexivity).
    reflexivity.
  Qed.

  Lemma entry_nrel children pchildren ot path p kf :
    (forall n, CNRel (children n) (pchildren n)) -> trp path = slice p ->
    Forall2 (ENRel p) (X.s_entry S children ot path kf) (p_entry code S pchildren ot kf).
  Proof.
    intros C Ep. unfold X.s_entry, p_entry. destruct (snd kf) as [|f fs]; [constructor|].
    destruct (X.s_field_kind S ot (D.fn_name f)) as [| |t|]; try (constructor; [|constructor]).
    - reflexivity.
    - reflexivity.
    - unfold ENRel. cbn [fst snd].
      destruct (C (D.fn_name f)) as [CR CN].
      assert (Eq : trp (path ++ [D.PKey (fst kf)]) = slice (PKey (fst kf) :: p))
        by (rewrite trp_snoc, slice_cons, Ep; reflexivity).
      pose proof (position_nrel t (path ++ [D.PKey (fst kf)]) (PKey (fst kf) :: p) _ _
                    (CR t (f :: fs) (path ++ [D.PKey (fst kf)]))
                    (CN t (f :: fs) (path ++ [D.PKey (fst kf)]) (PKey (fst kf) :: p)) Eq) as P.
      unfold NPRel in P. rewrite must_CF_paths. exact P.
    - constructor.
  Qed.

  Lemma all_entries_nulls p (es : list (D.name * X.sout)) (ps : list (bytes * fplan)) :
    Forall2 (ENRel p) es ps -> forall js, X.vals_of (map snd es) = Some js ->
    null_paths (flat_map X.so_nulls (map snd es)) = site_paths (must_sel must_F p ps).
  Proof.
    induction 1 as [|e [k f] es ps R _ IH]; intros js V; [reflexivity|].
    cbn [map X.vals_of flat_map] in *. unfold ENRel in R. cbn [fst snd] in R.
    destruct (X.so_val (snd e)) as [j|]; [|discriminate].
    destruct (X.vals_of (map snd es)) as [js'|]; [|discriminate].
    rewrite null_paths_app. change (must_sel must_F p ((k, f) :: ps)) with (must_CF f (PKey k :: p) ++ must_sel must_F p ps).
    rewrite site_paths_app, R, (IH js' eq_refl). reflexivity.
  Qed.

  Lemma with_args_cnrel children pchildren ot :
    (forall n, CNRel (children n) (pchildren n)) ->
    forall n, CNRel (X.s_with_args S Doc children ot n) (p_with_args S Doc pchildren ot n).
  Proof.
    intros C n. split; [apply with_args_rel; intros k; apply (C k)|].
    intros ty fields path p. unfold X.s_with_args, p_with_args.
    destruct fields as [|f fs]; [intros _; exact Logic.I|].
    destruct (ArgArgs.coerce_field_args S Doc ot f); [apply (C _) | intros _; exact Logic.I | intros _; exact Logic.I].
  Qed.

  Lemma selection_set_nrel children pchildren ot sels path p :
    (forall n, CNRel (children n) (pchildren n)) -> trp path = slice p ->
    match X.so_val (X.s_selection_set S Doc E fuel children ot sels path) with
    | Some _ => null_paths (X.so_nulls (X.s_selection_set S Doc E fuel children ot sels path)) =
                site_paths (must_I (p_selection_set code S Doc E fuel pchildren ot sels) p)
    | None => True
    end.
  Proof.
    intros C0 Ep. pose proof (with_args_cnrel children pchildren ot C0) as C.
    unfold X.s_selection_set, X.s_selection_set_raw, p_selection_set.
    destruct (X.s_collect S Doc E fuel ot sels) as [groups|]; [|exact I].
    pose proof (Forall2_flat_map (ENRel p) _ _ groups
                  (fun kf => entry_nrel (X.s_with_args S Doc children ot) (p_with_args S Doc pchildren ot) ot path p kf C Ep)) as F.
    pose proof (all_entries_nulls p _ _ F) as A. unfold X.s_all.
    destruct (X.vals_of (map snd (flat_map (X.s_entry S (X.s_with_args S Doc children ot) ot path) groups))) as [js|]; cbn [X.so_val X.so_nulls]; [|exact I].
    exact (A js eq_refl).
  Qed.

  (** ** lists *)
  Lemma items_nrel t fields path p (items : list X.scompleter) (pitems : list planner) :
    Forall2 CNRel items pitems -> trp path = slice p -> forall i js,
    X.vals_of (X.s_items t fields path items i) = Some js ->
    null_paths (flat_map X.so_nulls (X.s_items t fields path items i)) =
    site_paths (must_items must_I (is_nn t) p (map (fun c => unres (c t fields)) pitems) (N.to_nat i)).
  Proof.
    intros F Ep. induction F as [|c pc items pitems [CR CN] _ IH]; intros i js V; [reflexivity|].
    cbn [X.s_items map flat_map X.vals_of] in *.
    assert (Eq : trp (path ++ [D.PIdx i]) = slice (PIdx (N.to_nat i) :: p))
      by (rewrite trp_snoc, slice_cons, Ep; reflexivity).
    pose proof (position_nrel t (path ++ [D.PIdx i]) (PIdx (N.to_nat i) :: p) _ _
                  (CR t fields (path ++ [D.PIdx i])) (CN t fields (path ++ [D.PIdx i]) (PIdx (N.to_nat i) :: p)) Eq) as P.
    unfold NPRel in P.
    destruct (X.so_val (X.s_position t (path ++ [D.PIdx i]) (c t fields (path ++ [D.PIdx i])))) as [j|]; [|discriminate].
    destruct (X.vals_of (X.s_items t fields path items (i + 1)%N)) as [js'|] eqn:V'; [|discriminate].
    rewrite null_paths_app.
    change (must_items must_I (is_nn t) p (unres (pc t fields) :: map (fun c0 => unres (c0 t fields)) pitems) (N.to_nat i))
      with (must_CI (is_nn t) (unres (pc t fields)) (PIdx (N.to_nat i) :: p) ++
            must_items must_I (is_nn t) p (map (fun c0 => unres (c0 t fields)) pitems) (Datatypes.S (N.to_nat i))).
    rewrite site_paths_app. unfold must_CI. rewrite P. f_equal.
    rewrite (IH (i + 1)%N js' V'). f_equal. f_equal. lia.
  Qed.

  (** ** CompleteValue *)
  Lemma view_nrel (v : X.sview) (pv : pview) :
    X.sv_null v = pv_null pv -> X.sv_leaf v = pv_leaf pv -> X.sv_tag v = pv_tag pv ->
    match X.sv_items v, pv_items pv with
    | Some a, Some b => Forall2 CNRel a b
    | None, None => True
    | _, _ => False
    end ->
    (forall n, CNRel (X.sv_field v n) (pv_field pv n)) ->
    forall ty fields path p,
      NRel (X.s_complete_view S Doc E fuel v ty fields path) (plan_view code S Doc E fuel pv ty fields) path p.
  Proof.
    intros En El Et Ei Ef ty. induction ty as [n|t IH|t IH]; intros fields path p Ep.
    - cbn [X.s_complete_view plan_view]. rewrite <- En, <- El, <- Et.
      destruct (X.sv_null v); [reflexivity|].
      assert (Obj : forall ot,
                 match X.so_val (X.s_selection_set S Doc E fuel (X.sv_field v) ot (X.s_merge_selection_sets fields) path) with
                 | Some _ => null_paths (X.so_nulls (X.s_selection_set S Doc E fuel (X.sv_field v) ot (X.s_merge_selection_sets fields) path)) =
                             site_paths (must_I (unres (Some (p_selection_set code S Doc E fuel (pv_field pv) ot (X.s_merge_selection_sets fields)))) p)
                 | None => True
                 end) by (intros ot; apply selection_set_nrel; auto).
      destruct (D.lookup_type S n) as [[k|vals|fs ifs|fs|ms|]|]; try exact I.
      + destruct (D.coerce_scalar true k (X.sv_leaf v)); [reflexivity | exact I].
      + destruct (D.coerce_enum vals (X.sv_leaf v)); [reflexivity | exact I].
      + apply Obj.
      + destruct (X.s_resolve_abstract S n (X.sv_tag v)); [apply Obj | exact I].
      + destruct (X.s_resolve_abstract S n (X.sv_tag v)); [apply Obj | exact I].
    - cbn [X.s_complete_view plan_view]. rewrite <- En.
      destruct (X.sv_null v); [reflexivity|].
      destruct (X.sv_items v) as [items|], (pv_items pv) as [pitems|]; try contradiction; [|exact I].
      pose proof (items_nrel t fields path p items pitems Ei Ep 0%N) as A.
      unfold X.s_all. destruct (X.vals_of (X.s_items t fields path items 0%N)) as [js|]; cbn [X.so_val X.so_nulls]; [|exact I].
      exact (A js eq_refl).
    - cbn [X.s_complete_view plan_view]. specialize (IH fields path p Ep).
      destruct (X.so_val (X.s_complete_view S Doc E fuel v t fields path)) as [[]|] eqn:Ex;
        cbn [X.so_val]; rewrite ?Ex; auto.
  Qed.

  Lemma cnrel_resolver_error : CNRel X.s_resolver_error p_resolver_error.
  Proof. split; [apply crel_resolver_error | intros ty fields path p _; exact I]. Qed.

  Lemma cn_field_of' (fs : list (D.name * D.outcome)) :
    Forall (fun nf => CNRel (X.s_complete S Doc E fuel (snd nf)) (plan_complete code S Doc E fuel (snd nf))) fs ->
    forall n,
      CNRel (X.s_field_of (map (fun p : D.name * D.outcome =>
                                  match p with
                                  | (n0, o') => (n0, match o' with
                                                     | D.OErr => X.s_resolver_error
                                                     | _ => X.s_complete S Doc E fuel o'
                                                     end)
                                  end) fs) n)
            (p_field_of (map (fun p : D.name * D.outcome =>
                                match p with
                                | (n0, o') => (n0, match o' with
                                                   | D.OErr => p_resolver_error
                                                   | _ => plan_complete code S Doc E fuel o'
                                                   end)
                                end) fs) n).
  Proof.
    intros H n. unfold X.s_field_of, p_field_of.
    induction H as [|[k o] l Ho _ IH]; cbn [map D.assoc]; [apply cnrel_resolver_error|].
    destruct (D.name_eqb n k); [|exact IH].
    cbn [snd] in Ho. destruct o; try exact Ho. apply cnrel_resolver_error.
  Qed.

  Lemma complete_cnrel o : CNRel (X.s_complete S Doc E fuel o) (plan_complete code S Doc E fuel o).
  Proof.
    split; [apply complete_rel|].
    induction o as [| | |g|l IH|t fs IH] using outcome_ind2.
    - apply view_nrel; try reflexivity; try exact I; intros n; apply cnrel_resolver_error.
    - apply view_nrel; try reflexivity; try exact I; intros n; apply cnrel_resolver_error.
    - apply view_nrel; try reflexivity; try exact I; intros n; apply cnrel_resolver_error.
    - apply view_nrel; try reflexivity; try exact I; intros n; apply cnrel_resolver_error.
    - apply view_nrel; try reflexivity; [|intros n; apply cnrel_resolver_error].
      cbn [X.sv_items pv_items]. induction IH as [|x l Hx _ IHl]; constructor; auto.
      split; [apply complete_rel | exact Hx].
    - apply view_nrel; try reflexivity; try exact I.
      cbn [X.sv_field pv_field]. apply cn_field_of'.
      eapply Forall_impl; [|exact IH]. intros nf H. split; [apply complete_rel | exact H].
  Qed.

  Lemma resolve_cnrel o : CNRel (X.s_resolve S Doc E fuel o) (plan_resolve code S Doc E fuel o).
  Proof. destruct o; try apply complete_cnrel. apply cnrel_resolver_error. Qed.

  Lemma children_cnrel W n : CNRel (X.s_children_of S Doc E fuel W n) (plan_children_of code S Doc E fuel W n).
  Proof.
    destruct W; cbn [X.s_children_of plan_children_of]; try apply cnrel_resolver_error.
    unfold X.s_field_of, p_field_of.
    induction fields as [|[k o] l IH]; cbn [map D.assoc fst snd]; [apply cnrel_resolver_error|].
    destruct (D.name_eqb n k); [apply resolve_cnrel | exact IH].
  Qed.

  (** ** the response: C01's failure nulls sit at the paths of the plan's visible nulls *)
  Theorem bridge_null_paths W :
    null_paths (X.failure_nulls (X.exec_spec S Doc E fuel W)) =
    site_paths (visible_nulls (plan_of code S Doc E fuel W)).
  Proof.
    unfold plan_of, X.exec_spec.
    destruct (X.s_root_type S (D.op_kind Doc)) as [rt|]; [|reflexivity].
    pose proof (selection_set_rel code S Doc E fuel (X.s_children_of S Doc E fuel W) (plan_children_of code S Doc E fuel W)
                                  rt (D.op_sels Doc) [] (fun n => proj1 (children_cnrel W n))) as R.
    pose proof (selection_set_nrel (X.s_children_of S Doc E fuel W) (plan_children_of code S Doc E fuel W)
                                   rt (D.op_sels Doc) [] [] (children_cnrel W) eq_refl) as N.
    assert (Sh : p_selection_set code S Doc E fuel (plan_children_of code S Doc E fuel W) rt (D.op_sels Doc) = VBad \/
                 exists fs, p_selection_set code S Doc E fuel (plan_children_of code S Doc E fuel W) rt (D.op_sels Doc) = VObj fs).
    { unfold p_selection_set. destruct (X.s_collect S Doc E fuel rt (D.op_sels Doc)); [right; eauto | now left]. }
    destruct (X.so_val (X.s_selection_set S Doc E fuel (X.s_children_of S Doc E fuel W) rt (D.op_sels Doc) [])) as [j|];
      cbn [X.failure_nulls].
    - destruct R as [F _]. destruct Sh as [Sh|[fs Sh]]; rewrite Sh in *; [discriminate|].
      unfold visible_nulls. rewrite F. exact N.
    - destruct Sh as [Sh|[fs Sh]]; rewrite Sh in *; [reflexivity|].
      unfold visible_nulls. rewrite R. reflexivity.
  Qed.
End BridgeNulls.
