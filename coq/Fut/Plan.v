(** * Fut/Plan.v — execution plan trees, paths, errors, values (shared by C02 and C11).

    A plan tree is what the executor sees after field collection, with schema and document
    abstracted away: a selection set is an ordered list of (response key, field plan); a field
    plan says how the resolver answers (synchronously or through a promise, with a value or an
    error), whether the field type is non-null, and which Go value it delivers, described
    relative to the field's type (leaf / list of items / object with a nested selection set). *)
From Coq Require Import List NArith ZArith Bool.
From ApiFu Require Import Base.Sexp.
Import ListNotations.

Inductive vplan :=
| VNull                                          (* nil *)
| VLeaf (z : Z)                                  (* a value its scalar type accepts *)
| VBad                                           (* a value of the wrong Go kind for the type at this
                                                    position (string for Int, non-slice for a list):
                                                    completeValue answers with a completion error *)
| VList (item_nn : bool) (items : list vplan)    (* a slice; the item type is non-null iff item_nn *)
| VObj (fields : list (bytes * fplan))           (* an object value together with the collected
                                                    sub-selection (response key, plan) *)
with fplan :=
| FP (tag : option N)        (* Some t: the resolver returns a ResolvePromise (t is a static label the
                                scheduler may look at); None: it answers synchronously *)
     (nn : bool)             (* the field's type is non-null *)
     (res : option vplan).   (* None: resolver error / promise fulfilled with an error, where "error" is
                                what the executor's isNil says it is: an error value that is not nil and
                                not a nil pointer inside the interface.  A value accompanied by a
                                typed-nil error is [Some v] on both delivery routes (the harness
                                delivers such outcomes; abstraction = isNil) *)

Definition selset := list (bytes * fplan).

(** ** Response paths.  Go's [*path] is a linked list whose head is the LAST component
    (executor/path.go); [Slice()] reverses it. *)
Inductive pelem := PKey (k : bytes) | PIdx (i : nat).
Definition rpath := list pelem.
Definition slice (p : rpath) : list pelem := rev p.

Definition pelem_eqb (a b : pelem) : bool :=
  match a, b with
  | PKey x, PKey y => bytes_eqb x y
  | PIdx x, PIdx y => Nat.eqb x y
  | _, _ => false
  end.
Fixpoint path_eqb (a b : list pelem) : bool :=
  match a, b with
  | [], [] => true
  | x :: xs, y :: ys => pelem_eqb x y && path_eqb xs ys
  | _, _ => false
  end.

(** ** Errors: the response path plus which site of the executor produced it. *)
Inductive ekind :=
| KResolve     (* newFieldResolveError: resolver error or promise fulfilled with an error *)
| KNullNN      (* "Null result for non-null field." *)
| KBad         (* "Unexpected result…" / "Result is not a list." *)
| KRaw.        (* the raw error travelling from the promise channel to Then's continuation *)
Record err := mkerr { e_path : list pelem; e_kind : ekind }.
Definition err_at (p : rpath) (k : ekind) : err := mkerr (slice p) k.

(** ** Go values flowing through futures ([any], [[]any], [*OrderedMap], [struct{}]). *)
Inductive gval :=
| GNil                       (* nil interface *)
| GInt (z : Z)
| GList (l : list gval)
| GMap (m : nat)             (* *OrderedMap: a pointer into the heap of result maps *)
| GNilMap                    (* a nil pointer of type *OrderedMap: only the unrepaired MapOkValue produces it *)
| GUnit.                     (* struct{}{} *)

Inductive result := ROk (v : gval) | RErr (e : err).

(** ** The JSON shape of [Response.Data]. *)
Inductive json :=
| JNull
| JInt (z : Z)
| JList (l : list json)
| JObj (kvs : list (bytes * json)).

(** ** Sizes *)
Fixpoint count_async_v (v : vplan) : nat :=
  match v with
  | VList _ items => (fix go (l : list vplan) : nat := match l with [] => 0 | x :: tl => count_async_v x + go tl end) items
  | VObj fields => (fix go (l : list (bytes * fplan)) : nat :=
                      match l with [] => 0 | (_, f) :: tl => count_async_f f + go tl end) fields
  | _ => 0
  end
with count_async_f (f : fplan) : nat :=
  match f with
  | FP tag _ res => (match tag with Some _ => 1 | None => 0 end) +
                    (match res with Some v => count_async_v v | None => 0 end)
  end.
Definition count_async (sel : selset) : nat := count_async_v (VObj sel).
