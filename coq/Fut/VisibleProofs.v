(** * Fut/VisibleProofs.v — the structural definition of the visible failure-nulls
    ([visible_nulls] / [must_I]) agrees with the reading of the data that the oracle uses
    ([visible_failure_null]: a site whose candidate list is not empty and at whose response path
    the data shows null). *)
From Coq Require Import List NArith ZArith Bool Lia.
From ApiFu Require Import Base.Sexp Fut.Plan Fut.ExecSync Fut.Denote Fut.FutSpec.
Import ListNotations.

(** ** shapes of the candidate computations *)
Lemma cand_nn_snd nn p v c : snd (cand_nn nn p v c) = snd c.
Proof. unfold cand_nn. destruct nn; auto. destruct v; auto. Qed.

Lemma cand_catch_fst nn q c : fst (cand_catch nn q c) = if nn then fst c else [].
Proof. unfold cand_catch. destruct nn; reflexivity. Qed.

Lemma cand_catch_snd nn q c : snd (cand_catch nn q c) = if nn then snd c else (slice q, fst c) :: snd c.
Proof. unfold cand_catch. destruct nn; reflexivity. Qed.

Lemma cand_items_cons f inn p x tl i :
  cand_items f inn p (x :: tl) i =
  (fst (cand_catch inn (PIdx i :: p) (cand_nn inn (PIdx i :: p) x (f x (PIdx i :: p)))) ++ fst (cand_items f inn p tl (S i)),
   snd (cand_catch inn (PIdx i :: p) (cand_nn inn (PIdx i :: p) x (f x (PIdx i :: p)))) ++ snd (cand_items f inn p tl (S i))).
Proof. reflexivity. Qed.

Lemma cand_sel_cons f p key fp tl :
  cand_sel f p ((key, fp) :: tl) =
  (fst (cand_catch (fp_nn fp) (PKey key :: p) (f fp (PKey key :: p))) ++ fst (cand_sel f p tl),
   snd (cand_catch (fp_nn fp) (PKey key :: p) (f fp (PKey key :: p))) ++ snd (cand_sel f p tl)).
Proof. destruct fp. reflexivity. Qed.

(** ** S1: a position has candidates exactly when it fails *)
Definition esc_iff (fails : bool) (esc : list err) : Prop :=
  (fails = true -> esc <> []) /\ (fails = false -> esc = []).

Definition EV (v : vplan) : Prop := forall p, esc_iff (fails_inner v) (fst (cand_inner v p)).
Definition EF (f : fplan) : Prop := forall p, esc_iff (fails_f f) (fst (cand_field f p)).

Lemma esc_wrap nn q v : EV v -> esc_iff (fails_w nn v) (fst (cand_nn nn q v (cand_inner v q))).
Proof.
  intros H. unfold fails_w, cand_nn. destruct nn.
  - destruct (is_vnull v) eqn:N.
    + destruct v; try discriminate. simpl. split; [intros _; discriminate | discriminate].
    + rewrite andb_false_r, orb_false_r.
      replace (match v with VNull => ([err_at q KNullNN], snd (cand_inner v q)) | _ => cand_inner v q end)
        with (cand_inner v q) by (destruct v; auto; discriminate).
      apply H.
  - rewrite andb_false_l, orb_false_r. apply H.
Qed.

Lemma app_nonempty {A} (a b : list A) : a <> [] \/ b <> [] -> a ++ b <> [].
Proof. intros [H|H] E; apply app_eq_nil in E; destruct E; contradiction. Qed.

Lemma esc_items inn p l : Forall EV l -> forall i,
  esc_iff (inn && existsb (fun x => fails_inner x || is_vnull x) l) (fst (cand_items cand_inner inn p l i)).
Proof.
  induction 1 as [|x tl Hx _ IH]; intros i.
  - simpl. rewrite andb_false_r. split; [discriminate | reflexivity].
  - rewrite cand_items_cons. cbn [fst]. rewrite cand_catch_fst.
    destruct (IH (S i)) as [I1 I2]. destruct (esc_wrap inn (PIdx i :: p) x Hx) as [W1 W2].
    destruct inn; simpl in *.
    + unfold fails_w in *. simpl in *. split.
      * intros E. apply orb_true_iff in E. apply app_nonempty.
        destruct E as [E|E]; [left; exact (W1 E) | right; exact (I1 E)].
      * intros E. apply orb_false_iff in E. destruct E as [E1 E2]. now rewrite (W2 E1), (I2 E2).
    + split; [discriminate|]. intros _. now apply I2.
Qed.

Lemma esc_sel p l : Forall (fun kf => EF (snd kf)) l ->
  esc_iff (existsb (fun kf => fp_nn (snd kf) && fails_f (snd kf)) l) (fst (cand_sel cand_field p l)).
Proof.
  induction 1 as [|[k f] tl Hf _ IH].
  - simpl. split; [discriminate | reflexivity].
  - rewrite cand_sel_cons. cbn [fst snd]. rewrite cand_catch_fst. simpl in Hf.
    destruct IH as [I1 I2]. destruct (Hf (PKey k :: p)) as [W1 W2].
    cbn [existsb snd]. destruct (fp_nn f); simpl.
    + split.
      * intros E. apply orb_true_iff in E. apply app_nonempty.
        destruct E as [E|E]; [left; exact (W1 E) | right; exact (I1 E)].
      * intros E. apply orb_false_iff in E. destruct E as [E1 E2]. now rewrite (W2 E1), (I2 E2).
    + split; [intros E; now apply I1 | intros E; now apply I2].
Qed.

Theorem esc_all : (forall v, EV v) /\ (forall f, EF f).
Proof.
  apply plan_ind.
  - intros p. simpl. split; [discriminate | reflexivity].
  - intros z p. simpl. split; [discriminate | reflexivity].
  - intros p. simpl. split; [intros _; discriminate | discriminate].
  - intros inn items F p. rewrite fails_inner_list. apply (esc_items inn p items F 0).
  - intros fields F p. rewrite fails_inner_obj. apply (esc_sel p fields F).
  - intros tag nn p. simpl. split; [intros _; discriminate | discriminate].
  - intros tag nn v Hv p. apply (esc_wrap nn p v Hv).
Qed.

(** ** S3: the sites inside a position lie strictly beneath it *)
Definition beneath (p : rpath) (x : site) : Prop := exists rel, rel <> [] /\ fst x = rev p ++ rel.
Definition at_or_beneath (q : rpath) (x : site) : Prop := exists rel, fst x = rev q ++ rel.

Definition SV (v : vplan) : Prop := forall p x, In x (snd (cand_inner v p)) -> beneath p x.
Definition SF (f : fplan) : Prop := forall p x, In x (snd (cand_field f p)) -> beneath p x.

Lemma catch_sites nn q (c : list err * list site) x :
  (forall y, In y (snd c) -> beneath q y) -> In x (snd (cand_catch nn q c)) -> at_or_beneath q x.
Proof.
  intros H I. rewrite cand_catch_snd in I. destruct nn.
  - destruct (H x I) as (rel & _ & E). now exists rel.
  - destruct I as [<-|I].
    + exists []. simpl. unfold slice. now rewrite app_nil_r.
    + destruct (H x I) as (rel & _ & E). now exists rel.
Qed.

Lemma step_path (e : pelem) p x : at_or_beneath (e :: p) x -> exists rel, fst x = rev p ++ e :: rel.
Proof. intros [rel E]. exists rel. simpl in E. now rewrite <- app_assoc in E. Qed.

Lemma sv_items inn p l : Forall SV l -> forall i x,
  In x (snd (cand_items cand_inner inn p l i)) -> exists j rel, i <= j /\ fst x = rev p ++ PIdx j :: rel.
Proof.
  induction 1 as [|y tl Hy _ IH]; intros i x I; [destruct I|].
  rewrite cand_items_cons in I. cbn [snd] in I. apply in_app_or in I. destruct I as [I|I].
  - apply catch_sites in I.
    + destruct (step_path _ _ _ I) as [rel E]. exists i, rel. split; auto.
    + intros z Hz. rewrite cand_nn_snd in Hz. now apply Hy.
  - destruct (IH (S i) x I) as (j & rel & Hj & E). exists j, rel. split; auto. lia.
Qed.

Lemma sv_sel p l : Forall (fun kf => SF (snd kf)) l -> forall x,
  In x (snd (cand_sel cand_field p l)) -> exists k rel, In k (map fst l) /\ fst x = rev p ++ PKey k :: rel.
Proof.
  induction 1 as [|[k f] tl Hf _ IH]; intros x I; [destruct I|].
  rewrite cand_sel_cons in I. cbn [snd] in I. apply in_app_or in I. destruct I as [I|I].
  - apply catch_sites in I.
    + destruct (step_path _ _ _ I) as [rel E]. exists k, rel. split; auto. now left.
    + intros z Hz. now apply Hf.
  - destruct (IH x I) as (k' & rel & Hk & E). exists k', rel. split; auto. now right.
Qed.

Theorem sites_beneath : (forall v, SV v) /\ (forall f, SF f).
Proof.
  apply plan_ind; try (intros; intros ? ? []).
  - intros inn items F p x I. destruct (sv_items inn p items F 0 x I) as (j & rel & _ & E).
    exists (PIdx j :: rel). split; [discriminate | exact E].
  - intros fields F p x I. destruct (sv_sel p fields F x I) as (k & rel & _ & E).
    exists (PKey k :: rel). split; [discriminate | exact E].
  - intros tag nn v Hv p x I. simpl in I. rewrite cand_nn_snd in I. now apply Hv.
Qed.

(** ** S2: the structural visible nulls are sites *)
Definition MV (v : vplan) : Prop := forall p x, In x (must_I v p) -> In x (snd (cand_inner v p)).
Definition MF (f : fplan) : Prop := forall p x, In x (must_F f p) -> In x (snd (cand_field f p)).

Lemma must_catch_sub nn q fails esc inner sts x :
  (forall y, In y inner -> In y sts) ->
  In x (must_catch nn q fails esc inner) -> In x (snd (cand_catch nn q (esc, sts))).
Proof.
  intros H I. rewrite cand_catch_snd. unfold must_catch in I. destruct nn; simpl; auto.
  destruct fails.
  - destruct I as [<-|[]]. now left.
  - right. auto.
Qed.

Lemma pair_eta {A B} (c : A * B) : c = (fst c, snd c).
Proof. now destruct c. Qed.

Lemma must_CI_sub inn x q y : MV x ->
  In y (must_CI inn x q) -> In y (snd (cand_catch inn q (cand_nn inn q x (cand_inner x q)))).
Proof.
  intros H I. rewrite (pair_eta (cand_nn inn q x (cand_inner x q))). rewrite cand_nn_snd.
  apply (must_catch_sub inn q (fails_w inn x) _ (must_I x q)); auto.
Qed.

Lemma must_CF_sub f q y : MF f ->
  In y (must_CF f q) -> In y (snd (cand_catch (fp_nn f) q (cand_field f q))).
Proof.
  intros H I. rewrite (pair_eta (cand_field f q)).
  apply (must_catch_sub (fp_nn f) q (fails_f f) _ (must_F f q)); auto.
Qed.

Lemma must_items_cons inn p x tl i :
  must_items must_I inn p (x :: tl) i = must_CI inn x (PIdx i :: p) ++ must_items must_I inn p tl (S i).
Proof. reflexivity. Qed.
Lemma must_sel_cons p k f tl :
  must_sel must_F p ((k, f) :: tl) = must_CF f (PKey k :: p) ++ must_sel must_F p tl.
Proof. reflexivity. Qed.

Lemma mv_items inn p l : Forall MV l -> forall i x,
  In x (must_items must_I inn p l i) -> In x (snd (cand_items cand_inner inn p l i)).
Proof.
  induction 1 as [|y tl Hy _ IH]; intros i x I; [destruct I|].
  rewrite must_items_cons in I. rewrite cand_items_cons. cbn [snd]. apply in_or_app.
  apply in_app_or in I. destruct I as [I|I]; [left; now apply must_CI_sub | right; now apply IH].
Qed.

Lemma mv_sel p l : Forall (fun kf => MF (snd kf)) l -> forall x,
  In x (must_sel must_F p l) -> In x (snd (cand_sel cand_field p l)).
Proof.
  induction 1 as [|[k f] tl Hf _ IH]; intros x I; [destruct I|].
  rewrite must_sel_cons in I. rewrite cand_sel_cons. cbn [snd]. apply in_or_app.
  apply in_app_or in I. destruct I as [I|I]; [left; now apply must_CF_sub | right; now apply IH].
Qed.

Theorem must_are_sites : (forall v, MV v) /\ (forall f, MF f).
Proof.
  apply plan_ind; try (intros; intros ? ? []).
  - intros inn items F p x I. now apply (mv_items inn p items F 0).
  - intros fields F p x I. now apply (mv_sel p fields F).
  - intros tag nn v Hv p x I. simpl in *. rewrite cand_nn_snd. now apply Hv.
Qed.

(** ** the agreement *)
Definition vis (j : json) (rel : list pelem) (x : site) : Prop := snd x <> [] /\ json_at j rel = Some JNull.

Lemma json_at_null rel : rel <> [] -> json_at JNull rel = None.
Proof. destruct rel as [|[k|i] tl]; [congruence | reflexivity | reflexivity]. Qed.

(** one nullable-or-not position [q]: its own site (if nullable) and the sites inside it *)
Lemma agree_catch nn q fails esc (S M : list site) j :
  (forall y, In y S -> beneath q y) ->
  (forall y, In y M -> In y S) ->
  esc_iff fails esc ->
  (nn = false -> fails = true -> j = JNull) ->
  (nn = true -> fails = false) ->
  (fails = false -> forall x rel, In x S -> fst x = rev q ++ rel -> (vis j rel x <-> In x M)) ->
  forall x rel, In x (snd (cand_catch nn q (esc, S))) -> fst x = rev q ++ rel ->
    (vis j rel x <-> In x (must_catch nn q fails esc M)).
Proof.
  intros HS HM [E1 E2] J N A x rel I Ex. rewrite cand_catch_snd in I. cbn [fst snd] in I.
  unfold must_catch. destruct nn.
  - apply (A (N eq_refl)); auto.
  - destruct fails.
    + (* the position fails and absorbs it: only its own site is visible *)
      rewrite (J eq_refl eq_refl). destruct I as [<-|I].
      * split; [intros _; now left|]. intros _. unfold vis. cbn [fst snd] in *. split; [now apply E1|].
        unfold slice in Ex. rewrite <- (app_nil_r (rev q)) in Ex at 1. apply app_inv_head in Ex. now subst rel.
      * destruct (HS x I) as (r & Hr & Er). rewrite Er in Ex. apply app_inv_head in Ex. subst r.
        split.
        -- intros [_ V]. rewrite (json_at_null rel Hr) in V. discriminate.
        -- intros [<-|[]]. cbn [fst] in Er. unfold slice in Er.
           rewrite <- (app_nil_r (rev q)) in Er at 1. apply app_inv_head in Er. now subst rel.
    + destruct I as [<-|I].
      * split.
        -- intros [V _]. cbn [snd] in V. now rewrite (E2 eq_refl) in V.
        -- intros IM. destruct (HS _ (HM _ IM)) as (r & Hr & Er). cbn [fst] in Er. unfold slice in Er.
           rewrite <- (app_nil_r (rev q)) in Er at 1. apply app_inv_head in Er. now subst r.
      * apply (A eq_refl); auto.
Qed.

Definition AV (v : vplan) : Prop :=
  forall p, wf_v v = true -> fails_inner v = false -> forall x rel,
    In x (snd (cand_inner v p)) -> fst x = rev p ++ rel -> (vis (jv v) rel x <-> In x (must_I v p)).
Definition AF (f : fplan) : Prop :=
  forall q, wf_f f = true -> (fp_nn f = true -> fails_f f = false) -> forall x rel,
    In x (snd (cand_catch (fp_nn f) q (cand_field f q))) -> fst x = rev q ++ rel ->
    (vis (jf f) rel x <-> In x (must_CF f q)).

(** a list item *)
Lemma agree_item inn y q : AV y -> wf_v y = true -> (inn = true -> fails_w true y = false) ->
  forall x rel, In x (snd (cand_catch inn q (cand_nn inn q y (cand_inner y q)))) -> fst x = rev q ++ rel ->
    (vis (jc y) rel x <-> In x (must_CI inn y q)).
Proof.
  intros Hy W N x rel I Ex.
  rewrite (pair_eta (cand_nn inn q y (cand_inner y q))), cand_nn_snd in I.
  unfold must_CI. apply (agree_catch inn q (fails_w inn y) _ (snd (cand_inner y q)) (must_I y q) (jc y)); auto.
  - intros z. apply (proj1 sites_beneath y).
  - intros z. apply (proj1 must_are_sites y).
  - apply esc_wrap. apply (proj1 esc_all).
  - intros -> F. unfold fails_w in F. rewrite andb_false_l, orb_false_r in F. unfold jc. now rewrite F.
  - intros ->. now apply N.
  - intros F x0 rel0 I0 E0. unfold fails_w in F. apply orb_false_iff in F. destruct F as [F _].
    unfold jc. rewrite F. now apply Hy.
Qed.

Lemma wf_list_cons' inn x tl : wf_v (VList inn (x :: tl)) = wf_v x && wf_v (VList inn tl).
Proof. reflexivity. Qed.

Lemma agree_items inn p items l : Forall AV l -> wf_v (VList inn l) = true ->
  (inn = true -> forall y, In y l -> fails_w true y = false) ->
  forall i, (forall j y, nth_error l j = Some y -> nth_error items (i + j) = Some y) ->
  forall x rel, In x (snd (cand_items cand_inner inn p l i)) -> fst x = rev p ++ rel ->
    (vis (JList (map jc items)) rel x <-> In x (must_items must_I inn p l i)).
Proof.
  induction 1 as [|y tl Hy Ft IH]; intros W N i Hn x rel I Ex; [destruct I|].
  rewrite wf_list_cons' in W. apply andb_true_iff in W. destruct W as [Wy Wt].
  rewrite cand_items_cons in I. cbn [snd] in I. rewrite must_items_cons.
  set (q := PIdx i :: p) in *.
  assert (Sy : forall z, In z (snd (cand_catch inn q (cand_nn inn q y (cand_inner y q)))) ->
                         exists r, fst z = rev p ++ PIdx i :: r).
  { intros z Hz. apply step_path. eapply catch_sites; [|exact Hz].
    intros w Hw. rewrite cand_nn_snd in Hw. now apply (proj1 sites_beneath y). }
  assert (St : forall z, In z (snd (cand_items cand_inner inn p tl (S i))) ->
                         exists j r, S i <= j /\ fst z = rev p ++ PIdx j :: r).
  { intros z Hz. apply (sv_items inn p tl); auto. apply Forall_forall. intros w _. apply (proj1 sites_beneath). }
  assert (Disj : forall z, In z (snd (cand_catch inn q (cand_nn inn q y (cand_inner y q)))) ->
                           In z (snd (cand_items cand_inner inn p tl (S i))) -> False).
  { intros z H1 H2. destruct (Sy z H1) as [r1 E1]. destruct (St z H2) as (j & r2 & Hj & E2).
    rewrite E1 in E2. apply app_inv_head in E2. injection E2 as E2 _. lia. }
  apply in_app_or in I. destruct I as [I|I].
  - destruct (Sy x I) as [r Er]. rewrite Er in Ex. apply app_inv_head in Ex. subst rel.
    assert (Eq : fst x = rev q ++ r) by (unfold q; simpl; now rewrite <- app_assoc).
    pose proof (agree_item inn y q Hy Wy (fun E => N E y (or_introl eq_refl)) x r I Eq) as A.
    assert (J : json_at (JList (map jc items)) (PIdx i :: r) = json_at (jc y) r).
    { assert (H0 : nth_error items i = Some y) by (rewrite <- (Nat.add_0_r i); now apply Hn).
      simpl. now rewrite (map_nth_error jc i items H0). }
    unfold vis in *. rewrite J. rewrite A. split.
    + intros H. apply in_or_app. now left.
    + intros H. apply in_app_or in H. destruct H as [H|H]; auto.
      exfalso. apply (Disj x I). apply (mv_items inn p tl); auto.
      apply Forall_forall. intros w _. apply (proj1 must_are_sites).
  - assert (Hn' : forall j z, nth_error tl j = Some z -> nth_error items (S i + j) = Some z).
    { intros j z Hj. replace (S i + j) with (i + S j) by lia. now apply Hn. }
    assert (A := IH Wt (fun E z Hz => N E z (or_intror Hz)) (S i) Hn' x rel I Ex).
    rewrite A. split.
    + intros H. apply in_or_app. now right.
    + intros H. apply in_app_or in H. destruct H as [H|H]; auto.
      exfalso. apply (Disj x); auto. now apply must_CI_sub; [apply (proj1 must_are_sites)|].
Qed.

(** looking a response key up in the object of a selection set *)
Lemma find_key fields k f : keys_ok (map fst fields) = true -> In (k, f) fields ->
  find (fun kv : bytes * json => bytes_eqb (fst kv) k) (map (fun kf => (fst kf, jf (snd kf))) fields) = Some (k, jf f).
Proof.
  induction fields as [|[k0 f0] tl IH]; intros K I; [destruct I|].
  simpl in K. apply andb_true_iff in K. destruct K as [K Kt]. apply andb_true_iff in K. destruct K as [_ Kn].
  simpl. destruct (bytes_eqb k0 k) eqn:E.
  - apply bytes_eqb_eq in E. subst k0. destruct I as [I|I]; [now injection I as <-|].
    exfalso. apply negb_true_iff in Kn. assert (X : existsb (bytes_eqb k) (map fst tl) = true).
    { apply existsb_exists. exists k. split; [|apply bytes_eqb_refl]. apply in_map_iff. now exists (k, f). }
    congruence.
  - destruct I as [I|I]; [injection I as -> ->; now rewrite bytes_eqb_refl in E|]. now apply IH.
Qed.

(** a field of a selection set *)
Lemma agree_field f : (forall v, f = FP (match f with FP t _ _ => t end) (fp_nn f) (Some v) -> AV v) ->
  AF f.
Proof.
  intros Hv. intros q0 W N x rel I Ex.
  rewrite (pair_eta (cand_field f q0)) in I. unfold must_CF.
  apply (agree_catch (fp_nn f) q0 (fails_f f) _ (snd (cand_field f q0)) (must_F f q0) (jf f)); auto.
  - intros z. apply (proj2 sites_beneath f).
  - intros z. apply (proj2 must_are_sites f).
  - apply (proj2 esc_all f).
  - intros Nn F. destruct f as [t nn [v|]]; simpl in *; auto. subst nn.
    rewrite andb_false_l, orb_false_r in F. now rewrite F.
  - intros F x0 rel0 I0 E0. destruct f as [t nn [v|]]; simpl in *; [|discriminate].
    apply orb_false_iff in F. destruct F as [F _]. rewrite F. rewrite cand_nn_snd in I0.
    apply (Hv v eq_refl); auto.
Qed.

Lemma agree_sel p fields l : keys_ok (map fst fields) = true ->
  Forall (fun kf => AF (snd kf)) l -> wf_v (VObj l) = true ->
  (forall kf, In kf l -> In kf fields) ->
  (forall kf, In kf l -> fp_nn (snd kf) = true -> fails_f (snd kf) = false) ->
  forall x rel, In x (snd (cand_sel cand_field p l)) -> fst x = rev p ++ rel ->
    (vis (JObj (map (fun kf => (fst kf, jf (snd kf))) fields)) rel x <-> In x (must_sel must_F p l)).
Proof.
  intros K. induction 1 as [|[k f] tl Hf Ft IH]; intros W Inc N x rel I Ex; [destruct I|].
  assert (W' := W). simpl in W'. apply andb_true_iff in W'. destruct W' as [Wk Wr].
  apply andb_true_iff in Wk. destruct Wk as [Wk Wkt]. apply andb_true_iff in Wk. destruct Wk as [_ Wkn].
  apply andb_true_iff in Wr. destruct Wr as [Wf Wtl].
  assert (Wt : wf_v (VObj tl) = true) by (simpl; now rewrite Wkt, Wtl).
  rewrite cand_sel_cons in I. cbn [snd] in I. rewrite must_sel_cons. simpl in Hf.
  set (q := PKey k :: p) in *.
  assert (Sy : forall z, In z (snd (cand_catch (fp_nn f) q (cand_field f q))) ->
                         exists r, fst z = rev p ++ PKey k :: r).
  { intros z Hz. apply step_path. eapply catch_sites; [|exact Hz]. intros w. apply (proj2 sites_beneath f). }
  assert (St : forall z, In z (snd (cand_sel cand_field p tl)) ->
                         exists k' r, In k' (map fst tl) /\ fst z = rev p ++ PKey k' :: r).
  { intros z Hz. apply (sv_sel p tl); auto. apply Forall_forall. intros w _. apply (proj2 sites_beneath). }
  assert (Disj : forall z, In z (snd (cand_catch (fp_nn f) q (cand_field f q))) ->
                           In z (snd (cand_sel cand_field p tl)) -> False).
  { intros z H1 H2. destruct (Sy z H1) as [r1 E1]. destruct (St z H2) as (k' & r2 & Hk & E2).
    rewrite E1 in E2. apply app_inv_head in E2. injection E2 as E2 _. subst k'.
    apply negb_true_iff in Wkn. assert (X : existsb (bytes_eqb k) (map fst tl) = true).
    { apply existsb_exists. exists k. split; auto. apply bytes_eqb_refl. }
    congruence. }
  apply in_app_or in I. destruct I as [I|I].
  - destruct (Sy x I) as [r Er]. rewrite Er in Ex. apply app_inv_head in Ex. subst rel.
    assert (Eq : fst x = rev q ++ r) by (unfold q; simpl; now rewrite <- app_assoc).
    pose proof (Hf q Wf (N (k, f) (or_introl eq_refl)) x r I Eq) as A.
    assert (J : json_at (JObj (map (fun kf => (fst kf, jf (snd kf))) fields)) (PKey k :: r) = json_at (jf f) r).
    { simpl. now rewrite (find_key fields k f K (Inc (k, f) (or_introl eq_refl))). }
    unfold vis in *. rewrite J. rewrite A. split.
    + intros H. apply in_or_app. now left.
    + intros H. apply in_app_or in H. destruct H as [H|H]; auto.
      exfalso. apply (Disj x I). apply (mv_sel p tl); auto.
      apply Forall_forall. intros w _. apply (proj2 must_are_sites).
  - assert (A := IH Wt (fun kf H => Inc kf (or_intror H)) (fun kf H => N kf (or_intror H)) x rel I Ex).
    rewrite A. split.
    + intros H. apply in_or_app. now right.
    + intros H. apply in_app_or in H. destruct H as [H|H]; auto.
      exfalso. apply (Disj x); auto. apply must_CF_sub; auto. apply (proj2 must_are_sites).
Qed.

Theorem agree_all : (forall v, AV v) /\ (forall f, AF f).
Proof.
  apply plan_ind.
  - intros p _ _ x rel [].
  - intros z p _ _ x rel [].
  - intros p _ F. discriminate.
  - intros inn items F p W Fl x rel I Ex. rewrite jv_list.
    apply (agree_items inn p items items F W); auto.
    intros -> y Hy. rewrite fails_inner_list in Fl. simpl in Fl.
    destruct (fails_w true y) eqn:E; auto. exfalso.
    assert (X : existsb (fun x => fails_inner x || is_vnull x) items = true).
    { apply existsb_exists. exists y. split; auto. }
    congruence.
  - intros fields F p W Fl x rel I Ex. rewrite jv_obj.
    assert (K : keys_ok (map fst fields) = true) by (simpl in W; now apply andb_true_iff in W).
    apply (agree_sel p fields fields K F W); auto.
    intros kf Hk Nn. rewrite fails_inner_obj in Fl.
    destruct (fails_f (snd kf)) eqn:E; auto. exfalso.
    assert (X : existsb (fun kf => fp_nn (snd kf) && fails_f (snd kf)) fields = true).
    { apply existsb_exists. exists kf. split; auto. now rewrite Nn, E. }
    congruence.
  - intros tag nn. apply agree_field. intros v E. discriminate.
  - intros tag nn v Hv. apply agree_field. intros v0 E. simpl in E. now injection E as <-.
Qed.

(** ** whole requests: the oracle's reading of the data = the structural definition *)
Lemma visible_failure_null_iff d x :
  visible_failure_null d x = true <-> (snd x <> [] /\ data_at d (fst x) = Some JNull).
Proof.
  unfold visible_failure_null. destruct (snd x) as [|e l].
  - split; [discriminate | intros [H _]; congruence].
  - destruct (data_at d (fst x)) as [[| | |]|]; split; try discriminate; try (intros [_ H]; discriminate);
      auto. intros _. split; [discriminate | reflexivity].
Qed.

Theorem visible_nulls_agree root : wf root = true ->
  forall x, In x (sites root) -> (visible_failure_null (ddata root) x = true <-> In x (visible_nulls root)).
Proof.
  intros W x I. rewrite visible_failure_null_iff. unfold sites in I. unfold visible_nulls, ddata.
  set (c := cand_inner (VObj root) []) in *.
  pose proof (proj1 esc_all (VObj root) []) as [E1 E2]. fold c in E1, E2.
  assert (SB : forall y, In y (snd c) -> beneath [] y) by (intros y; apply (proj1 sites_beneath)).
  destruct (fails_inner (VObj root)) eqn:F.
  - destruct I as [<-|I].
    + cbn [fst snd]. split; [intros _; now left|]. intros _. split; [now apply E1 | reflexivity].
    + destruct (SB x I) as (r & Hr & Er). simpl in Er. split.
      * intros [_ V]. rewrite Er in V. destruct r; [congruence | discriminate].
      * intros [<-|[]]. simpl in Er. congruence.
  - destruct I as [<-|I].
    + cbn [fst snd]. split.
      * intros [V _]. now rewrite (E2 eq_refl) in V.
      * intros IM. destruct (SB _ (proj1 must_are_sites (VObj root) [] _ IM)) as (r & Hr & Er).
        simpl in Er. congruence.
    + destruct (SB x I) as (r & Hr & Er). simpl in Er.
      pose proof (proj1 agree_all (VObj root) [] W F x r I Er) as A. unfold vis in A.
      simpl. rewrite Er at 1. exact A.
Qed.

(** every structural visible null is a site (so the oracle looks at it) *)
Theorem visible_nulls_are_sites root x : In x (visible_nulls root) -> In x (sites root).
Proof.
  unfold visible_nulls, sites. destruct (fails_inner (VObj root)).
  - intros [<-|[]]. now left.
  - intros I. right. now apply (proj1 must_are_sites).
Qed.
