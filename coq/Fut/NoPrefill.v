(** * Fut/NoPrefill.v — for a plan none of whose promise tags is prefilled ([tag_prefilled t = false]),
    no step of the executor creates a promise that is already done, and none adds a channel entry:
    building the futures of the plan and every poll ([invoke]) of what was built only append
    promises with [p_done = false] and only take entries out of [s_chans].  (Entries enter the
    channels only through the idle handler, [ExecAsync.idle].)

    Proved independently of the Live / Acct invariants, by a predicate on closures: [NPclo c] says
    that every callback stored in [c] — and every future a continuation will ever return — moves
    the state by such a step. *)
From Coq Require Import List NArith ZArith Bool Lia.
From ApiFu Require Import Base.Sexp Fut.Plan Fut.Future Fut.ExecAsync Fut.Denote.
Import ListNotations.

Notation FX := fixed_flags.
Notation clo := (Future.clo st).
Notation fut := (Future.fut st).

(** ** the step relation *)
Definition NP (s s' : st) : Prop :=
  (exists new, s_proms s' = s_proms s ++ new /\
               forall k pr, nth_error new k = Some pr ->
                 p_id pr = length (s_proms s) + k /\ p_done pr = false) /\
  (forall x, In x (s_chans s') -> In x (s_chans s)).

Lemma NP_refl s : NP s s.
Proof. split; [exists []; split; [now rewrite app_nil_r | intros [|k] pr H; discriminate] | auto]. Qed.

Lemma NP_trans a b c : NP a b -> NP b c -> NP a c.
Proof.
  intros [(n1 & E1 & D1) C1] [(n2 & E2 & D2) C2]. split; [|auto].
  exists (n1 ++ n2). split; [rewrite E2, E1; now rewrite app_assoc|].
  intros k pr H. destruct (lt_dec k (length n1)) as [L|L].
  - rewrite nth_error_app1 in H by auto. eauto.
  - rewrite nth_error_app2 in H by lia. destruct (D2 _ _ H) as [I2 X2]. split; auto.
    rewrite I2, E1, app_length. lia.
Qed.

Lemma NP_same s s' : s_proms s' = s_proms s -> s_chans s' = s_chans s -> NP s s'.
Proof.
  intros P C. split; [exists []; split; [now rewrite app_nil_r | intros [|k] pr H; discriminate]|].
  now rewrite C.
Qed.

(** ** closures all of whose callbacks are such steps *)
Inductive NPclo : clo -> Prop :=
| NPc_new p : (forall s r s', p s = (r, s') -> NP s s') -> NPclo (CNew p)
| NPc_map fn c : (forall r s r' s', fn r s = (r', s') -> NP s s') -> NPclo c -> NPclo (CMap fn c)
| NPc_mapok fn c : (forall v s v' s', fn v s = (v', s') -> NP s s') -> NPclo c -> NPclo (CMapOk fn c)
| NPc_toany c : NPclo c -> NPclo (CMapOkToAny c)
| NPc_value v c : NPclo c -> NPclo (CMapOkValue v c)
| NPc_then_none k c :
    (forall r s t s', k r s = (t, s') -> NP s s') ->
    (forall r s t s', k r s = (t, s') -> NPfut t) ->
    NPclo c -> NPclo (CThen k c None)
| NPc_then_some k c t :
    (forall r s t s', k r s = (t, s') -> NP s s') ->
    (forall r s t s', k r s = (t, s') -> NPfut t) ->
    NPclo c -> NPfut t -> NPclo (CThen k c (Some t))
| NPc_join fs res : NPfuts fs -> NPclo (CJoin fs res)
| NPc_after fs : NPfuts fs -> NPclo (CAfter fs)
with NPfut : fut -> Prop :=
| NPf_ready r : NPfut (Ready r)
| NPf_pending c : NPclo c -> NPfut (Pending c)
with NPfuts : list fut -> Prop :=
| NPfs_nil : NPfuts []
| NPfs_cons f fs : NPfut f -> NPfuts fs -> NPfuts (f :: fs).

Scheme NPclo_mind := Induction for NPclo Sort Prop
  with NPfut_mind := Induction for NPfut Sort Prop
  with NPfuts_mind := Induction for NPfuts Sort Prop.
Combined Scheme NP_mutind from NPclo_mind, NPfut_mind, NPfuts_mind.

Lemma NPfuts_app a b : NPfuts a -> NPfuts b -> NPfuts (a ++ b).
Proof. induction 1; simpl; auto. intros. constructor; auto. Qed.

(** ** every poll is such a step *)
Definition Pclo (c : clo) : Prop :=
  forall s c' ro s', invoke FX c s = (c', ro, s') -> NP s s' /\ NPclo c'.
Definition Pfut (f : fut) : Prop :=
  forall s f' s', poll_with (invoke FX) f s = (f', s') -> NP s s' /\ NPfut f'.
Definition Pfuts (fs : list fut) : Prop :=
  (forall i res ok s fs' res' o s', join_loop (invoke FX) fs i res ok s = (fs', res', o, s') ->
     NP s s' /\ NPfuts fs') /\
  (forall ok s fs' o s', after_loop true (invoke FX) fs ok s = (fs', o, s') -> NP s s' /\ NPfuts fs').

Theorem polls_are_NP :
  (forall c, NPclo c -> Pclo c) /\ (forall f, NPfut f -> Pfut f) /\ (forall fs, NPfuts fs -> Pfuts fs).
Proof.
  apply (NP_mutind (fun c _ => Pclo c) (fun f _ => Pfut f) (fun fs _ => Pfuts fs)).
  - (* New *) intros p Hp s c' ro s' E. cbn [invoke Future.invoke] in E.
    destruct (p s) as [r s1] eqn:Ep. injection E as <- <- <-. split; [eapply Hp; eauto | now constructor].
  - (* Map *) intros fn c Hfn Hc IHc s c' ro s' E. cbn [invoke Future.invoke] in E.
    destruct (invoke FX c s) as [[c1 r] s1] eqn:E0. destruct (IHc s c1 r s1 E0) as [N1 C1].
    destruct r as [r0|].
    + destruct (fn r0 s1) as [r1 s2] eqn:Ef. injection E as <- <- <-.
      split; [eapply NP_trans; [exact N1 | eapply Hfn; eauto] | now constructor].
    + injection E as <- <- <-. split; [exact N1 | now constructor].
  - (* MapOk *) intros fn c Hfn Hc IHc s c' ro s' E. cbn [invoke Future.invoke] in E.
    destruct (invoke FX c s) as [[c1 r] s1] eqn:E0. destruct (IHc s c1 r s1 E0) as [N1 C1].
    destruct r as [[v|e]|].
    + destruct (fn v s1) as [v1 s2] eqn:Ef. injection E as <- <- <-.
      split; [eapply NP_trans; [exact N1 | eapply Hfn; eauto] | now constructor].
    + injection E as <- <- <-. split; [exact N1 | now constructor].
    + injection E as <- <- <-. split; [exact N1 | now constructor].
  - (* MapOkToAny *) intros c Hc IHc s c' ro s' E. cbn [invoke Future.invoke] in E.
    destruct (invoke FX c s) as [[c1 r] s1] eqn:E0. destruct (IHc s c1 r s1 E0) as [N1 C1].
    destruct r as [[v|e]|]; injection E as <- <- <-; (split; [exact N1 | now constructor]).
  - (* MapOkValue *) intros v c Hc IHc s c' ro s' E. cbn [invoke Future.invoke] in E.
    destruct (invoke FX c s) as [[c1 r] s1] eqn:E0. destruct (IHc s c1 r s1 E0) as [N1 C1].
    destruct r as [[v0|e]|]; injection E as <- <- <-; (split; [exact N1 | now constructor]).
  - (* Then, continuation not yet run *)
    intros k c Hk1 Hk2 IHk Hc IHc s c' ro s' E. cbn [invoke Future.invoke] in E.
    destruct (invoke FX c s) as [[c1 r] s1] eqn:E0. destruct (IHc s c1 r s1 E0) as [N1 C1].
    destruct r as [r0|].
    + destruct (k r0 s1) as [t s2] eqn:Ek.
      pose proof (Hk1 _ _ _ _ Ek) as N2. pose proof (Hk2 _ _ _ _ Ek) as Ft. pose proof (IHk _ _ _ _ Ek) as It.
      destruct t as [rr|c2].
      * injection E as <- <- <-. split; [eapply NP_trans; eauto|]. apply NPc_then_some; auto.
      * destruct (invoke FX c2 s2) as [[c3 r3] s3] eqn:E2.
        assert (X : poll_with (invoke FX) (Pending c2) s2 =
                    (match r3 with Some x => Ready x | None => Pending c3 end, s3)).
        { unfold poll_with. now rewrite E2. }
        destruct (It _ _ _ X) as [N3 F3].
        destruct r3 as [x|]; injection E as <- <- <-;
          (split; [eapply NP_trans; [exact N1 | eapply NP_trans; eauto] | apply NPc_then_some; auto]).
    + injection E as <- <- <-. split; [exact N1 | now constructor].
  - (* Then, continuation has run *)
    intros k c t Hk1 Hk2 IHk Hc IHc Ht IHt s c' ro s' E. cbn [invoke Future.invoke] in E.
    destruct t as [rr|c2].
    + injection E as <- <- <-. split; [apply NP_refl | apply NPc_then_some; auto].
    + destruct (invoke FX c2 s) as [[c3 r3] s3] eqn:E2.
      assert (X : poll_with (invoke FX) (Pending c2) s =
                  (match r3 with Some x => Ready x | None => Pending c3 end, s3)).
      { unfold poll_with. now rewrite E2. }
      destruct (IHt _ _ _ X) as [N3 F3].
      destruct r3 as [x|]; injection E as <- <- <-; (split; [exact N3 | apply NPc_then_some; auto]).
  - (* Join *) intros fs res Hfs [IHj _] s c' ro s' E. cbn [invoke Future.invoke] in E.
    destruct (join_loop _ fs 0 res true s) as [[[fs1 res1] o] s1] eqn:EJ.
    destruct (IHj _ _ _ _ _ _ _ _ EJ) as [N1 F1].
    destruct o; injection E as <- <- <-; (split; [exact N1 | now constructor]).
  - (* After *) intros fs Hfs [_ IHa] s c' ro s' E. cbn [invoke Future.invoke] in E.
    destruct (after_loop _ _ fs true s) as [[fs1 o] s1] eqn:EA.
    destruct (IHa _ _ _ _ _ EA) as [N1 F1].
    destruct o; injection E as <- <- <-; (split; [exact N1 | now constructor]).
  - (* Ready *) intros r s f' s' E. simpl in E. injection E as <- <-. split; [apply NP_refl | constructor].
  - (* Pending *) intros c Hc IHc s f' s' E. unfold poll_with in E.
    destruct (invoke FX c s) as [[c1 r] s1] eqn:E0. destruct (IHc _ _ _ _ E0) as [N1 C1].
    injection E as <- <-. split; auto. destruct r; constructor; auto.
  - (* [] *) split.
    + intros i res ok s fs' res' o s' E. simpl in E. injection E as <- <- <- <-. split; [apply NP_refl | constructor].
    + intros ok s fs' o s' E. simpl in E. injection E as <- <- <-. split; [apply NP_refl | constructor].
  - (* f :: fs *) intros f fs Hf IHf Hfs [IHj IHa]. split.
    + intros i res ok s fs' res' o s' E. cbn [join_loop] in E.
      destruct (poll_with (invoke FX) f s) as [f1 s1] eqn:Ep. destruct (IHf _ _ _ Ep) as [N1 F1].
      destruct f1 as [[v|e]|c1].
      * destruct (join_loop (invoke FX) fs (S i) (set_nth i v res) ok s1) as [[[tl1 res1] o1] s2] eqn:EJ.
        destruct (IHj _ _ _ _ _ _ _ _ EJ) as [N2 F2]. injection E as <- <- <- <-.
        split; [eapply NP_trans; eauto | constructor; auto].
      * injection E as <- <- <- <-. split; auto. constructor; auto.
      * destruct (join_loop (invoke FX) fs (S i) res false s1) as [[[tl1 res1] o1] s2] eqn:EJ.
        destruct (IHj _ _ _ _ _ _ _ _ EJ) as [N2 F2]. injection E as <- <- <- <-.
        split; [eapply NP_trans; eauto | constructor; auto].
    + intros ok s fs' o s' E. cbn [after_loop] in E. destruct f as [r|c0].
      * destruct r as [v|e].
        -- destruct (after_loop true (invoke FX) fs ok s) as [[tl1 o1] s2] eqn:EA.
           destruct (IHa _ _ _ _ _ EA) as [N2 F2]. injection E as <- <- <-. split; auto. constructor; auto.
        -- injection E as <- <- <-. split; [apply NP_refl | constructor; auto].
      * destruct (invoke FX c0 s) as [[c1 r] s1] eqn:E0.
        assert (Ep : poll_with (invoke FX) (Pending c0) s =
                     (match r with Some x => Ready x | None => Pending c1 end, s1)).
        { unfold poll_with. now rewrite E0. }
        destruct (IHf _ _ _ Ep) as [N1 F1].
        destruct r as [[v|e]|].
        -- destruct (after_loop true (invoke FX) fs ok s1) as [[tl1 o1] s2] eqn:EA.
           destruct (IHa _ _ _ _ _ EA) as [N2 F2]. injection E as <- <- <-.
           split; [eapply NP_trans; eauto | constructor; auto].
        -- injection E as <- <- <-. split; auto. constructor; auto.
        -- destruct (after_loop true (invoke FX) fs false s1) as [[tl1 o1] s2] eqn:EA.
           destruct (IHa _ _ _ _ _ EA) as [N2 F2]. injection E as <- <- <-.
           split; [eapply NP_trans; eauto | constructor; auto].
Qed.

(** ** plans without prefilled promises *)
Fixpoint nopre_v (v : vplan) : bool :=
  match v with
  | VList _ items => (fix go (l : list vplan) : bool := match l with [] => true | x :: tl => nopre_v x && go tl end) items
  | VObj fields => (fix go (l : list (bytes * fplan)) : bool :=
                      match l with [] => true | (_, f) :: tl => nopre_f f && go tl end) fields
  | _ => true
  end
with nopre_f (f : fplan) : bool :=
  match f with
  | FP tag _ res =>
      (match tag with Some t => negb (tag_prefilled t) | None => true end) &&
      (match res with Some v => nopre_v v | None => true end)
  end.
Definition nopre (root : selset) : bool := nopre_v (VObj root).

Lemma nopre_list_cons inn x tl : nopre_v (VList inn (x :: tl)) = nopre_v x && nopre_v (VList inn tl).
Proof. reflexivity. Qed.
Lemma nopre_obj_cons k f tl : nopre_v (VObj ((k, f) :: tl)) = nopre_f f && nopre_v (VObj tl).
Proof. reflexivity. Qed.

(** ** the constructors of future.go keep [NPfut] *)
Definition Bld (build : st -> fut * st) : Prop :=
  forall s f s', build s = (f, s') -> NP s s' /\ NPfut f.

Lemma Map_np f fn s f' s' :
  NPfut f -> (forall r s r' s', fn r s = (r', s') -> NP s s') ->
  Map f fn s = (f', s') -> NP s s' /\ NPfut f'.
Proof.
  intros F H E. destruct f as [r|c]; simpl in E.
  - destruct (fn r s) as [r1 s1] eqn:Ef. injection E as <- <-. split; [eapply H; eauto | constructor].
  - injection E as <- <-. split; [apply NP_refl|]. inversion F; subst. constructor. now constructor.
Qed.

Lemma MapOk_np f fn s f' s' :
  NPfut f -> (forall v s v' s', fn v s = (v', s') -> NP s s') ->
  MapOk f fn s = (f', s') -> NP s s' /\ NPfut f'.
Proof.
  intros F H E. destruct f as [[v|e]|c]; simpl in E.
  - destruct (fn v s) as [v1 s1] eqn:Ef. injection E as <- <-. split; [eapply H; eauto | constructor].
  - injection E as <- <-. split; [apply NP_refl | constructor].
  - injection E as <- <-. split; [apply NP_refl|]. inversion F; subst. constructor. now constructor.
Qed.

Lemma MapOkToAny_np f : NPfut f -> NPfut (MapOkToAny f).
Proof. intros F. destruct f as [r|c]; simpl; [constructor|]. inversion F; subst. constructor. now constructor. Qed.

Lemma MapOkValue_np f v : NPfut f -> NPfut (MapOkValue f v).
Proof.
  intros F. destruct f as [[x|e]|c]; simpl; try constructor. inversion F; subst. now constructor.
Qed.

Lemma Then_np f k s f' s' :
  NPfut f -> (forall r s t s', k r s = (t, s') -> NP s s') -> (forall r s t s', k r s = (t, s') -> NPfut t) ->
  Then f k s = (f', s') -> NP s s' /\ NPfut f'.
Proof.
  intros F H1 H2 E. destruct f as [r|c]; simpl in E.
  - split; [eapply H1; eauto | eapply H2; eauto].
  - injection E as <- <-. split; [apply NP_refl|]. inversion F; subst. constructor. now constructor.
Qed.

Lemma Join_np fs : NPfuts fs -> NPfut (Join fs).
Proof.
  intros F. unfold Join. destruct (join_init fs 0 (repeat GNil (length fs)) true) as [res o].
  destruct o; try constructor. now constructor.
Qed.

Lemma After_np fs : NPfuts fs -> NPfut (After fs).
Proof. intros F. unfold After. destruct (after_init fs true); try constructor. now constructor. Qed.

(** ** the executor's wrappers *)
Lemma nn_check_np p r s r' s' : nn_check p r s = (r', s') -> NP s s'.
Proof. unfold nn_check. destruct r as [[]|]; intros E; injection E as _ <-; apply NP_refl. Qed.

Lemma catch_error_np r s r' s' : catch_error r s = (r', s') -> NP s s'.
Proof. unfold catch_error. destruct r; intros E; injection E as _ <-; [apply NP_refl | now apply NP_same]. Qed.

Lemma nn_wrap_np nn p f s f2 s2 :
  NPfut f -> nn_wrap FX nn p (f, s) = (f2, s2) -> NP s s2 /\ NPfut f2.
Proof.
  intros F E. unfold nn_wrap in E. destruct nn; [|injection E as <- <-; split; [apply NP_refl | exact F]].
  destruct f as [[v|e]|c].
  - destruct v; injection E as <- <-; (split; [apply NP_refl | constructor]).
  - simpl in E. injection E as <- <-. split; [apply NP_refl | constructor].
  - eapply Map_np; eauto. apply nn_check_np.
Qed.

Lemma catch_np nn f s f' s' : NPfut f -> catch_if_nullable nn f s = (f', s') -> NP s s' /\ NPfut f'.
Proof.
  intros F E. unfold catch_if_nullable in E. destruct nn; [injection E as <- <-; split; [apply NP_refl | exact F]|].
  eapply Map_np; eauto. apply catch_error_np.
Qed.

Lemma chan_take_sub id c ok c1 : chan_take id c = Some (ok, c1) -> forall x, In x c1 -> In x c.
Proof.
  revert c1; induction c as [|[i o] tl IH]; simpl; intros c1 E; [discriminate|].
  destruct (Nat.eqb i id).
  - injection E as <- <-. intros x H. now right.
  - destruct (chan_take id tl) as [[b tl1]|] eqn:T; [|discriminate]. injection E as <- <-.
    intros x [<-|H]; [now left | right; eapply IH; eauto].
Qed.

Lemma promise_poll_np id s r s' : promise_poll id s = (r, s') -> NP s s'.
Proof.
  unfold promise_poll. destruct (chan_take id (s_chans s)) as [[ok c1]|] eqn:T; intros E; injection E as _ <-.
  - split; [exists []; split; [simpl; now rewrite app_nil_r | intros [|k] pr H; discriminate]|].
    simpl. eapply chan_take_sub; eauto.
  - apply NP_refl.
Qed.

Lemma new_promise_np t p ok s id s' : new_promise t p ok s = (id, s') -> NP s s'.
Proof.
  unfold new_promise. intros E. injection E as _ <-. split; simpl; [|auto].
  eexists. split; [reflexivity|]. intros [|[|k]] pr H; simpl in H; try discriminate. injection H as <-.
  simpl. split; [lia | reflexivity].
Qed.

(** ** building the futures of a plan without prefilled promises *)
Definition BV (v : vplan) : Prop := nopre_v v = true -> forall p, Bld (complete_inner FX v p).
Definition BF (f : fplan) : Prop := nopre_f f = true -> forall p, Bld (exec_field FX f p).

Lemma items_np inn p l : Forall BV l -> nopre_v (VList inn l) = true ->
  forall i s fs s',
    items_loop (fun x q s => nn_wrap FX inn q (complete_inner FX x q s)) inn p l i s = (fs, s') ->
    NP s s' /\ NPfuts fs.
Proof.
  induction 1 as [|x tl Hx _ IH]; intros W i s fs s' E.
  - simpl in E. injection E as <- <-. split; [apply NP_refl | constructor].
  - rewrite nopre_list_cons in W. apply andb_true_iff in W. destruct W as [Wx Wt]. simpl in E.
    destruct (complete_inner FX x (PIdx i :: p) s) as [f0 s0] eqn:E0.
    destruct (Hx Wx (PIdx i :: p) s f0 s0 E0) as [N0 F0].
    destruct (nn_wrap FX inn (PIdx i :: p) (f0, s0)) as [f s1] eqn:E1.
    destruct (nn_wrap_np _ _ _ _ _ _ F0 E1) as [N1 F1].
    destruct (catch_if_nullable inn f s1) as [f1 s2] eqn:E2.
    destruct (catch_np _ _ _ _ _ F1 E2) as [N2 F2].
    destruct (items_loop (fun x q s => nn_wrap FX inn q (complete_inner FX x q s)) inn p tl (S i) s2) as [fs0 s3] eqn:E3.
    destruct (IH Wt _ _ _ _ E3) as [N3 F3]. injection E as <- <-.
    split; [eapply NP_trans; [exact N0|]; eapply NP_trans; [exact N1|]; eapply NP_trans; eauto | constructor; auto].
Qed.

Lemma heap_set_np m i k v s : NP s (heap_set m i k v s).
Proof. now apply NP_same. Qed.

Lemma set_slot_np m i key v s v' s' : set_slot m i key v s = (v', s') -> NP s s'.
Proof. unfold set_slot. intros E. injection E as _ <-. apply heap_set_np. Qed.

Lemma sel_loop_cons' m p key fp tl i futures s :
  sel_loop (exec_field FX) m p ((key, fp) :: tl) i futures s =
  let '(f, s1) := exec_field FX fp (PKey key :: p) s in
  let '(f1, s2) := catch_if_nullable (fp_nn fp) f s1 in
  match f1 with
  | Ready (RErr e) => (Some e, futures, s2)
  | Ready (ROk v) => sel_loop (exec_field FX) m p tl (S i) futures (heap_set m i key v s2)
  | Pending _ =>
      let '(f2, s3) := MapOk f1 (set_slot m i key) s2 in
      sel_loop (exec_field FX) m p tl (S i) (futures ++ [f2]) s3
  end.
Proof. destruct fp. reflexivity. Qed.

Lemma sel_np m p l : Forall (fun kf => BF (snd kf)) l -> nopre_v (VObj l) = true ->
  forall i futs s early futs' s', NPfuts futs ->
    sel_loop (exec_field FX) m p l i futs s = (early, futs', s') -> NP s s' /\ NPfuts futs'.
Proof.
  induction 1 as [|[key fp] tl Hf _ IH]; intros W i futs s early futs' s' Fu E.
  - simpl in E. injection E as _ <- <-. split; [apply NP_refl | exact Fu].
  - rewrite nopre_obj_cons in W. apply andb_true_iff in W. destruct W as [Wf Wt].
    rewrite sel_loop_cons' in E. simpl in Hf.
    destruct (exec_field FX fp (PKey key :: p) s) as [f s1] eqn:E1.
    destruct (Hf Wf (PKey key :: p) s f s1 E1) as [N1 F1].
    destruct (catch_if_nullable (fp_nn fp) f s1) as [f1 s2] eqn:E2.
    destruct (catch_np _ _ _ _ _ F1 E2) as [N2 F2].
    destruct f1 as [[v|e]|c].
    + destruct (IH Wt _ _ _ _ _ _ Fu E) as [N3 F3].
      split; [eapply NP_trans; [exact N1|]; eapply NP_trans; [exact N2|]; eapply NP_trans; [apply heap_set_np | exact N3] | exact F3].
    + injection E as _ <- <-. split; [eapply NP_trans; eauto | exact Fu].
    + destruct (MapOk (Pending c) (set_slot m i key) s2) as [f2 s3] eqn:E3.
      destruct (MapOk_np _ _ _ _ _ F2 (set_slot_np m i key) E3) as [N3 F3].
      assert (Fu' : NPfuts (futs ++ [f2])) by (apply NPfuts_app; [exact Fu | constructor; [exact F3 | constructor]]).
      destruct (IH Wt _ _ _ _ _ _ Fu' E) as [N4 F4].
      split; [eapply NP_trans; [exact N1|]; eapply NP_trans; [exact N2|]; eapply NP_trans; eauto | exact F4].
Qed.

Lemma sel_body_np fields p : Forall (fun kf => BF (snd kf)) fields -> nopre_v (VObj fields) = true ->
  Bld (sel_body (exec_field FX) fields p).
Proof.
  intros FB W s f s' E. unfold sel_body, alloc_map in E.
  set (s0 := with_maps (s_maps s ++ [repeat None (length fields)]) s) in *.
  destruct (sel_loop (exec_field FX) (length (s_maps s)) p fields 0 [] s0) as [[early futs] s1] eqn:EL.
  destruct (sel_np _ p fields FB W 0 [] s0 early futs s1 NPfs_nil EL) as [N1 F1].
  assert (N0 : NP s s0) by (now apply NP_same).
  destruct early as [e|]; injection E as <- <-.
  - split; [eapply NP_trans; eauto | constructor].
  - split; [eapply NP_trans; eauto|]. apply MapOkValue_np. now apply After_np.
Qed.

Lemma exec_field_eq tag nn res p s :
  exec_field FX (FP tag nn res) p s =
  let s1 := add_ev (EStart (slice p)) s in
  match tag with
  | None =>
      match res with
      | None => (Err (err_at p KResolve), s1)
      | Some v => nn_wrap FX nn p (complete_inner FX v p s1)
      end
  | Some t =>
      let '(id, s2) := (if tag_prefilled t then new_promise_pre else new_promise)
                         t p (match res with Some _ => true | None => false end) s1 in
      Then (New (promise_poll id)) (field_k FX nn res p) s2
  end.
Proof. destruct tag, res; reflexivity. Qed.

Lemma field_np tag nn res p :
  nopre_f (FP tag nn res) = true ->
  (forall v, res = Some v -> forall q, Bld (complete_inner FX v q)) ->
  Bld (exec_field FX (FP tag nn res) p).
Proof.
  intros W Hv s f s' E. rewrite exec_field_eq in E. cbv zeta in E.
  simpl in W. apply andb_true_iff in W. destruct W as [Wt _].
  set (s1 := add_ev (EStart (slice p)) s) in *.
  assert (N0 : NP s s1) by (now apply NP_same).
  assert (K : forall r s0 t0 s0', field_k FX nn res p r s0 = (t0, s0') -> NP s0 s0' /\ NPfut t0).
  { intros r s0 t0 s0' Ek. unfold field_k in Ek. destruct r as [x|e].
    - destruct res as [v|].
      + destruct (complete_inner FX v p s0) as [f0 s2] eqn:E0.
        destruct (Hv v eq_refl p s0 f0 s2 E0) as [N1 F1]. destruct (nn_wrap_np _ _ _ _ _ _ F1 Ek) as [N2 F2].
        split; [eapply NP_trans; eauto | exact F2].
      + injection Ek as <- <-. split; [apply NP_refl | constructor].
    - injection Ek as <- <-. split; [apply NP_refl | constructor]. }
  destruct tag as [t|].
  - apply negb_true_iff in Wt. rewrite Wt in E.
    destruct (new_promise t p (match res with Some _ => true | None => false end) s1) as [id s2] eqn:En.
    pose proof (new_promise_np _ _ _ _ _ _ En) as N1.
    assert (Fn : NPfut (New (promise_poll id))).
    { constructor. constructor. intros s0 r s0' Ep. eapply promise_poll_np; eauto. }
    destruct (Then_np _ _ _ _ _ Fn (fun r s0 t0 s0' Ek => proj1 (K r s0 t0 s0' Ek))
                      (fun r s0 t0 s0' Ek => proj2 (K r s0 t0 s0' Ek)) E) as [N2 F2].
    split; [eapply NP_trans; [exact N0|]; eapply NP_trans; [exact N1 | exact N2] | exact F2].
  - destruct res as [v|].
    + destruct (complete_inner FX v p s1) as [f0 s2] eqn:E0.
      destruct (Hv v eq_refl p s1 f0 s2 E0) as [N1 F1]. destruct (nn_wrap_np _ _ _ _ _ _ F1 E) as [N2 F2].
      split; [eapply NP_trans; [exact N0|]; eapply NP_trans; [exact N1 | exact N2] | exact F2].
    + injection E as <- <-. split; [exact N0 | constructor].
Qed.

Theorem builds_are_NP : (forall v, BV v) /\ (forall f, BF f).
Proof.
  apply plan_ind.
  - intros _ p s f s' E. simpl in E. injection E as <- <-. split; [apply NP_refl | constructor].
  - intros z _ p s f s' E. simpl in E. injection E as <- <-. split; [apply NP_refl | constructor].
  - intros _ p s f s' E. simpl in E. injection E as <- <-. split; [apply NP_refl | constructor].
  - intros inn items F W p s f s' E.
    change (complete_inner FX (VList inn items) p s)
      with (list_body (fun x q s => nn_wrap FX inn q (complete_inner FX x q s)) inn items p s) in E.
    unfold list_body in E.
    destruct (items_loop (fun x q s => nn_wrap FX inn q (complete_inner FX x q s)) inn p items 0 s) as [fs s1] eqn:EL.
    injection E as <- <-. destruct (items_np inn p items F W 0 s fs s1 EL) as [N1 F1].
    split; [exact N1|]. apply MapOkToAny_np. now apply Join_np.
  - intros fields F W p s f s' E.
    change (complete_inner FX (VObj fields) p s)
      with (let '(f, s1) := sel_body (exec_field FX) fields p s in (MapOkToAny f, s1)) in E.
    destruct (sel_body (exec_field FX) fields p s) as [f0 s1] eqn:E0. injection E as <- <-.
    destruct (sel_body_np fields p F W s f0 s1 E0) as [N1 F1]. split; [exact N1 | now apply MapOkToAny_np].
  - (* a failing resolver / promise *)
    intros tag nn W p. apply field_np; [exact W|]. intros v E. discriminate.
  - (* a resolver / promise delivering a value *)
    intros tag nn v Hv W p. apply field_np; [exact W|]. intros v0 E. injection E as <-.
    simpl in W. apply andb_true_iff in W. destruct W as [_ Wv]. intros q. now apply Hv.
Qed.

(** ** the statements C15 uses *)

(** building the root future of a query *)
Theorem no_prefill_build root p s f s' :
  nopre root = true -> exec_sel FX root p s = (f, s') -> NP s s' /\ NPfut f.
Proof.
  intros W E. unfold exec_sel in E.
  assert (FB : Forall (fun kf : bytes * fplan => BF (snd kf)) root)
    by (apply Forall_forall; intros kf _; apply (proj2 builds_are_NP)).
  exact (sel_body_np root p FB W s f s' E).
Qed.

(** building and catching one root field (the mutation path) *)
Theorem no_prefill_build_field fp p s f s1 f1 s2 :
  nopre_f fp = true -> exec_field FX fp p s = (f, s1) -> catch_if_nullable (fp_nn fp) f s1 = (f1, s2) ->
  NP s s2 /\ NPfut f1.
Proof.
  intros W E1 E2. destruct (proj2 builds_are_NP fp W p s f s1 E1) as [N1 F1].
  destruct (catch_np _ _ _ _ _ F1 E2) as [N2 F2]. split; [eapply NP_trans; eauto | exact F2].
Qed.

(** every poll of such a future *)
Theorem no_prefill_poll c s c' ro s' :
  NPclo c -> invoke FX c s = (c', ro, s') -> NP s s' /\ NPclo c'.
Proof. intros H. apply (proj1 polls_are_NP c H). Qed.

(** [wait] wraps the future in a Map that only records the result *)
Lemma no_prefill_wait_wrap c : NPclo c -> NPclo (CMap wait_fn c).
Proof. intros H. constructor; auto. intros r s r' s' E. unfold wait_fn in E. injection E as _ <-. apply NP_refl. Qed.

(** in one statement: along the polls of a future built from a plan without prefilled promises,
    every step appends only promises that are not done and adds no channel entry *)
Theorem no_prefill_polls_append_blocked root p s0 c s1 :
  nopre root = true -> exec_sel FX root p s0 = (Pending c, s1) ->
  NP s0 s1 /\
  forall s c' ro s', invoke FX (CMap wait_fn c) s = (c', ro, s') ->
    NP s s' /\
    (* … and so on for whatever remains pending *)
    match ro with
    | Some _ => True
    | None => NPclo c'
    end.
Proof.
  intros W E. destruct (no_prefill_build root p s0 _ s1 W E) as [N F]. split; auto.
  inversion F as [|c0 Hc]; subst.
  intros s c' ro s' Ei. destruct (no_prefill_poll _ _ _ _ _ (no_prefill_wait_wrap c Hc) Ei) as [N1 C1].
  split; auto. destruct ro; auto.
Qed.
