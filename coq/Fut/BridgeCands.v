(** * Fut/BridgeCands.v — the bridge to C01, third part: error candidates.  For a typed document
    (C01's [sels_ok], which also makes CollectFields never run out of fuel) the errors C01's
    reference lets propagate out of a position, and the errors it lists as explanation of a
    failure-null, have — source locations erased on C01's side, error kinds on this side — exactly
    the response paths of the plan's candidates. *)
From Coq Require Import List NArith ZArith Bool Lia.
From ApiFu Require Import Base.Sexp Fut.Plan Fut.ExecSync Fut.Denote Fut.FutSpec Fut.VisibleProofs
     Fut.BridgeC01 Fut.BridgeProofs Fut.BridgeNulls.
From ApiFu Require Exe.ExecData Exe.ExecSpec.
Import ListNotations.

(** erasing locations / kinds: only the response path of an error is left *)
Definition epaths_c (l : list D.gerror) : list (list pelem) := map (fun e => trp (D.e_path e)) l.
Definition epaths_p (l : list err) : list (list pelem) := map e_path l.
Definition null_sites (l : list (D.rpath * list D.gerror)) : list (list pelem * list (list pelem)) :=
  map (fun s => (trp (fst s), epaths_c (snd s))) l.
Definition plan_sites (l : list site) : list (list pelem * list (list pelem)) :=
  map (fun s => (fst s, epaths_p (snd s))) l.

Lemma epaths_c_app a b : epaths_c (a ++ b) = epaths_c a ++ epaths_c b.
Proof. apply map_app. Qed.
Lemma epaths_p_app a b : epaths_p (a ++ b) = epaths_p a ++ epaths_p b.
Proof. apply map_app. Qed.
Lemma null_sites_app a b : null_sites (a ++ b) = null_sites a ++ null_sites b.
Proof. apply map_app. Qed.
Lemma plan_sites_app a b : plan_sites (a ++ b) = plan_sites a ++ plan_sites b.
Proof. apply map_app. Qed.

Section BridgeCands.
  Variable code : D.json -> Z.
  Variables (S : D.schema) (Doc : D.document) (E : D.env) (fuel : nat).
  Notation planner := BridgeC01.planner.

  (** the candidates of a position of type-level non-nullness [nn] *)
  Definition pos_esc (nn : bool) (res : option vplan) (p : rpath) : list err :=
    fst (cand_nn nn p (unres res) (cand_inner (unres res) p)).

  Definition KRel (ty : D.sty) (x : X.sout) (res : option vplan) (path : D.rpath) (p : rpath) : Prop :=
    trp path = slice p ->
    epaths_c (X.so_thrown x) = epaths_p (pos_esc (is_nn ty) res p) /\
    match X.so_val x with
    | Some _ => null_sites (X.so_nulls x) = plan_sites (must_I (unres res) p)
    | None => True
    end.

  Definition CKRel (c : X.scompleter) (pc : planner) : Prop :=
    CRel code c pc /\
    forall n ty fields path p,
      X.type_ok_with S (X.sels_ok S Doc E fuel n) ty fields = true ->
      KRel ty (c ty fields path) (pc ty fields) path p.

  Lemma pos_esc_ok nn res p : pos_fails nn res = false -> pos_esc nn res p = [].
  Proof.
    unfold pos_fails, pos_esc. intros F.
    exact (proj2 (esc_wrap nn p (unres res) (proj1 esc_all (unres res))) F).
  Qed.

  (** after the position wrapper: what the parent sees *)
  Definition KPRel (nn : bool) (x : X.sout) (v : vplan) (q : rpath) : Prop :=
    epaths_c (X.so_thrown x) = epaths_p (fst (cand_catch nn q (cand_nn nn q v (cand_inner v q)))) /\
    match X.so_val x with
    | Some _ => null_sites (X.so_nulls x) =
                plan_sites (must_catch nn q (fails_w nn v) (fst (cand_nn nn q v (cand_inner v q))) (must_I v q))
    | None => True
    end.

  Lemma position_krel t path q x res :
    Rel code t x res -> KRel t x res path q -> trp path = slice q ->
    KPRel (is_nn t) (X.s_position t path x) (unres res) q.
  Proof.
    intros R K Ep. destruct (K Ep) as [KT KN]. unfold KPRel. rewrite cand_catch_fst.
    unfold Rel, pos_fails in R. unfold pos_esc in KT. set (v := unres res) in *. unfold fails_w, must_catch.
    destruct t as [n|t'|t']; cbn [is_nn X.s_position] in *.
    - unfold X.s_catch. rewrite orb_false_r in *. destruct (X.so_val x) as [j|] eqn:Ex.
      + rewrite Ex. destruct R as [F _]. rewrite F. split; [|exact KN].
        rewrite KT. cbn [is_nn]. unfold cand_nn. now rewrite (proj2 (proj1 esc_all v q) F).
      + cbn [X.so_val X.so_thrown X.so_nulls]. rewrite R. split; [reflexivity|].
        unfold null_sites, plan_sites. cbn [map fst snd]. rewrite Ep, KT. reflexivity.
    - unfold X.s_catch. rewrite orb_false_r in *. destruct (X.so_val x) as [j|] eqn:Ex.
      + rewrite Ex. destruct R as [F _]. rewrite F. split; [|exact KN].
        rewrite KT. cbn [is_nn]. unfold cand_nn. now rewrite (proj2 (proj1 esc_all v q) F).
      + cbn [X.so_val X.so_thrown X.so_nulls]. rewrite R. split; [reflexivity|].
        unfold null_sites, plan_sites. cbn [map fst snd]. rewrite Ep, KT. reflexivity.
    - split; [exact KT|]. destruct (X.so_val x); auto.
  Qed.

  (** ** selection sets *)
  Definition EKRel (p : rpath) (e : D.name * X.sout) (pe : bytes * fplan) : Prop :=
    epaths_c (X.so_thrown (snd e)) =
    epaths_p (fst (cand_catch (fp_nn (snd pe)) (PKey (fst pe) :: p) (cand_field (snd pe) (PKey (fst pe) :: p)))) /\
    match X.so_val (snd e) with
    | Some _ => null_sites (X.so_nulls (snd e)) = plan_sites (must_CF (snd pe) (PKey (fst pe) :: p))
    | None => True
    end.

  Lemma field_as_unres nn res q :
    epaths_p (fst (cand_catch nn q (cand_field (FP None nn res) q))) =
    epaths_p (fst (cand_catch nn q (cand_nn nn q (unres res) (cand_inner (unres res) q)))) /\
    plan_sites (must_CF (FP None nn res) q) =
    plan_sites (must_catch nn q (fails_w nn (unres res)) (fst (cand_nn nn q (unres res) (cand_inner (unres res) q)))
                           (must_I (unres res) q)).
  Proof.
    destruct res as [v|]; [split; reflexivity|].
    unfold must_CF, must_catch. cbn [unres fp_nn cand_field must_F fails_f]. rewrite !cand_catch_fst.
    unfold fails_w. cbn [fails_inner is_vnull orb].
    assert (C : cand_nn nn q VBad (cand_inner VBad q) = ([err_at q KBad], [])) by (destruct nn; reflexivity).
    rewrite C. destruct nn; split; reflexivity.
  Qed.

  Lemma entry_krel n children pchildren ot path p kf :
    (forall k, CKRel (children k) (pchildren k)) -> trp path = slice p ->
    X.group_ok_with S (X.sels_ok S Doc E fuel n) ot kf = true ->
    Forall2 (EKRel p) (X.s_entry S children ot path kf) (p_entry code S pchildren ot kf).
  Proof.
    intros C Ep Ok. unfold X.s_entry, p_entry, X.group_ok_with in *. destruct (snd kf) as [|f fs]; [constructor|].
    destruct (X.s_field_kind S ot (D.fn_name f)) as [| |t|]; try (constructor; [|constructor]).
    - split; reflexivity.
    - split; reflexivity.
    - unfold EKRel. cbn [fst snd fp_nn].
      destruct (C (D.fn_name f)) as [CR CK].
      assert (Eq : trp (path ++ [D.PKey (fst kf)]) = slice (PKey (fst kf) :: p))
        by (rewrite trp_snoc, slice_cons, Ep; reflexivity).
      pose proof (position_krel t (path ++ [D.PKey (fst kf)]) (PKey (fst kf) :: p) _ _
                    (CR t (f :: fs) (path ++ [D.PKey (fst kf)]))
                    (CK n t (f :: fs) (path ++ [D.PKey (fst kf)]) (PKey (fst kf) :: p) Ok) Eq) as P.
      unfold KPRel in P.
      destruct (field_as_unres (is_nn t) (pchildren (D.fn_name f) t (f :: fs)) (PKey (fst kf) :: p)) as [A B].
      rewrite A, B. exact P.
    - constructor.
  Qed.

  Lemma cand_sel_cons_fst' p k f tl :
    fst (cand_sel cand_field p ((k, f) :: tl)) =
    fst (cand_catch (fp_nn f) (PKey k :: p) (cand_field f (PKey k :: p))) ++ fst (cand_sel cand_field p tl).
  Proof. rewrite cand_sel_cons. reflexivity. Qed.

  Lemma all_entries_k p (es : list (D.name * X.sout)) (ps : list (bytes * fplan)) :
    Forall2 (EKRel p) es ps ->
    epaths_c (flat_map X.so_thrown (map snd es)) = epaths_p (fst (cand_sel cand_field p ps)) /\
    (forall js, X.vals_of (map snd es) = Some js ->
       null_sites (flat_map X.so_nulls (map snd es)) = plan_sites (must_sel must_F p ps)).
  Proof.
    induction 1 as [|e [k f] es ps [RT RN] _ [IHT IHN]]; [split; [reflexivity | intros; reflexivity]|].
    cbn [map flat_map fst snd] in *. split.
    - rewrite epaths_c_app, cand_sel_cons_fst', epaths_p_app, RT, IHT. reflexivity.
    - intros js V. cbn [X.vals_of] in V.
      destruct (X.so_val (snd e)) as [j|]; [|discriminate].
      destruct (X.vals_of (map snd es)) as [js'|]; [|discriminate].
      rewrite null_sites_app. change (must_sel must_F p ((k, f) :: ps)) with (must_CF f (PKey k :: p) ++ must_sel must_F p ps).
      rewrite plan_sites_app, RN, (IHN js' eq_refl). reflexivity.
  Qed.

  Lemma Forall2_flat_map_in {A B C} (R : B -> C -> Prop) (f : A -> list B) (g : A -> list C) l :
    (forall a, In a l -> Forall2 R (f a) (g a)) -> Forall2 R (flat_map f l) (flat_map g l).
  Proof.
    induction l as [|a l IH]; intros H; simpl; [constructor|].
    apply Forall2_app; [apply H; now left | apply IH; intros b Hb; apply H; now right].
  Qed.

  Lemma selection_set_krel n children pchildren ot sels path p :
    (forall k, CKRel (children k) (pchildren k)) -> trp path = slice p ->
    X.sels_ok S Doc E fuel n ot sels = true ->
    epaths_c (X.so_thrown (X.s_selection_set S Doc E fuel children ot sels path)) =
    epaths_p (fst (cand_inner (p_selection_set code S Doc E fuel pchildren ot sels) p)) /\
    match X.so_val (X.s_selection_set S Doc E fuel children ot sels path) with
    | Some _ => null_sites (X.so_nulls (X.s_selection_set S Doc E fuel children ot sels path)) =
                plan_sites (must_I (p_selection_set code S Doc E fuel pchildren ot sels) p)
    | None => True
    end.
  Proof.
    intros C Ep Ok. destruct n as [|n']; [discriminate|]. cbn [X.sels_ok] in Ok.
    pose proof (selection_set_rel code S Doc E fuel children pchildren ot sels path (fun k => proj1 (C k))) as R.
    unfold X.s_selection_set, p_selection_set in *.
    destruct (X.s_collect S Doc E fuel ot sels) as [groups|]; [|discriminate].
    rewrite forallb_forall in Ok.
    pose proof (Forall2_flat_map_in (EKRel p) _ _ groups
                  (fun kf Hin => entry_krel n' children pchildren ot path p kf C Ep (Ok kf Hin))) as F.
    destruct (all_entries_k p _ _ F) as [AT AN]. unfold X.s_all in *.
    change (cand_inner (VObj (flat_map (p_entry code S pchildren ot) groups)) p)
      with (cand_sel cand_field p (flat_map (p_entry code S pchildren ot) groups)).
    change (must_I (VObj (flat_map (p_entry code S pchildren ot) groups)) p)
      with (must_sel must_F p (flat_map (p_entry code S pchildren ot) groups)).
    destruct (X.vals_of (map snd (flat_map (X.s_entry S children ot path) groups))) as [js|];
      cbn [X.so_val X.so_thrown X.so_nulls] in *.
    - destruct R as [Fl _]. split; [|exact (AN js eq_refl)].
      pose proof (proj2 (proj1 esc_all (VObj (flat_map (p_entry code S pchildren ot) groups)) p) Fl) as Z.
      change (cand_inner (VObj (flat_map (p_entry code S pchildren ot) groups)) p)
        with (cand_sel cand_field p (flat_map (p_entry code S pchildren ot) groups)) in Z.
      now rewrite Z.
    - split; [exact AT | exact Logic.I].
  Qed.

  (** ** lists *)
  Lemma items_krel n t fields path p (items : list X.scompleter) (pitems : list planner) :
    Forall2 CKRel items pitems -> trp path = slice p ->
    X.type_ok_with S (X.sels_ok S Doc E fuel n) t fields = true -> forall i,
    epaths_c (flat_map X.so_thrown (X.s_items t fields path items i)) =
    epaths_p (fst (cand_items cand_inner (is_nn t) p (map (fun c => unres (c t fields)) pitems) (N.to_nat i))) /\
    (forall js, X.vals_of (X.s_items t fields path items i) = Some js ->
       null_sites (flat_map X.so_nulls (X.s_items t fields path items i)) =
       plan_sites (must_items must_I (is_nn t) p (map (fun c => unres (c t fields)) pitems) (N.to_nat i))).
  Proof.
    intros F Ep Ok. induction F as [|c pc items pitems [CR CK] _ IH]; intros i; [split; [reflexivity | intros; reflexivity]|].
    cbn [X.s_items map flat_map].
    assert (Eq : trp (path ++ [D.PIdx i]) = slice (PIdx (N.to_nat i) :: p))
      by (rewrite trp_snoc, slice_cons, Ep; reflexivity).
    pose proof (position_krel t (path ++ [D.PIdx i]) (PIdx (N.to_nat i) :: p) _ _
                  (CR t fields (path ++ [D.PIdx i])) (CK n t fields (path ++ [D.PIdx i]) (PIdx (N.to_nat i) :: p) Ok) Eq) as [PT PN].
    destruct (IH (i + 1)%N) as [IT IN]. replace (N.to_nat (i + 1)) with (Datatypes.S (N.to_nat i)) in * by lia.
    split.
    - rewrite epaths_c_app, cand_items_cons. cbn [fst]. rewrite epaths_p_app, PT, IT. reflexivity.
    - intros js V. cbn [X.vals_of] in V.
      destruct (X.so_val (X.s_position t (path ++ [D.PIdx i]) (c t fields (path ++ [D.PIdx i])))) as [j|]; [|discriminate].
      destruct (X.vals_of (X.s_items t fields path items (i + 1)%N)) as [js'|]; [|discriminate].
      rewrite null_sites_app, must_items_cons, plan_sites_app. unfold must_CI. rewrite PN, (IN js' eq_refl). reflexivity.
  Qed.

  (** ** CompleteValue *)
  Lemma pos_esc_nn_irrel a b res p : unres res <> VNull -> pos_esc a res p = pos_esc b res p.
  Proof. unfold pos_esc, cand_nn. intros H. destruct a, b; auto; destruct (unres res); auto; contradiction. Qed.

  Lemma mem_forallb (f : D.name -> bool) t l : D.mem t l = true -> forallb f l = true -> f t = true.
  Proof.
    induction l as [|x l IH]; simpl; [discriminate|]. intros M F. apply andb_true_iff in F. destruct F as [Fx Fl].
    apply orb_true_iff in M. destruct M as [M|M]; [|now apply IH].
    apply bytes_eqb_eq in M. now subst x.
  Qed.

  Lemma view_krel (v : X.sview) (pv : pview) :
    X.sv_null v = pv_null pv -> X.sv_leaf v = pv_leaf pv -> X.sv_tag v = pv_tag pv ->
    match X.sv_items v, pv_items pv with
    | Some a, Some b => Forall2 CKRel a b
    | None, None => True
    | _, _ => False
    end ->
    (forall k, CKRel (X.sv_field v k) (pv_field pv k)) ->
    CRel code (X.s_complete_view S Doc E fuel v) (plan_view code S Doc E fuel pv) ->
    forall n ty fields path p,
      X.type_ok_with S (X.sels_ok S Doc E fuel n) ty fields = true ->
      KRel ty (X.s_complete_view S Doc E fuel v ty fields path) (plan_view code S Doc E fuel pv ty fields) path p.
  Proof.
    intros En El Et Ei Ef CR n ty. induction ty as [nm|t IH|t IH]; intros fields path p Ok Ep.
    - pose proof (CR (D.StNamed nm) fields path) as R. unfold Rel in R.
      cbn [X.s_complete_view plan_view] in *. rewrite <- En, <- El, <- Et in *.
      destruct (X.sv_null v); [split; reflexivity|].
      assert (Thr : forall e, D.e_path e = path ->
                 epaths_c (X.so_thrown (X.s_throw e)) = epaths_p (pos_esc false (Some VBad) p) /\ True).
      { intros e He. split; auto. unfold epaths_c, epaths_p, pos_esc, X.s_throw.
        cbn [X.so_thrown unres cand_nn cand_inner fst map]. rewrite He. unfold err_at. cbn [e_path]. exact (f_equal (fun z => [z]) Ep). }
      assert (Obj : forall ot, X.sels_ok S Doc E fuel n ot (X.s_merge_selection_sets fields) = true ->
                 KRel (D.StNamed nm) (X.s_selection_set S Doc E fuel (X.sv_field v) ot (X.s_merge_selection_sets fields) path)
                      (Some (p_selection_set code S Doc E fuel (pv_field pv) ot (X.s_merge_selection_sets fields))) path p).
      { intros ot Hok _. unfold pos_esc. cbn [is_nn unres cand_nn]. now apply (selection_set_krel n). }
      unfold X.type_ok_with in Ok. cbn [X.sty_base] in Ok. unfold X.s_possible in Ok.
      destruct (D.lookup_type S nm) as [[k|vals|fs ifs|fs|ms|]|] eqn:Lk; try discriminate.
      + destruct (D.coerce_scalar true k (X.sv_leaf v)); [split; reflexivity | now apply Thr].
      + destruct (D.coerce_enum vals (X.sv_leaf v)); [split; reflexivity | now apply Thr].
      + apply Obj; auto. cbn [forallb] in Ok. now rewrite andb_true_r in Ok.
      + destruct (X.s_resolve_abstract S nm (X.sv_tag v)) as [ot|] eqn:Ra; [|now apply Thr].
        apply Obj; auto. unfold X.s_resolve_abstract in Ra. destruct (X.sv_tag v) as [tg|]; [|discriminate].
        unfold X.s_possible in Ra. rewrite Lk in Ra.
        match type of Ra with (if D.mem tg ?l then _ else _) = _ => destruct (D.mem tg l) eqn:M; [|discriminate] end.
        injection Ra as <-. exact (mem_forallb _ _ _ M Ok).
      + destruct (X.s_resolve_abstract S nm (X.sv_tag v)) as [ot|] eqn:Ra; [|now apply Thr].
        apply Obj; auto. unfold X.s_resolve_abstract in Ra. destruct (X.sv_tag v) as [tg|]; [|discriminate].
        unfold X.s_possible in Ra. rewrite Lk in Ra.
        destruct (D.mem tg ms) eqn:M; [|discriminate].
        injection Ra as <-. exact (mem_forallb _ _ _ M Ok).
    - pose proof (CR (D.StList t) fields path) as R. unfold Rel in R.
      cbn [X.s_complete_view plan_view] in *. rewrite <- En in *.
      destruct (X.sv_null v); [split; reflexivity|].
      destruct (X.sv_items v) as [items|], (pv_items pv) as [pitems|]; try contradiction.
      + destruct (items_krel n t fields path p items pitems Ei Ep Ok 0%N) as [AT AN].
        unfold X.s_all in *. unfold pos_esc. cbn [is_nn unres cand_nn].
        change (cand_inner (VList (is_nn t) (map (fun c => unres (c t fields)) pitems)) p)
          with (cand_items cand_inner (is_nn t) p (map (fun c => unres (c t fields)) pitems) 0).
        change (must_I (VList (is_nn t) (map (fun c => unres (c t fields)) pitems)) p)
          with (must_items must_I (is_nn t) p (map (fun c => unres (c t fields)) pitems) 0).
        destruct (X.vals_of (X.s_items t fields path items 0%N)) as [js|]; cbn [X.so_val X.so_thrown X.so_nulls] in *.
        * destruct R as [Fl _]. unfold pos_fails in Fl. cbn [is_nn unres] in Fl. rewrite andb_false_l, orb_false_r in Fl.
          split; [|exact (AN js eq_refl)].
          pose proof (proj2 (proj1 esc_all (VList (is_nn t) (map (fun c => unres (c t fields)) pitems)) p) Fl) as Z.
          change (cand_inner (VList (is_nn t) (map (fun c => unres (c t fields)) pitems)) p)
            with (cand_items cand_inner (is_nn t) p (map (fun c => unres (c t fields)) pitems) 0) in Z.
          now rewrite Z.
        * split; [exact AT | exact Logic.I].
      + split; [|exact Logic.I]. unfold epaths_c, epaths_p, pos_esc, X.s_throw, X.field_error.
        cbn [X.so_thrown unres cand_nn cand_inner fst map D.e_path is_nn]. unfold err_at. cbn [e_path]. now rewrite Ep.
    - pose proof (CR t fields path) as R. unfold Rel in R.
      assert (Ok' : X.type_ok_with S (X.sels_ok S Doc E fuel n) t fields = true) by exact Ok.
      destruct (IH fields path p Ok' Ep) as [KT KN].
      cbn [X.s_complete_view plan_view]. cbn [is_nn].
      set (x := X.s_complete_view S Doc E fuel v t fields path) in *.
      set (res := plan_view code S Doc E fuel pv t fields) in *.
      unfold pos_fails, pos_json in R.
      destruct (X.so_val x) as [j|] eqn:Ex.
      + destruct R as [Fl J]. apply orb_false_iff in Fl. destruct Fl as [F1 F2]. unfold jc in J. rewrite F1 in J.
        destruct j; cbn [X.so_val X.so_thrown]; rewrite ?Ex;
          try (split; [rewrite KT; f_equal; apply pos_esc_nn_irrel; intro Hv; rewrite Hv in J; discriminate | exact KN]).
        simpl in J. symmetry in J. apply (jv_null_inv (unres res) F1) in J.
        split; [|exact Logic.I]. unfold epaths_c, epaths_p, pos_esc. rewrite J.
        cbn [X.so_thrown cand_nn cand_inner fst map D.e_path X.field_error]. unfold err_at. cbn [e_path]. now rewrite Ep.
      + rewrite Ex. split; [|exact Logic.I]. rewrite KT. f_equal.
        destruct (is_nn t) eqn:Nt; [reflexivity|]. apply pos_esc_nn_irrel. intro Hv. rewrite Hv in R. discriminate.
  Qed.

  Lemma ckrel_resolver_error : CKRel X.s_resolver_error p_resolver_error.
  Proof.
    split; [apply crel_resolver_error|]. intros n ty fields path p _ Ep. split; [|exact Logic.I].
    unfold epaths_c, epaths_p, pos_esc, X.s_resolver_error, X.s_throw, p_resolver_error.
    cbn [X.so_thrown unres map D.e_path]. rewrite Ep.
    destruct (is_nn ty); reflexivity.
  Qed.

  Lemma ck_field_of' (fs : list (D.name * D.outcome)) :
    Forall (fun nf => CKRel (X.s_complete S Doc E fuel (snd nf)) (plan_complete code S Doc E fuel (snd nf))) fs ->
    forall k,
      CKRel (X.s_field_of (map (fun p : D.name * D.outcome =>
                                  match p with
                                  | (n0, o') => (n0, match o' with
                                                     | D.OErr => X.s_resolver_error
                                                     | _ => X.s_complete S Doc E fuel o'
                                                     end)
                                  end) fs) k)
            (p_field_of (map (fun p : D.name * D.outcome =>
                                match p with
                                | (n0, o') => (n0, match o' with
                                                   | D.OErr => p_resolver_error
                                                   | _ => plan_complete code S Doc E fuel o'
                                                   end)
                                end) fs) k).
  Proof.
    intros H k. unfold X.s_field_of, p_field_of.
    induction H as [|[k0 o] l Ho _ IH]; cbn [map D.assoc]; [apply ckrel_resolver_error|].
    destruct (D.name_eqb k k0); [|exact IH].
    cbn [snd] in Ho. destruct o; try exact Ho. apply ckrel_resolver_error.
  Qed.

  Lemma complete_ckrel o : CKRel (X.s_complete S Doc E fuel o) (plan_complete code S Doc E fuel o).
  Proof.
    split; [apply complete_rel|].
    induction o as [| | |g|l IH|t fs IH] using outcome_ind2.
    - apply view_krel; try reflexivity; try exact Logic.I; [intros k; apply ckrel_resolver_error | apply (complete_rel code S Doc E fuel D.ONil)].
    - apply view_krel; try reflexivity; try exact Logic.I; [intros k; apply ckrel_resolver_error | apply (complete_rel code S Doc E fuel D.OTypedNil)].
    - apply view_krel; try reflexivity; try exact Logic.I; [intros k; apply ckrel_resolver_error | apply (complete_rel code S Doc E fuel D.OErr)].
    - apply view_krel; try reflexivity; try exact Logic.I; [intros k; apply ckrel_resolver_error | apply (complete_rel code S Doc E fuel (D.OLeaf g))].
    - apply view_krel; try reflexivity; [|intros k; apply ckrel_resolver_error | apply (complete_rel code S Doc E fuel (D.OList l))].
      cbn [X.sv_items pv_items]. induction IH as [|x l Hx _ IHl]; constructor; auto.
      split; [apply complete_rel | exact Hx].
    - apply view_krel; try reflexivity; try exact Logic.I; [|apply (complete_rel code S Doc E fuel (D.OObj t fs))].
      cbn [X.sv_field pv_field]. apply ck_field_of'.
      eapply Forall_impl; [|exact IH]. intros nf H. split; [apply complete_rel | exact H].
  Qed.

  Lemma resolve_ckrel o : CKRel (X.s_resolve S Doc E fuel o) (plan_resolve code S Doc E fuel o).
  Proof. destruct o; try apply complete_ckrel. apply ckrel_resolver_error. Qed.

  Lemma children_ckrel W k : CKRel (X.s_children_of S Doc E fuel W k) (plan_children_of code S Doc E fuel W k).
  Proof.
    destruct W; cbn [X.s_children_of plan_children_of]; try apply ckrel_resolver_error.
    unfold X.s_field_of, p_field_of.
    induction fields as [|[k0 o] l IH]; cbn [map D.assoc fst snd]; [apply ckrel_resolver_error|].
    destruct (D.name_eqb k k0); [apply resolve_ckrel | exact IH].
  Qed.

  (** ** the response: failure-nulls with their candidates *)
  Theorem bridge_candidates n W :
    X.doc_ok S Doc E fuel n = true ->
    null_sites (X.failure_nulls (X.exec_spec S Doc E fuel W)) =
    plan_sites (visible_nulls (plan_of code S Doc E fuel W)).
  Proof.
    unfold X.doc_ok. intros Ok. apply andb_true_iff in Ok. destruct Ok as [_ Ok].
    unfold plan_of, X.exec_spec.
    destruct (X.s_root_type S (D.op_kind Doc)) as [rt|]; [|discriminate].
    pose proof (selection_set_rel code S Doc E fuel (X.s_children_of S Doc E fuel W) (plan_children_of code S Doc E fuel W)
                                  rt (D.op_sels Doc) [] (fun k => proj1 (children_ckrel W k))) as R.
    destruct (selection_set_krel n (X.s_children_of S Doc E fuel W) (plan_children_of code S Doc E fuel W)
                                 rt (D.op_sels Doc) [] [] (children_ckrel W) eq_refl Ok) as [KT KN].
    assert (Sh : exists fs, p_selection_set code S Doc E fuel (plan_children_of code S Doc E fuel W) rt (D.op_sels Doc) = VObj fs).
    { unfold p_selection_set. destruct n as [|n']; [discriminate|]. cbn [X.sels_ok] in Ok.
      destruct (X.s_collect S Doc E fuel rt (D.op_sels Doc)); [eauto | discriminate]. }
    destruct Sh as [fs Sh]. rewrite Sh in *.
    destruct (X.so_val (X.s_selection_set S Doc E fuel (X.s_children_of S Doc E fuel W) rt (D.op_sels Doc) [])) as [j|];
      cbn [X.failure_nulls].
    - destruct R as [F _]. unfold visible_nulls. rewrite F. exact KN.
    - unfold visible_nulls. rewrite R. unfold null_sites, plan_sites. cbn [map fst snd]. now rewrite KT.
  Qed.
End BridgeCands.
