(** * Fut/SubPerm.v — multiset inclusion of lists ("a is b with some elements removed, up to order"),
    the bookkeeping relation for resources that are used at most once. *)
From Coq Require Import List Permutation.
Import ListNotations.

Section SubPerm.
  Context {A : Type}.

  Definition sub_perm (a b : list A) : Prop := exists c, Permutation (a ++ c) b.

  Lemma sub_perm_refl a : sub_perm a a.
  Proof. exists []. now rewrite app_nil_r. Qed.

  Lemma sub_perm_nil b : sub_perm [] b.
  Proof. exists b. reflexivity. Qed.

  Lemma sub_perm_trans a b c : sub_perm a b -> sub_perm b c -> sub_perm a c.
  Proof.
    intros [x Hx] [y Hy]. exists (x ++ y).
    rewrite app_assoc. rewrite Hx. exact Hy.
  Qed.

  Lemma sub_perm_app a a' b b' : sub_perm a b -> sub_perm a' b' -> sub_perm (a ++ a') (b ++ b').
  Proof.
    intros [x Hx] [y Hy]. exists (x ++ y).
    rewrite <- Hx, <- Hy.
    rewrite <- !app_assoc. apply Permutation_app_head.
    rewrite !app_assoc. apply Permutation_app_tail. apply Permutation_app_comm.
  Qed.

  Lemma sub_perm_perm a a' b : Permutation a a' -> sub_perm a b -> sub_perm a' b.
  Proof. intros Hp [x Hx]. exists x. now rewrite <- Hp. Qed.

  Lemma sub_perm_perm_r a b b' : Permutation b b' -> sub_perm a b -> sub_perm a b'.
  Proof. intros Hp [x Hx]. exists x. now rewrite Hx. Qed.

  Lemma sub_perm_app_l a b c : sub_perm (a ++ b) c -> sub_perm a c.
  Proof. intros [x Hx]. exists (b ++ x). now rewrite app_assoc. Qed.

  Lemma sub_perm_app_r a b c : sub_perm (a ++ b) c -> sub_perm b c.
  Proof.
    intros H. apply sub_perm_app_l with (b := a).
    eapply sub_perm_perm; [|exact H]. apply Permutation_app_comm.
  Qed.

  Lemma sub_perm_cons_r a x b : sub_perm a b -> sub_perm a (x :: b).
  Proof.
    intros [c Hc]. exists (x :: c).
    rewrite <- Hc. symmetry. apply Permutation_middle.
  Qed.

  Lemma sub_perm_app_r_intro a b c : sub_perm a c -> sub_perm a (b ++ c).
  Proof.
    intros H. change a with ([] ++ a). apply sub_perm_app; [apply sub_perm_nil | exact H].
  Qed.

  Lemma sub_perm_app_l_intro a b c : sub_perm a b -> sub_perm a (b ++ c).
  Proof.
    intros H. rewrite <- (app_nil_r a). apply sub_perm_app; [exact H | apply sub_perm_nil].
  Qed.

  Lemma sub_perm_In a b x : sub_perm a b -> In x a -> In x b.
  Proof.
    intros [c Hc] Hin. eapply Permutation_in; [exact Hc|]. apply in_or_app. now left.
  Qed.

  Lemma sub_perm_NoDup a b : sub_perm a b -> NoDup b -> NoDup a.
  Proof.
    intros [c Hc] Hnd. apply Permutation_sym in Hc.
    pose proof (Permutation_NoDup Hc Hnd) as H.
    clear Hc Hnd. induction a as [|x a IH]; [constructor|].
    simpl in H. inversion H as [|? ? Hx Hr]; subst. constructor.
    - intro Hin. apply Hx. apply in_or_app. now left.
    - now apply IH.
  Qed.

End SubPerm.

Lemma sub_perm_map {A B} (f : A -> B) (a b : list A) :
  sub_perm a b -> sub_perm (map f a) (map f b).
Proof.
  intros [c Hc]. exists (map f c). rewrite <- map_app. now apply Permutation_map.
Qed.
