(** * Fut/AsyncWrap.v — position specifications, outcomes, and the lemmas for the wrappers
    (non-null check, catchErrorIfNullable) of the asynchronous executor. *)
From Coq Require Import List NArith ZArith Bool Lia Permutation.
From ApiFu Require Import Base.Sexp Fut.Plan Fut.Future Fut.ExecAsync Fut.ExecSync Fut.Denote Fut.SubPerm
     Fut.Live Fut.LiveFacts Fut.Acct.
Import ListNotations.

(** what the plan says about a position: does it fail, its JSON, the errors that may escape it *)
Record pspec := { ps_fails : bool; ps_json : json; ps_esc : list err; ps_must : list site }.

Definition spec_I (v : vplan) (p : rpath) : pspec :=
  {| ps_fails := fails_inner v; ps_json := jv v; ps_esc := fst (cand_inner v p); ps_must := must_I v p |}.
Definition spec_W (nn : bool) (v : vplan) (p : rpath) : pspec :=
  {| ps_fails := fails_w nn v; ps_json := jv v; ps_esc := fst (cand_nn nn p v (cand_inner v p));
     ps_must := must_I v p |}.
Definition spec_CI (inn : bool) (x : vplan) (q : rpath) : pspec :=
  {| ps_fails := inn && fails_w true x; ps_json := jc x;
     ps_esc := fst (cand_catch inn q (cand_nn inn q x (cand_inner x q))); ps_must := must_CI inn x q |}.
Definition spec_F (fp : fplan) (p : rpath) : pspec :=
  {| ps_fails := fails_f fp; ps_json := jf fp; ps_esc := fst (cand_field fp p); ps_must := must_F fp p |}.
Definition spec_CF (fp : fplan) (q : rpath) : pspec :=
  {| ps_fails := fp_nn fp && fails_f fp; ps_json := jf fp;
     ps_esc := fst (cand_catch (fp_nn fp) q (cand_field fp q)); ps_must := must_CF fp q |}.

Definition budget_I (v : vplan) (p : rpath) : ghost :=
  {| g_sites := snd (cand_inner v p); g_ids := []; g_pot := count_async_v v |}.
Definition budget_CI (inn : bool) (x : vplan) (q : rpath) : ghost :=
  {| g_sites := snd (cand_catch inn q (cand_nn inn q x (cand_inner x q))); g_ids := [];
     g_pot := count_async_v x |}.
Definition budget_F (fp : fplan) (p : rpath) : ghost :=
  {| g_sites := snd (cand_field fp p); g_ids := []; g_pot := count_async_f fp |}.
Definition budget_CF (fp : fplan) (q : rpath) : ghost :=
  {| g_sites := snd (cand_catch (fp_nn fp) q (cand_field fp q)); g_ids := [];
     g_pot := count_async_f fp |}.

Definition ResOK (G : ghe) (s : st) (sp : pspec) (r : result) : Prop :=
  match r with
  | ROk v => ps_fails sp = false /\ val_ok G (s_maps s) v (ps_json sp) /\ Forall (Fired s) (ps_must sp)
  | RErr e => ps_fails sp = true /\ In e (ps_esc sp)
  end.

(** [Bk]: what is known of a pending future beyond its shape.  After a poll ([Outcome]) it is
    blocked: a promise it waits for has nothing in its channel.  After construction ([Outcome0])
    nothing is known: a promise may have been fulfilled before its resolver returned. *)
Definition OutcomeB (Bk : st -> ghost -> Prop) (L : ghe -> st -> clo -> ghost -> Prop) (sp : pspec)
           (G : ghe) (s : st) (g : ghost) (f : fut) : Prop :=
  match f with
  | Ready r => ResOK G s sp r /\ g = g0
  | Pending c => L G s c g /\ Bk s g
  end.
Notation Outcome := (OutcomeB Blocked).
Notation Outcome0 := (OutcomeB (fun _ _ => True)).

Lemma Outcome_weaken L sp G s g f : Outcome L sp G s g f -> Outcome0 L sp G s g f.
Proof. destruct f; simpl; auto. intros [A _]. auto. Qed.

Definition fut_of (c : clo) (ro : option result) : fut :=
  match ro with Some r => Ready r | None => Pending c end.

(** transporting an outcome to a later state *)
Lemma ResOK_mono G s G' s' sp r : gle G G' -> sle s s' -> ResOK G s sp r -> ResOK G' s' sp r.
Proof.
  intros Hg Hs. pose proof Hs as (Hh & _). destruct r as [v|e]; simpl; auto.
  intros (A & B & C). split; auto. split; [eapply val_ok_mono; eauto|].
  eapply Forall_impl; [|exact C]. intros a. now apply Fired_mono.
Qed.

(** ** declarative facts used by the wrappers *)
Lemma jv_null_inv v : fails_inner v = false -> jv v = JNull -> v = VNull.
Proof.
  destruct v; simpl; intros F J; try discriminate; auto.
Qed.

Lemma val_ok_nil_inv G H j : val_ok G H GNil j -> j = JNull.
Proof. intros V. inversion V; auto. Qed.

Lemma val_ok_null_inv G H v : val_ok G H v JNull -> v = GNil.
Proof. intros V. inversion V; auto. Qed.

Lemma cand_nn_snd nn p v c : snd (cand_nn nn p v c) = snd c.
Proof. unfold cand_nn. destruct nn; auto. destruct v; auto. Qed.

Lemma budget_W_eq nn v p :
  {| g_sites := snd (cand_nn nn p v (cand_inner v p)); g_ids := []; g_pot := count_async_v v |} = budget_I v p.
Proof. unfold budget_I. now rewrite cand_nn_snd. Qed.

(** the result of the non-null check applied to a result that meets the inner specification *)
Lemma nn_check_ok G s v p r :
  ResOK G s (spec_I v p) r ->
  ResOK G s (spec_W true v p)
        (match r with ROk GNil => RErr (err_at p KNullNN) | _ => r end).
Proof.
  unfold ResOK, spec_I, spec_W, fails_w; simpl. destruct r as [gv|e].
  - intros (F & V & M). destruct gv; simpl.
    + apply val_ok_nil_inv in V. apply jv_null_inv in V; auto. subst v. simpl. auto.
    + split; [|auto]. rewrite F. simpl. destruct v; simpl; auto.
      simpl in V. inversion V.
    + split; [|auto]. rewrite F. simpl. destruct v; simpl; auto. simpl in V. inversion V.
    + split; [|auto]. rewrite F. simpl. destruct v; simpl; auto. simpl in V. inversion V.
    + inversion V.
    + inversion V.
  - intros [F I]. split; [now rewrite F|].
    unfold cand_nn. destruct v; auto. simpl in F. discriminate.
Qed.

Lemma ResOK_W_false G s v p r : ResOK G s (spec_I v p) r -> ResOK G s (spec_W false v p) r.
Proof.
  unfold ResOK, spec_I, spec_W, fails_w, cand_nn; simpl.
  destruct r; rewrite orb_false_r; auto.
Qed.

(** ** nn_wrap at construction *)
Lemma nn_wrap_build Bk G s g nn v p f f2 s2 :
  OutcomeB Bk (fun G s => LiveI G s v p) (spec_I v p) G s g f ->
  nn_wrap FX nn p (f, s) = (f2, s2) ->
  s2 = s /\ OutcomeB Bk (fun G s => LiveW G s nn v p) (spec_W nn v p) G s g f2.
Proof.
  intros O E. unfold nn_wrap in E. destruct nn.
  - destruct f as [r|c]; simpl in O.
    + destruct O as [R ->]. pose proof (nn_check_ok _ _ _ _ _ R) as R2.
      destruct r as [gv|e].
      * destruct gv; inversion E; subst; split; auto; split; auto.
      * simpl in E. inversion E; subst. split; auto. split; auto.
    + simpl in E. inversion E; subst. split; auto. destruct O as [L B]. split; auto.
      now constructor.
  - injection E as <- <-. split; auto. destruct f as [r|c]; simpl in *.
    + destruct O as [R ->]. split; auto. now apply ResOK_W_false.
    + destruct O as [L B]. split; auto. now constructor.
Qed.

(** ** catch_error on a result *)
Definition catch_res (r : result) : result := match r with RErr _ => ROk GNil | ROk _ => r end.

Lemma catch_error_eq r s :
  catch_error r s = (catch_res r, match r with RErr e => add_err e s | ROk _ => s end).
Proof. destruct r; reflexivity. Qed.

Lemma add_err_maps e s : s_maps (add_err e s) = s_maps s.
Proof. reflexivity. Qed.

Lemma sle_add_err e s : sle s (add_err e s).
Proof.
  split; simpl; [apply hle_refl | split; [apply proms_le_refl | apply incl_appl, incl_refl]].
Qed.

(** ** specifications of building and of stepping a position *)
Definition StepSpec (L : ghe -> st -> clo -> ghost -> Prop) (sp : pspec) : Prop :=
  forall G s c g c' ro s', INV G (s_maps s) -> chans_wf s -> L G s c g ->
    invoke FX c s = (c', ro, s') ->
    exists G' g', Step G s g G' s' g' /\ Outcome L sp G' s' g' (fut_of c' ro).

Definition BuildSpec (build : st -> fut * st) (bud : ghost)
           (L : ghe -> st -> clo -> ghost -> Prop) (sp : pspec) : Prop :=
  forall G s f s', INV G (s_maps s) -> chans_wf s -> build s = (f, s') ->
    exists G' g', Step G s bud G' s' g' /\ Outcome0 L sp G' s' g' f.

Lemma Step_chans_wf G s g G' s' g' : Step G s g G' s' g' -> chans_wf s -> chans_wf s'.
Proof. intros (_ & _ & _ & A). eapply Acct_chans_wf; eauto. Qed.

Lemma invoke_CMap fn c s :
  invoke FX (CMap fn c) s =
  let '(c1, r, s1) := invoke FX c s in
  match r with
  | Some r0 => let '(r1, s2) := fn r0 s1 in (CMap fn c1, Some r1, s2)
  | None => (CMap fn c1, None, s1)
  end.
Proof. reflexivity. Qed.

(** ** the non-null wrapper *)
Lemma W_build nn v p :
  BuildSpec (complete_inner FX v p) (budget_I v p) (fun G s => LiveI G s v p) (spec_I v p) ->
  BuildSpec (fun s => nn_wrap FX nn p (complete_inner FX v p s)) (budget_I v p)
            (fun G s => LiveW G s nn v p) (spec_W nn v p).
Proof.
  intros B G s f s' I C E.
  destruct (complete_inner FX v p s) as [f0 s0] eqn:E0.
  destruct (B G s f0 s0 I C E0) as (G' & g' & St & O).
  destruct (nn_wrap_build _ _ _ _ _ _ _ _ _ _ O E) as [-> O2].
  exists G', g'. split; auto.
Qed.

Lemma W_step nn v p :
  StepSpec (fun G s => LiveI G s v p) (spec_I v p) ->
  StepSpec (fun G s => LiveW G s nn v p) (spec_W nn v p).
Proof.
  intros S G s c g c' ro s' I C L E. inversion L; subst.
  - (* non-null: CMap (nn_check p) c0 *)
    rewrite invoke_CMap in E. destruct (invoke FX c0 s) as [[c1 r] s1] eqn:E0.
    destruct (S G s c0 g c1 r s1 I C H E0) as (G' & g' & St & O).
    destruct r as [r0|]; simpl in O.
    + destruct O as [R ->]. pose proof (nn_check_ok _ _ _ _ _ R) as R2.
      assert (X : nn_check p r0 s1 = (match r0 with ROk GNil => RErr (err_at p KNullNN) | _ => r0 end, s1)).
      { destruct r0 as [[]|]; reflexivity. }
      rewrite X in E. injection E as <- <- <-. exists G', g0. split; auto. simpl. auto.
    + injection E as <- <- <-. exists G', g'. split; auto. simpl. destruct O as [L1 B1].
      split; auto. now constructor.
  - destruct (S G s c g c' ro s' I C H E) as (G' & g' & St & O).
    exists G', g'. split; auto. destruct ro as [r|]; simpl in *.
    + destruct O as [R ->]. split; auto. now apply ResOK_W_false.
    + destruct O as [L1 B1]. split; auto. now constructor.
Qed.

(** ** catchErrorIfNullable, generically over what it wraps *)
Definition gs (x : site) : ghost := {| g_sites := [x]; g_ids := []; g_pot := 0 |}.

Lemma gsite_gplus x g : gsite x g = gplus (gs x) g.
Proof. reflexivity. Qed.

Section Catch.
  Variable nn : bool.
  Variables L0 L1 : ghe -> st -> clo -> ghost -> Prop.
  Variables sp0 sp1 : pspec.
  Variable q : rpath.
  Let x0 : site := (slice q, ps_esc sp0).

  Hypothesis L1_nn : nn = true -> forall G s c g, L0 G s c g -> L1 G s c g.
  Hypothesis L1_catch : nn = false -> forall G s c g, L0 G s c g ->
                                      L1 G s (CMap catch_error c) (gsite x0 g).
  Hypothesis L1_inv : forall G s c g, L1 G s c g ->
      (nn = true /\ L0 G s c g) \/
      (nn = false /\ exists c0 g', c = CMap catch_error c0 /\ g = gsite x0 g' /\ L0 G s c0 g').
  Hypothesis sp1_fails : ps_fails sp1 = nn && ps_fails sp0.
  Hypothesis sp1_json_ok : ps_fails sp0 = false -> ps_json sp1 = ps_json sp0.
  Hypothesis sp1_json_fail : nn = false -> ps_fails sp0 = true -> ps_json sp1 = JNull.
  Hypothesis sp1_esc : nn = true -> ps_esc sp1 = ps_esc sp0.
  Hypothesis sp1_must_ok : ps_fails sp0 = false -> ps_must sp1 = ps_must sp0.
  Hypothesis sp1_must_nn : nn = true -> ps_must sp1 = ps_must sp0.
  Hypothesis sp1_must_fail : nn = false -> ps_fails sp0 = true -> ps_must sp1 = [x0].

  Definition cbud (bud0 : ghost) : ghost := if nn then bud0 else gsite x0 bud0.

  (** a ready result goes through catch_error *)
  Lemma catch_ready G s r :
    nn = false -> INV G (s_maps s) -> ResOK G s sp0 r ->
    let s2 := match r with RErr e => add_err e s | ROk _ => s end in
    Step G s (gsite x0 g0) G s2 g0 /\ ResOK G s2 sp1 (catch_res r).
  Proof.
    intros N I R. destruct r as [v|e]; simpl in *.
    - destruct R as (F & V & M). split.
      + split; [apply gle_refl|]. split; [apply sle_refl|]. split; auto. apply Acct_unsite.
      + rewrite sp1_fails, F, andb_false_r. split; auto. rewrite sp1_json_ok, sp1_must_ok; auto.
    - destruct R as [F In]. split.
      + split; [apply gle_refl|]. split; [apply sle_add_err|]. split; auto.
        apply Acct_fire. exact In.
      + rewrite sp1_fails, N. simpl. split; auto. rewrite sp1_json_fail, sp1_must_fail; auto.
        split; [constructor|]. constructor; [|constructor].
        exists e. split; [simpl; apply in_or_app; right; now left | exact In].
  Qed.

  Lemma Blocked_gsite s x g : Blocked s g -> Blocked s (gsite x g).
  Proof. intros (id & A & B). exists id. split; auto. Qed.

  Lemma C_build build0 bud0 :
    BuildSpec build0 bud0 L0 sp0 ->
    BuildSpec (fun s => let '(f, s1) := build0 s in catch_if_nullable nn f s1) (cbud bud0) L1 sp1.
  Proof.
    intros B G s f s' I C E. destruct (build0 s) as [f0 s0] eqn:E0.
    destruct (B G s f0 s0 I C E0) as (G' & g' & St & O).
    unfold catch_if_nullable, cbud in *.
    destruct (Bool.bool_dec nn true) as [N|N]; [|apply not_true_is_false in N]; rewrite N in E |- *.
    - injection E as <- <-. exists G', g'. split; auto.
      destruct f0 as [r|c]; simpl in *.
      + destruct O as [R ->]. split; auto. destruct r; simpl in *; rewrite sp1_fails, N; simpl.
        * destruct R as (F & V & M). rewrite F. split; auto. rewrite sp1_json_ok, sp1_must_nn; auto.
        * destruct R as [F V]. rewrite F. split; auto. now rewrite sp1_esc.
      + destruct O as [L B1]. split; auto.
    - destruct St as (Sg & Ss & SI & SA).
      destruct f0 as [r|c]; simpl in *.
      + destruct O as [R ->]. rewrite catch_error_eq in E. injection E as <- <-.
        destruct (catch_ready G' s0 r N SI R) as [St2 R2].
        exists G', g0. split.
        * eapply Step_trans; [|exact St2].
          split; auto. split; auto. split; auto.
          rewrite !gsite_gplus. rewrite <- (gplus_g0_r (gs x0)) at 2.
          rewrite (gplus_g0_r (gs x0)). apply Acct_frame_l. exact SA.
        * split; auto.
      + injection E as <- <-. destruct O as [L B1]. exists G', (gsite x0 g'). split.
        * split; auto. split; auto. split; auto. rewrite !gsite_gplus. now apply Acct_frame_l.
        * split; [now apply L1_catch | trivial].
  Qed.

  Lemma C_step :
    StepSpec L0 sp0 -> StepSpec L1 sp1.
  Proof.
    intros S G s c g c' ro s' I C L E.
    destruct (L1_inv _ _ _ _ L) as [[N L'] | (N & c0 & g1 & -> & -> & L')].
    - destruct (S G s c g c' ro s' I C L' E) as (G' & g' & St & O).
      exists G', g'. split; auto. destruct ro as [r|]; simpl in *.
      + destruct O as [R ->]. split; auto. destruct r; simpl in *; rewrite sp1_fails, N; simpl.
        * destruct R as (F & V & M). rewrite F. split; auto. rewrite sp1_json_ok, sp1_must_nn; auto.
        * destruct R as [F V]. rewrite F. split; auto. now rewrite sp1_esc.
      + destruct O as [L2 B]. split; auto.
    - rewrite invoke_CMap in E. destruct (invoke FX c0 s) as [[c1 r] s1] eqn:E0.
      destruct (S G s c0 g1 c1 r s1 I C L' E0) as (G' & g' & (Sg & Ss & SI & SA) & O).
      destruct r as [r0|]; simpl in O.
      + destruct O as [R ->]. rewrite catch_error_eq in E. injection E as <- <- <-.
        destruct (catch_ready G' s1 r0 N SI R) as [St2 R2].
        exists G', g0. split.
        * eapply Step_trans; [|exact St2].
          split; auto. split; auto. split; auto.
          rewrite !gsite_gplus. now apply Acct_frame_l.
        * simpl. split; auto.
      + injection E as <- <- <-. destruct O as [L2 B]. exists G', (gsite x0 g'). split.
        * split; auto. split; auto. split; auto. rewrite !gsite_gplus. now apply Acct_frame_l.
        * simpl. split; [now apply L1_catch | now apply Blocked_gsite].
  Qed.
End Catch.
