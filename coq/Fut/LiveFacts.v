(** * Fut/LiveFacts.v — monotonicity of the invariant, heap lemmas, the algebra of accounts. *)
From Coq Require Import List NArith ZArith Bool Lia Permutation.
From ApiFu Require Import Base.Sexp Fut.Plan Fut.Future Fut.ExecAsync Fut.ExecSync Fut.Denote Fut.SubPerm Fut.Live.
Import ListNotations.

(** ** orders *)
Lemma hle_refl H : hle H H.
Proof. intros m slots Hm. exists slots. repeat split; auto. intros i x Hx. eauto. Qed.

Lemma hle_trans H1 H2 H3 : hle H1 H2 -> hle H2 H3 -> hle H1 H3.
Proof.
  intros A B m slots Hm. destruct (A m slots Hm) as (s2 & Hs2 & L2 & K2).
  destruct (B m s2 Hs2) as (s3 & Hs3 & L3 & K3).
  exists s3. repeat split; auto; try congruence.
  intros i x Hx. destruct (K2 i x Hx) as (y & Hy). eauto.
Qed.

Lemma gle_refl G : gle G G.
Proof. exists []. now rewrite app_nil_r. Qed.

Lemma gle_trans G1 G2 G3 : gle G1 G2 -> gle G2 G3 -> gle G1 G3.
Proof. intros [x ->] [y ->]. exists (x ++ y). now rewrite app_assoc. Qed.

Lemma gle_nth G G' m kvs : gle G G' -> nth_error G m = Some kvs -> nth_error G' m = Some kvs.
Proof.
  intros [x ->] Hm. rewrite nth_error_app1; auto. apply nth_error_Some. congruence.
Qed.

Lemma proms_le_refl ps : proms_le ps ps.
Proof. intros id pr H. eauto. Qed.

Lemma proms_le_trans a b c : proms_le a b -> proms_le b c -> proms_le a c.
Proof.
  intros A B id pr H. destruct (A id pr H) as (pr' & H' & E).
  destruct (B id pr' H') as (pr'' & H'' & E'). exists pr''. split; auto. congruence.
Qed.

Lemma sle_refl s : sle s s.
Proof. split; [apply hle_refl | split; [apply proms_le_refl | apply incl_refl]]. Qed.

Lemma sle_trans a b c : sle a b -> sle b c -> sle a c.
Proof.
  intros (A1 & A2 & A3) (B1 & B2 & B3).
  split; [eapply hle_trans; eauto | split; [eapply proms_le_trans; eauto | eapply incl_tran; eauto]].
Qed.

(** a state that agrees with [s] on promises and errors and whose heap is above *)
Lemma sle_heap s s' :
  hle (s_maps s) (s_maps s') -> s_proms s' = s_proms s -> s_errs s' = s_errs s -> sle s s'.
Proof.
  intros H P E. split; auto. split; [rewrite P; apply proms_le_refl | rewrite E; apply incl_refl].
Qed.

Lemma Fired_mono s s' x : sle s s' -> Fired s x -> Fired s' x.
Proof. intros (_ & _ & I) (e & A & B). exists e. split; auto. Qed.

Lemma full_hle H H' m slots :
  hle H H' -> nth_error H m = Some slots -> full slots ->
  exists slots', nth_error H' m = Some slots' /\ full slots'.
Proof.
  intros Hle Hm Hf. destruct (Hle m slots Hm) as (slots' & Hm' & L & K).
  exists slots'. split; auto.
  unfold full in *. rewrite Forall_forall in *. intros sl Hin.
  apply In_nth_error in Hin. destruct Hin as [i Hi].
  assert (Hlt : i < length slots) by (rewrite <- L; apply nth_error_Some; congruence).
  destruct (nth_error slots i) as [sl0|] eqn:E; [|apply nth_error_None in E; lia].
  assert (sl0 <> None) by (apply Hf; eapply nth_error_In; eauto).
  destruct sl0 as [x|]; [|congruence].
  destruct (K i x E) as (y & Hy). rewrite Hi in Hy. inversion Hy; subst. discriminate.
Qed.

Lemma val_ok_mono G H G' H' : gle G G' -> hle H H' ->
  forall v j, val_ok G H v j -> val_ok G' H' v j.
Proof.
  intros Hg Hh v. induction v as [| z | l IH | m | |] using gval_ind2; intros j Hv; inversion Hv; subst.
  - constructor.
  - constructor.
  - constructor. match goal with X : Forall2 _ _ _ |- _ => rename X into F2 end.
    clear Hv. revert IH. induction F2; intros IH; [constructor|].
    inversion IH; subst. constructor; auto.
  - match goal with A : nth_error H m = Some ?sl, B : full ?sl |- _ =>
      destruct (full_hle _ _ _ _ Hh A B) as (slots' & Hs' & Hf') end.
    econstructor; eauto. eapply gle_nth; eauto.
Qed.

(** ** heap operations *)
Lemma upd_nth_length {A} i (f : A -> A) l : length (upd_nth i f l) = length l.
Proof. revert i; induction l as [|x tl IH]; intros [|i]; simpl; auto. Qed.

Lemma nth_upd_nth_eq {A} i (f : A -> A) l x :
  nth_error l i = Some x -> nth_error (upd_nth i f l) i = Some (f x).
Proof. revert i; induction l as [|y tl IH]; intros [|i]; simpl; intros H; try discriminate; auto. congruence. Qed.

Lemma nth_upd_nth_neq {A} i j (f : A -> A) l :
  i <> j -> nth_error (upd_nth i f l) j = nth_error l j.
Proof.
  revert i j; induction l as [|y tl IH]; intros [|i] [|j] H; simpl; auto; try congruence.
Qed.

Lemma nth_upd_nth_none {A} i (f : A -> A) l :
  nth_error l i = None -> upd_nth i f l = l.
Proof. revert i; induction l as [|y tl IH]; intros [|i]; simpl; intros H; try discriminate; auto. f_equal; auto. Qed.

Lemma heap_set_maps m i k v s :
  s_maps (heap_set m i k v s) = upd_nth m (upd_nth i (fun _ => Some (k, v))) (s_maps s).
Proof. reflexivity. Qed.

Lemma hle_heap_set H m i k v :
  hle H (upd_nth m (upd_nth i (fun _ => Some (k, v))) H).
Proof.
  intros m0 slots Hm0. destruct (Nat.eq_dec m m0) as [->|Hne].
  - exists (upd_nth i (fun _ => Some (k, v)) slots). split; [now apply nth_upd_nth_eq|].
    split; [apply upd_nth_length|].
    intros i0 x Hx. destruct (Nat.eq_dec i i0) as [->|Hni].
    + exists (k, v). erewrite nth_upd_nth_eq; eauto.
    + exists x. rewrite nth_upd_nth_neq; auto.
  - exists slots. rewrite nth_upd_nth_neq; auto. repeat split; auto. intros; eauto.
Qed.

Lemma hle_alloc H (n : nat) : hle H (H ++ [repeat (@None (bytes * gval)) n]).
Proof.
  intros m slots Hm. exists slots. split.
  - rewrite nth_error_app1; auto. apply nth_error_Some. congruence.
  - split; auto. intros; eauto.
Qed.

Lemma INV_alloc G H kvs :
  INV G H -> INV (G ++ [kvs]) (H ++ [repeat None (length kvs)]).
Proof.
  intros [L I]. split; [rewrite !app_length; simpl; lia|].
  intros m slots kvs0 Hs Hk.
  assert (Hg : gle G (G ++ [kvs])) by (eexists; reflexivity).
  assert (Hh : hle H (H ++ [repeat None (length kvs)])) by apply hle_alloc.
  destruct (lt_dec m (length H)) as [Hlt|Hge].
  - rewrite nth_error_app1 in Hs by auto. rewrite nth_error_app1 in Hk by lia.
    destruct (I m slots kvs0 Hs Hk) as [L1 K]. split; auto.
    intros i k v Hi. destruct (K i k v Hi) as (j & Hj & Hv). exists j. split; auto.
    eapply val_ok_mono; eauto.
  - assert (m = length H).
    { assert (m < length (H ++ [repeat (@None (bytes*gval)) (length kvs)])) by (apply nth_error_Some; congruence).
      rewrite app_length in *; simpl in *; lia. }
    subst m. rewrite nth_error_app2 in Hs by lia. rewrite nth_error_app2 in Hk by lia.
    rewrite Nat.sub_diag in Hs. rewrite L, Nat.sub_diag in Hk. simpl in *.
    inversion Hs; inversion Hk; subst. split; [apply repeat_length|].
    intros i k v Hi. exfalso.
    assert (In (Some (k, v)) (repeat (@None (bytes*gval)) (length kvs0))) by (eapply nth_error_In; eauto).
    apply repeat_spec in H0. discriminate.
Qed.

Lemma INV_set G H m i k v kvs j :
  INV G H -> nth_error G m = Some kvs -> nth_error kvs i = Some (k, j) -> val_ok G H v j ->
  INV G (upd_nth m (upd_nth i (fun _ => Some (k, v))) H).
Proof.
  intros [L I] Hg Hk Hv.
  set (H' := upd_nth m (upd_nth i (fun _ => Some (k, v))) H).
  assert (Hh : hle H H') by apply hle_heap_set.
  split; [unfold H'; rewrite upd_nth_length; auto|].
  intros m0 slots kvs0 Hs Hk0. unfold H' in Hs.
  destruct (Nat.eq_dec m m0) as [<-|Hne].
  - destruct (nth_error H m) as [slots0|] eqn:E.
    + erewrite nth_upd_nth_eq in Hs by eauto. inversion Hs; subst slots. clear Hs.
      rewrite Hg in Hk0. inversion Hk0; subst kvs0. clear Hk0.
      destruct (I m slots0 kvs E Hg) as [L1 K]. split; [rewrite upd_nth_length; auto|].
      intros i0 k0 v0 Hi0. destruct (Nat.eq_dec i i0) as [<-|Hni].
      * destruct (nth_error slots0 i) as [sl|] eqn:E2.
        -- erewrite nth_upd_nth_eq in Hi0 by eauto. inversion Hi0; subst.
           exists j. split; auto. eapply val_ok_mono; eauto. apply gle_refl.
        -- rewrite nth_upd_nth_none in Hi0 by auto. congruence.
      * rewrite nth_upd_nth_neq in Hi0 by auto.
        destruct (K i0 k0 v0 Hi0) as (j0 & Hj0 & Hv0). exists j0. split; auto.
        eapply val_ok_mono; eauto. apply gle_refl.
    + rewrite nth_upd_nth_none in Hs by auto. congruence.
  - rewrite nth_upd_nth_neq in Hs by auto.
    destruct (I m0 slots kvs0 Hs Hk0) as [L1 K]. split; auto.
    intros i0 k0 v0 Hi0. destruct (K i0 k0 v0 Hi0) as (j0 & Hj0 & Hv0). exists j0. split; auto.
    eapply val_ok_mono; eauto. apply gle_refl.
Qed.

(** ** the Live judgement is monotone in the ghost table and the state *)
Scheme LiveI_mind := Minimality for LiveI Sort Prop
  with LiveS_mind := Minimality for LiveS Sort Prop
  with LiveSel_mind := Minimality for LiveSel Sort Prop
  with LiveItems_mind := Minimality for LiveItems Sort Prop
  with LiveCI_mind := Minimality for LiveCI Sort Prop
  with LiveCF_mind := Minimality for LiveCF Sort Prop
  with LiveW_mind := Minimality for LiveW Sort Prop
  with LiveF_mind := Minimality for LiveF Sort Prop.
Combined Scheme Live_mutind from LiveI_mind, LiveS_mind, LiveSel_mind, LiveItems_mind,
  LiveCI_mind, LiveCF_mind, LiveW_mind, LiveF_mind.

Lemma Live_mono_all G s G' s' : gle G G' -> sle s s' ->
  (forall v p c g, LiveI G s v p c g -> LiveI G' s' v p c g) /\
  (forall f p c g, LiveS G s f p c g -> LiveS G' s' f p c g) /\
  (forall m p f fs ix g, LiveSel G s m p f fs ix g -> LiveSel G' s' m p f fs ix g) /\
  (forall inn p l i fs res g, LiveItems G s inn p l i fs res g -> LiveItems G' s' inn p l i fs res g) /\
  (forall inn x q c g, LiveCI G s inn x q c g -> LiveCI G' s' inn x q c g) /\
  (forall fp q c g, LiveCF G s fp q c g -> LiveCF G' s' fp q c g) /\
  (forall nn v p c g, LiveW G s nn v p c g -> LiveW G' s' nn v p c g) /\
  (forall fp p c g, LiveF G s fp p c g -> LiveF G' s' fp p c g).
Proof.
  intros Hg Hs. pose proof Hs as (Hh & Hp & He).
  apply Live_mutind; intros; try (econstructor; eauto; fail).
  - (* LS_intro *)
    destruct (Hh m slots H) as (slots' & Hs' & L' & K').
    econstructor; eauto; try congruence.
    + eapply gle_nth; eauto.
    + intros i key fp Hn. destruct (H4 i key fp Hn) as [Hin | [[x Hx] [Hf Hm]]]; [now left|right].
      split; [destruct (K' i x Hx) as (y & Hy); eauto|]. split; auto.
      eapply Forall_impl; [|exact Hm]. intros a. now apply Fired_mono.
  - (* LIt_ready *)
    econstructor; eauto; [eapply val_ok_mono; eauto|].
    eapply Forall_impl; [|eassumption]. intros a. now apply Fired_mono.
  - (* LF_wait *)
    econstructor.
    destruct (nth_error (s_proms s) id) as [pr|] eqn:E; simpl in H; [|discriminate].
    destruct (Hp id pr E) as (pr' & E' & Ok'). rewrite E'. simpl. congruence.
Qed.

Section Mono.
  Variables (G : ghe) (s : st) (G' : ghe) (s' : st).
  Hypothesis Hg : gle G G'.
  Hypothesis Hs : sle s s'.
  Lemma LiveI_mono v p c g : LiveI G s v p c g -> LiveI G' s' v p c g.
  Proof. apply (Live_mono_all G s G' s' Hg Hs). Qed.
  Lemma LiveS_mono f p c g : LiveS G s f p c g -> LiveS G' s' f p c g.
  Proof. apply (Live_mono_all G s G' s' Hg Hs). Qed.
  Lemma LiveSel_mono m p f fs ix g : LiveSel G s m p f fs ix g -> LiveSel G' s' m p f fs ix g.
  Proof. apply (Live_mono_all G s G' s' Hg Hs). Qed.
  Lemma LiveItems_mono inn p l i fs res g : LiveItems G s inn p l i fs res g -> LiveItems G' s' inn p l i fs res g.
  Proof. apply (Live_mono_all G s G' s' Hg Hs). Qed.
  Lemma LiveCI_mono inn x q c g : LiveCI G s inn x q c g -> LiveCI G' s' inn x q c g.
  Proof. apply (Live_mono_all G s G' s' Hg Hs). Qed.
  Lemma LiveCF_mono fp q c g : LiveCF G s fp q c g -> LiveCF G' s' fp q c g.
  Proof. apply (Live_mono_all G s G' s' Hg Hs). Qed.
  Lemma LiveW_mono nn v p c g : LiveW G s nn v p c g -> LiveW G' s' nn v p c g.
  Proof. apply (Live_mono_all G s G' s' Hg Hs). Qed.
  Lemma LiveF_mono fp p c g : LiveF G s fp p c g -> LiveF G' s' fp p c g.
  Proof. apply (Live_mono_all G s G' s' Hg Hs). Qed.
End Mono.
