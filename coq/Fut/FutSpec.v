(** * Fut/FutSpec.v — what C02 demands of a response, said without futures, schedules or heaps.

    The reference is [run_sync] (Fut/ExecSync.v): the plan executed with every resolver answering
    directly.  A response [(d, errs)] *conforms* to a plan when
      - its data is the reference's data;
      - its errors can be matched one-to-one with distinct landing sites of the plan
        ([sites], ExecSync.v: the nullable positions and the root, each with the errors that the
        GraphQL semantics allows to end there) — so no site receives two errors, and no error
        is reported that the plan cannot raise;
      - every failure-null that the data leaves visible ([visible_nulls]) has its error.
    Nothing in [conforms] mentions which resolvers were asynchronous ([strip] erases that), nor a
    schedule: two conforming responses are the same up to which of several admissible errors
    is reported for one null (several non-null fields of one object may fail; the first to
    be noticed wins) and up to errors for nulls that a failing ancestor hides.

    Executable definitions only (no proofs): [has_blank_key] is also used by the oracle. *)
From Coq Require Import List NArith ZArith Bool.
From ApiFu Require Import Base.Sexp Fut.Plan Fut.ExecSync Fut.Denote Fut.SubPerm.
Import ListNotations.

(** ** erasing which resolvers answer through a promise *)
Fixpoint strip_v (v : vplan) : vplan :=
  match v with
  | VList inn items => VList inn (map strip_v items)
  | VObj fields =>
      VObj (map (fun kf => (fst kf, strip_f (snd kf))) fields)
  | _ => v
  end
with strip_f (f : fplan) : fplan :=
  match f with
  | FP _ nn None => FP None nn None
  | FP _ nn (Some v) => FP None nn (Some (strip_v v))
  end.

Definition strip (root : selset) : selset := map (fun kf => (fst kf, strip_f (snd kf))) root.

(** two plans describe the same request and the same resolver outcomes *)
Definition same_outcomes (a b : selset) : Prop := strip a = strip b.

(** ** well-formed plans: what field collection guarantees — within one selection set the
    response keys are pairwise different, and no key is the empty name *)
Fixpoint keys_ok (l : list bytes) : bool :=
  match l with
  | [] => true
  | k :: tl => negb (match k with [] => true | _ => false end) && negb (existsb (bytes_eqb k) tl) && keys_ok tl
  end.

Fixpoint wf_v (v : vplan) : bool :=
  match v with
  | VList _ items => (fix go (l : list vplan) : bool := match l with [] => true | x :: tl => wf_v x && go tl end) items
  | VObj fields =>
      keys_ok (map fst fields) &&
      (fix go (l : list (bytes * fplan)) : bool :=
         match l with [] => true | (_, f) :: tl => wf_f f && go tl end) fields
  | _ => true
  end
with wf_f (f : fplan) : bool :=
  match f with
  | FP _ _ (Some v) => wf_v v
  | FP _ _ None => true
  end.

Definition wf (root : selset) : bool := wf_v (VObj root).

(** ** the failure-nulls the data of the request shows: the root when the data is null,
    otherwise the failing nullable positions that no failing ancestor hides ([must_I],
    Denote.v), each with the errors admissible there *)
Definition visible_nulls (root : selset) : list site :=
  if fails_inner (VObj root) then [([], fst (cand_inner (VObj root) []))] else must_I (VObj root) [].

(** the data of the request, read off the plan: at every object position exactly the response
    keys of its selection set, in document order ([jv], Denote.v) *)
Definition data_shape (root : selset) : option json := ddata root.

Record conforms (root : selset) (d : option json) (errs : list err) : Prop := {
  cf_data : d = sr_data (run_sync root);
  cf_land : exists ls, Forall2 lands errs ls /\ sub_perm ls (sites root);
  cf_nulls : Forall (fun x => exists e, In e errs /\ lands e x) (visible_nulls root)
}.

(** ** blank keys *)
Fixpoint has_blank_key (j : json) : bool :=
  match j with
  | JList l => existsb has_blank_key l
  | JObj kvs => existsb (fun kv => match fst kv with [] => true | _ => false end || has_blank_key (snd kv)) kvs
  | _ => false
  end.

(** ** "the same error for every null", literally.  A visible failure-null whose site admits
    exactly one error gets that error under every schedule; a site admitting several (two non-null
    fields of one object both failing, a failing item and a failing sibling …) gets the one that is
    noticed first, which the schedule decides (known finding admissible-error-differs). *)
Definition single_candidate (root : selset) : bool :=
  forallb (fun x : site => match snd x with [_] => true | _ => false end) (visible_nulls root).
Definition excl_admissible_error_differs (root : selset) : bool := negb (single_candidate root).
