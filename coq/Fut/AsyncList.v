(** * Fut/AsyncList.v — the list branch of completeValue: building the item futures, Join at
    construction, and the poll function of Join. *)
From Coq Require Import List NArith ZArith Bool Lia Permutation.
From ApiFu Require Import Base.Sexp Fut.Plan Fut.Future Fut.ExecAsync Fut.ExecSync Fut.Denote Fut.SubPerm
     Fut.Live Fut.LiveFacts Fut.Acct Fut.AsyncWrap Fut.AsyncField.
Import ListNotations.

(** ** monotonicity of outcomes *)
Lemma Blocked_chans s s' g : chans_later s s' -> Blocked s g -> Blocked s' g.
Proof.
  intros [Np C] (id & A & Lt & B). exists id. split; auto. split; [lia|].
  intros ok H. destruct (C _ H) as [H1|H1]; [exact (B ok H1) | simpl in H1; lia].
Qed.

Lemma OutcomeB_mono (Bk : st -> ghost -> Prop) (L : ghe -> st -> clo -> ghost -> Prop) sp G s G' s' g f :
  (forall c g, L G s c g -> L G' s' c g) ->
  gle G G' -> sle s s' -> (Bk s g -> Bk s' g) ->
  OutcomeB Bk L sp G s g f -> OutcomeB Bk L sp G' s' g f.
Proof.
  intros M Hg Hs Hc. destruct f as [r|c]; simpl.
  - intros [R E]. split; auto. eapply ResOK_mono; eauto.
  - intros [A B]. split; auto.
Qed.

Lemma Outcome0_mono (L : ghe -> st -> clo -> ghost -> Prop) sp G s G' s' g f :
  (forall c g, L G s c g -> L G' s' c g) ->
  gle G G' -> sle s s' ->
  Outcome0 L sp G s g f -> Outcome0 L sp G' s' g f.
Proof. intros M Hg Hs. apply OutcomeB_mono; auto. Qed.

Lemma Step_chans G s g G' s' g' : Step G s g G' s' g' -> chans_later s s'.
Proof. intros (_ & _ & _ & A). eapply Acct_chans_later; eauto. Qed.

(** ** declarative equations for lists *)
Fixpoint sum_async (l : list vplan) : nat :=
  match l with [] => 0 | x :: tl => count_async_v x + sum_async tl end.

Lemma count_async_list inn items : count_async_v (VList inn items) = sum_async items.
Proof. reflexivity. Qed.

Definition budget_items (inn : bool) (p : rpath) (l : list vplan) (i : nat) : ghost :=
  {| g_sites := snd (cand_items cand_inner inn p l i); g_ids := []; g_pot := sum_async l |}.

Lemma budget_items_cons inn p x tl i :
  budget_items inn p (x :: tl) i = gplus (budget_CI inn x (PIdx i :: p)) (budget_items inn p tl (S i)).
Proof. reflexivity. Qed.

Lemma cand_items_cons_fst inn p x tl i :
  fst (cand_items cand_inner inn p (x :: tl) i) =
  ps_esc (spec_CI inn x (PIdx i :: p)) ++ fst (cand_items cand_inner inn p tl (S i)).
Proof. reflexivity. Qed.

Definition OutcomeCI G s inn x q g f :=
  Outcome0 (fun G s => LiveCI G s inn x q) (spec_CI inn x q) G s g f.

Inductive BuiltItems (G : ghe) (s : st) (inn : bool) (p : rpath) : list vplan -> nat -> list fut -> ghost -> Prop :=
| BI_nil i : BuiltItems G s inn p [] i [] g0
| BI_cons x tl i f fs g1 g :
    OutcomeCI G s inn x (PIdx i :: p) g1 f ->
    BuiltItems G s inn p tl (S i) fs g ->
    BuiltItems G s inn p (x :: tl) i (f :: fs) (gplus g1 g).

Lemma BuiltItems_mono G s G' s' inn p l i fs g :
  gle G G' -> sle s s' ->
  BuiltItems G s inn p l i fs g -> BuiltItems G' s' inn p l i fs g.
Proof.
  intros Hg Hs B. induction B; constructor; auto.
  unfold OutcomeCI in *. eapply Outcome0_mono; [ | exact Hg | exact Hs | exact H].
  intros c g2. now apply LiveCI_mono.
Qed.

Definition BuildI (x : vplan) : Prop :=
  forall q, BuildSpec (complete_inner FX x q) (budget_I x q) (fun G s => LiveI G s x q) (spec_I x q).
Definition StepI (x : vplan) : Prop :=
  forall q, StepSpec (fun G s => LiveI G s x q) (spec_I x q).

Lemma items_build inn p l :
  Forall BuildI l ->
  forall i G s fs s', INV G (s_maps s) -> chans_wf s ->
    items_loop (fun x q s => nn_wrap FX inn q (complete_inner FX x q s)) inn p l i s = (fs, s') ->
    exists G' g', Step G s (budget_items inn p l i) G' s' g' /\ BuiltItems G' s' inn p l i fs g'.
Proof.
  induction 1 as [|x tl Bx Btl IH]; intros i G s fs s' I C E.
  - simpl in E. injection E as <- <-. exists G, g0. split; [apply Step_refl; auto | constructor].
  - simpl in E.
    destruct (nn_wrap FX inn (PIdx i :: p) (complete_inner FX x (PIdx i :: p) s)) as [f s1] eqn:E1.
    destruct (catch_if_nullable inn f s1) as [f1 s2] eqn:E2.
    destruct (items_loop (fun x q s => nn_wrap FX inn q (complete_inner FX x q s)) inn p tl (S i) s2)
      as [fs0 s3] eqn:E3.
    injection E as <- <-.
    pose proof (CI_build inn x (PIdx i :: p) (W_build inn x (PIdx i :: p) (Bx (PIdx i :: p)))) as B.
    destruct (B G s f1 s2 I C) as (G1 & g1 & St1 & O1).
    { rewrite E1. exact E2. }
    assert (I1 : INV G1 (s_maps s2)) by (destruct St1 as (_ & _ & X & _); exact X).
    assert (C1 : chans_wf s2) by (eapply Step_chans_wf; eauto).
    destruct (IH (S i) G1 s2 fs0 s3 I1 C1 E3) as (G2 & g2 & St2 & B2).
    exists G2, (gplus g1 g2). split.
    + rewrite budget_items_cons.
      destruct St1 as (A1 & A2 & A3 & A4). destruct St2 as (B1 & B2' & B3 & B4).
      split; [eapply gle_trans; eauto|]. split; [eapply sle_trans; eauto|]. split; [exact B3|].
      eapply Acct_par; eauto.
    + constructor; auto.
      destruct St2 as (B1 & B2' & B3 & B4).
      eapply Outcome0_mono; [| exact B1 | exact B2' | exact O1].
      intros c g. now apply LiveCI_mono.
Qed.

(** ** set_nth *)
Lemma set_nth_length i v l : length (Future.set_nth i v l) = length l.
Proof. revert i; induction l as [|x tl IH]; intros [|i]; simpl; auto. Qed.

Lemma set_nth_eq i v l : i < length l -> nth_error (Future.set_nth i v l) i = Some v.
Proof. revert i; induction l as [|x tl IH]; intros [|i]; simpl; intros H; try lia; auto. apply IH. lia. Qed.

Lemma set_nth_neq i k v l : i <> k -> nth_error (Future.set_nth i v l) k = nth_error l k.
Proof. revert i k; induction l as [|x tl IH]; intros [|i] [|k] H; simpl; auto; try congruence. Qed.

Lemma set_nth_same i v l : nth_error l i = Some v -> Future.set_nth i v l = l.
Proof.
  revert i; induction l as [|x tl IH]; intros [|i]; simpl; intros H; try discriminate; auto.
  - congruence.
  - f_equal; auto.
Qed.

(** ** what a finished list of items says *)
Definition is_ready (f : fut) : Prop := match f with Ready _ => True | Pending _ => False end.
Definition is_pending (f : fut) : Prop := match f with Pending _ => True | Ready _ => False end.

Lemma LiveItems_ready G s inn p l i fs res g :
  LiveItems G s inn p l i fs res g -> Forall is_ready fs ->
  g = g0 /\
  (inn = true -> existsb (fun x => fails_inner x || is_vnull x) l = false) /\
  length res = i + length l /\
  (forall k x, nth_error l k = Some x ->
    exists v, nth_error res (i + k) = Some v /\ val_ok G (s_maps s) v (jc x)) /\
  Forall (Fired s) (must_items must_I inn p l i).
Proof.
  induction 1; intros R.
  - split; auto. split; auto. split; [simpl; lia|]. split; [|constructor]. intros [|k] x; discriminate.
  - inversion R; subst. destruct (IHLiveItems H7) as (-> & F & Ln & V & Mu).
    split; auto. split; [|split; [|split]]; [| | |simpl; apply Forall_app; split; auto].
    + intros N. simpl. rewrite (F N). specialize (H N). unfold fails_w in H. simpl in H.
      now rewrite H.
    + simpl. lia.
    + intros [|k] y Hk; simpl in Hk.
      * injection Hk as <-. exists v. rewrite Nat.add_0_r. auto.
      * destruct (V k y Hk) as (w & A & B). exists w. split; auto.
        replace (i + S k) with (S i + k) by lia. exact A.
  - inversion R; subst. simpl in *. contradiction.
Qed.

Lemma Forall2_nth_intro {A B} (R : A -> B -> Prop) (l : list A) (l' : list B) :
  length l = length l' ->
  (forall k y, nth_error l' k = Some y -> exists x, nth_error l k = Some x /\ R x y) ->
  Forall2 R l l'.
Proof.
  revert l'; induction l as [|a l IH]; intros [|b l'] Hl Hn; simpl in *; try discriminate; constructor.
  - destruct (Hn 0 b eq_refl) as (x & E & Rx). simpl in E. congruence.
  - apply IH; [lia|]. intros k y Hk. apply (Hn (S k) y Hk).
Qed.

Lemma items_done_val G s inn p items fs res :
  LiveItems G s inn p items 0 fs res g0 -> Forall is_ready fs ->
  fails_inner (VList inn items) = false /\
  val_ok G (s_maps s) (GList res) (jv (VList inn items)) /\
  Forall (Fired s) (must_I (VList inn items) p).
Proof.
  intros L R. destruct (LiveItems_ready _ _ _ _ _ _ _ _ _ L R) as (_ & F & Ln & V & Mu).
  split; [|split; [|exact Mu]].
  - rewrite fails_inner_list. destruct inn; [|reflexivity]. simpl. now apply F.
  - rewrite jv_list. constructor. apply Forall2_nth_intro.
    + rewrite map_length. simpl in Ln. exact Ln.
    + intros k y Hk. rewrite nth_error_map in Hk.
      destruct (nth_error items k) as [x|] eqn:E; simpl in Hk; [|discriminate].
      injection Hk as <-. destruct (V k x E) as (v & A & B). exists v. auto.
Qed.

(** ** Join at construction *)
Lemma join_init_spec G s inn p l :
  forall i fs g res ok res' o,
    BuiltItems G s inn p l i fs g -> length res = i + length l ->
    join_init fs i res ok = (res', o) ->
    length res' = length res /\ (forall k, k < i -> nth_error res' k = nth_error res k) /\
    match o with
    | LErr e => inn = true /\ existsb (fun x => fails_inner x || is_vnull x) l = true /\
                In e (fst (cand_items cand_inner inn p l i))
    | LAllOk => ok = true /\ g = g0 /\ LiveItems G s inn p l i fs res' g0 /\ Forall is_ready fs
    | LNotYet => LiveItems G s inn p l i fs res' g /\
                 (ok = false \/ Exists is_pending fs)
    end.
Proof.
  induction l as [|x tl IH]; intros i fs g res ok res' o B Ln E;
    inversion B as [| x' tl' i' f fs0 g1 g2 O Bt]; subst.
  - simpl in E. injection E as <- <-. split; auto. split; auto.
    destruct ok.
    + repeat split; auto. constructor. simpl in Ln. lia.
    + split; auto. constructor. simpl in Ln. lia.
  - simpl in E. simpl in Ln.
    destruct f as [[v|e]|c].
    + (* ready, ok *)
      simpl in O. destruct O as [(F & V & Mu) ->].
      destruct (IH (S i) fs0 g2 (Future.set_nth i v res) ok res' o Bt) as (L1 & P1 & M); auto.
      { rewrite set_nth_length. lia. }
      rewrite set_nth_length in L1. split; auto. split.
      { intros k Hk. rewrite P1 by lia. apply set_nth_neq. lia. }
      assert (Hi : nth_error res' i = Some v).
      { rewrite P1 by lia. apply set_nth_eq. lia. }
      assert (Fx : inn = true -> fails_w true x = false).
      { intros ->. exact F. }
      rewrite gplus_g0_l. destruct o as [e| |].
      * destruct M as (N & Ex & In). split; auto. split.
        -- simpl. rewrite Ex. apply orb_true_r.
        -- rewrite cand_items_cons_fst. apply in_or_app. now right.
      * destruct M as (-> & -> & LI & R). split; auto. split; auto. split.
        -- econstructor; eauto.
        -- constructor; [exact Logic.I | exact R].
      * destruct M as (LI & D). split.
        -- econstructor; eauto.
        -- destruct D as [D|D1]; [now left | right]. now apply Exists_cons_tl.
    + (* ready, error *)
      injection E as <- <-. simpl in O. destruct O as [[F In] ->]. split; auto. split; auto.
      simpl in F. apply andb_true_iff in F. destruct F as [-> F]. split; auto. split.
      * simpl. unfold fails_w in F. simpl in F. now rewrite F.
      * rewrite cand_items_cons_fst. apply in_or_app. now left.
    + (* pending *)
      simpl in O. destruct O as [LC Bc].
      destruct (IH (S i) fs0 g2 res false res' o Bt) as (L1 & P1 & M); [lia | auto |].
      split; auto. split; [intros k Hk; apply P1; lia|].
      destruct o as [e| |].
      * destruct M as (N & Ex & In). split; auto. split.
        -- simpl. rewrite Ex. apply orb_true_r.
        -- rewrite cand_items_cons_fst. apply in_or_app. now right.
      * destruct M as (D & _). discriminate.
      * destruct M as (LI & _). split; [econstructor; eauto|].
        destruct ok; [right | now left]. constructor; exact Logic.I.
Qed.

Lemma BuiltItems_length G s inn p l i fs g : BuiltItems G s inn p l i fs g -> length fs = length l.
Proof. induction 1; simpl; auto. Qed.

Lemma Blocked_plus_l s a b : Blocked s a -> Blocked s (gplus a b).
Proof. intros (id & A & B). exists id. split; [|exact B]. simpl. apply in_or_app. now left. Qed.
Lemma Blocked_plus_r s a b : Blocked s b -> Blocked s (gplus a b).
Proof. intros (id & A & B). exists id. split; [|exact B]. simpl. apply in_or_app. now right. Qed.

(** ** the list branch of completeValue at construction *)
Lemma list_build inn items p :
  Forall BuildI items ->
  BuildSpec (complete_inner FX (VList inn items) p) (budget_I (VList inn items) p)
            (fun G s => LiveI G s (VList inn items) p) (spec_I (VList inn items) p).
Proof.
  intros FB G s f s' I C E.
  change (complete_inner FX (VList inn items) p s)
    with (list_body (fun x q s => nn_wrap FX inn q (complete_inner FX x q s)) inn items p s) in E.
  unfold list_body in E.
  destruct (items_loop (fun x q s => nn_wrap FX inn q (complete_inner FX x q s)) inn p items 0 s)
    as [fs s1] eqn:EL.
  injection E as <- <-.
  destruct (items_build inn p items FB 0 G s fs s1 I C EL) as (G' & g' & St & B).
  change (budget_items inn p items 0) with (budget_I (VList inn items) p) in St.
  unfold Join.
  match goal with |- context [join_init ?a ?b ?c ?d] =>
    destruct (join_init a b c d) as [res o] eqn:EJ end.
  assert (Ln : length (repeat GNil (length fs)) = 0 + length items).
  { rewrite repeat_length. simpl. eapply BuiltItems_length; eauto. }
  destruct (join_init_spec G' s1 inn p items 0 fs g' _ true res o B Ln EJ) as (L1 & P1 & M).
  destruct o as [e| |]; simpl.
  - destruct M as (N & Ex & In). exists G', g0. split.
    + destruct St as (A1 & A2 & A3 & A4). split; auto. split; auto. split; auto.
      eapply Acct_drop; eauto.
    + split; auto. unfold spec_I. cbn [ResOK ps_fails ps_esc]. split; auto.
      rewrite N. exact Ex.
  - destruct M as (_ & -> & LI & R). exists G', g0. split; auto. split; auto.
    destruct (items_done_val _ _ _ _ _ _ _ LI R) as (X1 & X2 & X3). split; auto.
  - destruct M as (LI & D). exists G', g'. split; auto.
    destruct D as [D|D1]; [discriminate|]. split; [constructor; auto | trivial].
Qed.

(** ** Join's poll function *)
Lemma LiveItems_length G s inn p l i fs res g :
  LiveItems G s inn p l i fs res g -> length res = i + length l.
Proof. induction 1; simpl; lia. Qed.

Lemma LiveItems_res_ext G s inn p l i fs res res2 g :
  LiveItems G s inn p l i fs res g ->
  length res2 = length res -> (forall k, i <= k -> nth_error res2 k = nth_error res k) ->
  LiveItems G s inn p l i fs res2 g.
Proof.
  induction 1; intros Ln Ex.
  - constructor. congruence.
  - econstructor; eauto.
    + rewrite Ex; auto.
    + apply IHLiveItems; auto. intros k Hk. apply Ex. lia.
  - econstructor; eauto. apply IHLiveItems; auto. intros k Hk. apply Ex. lia.
Qed.

Lemma join_loop_cons (inv : clo -> st -> clo * option result * st) (f : fut) tl i res ok s :
  join_loop inv (f :: tl) i res ok s =
  let '(f1, s1) := poll_with inv f s in
  match f1 with
  | Ready (RErr e) => (f1 :: tl, res, LErr e, s1)
  | Ready (ROk v) =>
      let '(tl1, res1, o, s2) := join_loop inv tl (S i) (Future.set_nth i v res) ok s1 in
      (f1 :: tl1, res1, o, s2)
  | Pending _ =>
      let '(tl1, res1, o, s2) := join_loop inv tl (S i) res false s1 in
      (f1 :: tl1, res1, o, s2)
  end.
Proof. reflexivity. Qed.

Lemma join_step inn p l :
  Forall StepI l ->
  forall i G s fs res g ok fs' res' o s',
    INV G (s_maps s) -> chans_wf s -> LiveItems G s inn p l i fs res g ->
    join_loop (invoke FX) fs i res ok s = (fs', res', o, s') ->
    exists G' g', Step G s g G' s' g' /\
      (forall k, k < i -> nth_error res' k = nth_error res k) /\
      match o with
      | LErr e => inn = true /\ existsb (fun x => fails_inner x || is_vnull x) l = true /\
                  In e (fst (cand_items cand_inner inn p l i))
      | LAllOk => ok = true /\ g' = g0 /\ LiveItems G' s' inn p l i fs' res' g0 /\ Forall is_ready fs'
      | LNotYet => LiveItems G' s' inn p l i fs' res' g' /\
                   (ok = false \/ (Exists is_pending fs' /\ Blocked s' g'))
      end.
Proof.
  induction 1 as [|x tl Sx Stl IH]; intros i G s fs res g ok fs' res' o s' I C L E.
  - inversion L; subst. simpl in E. injection E as <- <- <- <-.
    exists G, g0. split; [apply Step_refl; auto|]. split; auto.
    destruct ok.
    + repeat split; auto.
    + split; auto.
  - inversion L as [| inn0 p0 x0 tl0 i0 v fs0 res0 g2 Fx V Mu Hi Lt | inn0 p0 x0 tl0 i0 c fs0 res0 g1 g2 LC Lt]; subst.
    + (* the item is ready *)
      rewrite join_loop_cons in E. simpl in E. rewrite (set_nth_same _ _ _ Hi) in E.
      destruct (join_loop (invoke FX) fs0 (S i) res ok s) as [[[tl1 res1] o1] s2] eqn:E1.
      injection E as <- <- <- <-.
      destruct (IH (S i) G s fs0 res g ok tl1 res1 o1 s2 I C Lt E1) as (G' & g' & St & P & M).
      exists G', g'. split; auto. split; [intros k Hk; apply P; lia|].
      assert (V' : val_ok G' (s_maps s2) v (jc x)).
      { destruct St as (A1 & (A2 & _) & _). eapply val_ok_mono; eauto. }
      assert (Mu' : Forall (Fired s2) (must_CI inn x (PIdx i :: p))).
      { destruct St as (_ & A2 & _). eapply Forall_impl; [|exact Mu]. intros a. now apply Fired_mono. }
      assert (Hi' : nth_error res1 i = Some v) by (rewrite P by lia; exact Hi).
      destruct o1 as [e| |].
      * destruct M as (N & Ex & In). split; auto. split.
        -- simpl. rewrite Ex. apply orb_true_r.
        -- rewrite cand_items_cons_fst. apply in_or_app. now right.
      * destruct M as (-> & -> & LI & R). split; auto. split; auto. split.
        -- econstructor; eauto.
        -- constructor; [exact Logic.I | exact R].
      * destruct M as (LI & D). split; [econstructor; eauto|].
        destruct D as [D|[D1 D2]]; [now left | right]. split; auto.
    + (* the item is pending: poll it *)
      rewrite join_loop_cons in E. simpl in E.
      destruct (invoke FX c s) as [[c1 r] s1] eqn:E0.
      pose proof (CI_step inn x (PIdx i :: p) (W_step inn x (PIdx i :: p) (Sx (PIdx i :: p)))) as SC.
      destruct (SC G s c g1 c1 r s1 I C LC E0) as (G1 & g1' & St1 & O1).
      assert (I1 : INV G1 (s_maps s1)) by (destruct St1 as (_ & _ & X & _); exact X).
      assert (C1 : chans_wf s1) by (eapply Step_chans_wf; eauto).
      assert (Lt1 : LiveItems G1 s1 inn p tl (S i) fs0 res g2).
      { destruct St1 as (A1 & A2 & _). eapply LiveItems_mono; eauto. }
      assert (StF : Step G s (gplus g1 g2) G1 s1 (gplus g1' g2)).
      { destruct St1 as (A1 & A2 & A3 & A4). split; auto. split; auto. split; auto.
        now apply Acct_frame_r. }
      pose proof (LiveItems_length _ _ _ _ _ _ _ _ _ L) as Ln. simpl in Ln.
      destruct r as [[v|e]|]; simpl in O1, E.
      * (* completed with a value *)
        destruct O1 as [(F & V & Mu) ->].
        destruct (join_loop (invoke FX) fs0 (S i) (Future.set_nth i v res) ok s1) as [[[tl1 res1] o1] s2] eqn:E1.
        injection E as <- <- <- <-.
        assert (Lt2 : LiveItems G1 s1 inn p tl (S i) fs0 (Future.set_nth i v res) g2).
        { eapply LiveItems_res_ext; eauto; [apply set_nth_length|].
          intros k Hk. apply set_nth_neq. lia. }
        destruct (IH (S i) G1 s1 fs0 _ g2 ok tl1 res1 o1 s2 I1 C1 Lt2 E1) as (G' & g' & St & P & M).
        exists G', g'. split.
        { eapply Step_trans; [exact StF|]. rewrite gplus_g0_l. exact St. }
        split.
        { intros k Hk. rewrite P by lia. apply set_nth_neq. lia. }
        assert (V' : val_ok G' (s_maps s2) v (jc x)).
        { destruct St as (A1 & (A2 & _) & _). eapply val_ok_mono; eauto. }
        assert (Mu' : Forall (Fired s2) (must_CI inn x (PIdx i :: p))).
        { destruct St as (_ & A2 & _). eapply Forall_impl; [|exact Mu]. intros a. now apply Fired_mono. }
        assert (Hi' : nth_error res1 i = Some v).
        { rewrite P by lia. apply set_nth_eq. lia. }
        assert (Fx : inn = true -> fails_w true x = false).
        { intros ->. exact F. }
        destruct o1 as [e| |].
        -- destruct M as (N & Ex & In). split; auto. split.
           ++ simpl. rewrite Ex. apply orb_true_r.
           ++ rewrite cand_items_cons_fst. apply in_or_app. now right.
        -- destruct M as (-> & -> & LI & R). split; auto. split; auto. split.
           ++ econstructor; eauto.
           ++ constructor; [exact Logic.I | exact R].
        -- destruct M as (LI & D). split; [econstructor; eauto|].
           destruct D as [D|[D1 D2]]; [now left | right]. split; auto.
      * (* completed with an error: Join returns at once *)
        injection E as <- <- <- <-. destruct O1 as [[F In] ->].
        exists G1, (gplus g0 g2). split; auto. split; auto.
        simpl in F. apply andb_true_iff in F. destruct F as [-> F]. split; auto. split.
        -- simpl. unfold fails_w in F. simpl in F. now rewrite F.
        -- rewrite cand_items_cons_fst. apply in_or_app. now left.
      * (* still pending *)
        destruct O1 as [LC1 B1].
        destruct (join_loop (invoke FX) fs0 (S i) res false s1) as [[[tl1 res1] o1] s2] eqn:E1.
        injection E as <- <- <- <-.
        destruct (IH (S i) G1 s1 fs0 res g2 false tl1 res1 o1 s2 I1 C1 Lt1 E1) as (G' & g' & St & P & M).
        exists G', (gplus g1' g'). split.
        { eapply Step_trans; [exact StF|].
          destruct St as (A1 & A2 & A3 & A4). split; auto. split; auto. split; auto.
          now apply Acct_frame_l. }
        split; [intros k Hk; apply P; lia|].
        assert (LC2 : LiveCI G' s2 inn x (PIdx i :: p) c1 g1').
        { destruct St as (A1 & A2 & _). eapply LiveCI_mono; eauto. }
        assert (B2 : Blocked s2 g1').
        { eapply Blocked_chans; [|exact B1]. eapply Step_chans; eauto. }
        destruct o1 as [e| |].
        -- destruct M as (N & Ex & In). split; auto. split.
           ++ simpl. rewrite Ex. apply orb_true_r.
           ++ rewrite cand_items_cons_fst. apply in_or_app. now right.
        -- destruct M as (D & _). discriminate.
        -- destruct M as (LI & _). split; [econstructor; eauto|].
           destruct ok; [right | now left]. split; [constructor; exact Logic.I|].
           now apply Blocked_plus_l.
Qed.

Lemma invoke_any_join fs res s :
  invoke FX (CMapOkToAny (CJoin fs res)) s =
  let '(fs1, res1, o, s1) := join_loop (invoke FX) fs 0 res true s in
  match o with
  | LErr e => (CMapOkToAny (CJoin fs1 res1), Some (RErr e), s1)
  | LAllOk => (CMapOkToAny (CJoin fs1 res1), Some (ROk (GList res1)), s1)
  | LNotYet => (CMapOkToAny (CJoin fs1 res1), None, s1)
  end.
Proof.
  unfold invoke. simpl.
  match goal with |- context [join_loop ?a ?b ?c ?d ?e ?f] =>
    destruct (join_loop a b c d e f) as [[[fs1 res1] o] s1] end.
  destruct o; reflexivity.
Qed.

Lemma list_step inn items p :
  Forall StepI items ->
  StepSpec (fun G s => LiveI G s (VList inn items) p) (spec_I (VList inn items) p).
Proof.
  intros FS G s c g c' ro s' I C L E.
  inversion L as [inn0 items0 p0 fs res g1 LI Ex | ]; subst.
  rewrite invoke_any_join in E.
  destruct (join_loop (invoke FX) fs 0 res true s) as [[[fs1 res1] o] s1] eqn:EJ.
  destruct (join_step inn p items FS 0 G s fs res g true fs1 res1 o s1 I C LI EJ) as (G' & g' & St & P & M).
  destruct o as [e| |]; injection E as <- <- <-; simpl.
  - destruct M as (N & Ex1 & In). exists G', g0. split.
    + destruct St as (A1 & A2 & A3 & A4). split; auto. split; auto. split; auto.
      eapply Acct_drop; eauto.
    + split; auto. split; auto. rewrite N. exact Ex1.
  - destruct M as (_ & -> & LI1 & R). exists G', g0. split; auto. split; auto.
    destruct (items_done_val _ _ _ _ _ _ _ LI1 R) as (X1 & X2 & X3). split; auto.
  - destruct M as (LI1 & D). exists G', g'. split; auto.
    destruct D as [D|[D1 D2]]; [discriminate|]. split; auto. constructor; auto.
Qed.
