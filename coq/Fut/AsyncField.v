(** * Fut/AsyncField.v — executeField (synchronous answer / promise adapter) and the two
    instances of the catch wrapper, given the lemmas for the field's value. *)
From Coq Require Import List NArith ZArith Bool Lia Permutation.
From ApiFu Require Import Base.Sexp Fut.Plan Fut.Future Fut.ExecAsync Fut.ExecSync Fut.Denote Fut.SubPerm
     Fut.Live Fut.LiveFacts Fut.Acct Fut.AsyncWrap.
Import ListNotations.

Lemma must_catch_ok nn q esc inner : must_catch nn q false esc inner = inner.
Proof. destruct nn; reflexivity. Qed.

Ltac must_solve :=
  cbn [spec_CI spec_W spec_CF spec_F ps_must ps_fails ps_esc]; unfold must_CI, must_CF; intros;
  match goal with
  | N : ?b = false, F : _ = true |- _ => try rewrite N in F; rewrite N; rewrite F; reflexivity
  | N : ?b = true |- _ => rewrite N; reflexivity
  | F : _ = false |- _ => rewrite F; apply must_catch_ok
  end.

(** ** catch around a list item *)
Lemma budget_CI_eq inn x q :
  budget_CI inn x q = cbud inn (spec_W inn x q) q (budget_I x q).
Proof.
  unfold budget_CI, cbud, budget_I, cand_catch. destruct inn; simpl.
  - destruct x; reflexivity.
  - reflexivity.
Qed.

Section CI.
  Variables (inn : bool) (x : vplan) (q : rpath).
  Let L0 := fun G s => LiveW G s inn x q.
  Let L1 := fun G s => LiveCI G s inn x q.

  Lemma CI_build :
    BuildSpec (fun s => nn_wrap FX inn q (complete_inner FX x q s)) (budget_I x q) L0 (spec_W inn x q) ->
    BuildSpec (fun s => let '(f, s1) := nn_wrap FX inn q (complete_inner FX x q s) in
                        catch_if_nullable inn f s1)
              (budget_CI inn x q) L1 (spec_CI inn x q).
  Proof.
    intros B. rewrite budget_CI_eq.
    apply (C_build inn L0 L1 (spec_W inn x q) (spec_CI inn x q) q); auto.
    - intros N G s c g L. unfold L0, L1 in *. rewrite N in *. now constructor.
    - intros N G s c g L. unfold L0, L1 in *. rewrite N in *. now constructor.
    - unfold spec_CI, spec_W; simpl. destruct inn; reflexivity.
    - unfold spec_CI, spec_W, fails_w, jc; simpl. intros F.
      apply orb_false_iff in F. destruct F as [F _]. now rewrite F.
    - unfold spec_CI, spec_W, fails_w, jc; simpl. intros N F. rewrite N in F. simpl in F.
      rewrite orb_false_r in F. now rewrite F.
    - intros N. unfold spec_CI, spec_W, cand_catch; simpl. now rewrite N.
    - must_solve.
    - must_solve.
    - must_solve.
  Qed.

  Lemma CI_step :
    StepSpec L0 (spec_W inn x q) -> StepSpec L1 (spec_CI inn x q).
  Proof.
    apply (C_step inn L0 L1 (spec_W inn x q) (spec_CI inn x q) q).
    - intros N G s c g L. unfold L0, L1 in *. rewrite N in *. now constructor.
    - intros N G s c g L. unfold L0, L1 in *. rewrite N in *. now constructor.
    - intros G s c g L. unfold L0, L1 in *. inversion L; subst.
      + left. auto.
      + right. split; auto. eexists _, _. repeat split; eauto.
    - unfold spec_CI, spec_W; simpl. destruct inn; reflexivity.
    - unfold spec_CI, spec_W, fails_w, jc; simpl. intros F.
      apply orb_false_iff in F. destruct F as [F _]. now rewrite F.
    - unfold spec_CI, spec_W, fails_w, jc; simpl. intros N F. rewrite N in F. simpl in F.
      rewrite orb_false_r in F. now rewrite F.
    - intros N. unfold spec_CI, spec_W, cand_catch; simpl. now rewrite N.
    - must_solve.
    - must_solve.
    - must_solve.
  Qed.
End CI.

(** ** catch around a field *)
Lemma budget_CF_eq fp q :
  budget_CF fp q = cbud (fp_nn fp) (spec_F fp q) q (budget_F fp q).
Proof. unfold budget_CF, cbud, budget_F, cand_catch. destruct (fp_nn fp); reflexivity. Qed.

Lemma jf_fail_null fp : fp_nn fp = false -> fails_f fp = true -> jf fp = JNull.
Proof.
  destruct fp as [t nn [v|]]; simpl; intros N F; auto. subst nn. simpl in F.
  rewrite orb_false_r in F. now rewrite F.
Qed.

Section CF.
  Variables (fp : fplan) (q : rpath).
  Let L0 := fun G s => LiveF G s fp q.
  Let L1 := fun G s => LiveCF G s fp q.

  Lemma CF_build :
    BuildSpec (exec_field FX fp q) (budget_F fp q) L0 (spec_F fp q) ->
    BuildSpec (fun s => let '(f, s1) := exec_field FX fp q s in catch_if_nullable (fp_nn fp) f s1)
              (budget_CF fp q) L1 (spec_CF fp q).
  Proof.
    intros B. rewrite budget_CF_eq.
    apply (C_build (fp_nn fp) L0 L1 (spec_F fp q) (spec_CF fp q) q); auto.
    - intros N G s c g L. unfold L0, L1 in *. now constructor.
    - intros N G s c g L. unfold L0, L1 in *. now constructor.
    - unfold spec_CF, spec_F; simpl. intros N F. now apply jf_fail_null.
    - intros N. unfold spec_CF, spec_F, cand_catch; simpl. now rewrite N.
    - must_solve.
    - must_solve.
    - must_solve.
  Qed.

  Lemma CF_step :
    StepSpec L0 (spec_F fp q) -> StepSpec L1 (spec_CF fp q).
  Proof.
    apply (C_step (fp_nn fp) L0 L1 (spec_F fp q) (spec_CF fp q) q); auto.
    - intros N G s c g L. unfold L0, L1 in *. now constructor.
    - intros N G s c g L. unfold L0, L1 in *. now constructor.
    - intros G s c g L. unfold L0, L1 in *. inversion L; subst.
      + left. auto.
      + right. split; auto. eexists _, _. repeat split; eauto.
    - unfold spec_CF, spec_F; simpl. intros N F. now apply jf_fail_null.
    - intros N. unfold spec_CF, spec_F, cand_catch; simpl. now rewrite N.
    - must_solve.
    - must_solve.
    - must_solve.
  Qed.
End CF.

(** ** channels *)
Lemma chan_take_none id c : chan_take id c = None -> forall ok, ~ In (id, ok) c.
Proof.
  induction c as [|[i o] tl IH]; simpl; intros E ok H; auto.
  destruct (Nat.eqb i id) eqn:Q; [discriminate|].
  destruct (chan_take id tl) as [[b tl1]|] eqn:T; [discriminate|].
  destruct H as [H|H]; [|eapply IH; eauto].
  inversion H; subst. rewrite Nat.eqb_refl in Q. discriminate.
Qed.

Lemma chan_take_some id c ok c1 :
  chan_take id c = Some (ok, c1) ->
  In (id, ok) c /\ (forall x, In x c1 -> In x c) /\ (forall x, In x c -> ~ In x c1 -> fst x = id).
Proof.
  revert c1; induction c as [|[i o] tl IH]; simpl; intros c1 E; [discriminate|].
  destruct (Nat.eqb i id) eqn:Q.
  - apply Nat.eqb_eq in Q. subst i. injection E as <- <-. split; [now left|]. split; [auto|].
    intros x [<-|H] N; auto. contradiction.
  - destruct (chan_take id tl) as [[b tl1]|] eqn:T; [|discriminate].
    injection E as <- <-. destruct (IH tl1 eq_refl) as (A & B & C). split; [now right|]. split.
    + intros x [<-|H]; [now left | right; auto].
    + intros x [<-|H] N.
      * exfalso. apply N. now left.
      * apply C; auto. intro. apply N. now right.
Qed.

(** ** small state facts *)
Lemma sle_add_ev e s : sle s (add_ev e s).
Proof. apply sle_heap; [apply hle_refl | reflexivity | reflexivity]. Qed.

Lemma same_acct_add_ev e s : same_acct s (add_ev e s).
Proof. repeat split. Qed.

Lemma chans_wf_add_ev e s : chans_wf s -> chans_wf (add_ev e s).
Proof. intros W. exact W. Qed.

Lemma ResOK_W_F G s tag nn v p r :
  ResOK G s (spec_W nn v p) r -> ResOK G s (spec_F (FP tag nn (Some v)) p) r.
Proof.
  unfold ResOK, spec_W, spec_F, fails_w; simpl. destruct r as [gv|e]; auto.
  intros (F & V & M). split; auto. apply orb_false_iff in F. destruct F as [F _]. rewrite F. auto.
Qed.

Lemma Outcome_W_F Bk G s g tag nn v p f :
  OutcomeB Bk (fun G s => LiveW G s nn v p) (spec_W nn v p) G s g f ->
  OutcomeB Bk (fun G s => LiveF G s (FP tag nn (Some v)) p) (spec_F (FP tag nn (Some v)) p) G s g f.
Proof.
  destruct f as [r|c]; simpl.
  - intros [R E]. split; auto. now apply ResOK_W_F.
  - intros [L B]. split; auto. now constructor.
Qed.

Lemma budget_F_some tag nn v p : g_sites (budget_F (FP tag nn (Some v)) p) = g_sites (budget_I v p).
Proof. unfold budget_F, budget_I; simpl. now rewrite cand_nn_snd. Qed.

(** ** executeField *)
Section Field.
  Variables (tag : option N) (nn : bool) (res : option vplan).
  Hypothesis BI : forall v, res = Some v -> forall p,
      BuildSpec (complete_inner FX v p) (budget_I v p) (fun G s => LiveI G s v p) (spec_I v p).
  Hypothesis SI : forall v, res = Some v -> forall p,
      StepSpec (fun G s => LiveI G s v p) (spec_I v p).

  Let fp := FP tag nn res.

  Lemma exec_field_unfold p s :
    exec_field FX fp p s =
    let s1 := add_ev (EStart (slice p)) s in
    match tag with
    | None =>
        match res with
        | None => (Err (err_at p KResolve), s1)
        | Some v => nn_wrap FX nn p (complete_inner FX v p s1)
        end
    | Some t =>
        let '(id, s2) := (if tag_prefilled t then new_promise_pre else new_promise) t p (is_some res) s1 in
        Then (New (promise_poll id)) (field_k FX nn res p) s2
    end.
  Proof. unfold fp. destruct tag, res; reflexivity. Qed.

  (** the continuation, from the account of a consumed promise *)
  Lemma field_k_run G s p ok :
    INV G (s_maps s) -> chans_wf s -> ok = is_some res ->
    forall t s2, field_k FX nn res p (if ok then ROk GUnit else RErr (mkerr [] KRaw)) s = (t, s2) ->
    exists G' g', Step G s {| g_sites := snd (cand_field fp p); g_ids := []; g_pot := count_async_r res |} G' s2 g' /\
                  Outcome0 (fun G s => LiveW G s nn (match res with Some v => v | None => VNull end) p)
                          (spec_F fp p) G' s2 g' t /\
                  (res = None -> exists r, t = Ready r).
  Proof.
    intros I C -> t s2 E. unfold field_k in E. destruct res as [v|] eqn:R; simpl in E.
    - destruct (W_build nn v p (BI v eq_refl p) G s t s2 I C E) as (G' & g' & St & O).
      exists G', g'. split; [|split].
      + destruct St as (A1 & A2 & A3 & A4). split; auto. split; auto. split; auto.
        eapply Acct_pre; [| | |exact A4]; simpl; auto.
        unfold fp. rewrite cand_nn_snd. apply sub_perm_refl.
      + destruct t as [r|c]; simpl in *.
        * destruct O as [RO ->]. split; auto. now apply ResOK_W_F.
        * exact O.
      + discriminate.
    - injection E as <- <-. exists G, g0. split; [|split].
      + split; [apply gle_refl|]. split; [apply sle_refl|]. split; [exact I|].
        eapply Acct_drop, Acct_refl.
      + simpl. unfold spec_F, fp; simpl. auto.
      + intros _. unfold Err. eauto.
  Qed.

  Lemma F_build p :
    BuildSpec (exec_field FX fp p) (budget_F fp p) (fun G s => LiveF G s fp p) (spec_F fp p).
  Proof.
    intros G s f s' I C E. rewrite exec_field_unfold in E. simpl in E.
    set (s1 := add_ev (EStart (slice p)) s) in *.
    assert (St1 : Step G s (budget_F fp p) G s1 (budget_F fp p)).
    { split; [apply gle_refl|]. split; [apply sle_add_ev|]. split; [exact I|].
      apply Acct_same, same_acct_add_ev. }
    destruct tag as [t|] eqn:T.
    - (* promise: fulfilled by the idle handler later, or already before the resolver returns *)
      set (pre := tag_prefilled t) in *.
      set (id := length (s_proms s1)).
      set (rec := {| p_id := id; p_tag := t; p_path := p; p_ok := is_some res; p_done := pre |}).
      set (s2 := {| s_proms := s_proms s1 ++ [rec];
                    s_chans := if pre then s_chans s1 ++ [(id, is_some res)] else s_chans s1;
                    s_maps := s_maps s1; s_errs := s_errs s1;
                    s_evs := if pre then s_evs s1 ++ [EFulfil (slice p)] else s_evs s1;
                    s_round := s_round s1 |}).
      assert (E' : (f, s') = (Pending (CThen (field_k FX nn res p) (CNew (promise_poll id)) None), s2)).
      { rewrite <- E. unfold s2, rec, id. destruct pre; reflexivity. }
      injection E' as -> ->.
      assert (Nth : nth_error (s_proms s2) id = Some rec).
      { unfold s2, id. cbn [s_proms]. rewrite nth_error_app2 by apply Nat.le_refl. rewrite Nat.sub_diag. reflexivity. }
      exists G, {| g_sites := snd (cand_field fp p); g_ids := [id]; g_pot := count_async_r res |}.
      split.
      + eapply Step_trans; [exact St1|].
        split; [apply gle_refl|]. split.
        { split; simpl; [apply hle_refl|]. split; [|apply incl_refl]. intros i pr H. exists pr. split; auto.
          rewrite nth_error_app1; auto. apply nth_error_Some. congruence. }
        split; [exact I|].
        constructor; simpl.
        * exists [], []. rewrite app_nil_r. repeat split; [constructor | apply sub_perm_refl].
        * eexists. split; [reflexivity|].
          intros [|[|k]] pr X; simpl in X; try discriminate. injection X as <-. simpl.
          unfold rec, np, id, s1. simpl. lia.
        * intros i [<-|[]]. right. unfold np; simpl. rewrite app_length; simpl. unfold id, s1; simpl; lia.
        * intros _. repeat constructor. intros [].
        * intros x Hx. destruct pre; [|now left]. apply in_app_or in Hx. destruct Hx as [Hx|[<-|[]]]; [now left|].
          right. cbn [fst snd]. split; [unfold np, id; lia|].
          change (option_map p_ok (nth_error (s_proms s2) id) = Some (is_some res)). now rewrite Nth.
        * intros _ _ x H1 H2. exfalso. apply H2. destruct pre; auto. apply in_or_app. now left.
        * intros _ _ i [<-|[]] _ Hd. unfold done_at in Hd.
          change (match nth_error (s_proms s2) id with Some pr => p_done pr | None => false end = true) in Hd.
          rewrite Nth in Hd. simpl in Hd. exists (is_some res). rewrite Hd. apply in_or_app. right. now left.
        * unfold np; simpl. rewrite app_length; simpl. unfold fp, count_async_r. simpl.
          destruct res; simpl; lia.
        * reflexivity.
      + simpl. split; [|trivial].
        unfold fp. constructor.
        change (option_map p_ok (nth_error (s_proms s2) id) = Some (is_some res)). now rewrite Nth.
    - (* synchronous *)
      destruct res as [v|] eqn:R.
      + assert (C1 : chans_wf s1) by (apply chans_wf_add_ev; exact C).
        destruct (W_build nn v p (BI v eq_refl p) G s1 f s' I C1 E) as (G' & g' & St & O).
        exists G', g'. split.
        * eapply Step_trans; [exact St1|].
          destruct St as (A1 & A2 & A3 & A4). split; auto. split; auto. split; auto.
          eapply Acct_pre; [| | |exact A4]; simpl; auto.
          unfold fp. rewrite cand_nn_snd. apply sub_perm_refl.
        * unfold fp. now apply Outcome_W_F.
      + injection E as <- <-. exists G, g0. split.
        * destruct St1 as (A1 & A2 & A3 & A4).
          split; [exact A1|]. split; [exact A2|]. split; [exact A3|]. eapply Acct_drop; eauto.
        * simpl. unfold spec_F, fp; simpl. auto.
  Qed.

  Lemma invoke_CThen_none k c0 s :
    invoke FX (CThen k c0 None) s =
    let '(c1, r, s1) := invoke FX c0 s in
    match r with
    | Some r0 =>
        let '(t, s2) := k r0 s1 in
        match t with
        | Ready rr => (CThen k c1 (Some t), Some rr, s2)
        | Pending c2 =>
            let '(c3, r3, s3) := invoke FX c2 s2 in
            match r3 with
            | Some x => (CThen k c1 (Some (Ready x)), Some x, s3)
            | None => (CThen k c1 (Some (Pending c3)), None, s3)
            end
        end
    | None => (CThen k c1 None, None, s1)
    end.
  Proof. reflexivity. Qed.

  Lemma invoke_CThen_some k c0 c2 s :
    invoke FX (CThen k c0 (Some (Pending c2))) s =
    let '(c3, r3, s3) := invoke FX c2 s in
    match r3 with
    | Some x => (CThen k c0 (Some (Ready x)), Some x, s3)
    | None => (CThen k c0 (Some (Pending c3)), None, s3)
    end.
  Proof. reflexivity. Qed.

  Lemma invoke_CNew pf s : invoke FX (CNew pf) s = let '(r, s1) := pf s in (CNew pf, r, s1).
  Proof. reflexivity. Qed.

  Lemma take_step G s id ok c1 sites pot :
    INV G (s_maps s) -> chan_take id (s_chans s) = Some (ok, c1) ->
    Step G s {| g_sites := sites; g_ids := [id]; g_pot := pot |}
         G (with_chans c1 s) {| g_sites := sites; g_ids := []; g_pot := pot |}.
  Proof.
    intros I T. destruct (chan_take_some _ _ _ _ T) as (A & B & D).
    split; [apply gle_refl|]. split; [apply sle_heap; [apply hle_refl | reflexivity | reflexivity]|].
    split; [exact I|]. constructor; simpl.
    - exists [], []. rewrite app_nil_r. repeat split; [constructor | apply sub_perm_refl].
    - exists []. rewrite app_nil_r. split; auto. intros [|k] pr X; discriminate.
    - intros i [].
    - intros _. constructor.
    - intros x Hx. left. now apply B.
    - intros _ _ x H1 H2. split; auto. left. symmetry. now apply D.
    - intros _ _ i [].
    - unfold np; simpl. lia.
    - reflexivity.
  Qed.

  Lemma F_step p : StepSpec (fun G s => LiveF G s fp p) (spec_F fp p).
  Proof.
    intros G s c g c' ro s' I C L E. unfold fp in L. inversion L; subst.
    - (* synchronous resolver, value still pending *)
      destruct (W_step nn v p (SI v eq_refl p) G s c g c' ro s' I C H5 E) as (G' & g' & St & O).
      exists G', g'. split; auto. unfold fp. now apply Outcome_W_F.
    - (* waiting for the promise *)
      rewrite invoke_CThen_none, invoke_CNew in E. unfold promise_poll in E.
      destruct (chan_take id (s_chans s)) as [[ok c1]|] eqn:T.
      + destruct (chan_take_some _ _ _ _ T) as (TA & TB & TD).
        assert (Eok : ok = is_some res).
        { specialize (C id ok TA). rewrite C in H5. congruence. }
        set (s1 := with_chans c1 s) in *.
        assert (St0 := take_step G s id ok c1 (snd (cand_field (FP tag nn res) p)) (count_async_r res) I T).
        fold s1 in St0.
        assert (C1 : chans_wf s1) by (eapply Step_chans_wf; eauto).
        destruct (field_k FX nn res p (if ok then ROk GUnit else RErr (mkerr [] KRaw)) s1) as [t s2] eqn:K.
        destruct (field_k_run G s1 p ok I C1 Eok t s2 K) as (G' & g' & St1 & O1 & Hn).
        destruct t as [rr|c2].
        * injection E as <- <- <-. exists G', g'. split; [eapply Step_trans; eauto|].
          simpl in *. exact O1.
        * destruct res as [v|]; [|destruct (Hn eq_refl); discriminate].
          simpl in O1. destruct O1 as [LW BW].
          destruct (invoke FX c2 s2) as [[c3 r3] s3] eqn:E2.
          assert (I2 : INV G' (s_maps s2)) by (destruct St1 as (_ & _ & X & _); exact X).
          assert (C2 : chans_wf s2) by (eapply Step_chans_wf; eauto).
          destruct (W_step nn v p (SI v eq_refl p) G' s2 c2 g' c3 r3 s3 I2 C2 LW E2) as (G'' & g'' & St2 & O2).
          assert (St3 : Step G s {| g_sites := snd (cand_field (FP tag nn (Some v)) p); g_ids := [id];
                                    g_pot := count_async_r (Some v) |} G'' s3 g'').
          { eapply Step_trans; [exact St0|]. eapply Step_trans; [exact St1 | exact St2]. }
          destruct r3 as [x|]; injection E as <- <- <-; exists G'', g''; (split; [exact St3|]);
            simpl in O2 |- *.
          -- destruct O2 as [R ->]. split; auto. now apply ResOK_W_F.
          -- destruct O2 as [L2 B2]. split; auto. now constructor.
      + injection E as <- <- <-. eexists G, _. split; [apply Step_refl; exact I|].
        simpl. split; [exact L|]. exists id. simpl. split; [now left|]. split; [|now apply chan_take_none].
        unfold np. apply nth_error_Some. destruct (nth_error (s_proms s) id); [discriminate | simpl in H5; discriminate].
    - (* the continuation has run, its future is pending *)
      rewrite invoke_CThen_some in E. destruct (invoke FX c2 s) as [[c3 r3] s3] eqn:E2.
      destruct (W_step nn v p (SI v eq_refl p) G s c2 g c3 r3 s3 I C H5 E2) as (G' & g' & St & O).
      destruct r3 as [x|]; injection E as <- <- <-; exists G', g'; (split; [exact St|]);
        simpl in O |- *.
      + destruct O as [R ->]. split; auto. now apply ResOK_W_F.
      + destruct O as [L2 B2]. split; auto. now constructor.
  Qed.
End Field.
