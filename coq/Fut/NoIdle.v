(** * Fut/NoIdle.v — the branch of [wait] (executor.go:213-235) taken when the request has no idle
    handler: [if e.IdleHandler == nil { return result.Value, newError(nil, "No idle handler defined.") }].

    [wait_nil]: a ready future is returned; a pending one is wrapped, polled once, and if it is
    still pending the zero value comes back with an error that has no path.  [run_nil] is
    [ExecAsync.run] with [wait_nil] for [wait]: executeQuery / executeMutation then answer
    "data": null with the errors caught so far plus that error.  No idle round ever happens.
    Model first (no proofs), then the relation to [run]: when [run] finishes without an idle round
    ([fuel = 0]), the execution without a handler is the same execution. *)
From Coq Require Import List NArith ZArith Bool.
From ApiFu Require Import Base.Sexp Fut.Plan Fut.Future Fut.ExecAsync.
Import ListNotations.

Definition no_idle_err : err := mkerr [] KRaw.       (* newError(nil, …): no path, no location *)

Section NoIdle.
  Variable fl : flags.

  Definition wait_nil (f : ExecAsync.fut) (s : st) : result * st :=
    match f with
    | Ready r => (r, s)
    | Pending _ =>
        let '(f0, s0) := Map f wait_fn s in
        let '(f1, s1) := poll fl f0 s0 in
        match f1 with
        | Ready r => (r, s1)
        | Pending _ => (RErr no_idle_err, s1)
        end
    end.

  Fixpoint serial_loop_nil (l : selset) (m i : nat) (p : rpath) (s : st) : option err * st :=
    match l with
    | [] => (None, s)
    | (key, fp) :: tl =>
        let ip := PKey key :: p in
        let '(f, s1) := exec_field fl fp ip s in
        let '(f1, s2) := catch_if_nullable (match fp with FP _ nn _ => nn end) f s1 in
        match wait_nil f1 s2 with
        | (RErr e, s3) => (Some e, s3)
        | (ROk v, s3) => serial_loop_nil tl m (S i) p (heap_set m i key v s3)
        end
    end.

  Definition exec_sel_serial_nil (fields : selset) (p : rpath) (s : st) : ExecAsync.fut * st :=
    let '(m, s0) := alloc_map (length fields) s in
    match serial_loop_nil fields m 0 p s0 with
    | (Some e, s1) => (Err e, s1)
    | (None, s1) => (MapOkValue (After []) (GMap m), s1)
    end.

  Definition run_nil (md : mode) (jfuel : nat) (root : selset) : outcome resp :=
    match md with
    | Query => let '(f, s1) := exec_sel fl root [] st0 in finish jfuel (wait_nil f s1)
    | Mutation => let '(f, s1) := exec_sel_serial_nil root [] st0 in finish jfuel (wait_nil f s1)
    end.
End NoIdle.

(** ** relation to the execution with a handler *)
Lemma wait_nil_agrees fl sigma f s rs : wait fl sigma 0 f s = Done rs -> wait_nil fl f s = rs.
Proof.
  unfold wait, wait_nil. destruct f as [r|c]; [intros E; now injection E|].
  destruct (Map (Pending c) wait_fn s) as [f0 s0]. destruct (poll fl f0 s0) as [f1 s1].
  destruct f1 as [r|c1]; simpl; intros E; [now injection E | discriminate].
Qed.

Lemma serial_nil_agrees fl sigma l : forall m i p s es,
  serial_loop fl sigma 0 l m i p s = Done es -> serial_loop_nil fl l m i p s = es.
Proof.
  induction l as [|[key fp] tl IH]; intros m i p s es E.
  - simpl in E. now injection E.
  - cbn [serial_loop serial_loop_nil] in *.
    destruct (exec_field fl fp (PKey key :: p) s) as [f s1].
    destruct (catch_if_nullable (match fp with FP _ nn _ => nn end) f s1) as [f1 s2].
    destruct (wait fl sigma 0 f1 s2) as [[r s3]| |] eqn:Ew; try discriminate.
    rewrite (wait_nil_agrees fl sigma f1 s2 (r, s3) Ew).
    destruct r as [v|e]; [now apply IH | now injection E].
Qed.

(** an execution that needs no idle round is the same with and without an idle handler *)
Theorem run_nil_agrees fl sigma md jfuel root r :
  run fl sigma md 0 jfuel root = Done r -> run_nil fl md jfuel root = Done r.
Proof.
  unfold run, run_nil. destruct md.
  - destruct (exec_sel fl root [] st0) as [f s1].
    destruct (wait fl sigma 0 f s1) as [rs| |] eqn:Ew; try discriminate.
    now rewrite (wait_nil_agrees fl sigma f s1 rs Ew).
  - unfold exec_sel_serial, exec_sel_serial_nil. destruct (alloc_map (length root) st0) as [m s0].
    destruct (serial_loop fl sigma 0 root m 0 [] s0) as [[early s1]| |] eqn:Es; try discriminate.
    rewrite (serial_nil_agrees fl sigma root m 0 [] s0 (early, s1) Es).
    destruct early as [e|].
    + destruct (wait fl sigma 0 (Err e) s1) as [rs| |] eqn:Ew; try discriminate.
      now rewrite (wait_nil_agrees fl sigma _ s1 rs Ew).
    + destruct (wait fl sigma 0 (MapOkValue (After []) (GMap m)) s1) as [rs| |] eqn:Ew; try discriminate.
      now rewrite (wait_nil_agrees fl sigma _ s1 rs Ew).
Qed.
