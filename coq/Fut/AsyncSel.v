(** * Fut/AsyncSel.v — executeSelections (forceSerial = false): the loop over the grouped field
    set, After at construction, and the poll function of After (repaired: through pointers). *)
From Coq Require Import List NArith ZArith Bool Lia Permutation.
From ApiFu Require Import Base.Sexp Fut.Plan Fut.Future Fut.ExecAsync Fut.ExecSync Fut.Denote Fut.SubPerm
     Fut.Live Fut.LiveFacts Fut.Acct Fut.AsyncWrap Fut.AsyncField Fut.AsyncList.
Import ListNotations.

(** ** declarative equations for selection sets *)
Fixpoint sum_async_f (l : selset) : nat :=
  match l with [] => 0 | (_, f) :: tl => count_async_f f + sum_async_f tl end.

Lemma count_async_obj fields : count_async_v (VObj fields) = sum_async_f fields.
Proof. reflexivity. Qed.

Definition budget_sel (p : rpath) (l : selset) : ghost :=
  {| g_sites := snd (cand_sel cand_field p l); g_ids := []; g_pot := sum_async_f l |}.

Lemma budget_sel_cons p key fp tl :
  budget_sel p ((key, fp) :: tl) = gplus (budget_CF fp (PKey key :: p)) (budget_sel p tl).
Proof. reflexivity. Qed.

Lemma cand_sel_cons_fst p key fp tl :
  fst (cand_sel cand_field p ((key, fp) :: tl)) =
  ps_esc (spec_CF fp (PKey key :: p)) ++ fst (cand_sel cand_field p tl).
Proof. reflexivity. Qed.

Definition sel_fails (l : selset) : bool := existsb (fun kf => fp_nn (snd kf) && fails_f (snd kf)) l.

Lemma cand_sel_nth p fields i key fp :
  nth_error fields i = Some (key, fp) ->
  incl (ps_esc (spec_CF fp (PKey key :: p))) (fst (cand_sel cand_field p fields)).
Proof.
  revert i; induction fields as [|[k f] tl IH]; intros [|i] H; simpl in H; try discriminate.
  - injection H as -> ->. rewrite cand_sel_cons_fst. apply incl_appl, incl_refl.
  - rewrite cand_sel_cons_fst. apply incl_appr. eapply IH; eauto.
Qed.

Lemma sel_fails_nth fields i key fp :
  nth_error fields i = Some (key, fp) -> fp_nn fp && fails_f fp = true -> sel_fails fields = true.
Proof.
  intros H F. unfold sel_fails. apply existsb_exists. exists (key, fp). split; auto.
  eapply nth_error_In; eauto.
Qed.

(** ** slots *)
Definition SlotSet (s : st) (m k : nat) : Prop :=
  exists slots x, nth_error (s_maps s) m = Some slots /\ nth_error slots k = Some (Some x).

Lemma SlotSet_mono s s' m k : sle s s' -> SlotSet s m k -> SlotSet s' m k.
Proof.
  intros (Hh & _) (slots & x & A & B). destruct (Hh m slots A) as (slots' & A' & L & K).
  destruct (K k x B) as (y & Hy). exists slots', y. auto.
Qed.

Definition FieldDone (s : st) (m : nat) (p : rpath) (k : nat) (key : bytes) (fp : fplan) : Prop :=
  SlotSet s m k /\ (fp_nn fp = true -> fails_f fp = false) /\
  Forall (Fired s) (must_CF fp (PKey key :: p)).

Lemma FieldDone_mono s s' m p k key fp : sle s s' -> FieldDone s m p k key fp -> FieldDone s' m p k key fp.
Proof.
  intros Hs (A & B & C). split; [eapply SlotSet_mono; eauto|]. split; auto.
  eapply Forall_impl; [|exact C]. intros a. now apply Fired_mono.
Qed.

Definition MapOK (G : ghe) (s : st) (m : nat) (fields : selset) : Prop :=
  nth_error G m = Some (entries fields) /\
  exists slots, nth_error (s_maps s) m = Some slots /\ length slots = length fields.

Lemma MapOK_mono G s G' s' m fields : gle G G' -> sle s s' -> MapOK G s m fields -> MapOK G' s' m fields.
Proof.
  intros Hg (Hh & _) [A (slots & B & L)]. split; [eapply gle_nth; eauto|].
  destruct (Hh m slots B) as (slots' & B' & L' & _). exists slots'. split; auto. congruence.
Qed.

Lemma entries_nth fields i key fp :
  nth_error fields i = Some (key, fp) -> nth_error (entries fields) i = Some (key, jf fp).
Proof. intros H. unfold entries. rewrite nth_error_map, H. reflexivity. Qed.

(** storing a field's value *)
Lemma set_step G s m i key fp fields v g :
  INV G (s_maps s) -> MapOK G s m fields -> nth_error fields i = Some (key, fp) ->
  val_ok G (s_maps s) v (jf fp) ->
  Step G s g G (heap_set m i key v s) g /\ SlotSet (heap_set m i key v s) m i.
Proof.
  intros I [A (slots & B & L)] N V. split.
  - split; [apply gle_refl|]. split.
    + apply sle_heap; [apply hle_heap_set | reflexivity | reflexivity].
    + split; [|apply Acct_same; repeat split].
      rewrite heap_set_maps. eapply INV_set; eauto. now apply entries_nth.
  - unfold SlotSet. rewrite heap_set_maps.
    assert (Hi : i < length slots).
    { rewrite L. apply nth_error_Some. congruence. }
    destruct (nth_error slots i) as [sl|] eqn:E; [|apply nth_error_None in E; lia].
    exists (upd_nth i (fun _ => Some (key, v)) slots), (key, v). split.
    + now apply nth_upd_nth_eq.
    + erewrite nth_upd_nth_eq; eauto.
Qed.

(** ** the loop of executeSelections *)
Definition BuildF (fp : fplan) : Prop :=
  forall q, BuildSpec (exec_field FX fp q) (budget_F fp q) (fun G s => LiveF G s fp q) (spec_F fp q).
Definition StepF (fp : fplan) : Prop :=
  forall q, StepSpec (fun G s => LiveF G s fp q) (spec_F fp q).

Lemma sel_loop_cons m p key fp tl i futures s :
  sel_loop (exec_field FX) m p ((key, fp) :: tl) i futures s =
  let '(f, s1) := exec_field FX fp (PKey key :: p) s in
  let '(f1, s2) := catch_if_nullable (fp_nn fp) f s1 in
  match f1 with
  | Ready (RErr e) => (Some e, futures, s2)
  | Ready (ROk v) => sel_loop (exec_field FX) m p tl (S i) futures (heap_set m i key v s2)
  | Pending _ =>
      let '(f2, s3) := MapOk f1 (set_slot m i key) s2 in
      sel_loop (exec_field FX) m p tl (S i) (futures ++ [f2]) s3
  end.
Proof. destruct fp. reflexivity. Qed.

Lemma sel_build p m fields :
  forall l, Forall (fun kf => BuildF (snd kf)) l ->
  forall pre i, fields = pre ++ l -> length pre = i ->
  forall G s futs0 early futs s',
    INV G (s_maps s) -> chans_wf s -> MapOK G s m fields ->
    sel_loop (exec_field FX) m p l i futs0 s = (early, futs, s') ->
    exists G' g', Step G s (budget_sel p l) G' s' g' /\
      match early with
      | Some e => sel_fails l = true /\ In e (fst (cand_sel cand_field p l))
      | None =>
          exists newf idxs, futs = futs0 ++ newf /\ LiveSel G' s' m p fields newf idxs g' /\
            Forall is_pending newf /\
            (forall k key fp, i <= k -> nth_error fields k = Some (key, fp) ->
               In k idxs \/ FieldDone s' m p k key fp) /\
            True
      end.
Proof.
  induction 1 as [|[key fp] tl Bf Btl IH]; intros pre i Ef Lp G s futs0 early futs s' I C MO E.
  - simpl in E. injection E as <- <- <-. exists G, g0. split; [apply Step_refl; auto|].
    exists [], []. rewrite app_nil_r. split; auto. split; [constructor|]. split; [constructor|].
    split.
    + intros k key fp Hk Hn. exfalso. subst fields. rewrite app_nil_r in Hn.
      assert (k < length pre) by (apply nth_error_Some; congruence). lia.
    + trivial.
  - rewrite sel_loop_cons in E. simpl in Bf.
    assert (Hn : nth_error fields i = Some (key, fp)).
    { subst fields. rewrite nth_error_app2 by lia. replace (i - length pre) with 0 by lia. reflexivity. }
    pose proof (CF_build fp (PKey key :: p) (Bf (PKey key :: p))) as B.
    destruct (exec_field FX fp (PKey key :: p) s) as [f s1] eqn:E1.
    destruct (catch_if_nullable (fp_nn fp) f s1) as [f1 s2] eqn:E2.
    destruct (B G s f1 s2 I C) as (G1 & g1 & St1 & O1).
    { rewrite E1. exact E2. }
    assert (I1 : INV G1 (s_maps s2)) by (destruct St1 as (_ & _ & X & _); exact X).
    assert (C1 : chans_wf s2) by (eapply Step_chans_wf; eauto).
    assert (MO1 : MapOK G1 s2 m fields).
    { destruct St1 as (A1 & A2 & _). eapply MapOK_mono; eauto. }
    assert (StF : Step G s (budget_sel p ((key, fp) :: tl)) G1 s2 (gplus g1 (budget_sel p tl))).
    { rewrite budget_sel_cons. destruct St1 as (A1 & A2 & A3 & A4).
      split; auto. split; auto. split; auto. now apply Acct_frame_r. }
    assert (Ef' : fields = (pre ++ [(key, fp)]) ++ tl) by (rewrite <- app_assoc; exact Ef).
    assert (Lp' : length (pre ++ [(key, fp)]) = S i) by (rewrite app_length; simpl; lia).
    destruct f1 as [[v|e]|c]; simpl in O1.
    + (* ready with a value: store it, go on *)
      destruct O1 as [(F & V & Mu) ->].
      destruct (set_step G1 s2 m i key fp fields v (gplus g0 (budget_sel p tl)) I1 MO1 Hn V) as [St2 SS].
      set (s3 := heap_set m i key v s2) in *.
      assert (I3 : INV G1 (s_maps s3)) by (destruct St2 as (_ & _ & X & _); exact X).
      assert (C3 : chans_wf s3) by (eapply Step_chans_wf; eauto).
      assert (MO3 : MapOK G1 s3 m fields).
      { destruct St2 as (A1 & A2 & _). eapply MapOK_mono; eauto. }
      destruct (IH (pre ++ [(key, fp)]) (S i) Ef' Lp' G1 s3 futs0 early futs s' I3 C3 MO3 E)
        as (G' & g' & St & M).
      exists G', g'. split.
      { eapply Step_trans; [exact StF|]. eapply Step_trans; [exact St2|].
        rewrite gplus_g0_l. exact St. }
      destruct early as [e|].
      * destruct M as [SF In]. split.
        -- unfold sel_fails in *. simpl. rewrite SF. apply orb_true_r.
        -- rewrite cand_sel_cons_fst. apply in_or_app. now right.
      * destruct M as (newf & idxs & Efu & LS & FP & Cov & Bl).
        exists newf, idxs. split; auto. split; auto. split; auto. split; auto.
        intros k key0 fp0 Hk Hnk. destruct (Nat.eq_dec k i) as [->|Hne].
        -- right. rewrite Hn in Hnk. injection Hnk as <- <-.
           destruct St as (_ & A2 & _). eapply FieldDone_mono; [exact A2|].
           split; [exact SS|]. split.
           ++ intros N. simpl in F. rewrite N in F. exact F.
           ++ destruct St2 as (_ & B2 & _). eapply Forall_impl; [|exact Mu]. intros a. now apply Fired_mono.
        -- apply (Cov k key0 fp0); auto. lia.
    + (* ready with an error: executeSelections returns at once *)
      injection E as <- <- <-. destruct O1 as [[F In] ->].
      exists G1, (gplus g0 (budget_sel p tl)). split; auto. split.
      * unfold sel_fails. simpl. simpl in F. rewrite F. reflexivity.
      * rewrite cand_sel_cons_fst. apply in_or_app. now left.
    + (* not ready: defer the store *)
      destruct O1 as [LC Bc]. simpl in E.
      destruct (IH (pre ++ [(key, fp)]) (S i) Ef' Lp' G1 s2
                   (futs0 ++ [Pending (CMapOk (set_slot m i key) c)]) early futs s' I1 C1 MO1 E)
        as (G' & g' & St & M).
      exists G', (gplus g1 g'). split.
      { eapply Step_trans; [exact StF|].
        destruct St as (A1 & A2 & A3 & A4). split; auto. split; auto. split; auto.
        now apply Acct_frame_l. }
      destruct early as [e|].
      * destruct M as [SF In]. split.
        -- unfold sel_fails in *. simpl. rewrite SF. apply orb_true_r.
        -- rewrite cand_sel_cons_fst. apply in_or_app. now right.
      * destruct M as (newf & idxs & Efu & LS & FP & Cov & Bl).
        exists (Pending (CMapOk (set_slot m i key) c) :: newf), (i :: idxs).
        split; [rewrite Efu, <- app_assoc; reflexivity|].
        split.
        { econstructor; eauto. destruct St as (A1 & A2 & _). eapply LiveCF_mono; eauto. }
        split; [constructor; [exact Logic.I | exact FP]|].
        split.
        { intros k key0 fp0 Hk Hnk. destruct (Nat.eq_dec k i) as [->|Hne]; [left; now left|].
          destruct (Cov k key0 fp0) as [X|X]; auto; [lia | left; now right]. }
        trivial.
Qed.

(** ** After at construction, executeSelections as a whole *)
Lemma after_init_pending_false (l : list fut) : Forall is_pending l -> after_init l false = LNotYet.
Proof.
  induction 1 as [|f tl Hf _ IH]; simpl; auto. destruct f as [r|c]; simpl in Hf; [contradiction|]. exact IH.
Qed.

Lemma LiveSel_nil_inv G s m p fields idxs g : LiveSel G s m p fields [] idxs g -> idxs = [] /\ g = g0.
Proof. intros L. inversion L; subst. auto. Qed.

Lemma slots_full s m n :
  (forall k, k < n -> SlotSet s m k) ->
  forall slots, nth_error (s_maps s) m = Some slots -> length slots = n -> full slots.
Proof.
  intros Cov slots Hm Ln. unfold full. apply Forall_forall. intros sl Hin.
  apply In_nth_error in Hin. destruct Hin as [k Hk].
  assert (k < n) by (rewrite <- Ln; apply nth_error_Some; congruence).
  destruct (Cov k H) as (slots' & x & A & B). rewrite Hm in A. injection A as <-.
  rewrite Hk in B. injection B as ->. discriminate.
Qed.

Lemma sel_not_fails fields :
  (forall k key fp, nth_error fields k = Some (key, fp) -> fp_nn fp = true -> fails_f fp = false) ->
  sel_fails fields = false.
Proof.
  intros Cov. unfold sel_fails. apply not_true_is_false. intro E.
  apply existsb_exists in E. destruct E as ([key fp] & Hin & F). simpl in F.
  apply In_nth_error in Hin. destruct Hin as [k Hk].
  apply andb_true_iff in F. destruct F as [N F]. rewrite (Cov k key fp Hk N) in F. discriminate.
Qed.

Lemma must_sel_fired s p (l : selset) :
  (forall kf, In kf l -> Forall (Fired s) (must_CF (snd kf) (PKey (fst kf) :: p))) ->
  Forall (Fired s) (must_sel must_F p l).
Proof.
  induction l as [|[key fp] tl IH]; intros H; simpl; [constructor|].
  apply Forall_app. split.
  - apply (H (key, fp)). now left.
  - apply IH. intros kf Hin. apply H. now right.
Qed.

Lemma sel_done G s m p fields :
  MapOK G s m fields ->
  (forall k key fp, nth_error fields k = Some (key, fp) ->
     FieldDone s m p k key fp) ->
  ResOK G s (spec_I (VObj fields) p) (ROk (GMap m)).
Proof.
  intros [A (slots & B & L)] Cov. unfold ResOK, spec_I. cbn [ps_fails ps_json ps_must]. split; [|split].
  - rewrite fails_inner_obj. apply sel_not_fails. intros k key fp Hk. now apply (Cov k key fp Hk).
  - rewrite jv_obj. econstructor; eauto.
    eapply slots_full; eauto. intros k Hk.
    destruct (nth_error fields k) as [[key fp]|] eqn:E; [|apply nth_error_None in E; lia].
    now apply (Cov k key fp E).
  - change (must_I (VObj fields) p) with (must_sel must_F p fields). apply must_sel_fired.
    intros [key fp] Hin. apply In_nth_error in Hin. destruct Hin as [k Hk]. simpl.
    now apply (Cov k key fp Hk).
Qed.

Definition budget_S (fields : selset) (p : rpath) : ghost := budget_I (VObj fields) p.

Lemma S_build fields p :
  Forall (fun kf => BuildF (snd kf)) fields ->
  BuildSpec (sel_body (exec_field FX) fields p) (budget_I (VObj fields) p)
            (fun G s => LiveS G s fields p) (spec_I (VObj fields) p).
Proof.
  intros FB G s f s' I C E. unfold sel_body, alloc_map in E.
  set (m := length (s_maps s)) in *.
  set (s0 := with_maps (s_maps s ++ [repeat None (length fields)]) s) in *.
  set (G0 := G ++ [entries fields]).
  assert (Le : length (entries fields) = length fields) by (unfold entries; apply map_length).
  assert (I0 : INV G0 (s_maps s0)).
  { unfold G0, s0. simpl. rewrite <- Le. now apply INV_alloc. }
  assert (Lg : length G = m) by (destruct I as [X _]; exact X).
  assert (MO : MapOK G0 s0 m fields).
  { split.
    - unfold G0. rewrite nth_error_app2 by lia. rewrite Lg, Nat.sub_diag. reflexivity.
    - exists (repeat None (length fields)). split; [|apply repeat_length].
      unfold s0. simpl. rewrite nth_error_app2 by (unfold m; lia). unfold m. rewrite Nat.sub_diag. reflexivity. }
  assert (St0 : Step G s (budget_I (VObj fields) p) G0 s0 (budget_sel p fields)).
  { split; [eexists; reflexivity|]. split; [apply sle_heap; [apply hle_alloc | reflexivity | reflexivity]|].
    split; [exact I0|]. apply Acct_same. repeat split. }
  assert (C0 : chans_wf s0) by exact C.
  destruct (sel_loop (exec_field FX) m p fields 0 [] s0) as [[early futs] s1] eqn:EL.
  destruct (sel_build p m fields fields FB [] 0 eq_refl eq_refl G0 s0 [] early futs s1 I0 C0 MO EL)
    as (G' & g' & St & M).
  destruct early as [e|].
  - injection E as <- <-. destruct M as [SF In]. exists G', g0. split.
    + eapply Step_trans; [exact St0|]. destruct St as (A1 & A2 & A3 & A4).
      split; auto. split; auto. split; auto. eapply Acct_drop; eauto.
    + split; auto. unfold ResOK, spec_I. cbn [ps_fails ps_esc]. split; auto.
      rewrite fails_inner_obj. exact SF.
  - destruct M as (newf & idxs & Efu & LS & FP & Cov & Bl). simpl in Efu. subst futs.
    assert (MO' : MapOK G' s1 m fields).
    { destruct St as (A1 & A2 & _). eapply MapOK_mono; eauto. }
    destruct newf as [|f0 tl0].
    + (* everything was ready *)
      destruct (LiveSel_nil_inv _ _ _ _ _ _ _ LS) as [-> ->].
      simpl in E. injection E as <- <-. exists G', g0. split; [eapply Step_trans; eauto|].
      split; auto. apply sel_done; auto. intros k key fp Hk.
      destruct (Cov k key fp (Nat.le_0_l k) Hk) as [[]|X]. exact X.
    + (* some futures are outstanding *)
      assert (EA : After (f0 :: tl0) = Pending (CAfter (f0 :: tl0))).
      { unfold After. inversion FP as [|? ? Hf Ht]; subst. destruct f0 as [r|c0]; [simpl in Hf; contradiction|].
        simpl. now rewrite (after_init_pending_false _ Ht). }
      rewrite EA in E. simpl in E. injection E as <- <-.
      assert (Hne : idxs <> []).
      { intro X. subst idxs. inversion LS; subst.
        inversion FP as [|? ? Hf Ht]; subst. simpl in Hf. contradiction. }
      exists G', g'. split; [eapply Step_trans; eauto|]. simpl. split; [|trivial].
      destruct MO' as [A (slots & B & L)].
      econstructor; eauto.
      intros i key fp Hi. destruct (Cov i key fp (Nat.le_0_l i) Hi) as [X|[(slots' & x & Y1 & Y2) Z]]; [now left|right].
      rewrite B in Y1. injection Y1 as <-. split; eauto.
Qed.

Lemma obj_build fields p :
  Forall (fun kf => BuildF (snd kf)) fields ->
  BuildSpec (complete_inner FX (VObj fields) p) (budget_I (VObj fields) p)
            (fun G s => LiveI G s (VObj fields) p) (spec_I (VObj fields) p).
Proof.
  intros FB G s f s' I C E.
  change (complete_inner FX (VObj fields) p s)
    with (let '(f, s1) := sel_body (exec_field FX) fields p s in (MapOkToAny f, s1)) in E.
  destruct (sel_body (exec_field FX) fields p s) as [f0 s1] eqn:E0. injection E as <- <-.
  destruct (S_build fields p FB G s f0 s1 I C E0) as (G' & g' & St & O).
  exists G', g'. split; auto. destruct f0 as [r|c]; simpl in *; auto.
  destruct O as [L B]. split; auto. now constructor.
Qed.

(** ** After's poll function (through pointers) *)
Lemma after_loop_ready (inv : clo -> st -> clo * option result * st) v (tl : list fut) ok s :
  @after_loop st true inv (Ready (ROk v) :: tl) ok s =
  let '(tl1, o, s2) := @after_loop st true inv tl ok s in (Ready (ROk v) :: tl1, o, s2).
Proof. reflexivity. Qed.

Lemma after_loop_pending (inv : clo -> st -> clo * option result * st) c0 (tl : list fut) ok s :
  @after_loop st true inv (Pending c0 :: tl) ok s =
  let '(c1, r, s1) := inv c0 s in
  match r with
  | Some (RErr e) => (Ready (RErr e) :: tl, LErr e, s1)
  | Some (ROk v) => let '(tl1, o, s2) := @after_loop st true inv tl ok s1 in (Ready (ROk v) :: tl1, o, s2)
  | None => let '(tl1, o, s2) := @after_loop st true inv tl false s1 in (Pending c1 :: tl1, o, s2)
  end.
Proof.
  simpl. destruct (inv c0 s) as [[c1 r] s1]. destruct r as [[v|e]|]; reflexivity.
Qed.

Lemma invoke_CMapOk fn c s :
  invoke FX (CMapOk fn c) s =
  let '(c1, r, s1) := invoke FX c s in
  match r with
  | Some (ROk v) => let '(v1, s2) := fn v s1 in (CMapOk fn c1, Some (ROk v1), s2)
  | Some (RErr e) => (CMapOk fn c1, Some (RErr e), s1)
  | None => (CMapOk fn c1, None, s1)
  end.
Proof. reflexivity. Qed.

Lemma Forall_nth_error {A} (P : A -> Prop) l i x : Forall P l -> nth_error l i = Some x -> P x.
Proof. intros F H. rewrite Forall_forall in F. apply F. eapply nth_error_In; eauto. Qed.

Lemma after_step p m fields :
  Forall (fun kf => StepF (snd kf)) fields ->
  forall futs idxs g G s ok futs' o s',
    INV G (s_maps s) -> chans_wf s -> MapOK G s m fields ->
    LiveSel G s m p fields futs idxs g ->
    @after_loop st true (invoke FX) futs ok s = (futs', o, s') ->
    exists G' g', Step G s g G' s' g' /\
      match o with
      | LErr e => sel_fails fields = true /\ In e (fst (cand_sel cand_field p fields))
      | _ =>
          exists idxs', LiveSel G' s' m p fields futs' idxs' g' /\
            (forall k key fp, In k idxs -> nth_error fields k = Some (key, fp) ->
               In k idxs' \/ FieldDone s' m p k key fp) /\
            match o with
            | LAllOk => ok = true /\ idxs' = [] /\ g' = g0
            | _ => ok = false \/ (idxs' <> [] /\ Blocked s' g')
            end
      end.
Proof.
  intros FS. induction futs as [|f tl IH]; intros idxs g G s ok futs' o s' I C MO L E.
  - inversion L; subst. simpl in E. injection E as <- <- <-.
    exists G, g0. split; [apply Step_refl; auto|].
    destruct ok.
    + exists []. split; [constructor|]. split; [intros k key fp []|]. auto.
    + exists []. split; [constructor|]. split; [intros k key fp []|]. auto.
  - inversion L as [| m0 p0 f0 fs0 ix0 g1 Lt | m0 p0 f0 i key fp c fs0 ix0 g1 g2 Hn LC Lt]; subst.
    + (* an element that completed earlier: not polled again *)
      rewrite after_loop_ready in E.
      destruct (@after_loop st true (invoke FX) tl ok s) as [[tl1 o1] s2] eqn:E1.
      injection E as <- <- <-.
      destruct (IH idxs g G s ok tl1 o1 s2 I C MO Lt E1) as (G' & g' & St & M).
      exists G', g'. split; auto.
      destruct o1 as [e| |]; auto.
      * destruct M as (idxs' & LS & Cov & X). exists idxs'. split; [now constructor|]. auto.
      * destruct M as (idxs' & LS & Cov & X). exists idxs'. split; [now constructor|]. auto.
    + (* a pending element: poll it *)
      rewrite after_loop_pending, invoke_CMapOk in E.
      destruct (invoke FX c s) as [[c1 r] s1] eqn:E0.
      pose proof (CF_step fp (PKey key :: p) (Forall_nth_error _ _ _ _ FS Hn (PKey key :: p))) as SC.
      destruct (SC G s c g1 c1 r s1 I C LC E0) as (G1 & g1' & St1 & O1).
      assert (I1 : INV G1 (s_maps s1)) by (destruct St1 as (_ & _ & X & _); exact X).
      assert (C1 : chans_wf s1) by (eapply Step_chans_wf; eauto).
      assert (MO1 : MapOK G1 s1 m fields).
      { destruct St1 as (A1 & A2 & _). eapply MapOK_mono; eauto. }
      assert (Lt1 : LiveSel G1 s1 m p fields tl ix0 g2).
      { destruct St1 as (A1 & A2 & _). eapply LiveSel_mono; eauto. }
      assert (StF : Step G s (gplus g1 g2) G1 s1 (gplus g1' g2)).
      { destruct St1 as (A1 & A2 & A3 & A4). split; auto. split; auto. split; auto.
        now apply Acct_frame_r. }
      destruct r as [[v|e]|]; simpl in O1.
      * (* the field completed with a value: the setter stores it *)
        destruct O1 as [(F & V & Mu) ->]. unfold set_slot in E at 1.
        destruct (set_step G1 s1 m i key fp fields v (gplus g0 g2) I1 MO1 Hn V) as [St2 SS].
        set (s3 := heap_set m i key v s1) in *.
        assert (I3 : INV G1 (s_maps s3)) by (destruct St2 as (_ & _ & X & _); exact X).
        assert (C3 : chans_wf s3) by (eapply Step_chans_wf; eauto).
        assert (MO3 : MapOK G1 s3 m fields).
        { destruct St2 as (A1 & A2 & _). eapply MapOK_mono; eauto. }
        assert (Lt3 : LiveSel G1 s3 m p fields tl ix0 g2).
        { destruct St2 as (A1 & A2 & _). eapply LiveSel_mono; eauto. }
        destruct (@after_loop st true (invoke FX) tl ok s3) as [[tl1 o1] s4] eqn:E1.
        injection E as <- <- <-.
        destruct (IH ix0 g2 G1 s3 ok tl1 o1 s4 I3 C3 MO3 Lt3 E1) as (G' & g' & St & M).
        exists G', g'. split.
        { eapply Step_trans; [exact StF|]. eapply Step_trans; [exact St2|].
          rewrite gplus_g0_l. exact St. }
        assert (SS' : FieldDone s4 m p i key fp).
        { destruct St as (_ & A2 & _). eapply FieldDone_mono; [exact A2|].
          split; [exact SS|]. split.
          - intros N. simpl in F. rewrite N in F. exact F.
          - destruct St2 as (_ & B2 & _). eapply Forall_impl; [|exact Mu]. intros a. now apply Fired_mono. }
        destruct o1 as [e| |]; auto.
        -- destruct M as (idxs' & LS & Cov & X). exists idxs'. split; [now constructor|]. split; auto.
           intros k key0 fp0 [<-|Hk] Hnk.
           ++ right. rewrite Hn in Hnk. injection Hnk as <- <-. auto.
           ++ eapply Cov; eauto.
        -- destruct M as (idxs' & LS & Cov & X). exists idxs'. split; [now constructor|]. split; auto.
           intros k key0 fp0 [<-|Hk] Hnk.
           ++ right. rewrite Hn in Hnk. injection Hnk as <- <-. auto.
           ++ eapply Cov; eauto.
      * (* the field failed and cannot absorb it: After returns at once *)
        injection E as <- <- <-. destruct O1 as [[F In] ->].
        exists G1, (gplus g0 g2). split; auto. split.
        -- eapply sel_fails_nth; eauto.
        -- eapply cand_sel_nth; eauto.
      * (* still pending *)
        destruct O1 as [LC1 B1].
        destruct (@after_loop st true (invoke FX) tl false s1) as [[tl1 o1] s2] eqn:E1.
        injection E as <- <- <-.
        destruct (IH ix0 g2 G1 s1 false tl1 o1 s2 I1 C1 MO1 Lt1 E1) as (G' & g' & St & M).
        exists G', (gplus g1' g'). split.
        { eapply Step_trans; [exact StF|].
          destruct St as (A1 & A2 & A3 & A4). split; auto. split; auto. split; auto.
          now apply Acct_frame_l. }
        assert (LC2 : LiveCF G' s2 fp (PKey key :: p) c1 g1').
        { destruct St as (A1 & A2 & _). eapply LiveCF_mono; eauto. }
        assert (B2 : Blocked s2 g1').
        { eapply Blocked_chans; [|exact B1]. eapply Step_chans; eauto. }
        destruct o1 as [e| |]; auto.
        -- destruct M as (idxs' & LS & Cov & (D & _)). discriminate.
        -- destruct M as (idxs' & LS & Cov & X). exists (i :: idxs'). split; [econstructor; eauto|].
           split.
           ++ intros k key0 fp0 [<-|Hk] Hnk; [left; now left|].
              destruct (Cov k key0 fp0 Hk Hnk) as [Y|Y]; [left; now right | now right].
           ++ destruct ok; [right | now left]. split; [discriminate|]. now apply Blocked_plus_l.
Qed.

Lemma invoke_val_after v futs s :
  invoke FX (CMapOkValue v (CAfter futs)) s =
  let '(fs1, o, s1) := @after_loop st true (invoke FX) futs true s in
  match o with
  | LErr e => (CMapOkValue v (CAfter fs1), Some (RErr e), s1)
  | LAllOk => (CMapOkValue v (CAfter fs1), Some (ROk v), s1)
  | LNotYet => (CMapOkValue v (CAfter fs1), None, s1)
  end.
Proof.
  unfold invoke. simpl.
  match goal with |- context [after_loop ?a ?b ?c ?d ?e] =>
    destruct (after_loop a b c d e) as [[fs1 o] s1] end.
  destruct o; reflexivity.
Qed.

Lemma S_step fields p :
  Forall (fun kf => StepF (snd kf)) fields ->
  StepSpec (fun G s => LiveS G s fields p) (spec_I (VObj fields) p).
Proof.
  intros FS G s c g c' ro s' I C L E.
  inversion L as [f0 p0 m futs idxs g1 slots Hm Ls Hg LSel Cov0 Hne]; subst.
  assert (MO : MapOK G s m fields) by (split; eauto).
  rewrite invoke_val_after in E.
  destruct (@after_loop st true (invoke FX) futs true s) as [[fs1 o] s1] eqn:EA.
  destruct (after_step p m fields FS futs idxs g G s true fs1 o s1 I C MO LSel EA) as (G' & g' & St & M).
  assert (MO' : MapOK G' s1 m fields).
  { destruct St as (A1 & A2 & _). eapply MapOK_mono; eauto. }
  assert (CovAll : forall idxs',
             (forall k key fp, In k idxs -> nth_error fields k = Some (key, fp) ->
                In k idxs' \/ FieldDone s1 m p k key fp) ->
             forall k key fp, nth_error fields k = Some (key, fp) ->
                In k idxs' \/ FieldDone s1 m p k key fp).
  { intros idxs' Cov k key fp Hk. destruct (Cov0 k key fp Hk) as [X|[[x Hx] [NF Mu]]].
    - eapply Cov; eauto.
    - right. destruct St as (_ & A2 & _). eapply FieldDone_mono; [exact A2|].
      split; [exists slots, x; auto|]. split; auto. }
  destruct o as [e| |]; injection E as <- <- <-.
  - destruct M as [SF In]. exists G', g0. split.
    + destruct St as (A1 & A2 & A3 & A4). split; auto. split; auto. split; auto.
      eapply Acct_drop; eauto.
    + split; auto. unfold ResOK, spec_I. cbn [ps_fails ps_esc]. split; auto.
      rewrite fails_inner_obj. exact SF.
  - destruct M as (idxs' & LS & Cov & (_ & -> & ->)). exists G', g0. split; auto.
    split; auto. apply sel_done; auto. intros k key fp Hk.
    destruct (CovAll [] Cov k key fp Hk) as [[]|X]. exact X.
  - destruct M as (idxs' & LS & Cov & D). destruct D as [D|[D1 D2]]; [discriminate|].
    exists G', g'. split; auto. split; auto.
    destruct MO' as [A (slots' & B & L')].
    econstructor; eauto.
    intros i key fp Hi. destruct (CovAll idxs' Cov i key fp Hi) as [X|[(slots2 & x & Y1 & Y2) Z]]; [now left|right].
    rewrite B in Y1. injection Y1 as <-. split; eauto.
Qed.

Lemma obj_step fields p :
  Forall (fun kf => StepF (snd kf)) fields ->
  StepSpec (fun G s => LiveI G s (VObj fields) p) (spec_I (VObj fields) p).
Proof.
  intros FS G s c g c' ro s' I C L E.
  inversion L as [| f0 p0 c0 g1 LS]; subst.
  change (invoke FX (CMapOkToAny c0) s)
    with (let '(c1, r, s1) := invoke FX c0 s in
          match r with
          | Some (ROk v) => (CMapOkToAny c1, Some (ROk v), s1)
          | Some (RErr e) => (CMapOkToAny c1, Some (RErr e), s1)
          | None => (CMapOkToAny c1, None, s1)
          end) in E.
  destruct (invoke FX c0 s) as [[c1 r] s1] eqn:E0.
  destruct (S_step fields p FS G s c0 g c1 r s1 I C LS E0) as (G' & g' & St & O).
  exists G', g'. destruct r as [[v|e]|]; injection E as <- <- <-; split; auto.
  simpl in *. destruct O as [L1 B1]. split; auto. now constructor.
Qed.
