(** * Fut/BridgeProofs.v — the plan [plan_of] builds from C01's world denotes C01's reference data. *)
From Coq Require Import List NArith ZArith Bool Lia.
From ApiFu Require Import Base.Sexp Fut.Plan Fut.ExecSync Fut.Denote Fut.FutSpec Fut.BridgeC01.
From ApiFu Require ExeA.ArgData ExeA.ArgArgs ExeA.ArgSpec Val.Values.
Import ListNotations.

Section BridgeProofs.
  Variable code : D.json -> Z.
  Variables (S : D.schema) (Doc : D.document) (E : D.env) (fuel : nat).

  Notation tr := (tr code).
  Notation planner := BridgeC01.planner.

  Lemma tr_null j : tr j = JNull -> j = D.JNull.
  Proof. destruct j; simpl; intros H; try discriminate; reflexivity. Qed.

  Definition leafy (j : D.json) : Prop := tr j = JInt (code j).

  Lemma coerce_scalar_leafy k g j : D.coerce_scalar true k g = Some j -> leafy j.
  Proof.
    unfold D.coerce_scalar, leafy. destruct k.
    - destruct (D.coerce_int g); simpl; intros H; inversion H; reflexivity.
    - destruct (D.coerce_float true g); simpl; intros H; inversion H; reflexivity.
    - destruct g; intros H; inversion H; reflexivity.
    - destruct g; intros H; inversion H; reflexivity.
    - destruct (D.coerce_id g); simpl; intros H; inversion H; reflexivity.
  Qed.

  Lemma coerce_enum_leafy vals g j : D.coerce_enum vals g = Some j -> leafy j.
  Proof.
    induction vals as [|[n v] r IH]; simpl; [discriminate|].
    destruct (D.gval_eqb v g); [intros H; inversion H; reflexivity | exact IH].
  Qed.

  (** a position: does it fail, which JSON does it show *)
  Definition pos_fails (nn : bool) (res : option vplan) : bool :=
    fails_inner (unres res) || (nn && is_vnull (unres res)).
  Definition pos_json (res : option vplan) : json := jc (unres res).

  Definition Rel (ty : D.sty) (x : X.sout) (res : option vplan) : Prop :=
    match X.so_val x with
    | None => pos_fails (is_nn ty) res = true
    | Some j => pos_fails (is_nn ty) res = false /\ tr j = pos_json res
    end.

  Definition CRel (c : X.scompleter) (pc : planner) : Prop :=
    forall ty fields path, Rel ty (c ty fields path) (pc ty fields).

  Lemma jv_null_inv v : fails_inner v = false -> jv v = JNull -> v = VNull.
  Proof. destruct v; simpl; intros F J; try discriminate; auto. Qed.

  (** after the position wrapper (6.4.4): the JSON the parent sees, or a failure of the parent *)
  Definition PRel (nn : bool) (x : X.sout) (v : vplan) : Prop :=
    match X.so_val x with
    | None => nn = true /\ (fails_inner v || is_vnull v) = true
    | Some j => (nn && (fails_inner v || is_vnull v)) = false /\ tr j = jc v
    end.

  Lemma position_rel t p x res : Rel t x res -> PRel (is_nn t) (X.s_position t p x) (unres res).
  Proof.
    unfold Rel, PRel, pos_fails, pos_json. set (v := unres res). intros R.
    destruct t as [n|t'|t']; simpl in *.
    - unfold X.s_catch. rewrite orb_false_r in R. destruct (X.so_val x) as [j|] eqn:Ex.
      + rewrite Ex. destruct R as [F J]. split; auto.
      + simpl. split; auto. unfold jc. now rewrite R.
    - unfold X.s_catch. rewrite orb_false_r in R. destruct (X.so_val x) as [j|] eqn:Ex.
      + rewrite Ex. destruct R as [F J]. split; auto.
      + simpl. split; auto. unfold jc. now rewrite R.
    - destruct (X.so_val x) as [j|].
      + destruct R as [F J]. split; auto.
      + split; auto.
  Qed.

  (** the non-null step of CompleteValue *)
  Lemma nonnull_rel t x res (fe : D.gerror) :
    Rel t x res ->
    Rel (D.StNonNull t)
        (match X.so_val x with
         | Some D.JNull => {| X.so_val := None; X.so_thrown := [fe]; X.so_caught := X.so_caught x; X.so_nulls := [] |}
         | _ => x
         end) res.
  Proof.
    unfold Rel, pos_fails, pos_json. set (v := unres res). simpl. intros R.
    destruct (X.so_val x) as [j|] eqn:Ex.
    - destruct R as [F J]. apply orb_false_iff in F. destruct F as [F1 F2].
      unfold jc in J. rewrite F1 in J.
      destruct j; simpl X.so_val; rewrite ?Ex;
        try (split; [rewrite F1; simpl; destruct v; simpl in *; auto; discriminate | unfold jc; now rewrite F1]).
      (* j = JNull *)
      simpl in J. symmetry in J. apply (jv_null_inv v F1) in J. rewrite J. reflexivity.
    - rewrite Ex. apply orb_true_iff in R. apply orb_true_iff. destruct R as [R|R]; [now left|].
      apply andb_true_iff in R. destruct R as [_ R]. now right.
  Qed.

  Lemma rel_throw0 ty e : Rel ty (X.s_throw e) (Some VBad).
  Proof. unfold Rel, pos_fails. reflexivity. Qed.

  (** ** s_all: a list value *)
  Lemma all_items inn (xs : list X.sout) (vs : list vplan) :
    Forall2 (PRel inn) xs vs ->
    match X.vals_of xs with
    | None => inn && existsb (fun v => fails_inner v || is_vnull v) vs = true
    | Some js => inn && existsb (fun v => fails_inner v || is_vnull v) vs = false /\ map tr js = map jc vs
    end.
  Proof.
    induction 1 as [|x v xs vs R _ IH]; simpl.
    - rewrite andb_false_r. auto.
    - unfold PRel in R. destruct (X.so_val x) as [j|].
      + destruct R as [F J]. destruct (X.vals_of xs) as [js|].
        * destruct IH as [F2 J2]. split; [|simpl; now rewrite J, J2].
          destruct inn; simpl in *; auto. now rewrite F, F2.
        * destruct inn; simpl in *; [|discriminate]. rewrite IH. apply orb_true_r.
      + destruct R as [-> F]. simpl. now rewrite F.
  Qed.

  (** ** s_all: a selection set *)
  Definition ERel (e : D.name * X.sout) (pe : bytes * fplan) : Prop :=
    fst e = fst pe /\
    match X.so_val (snd e) with
    | None => fp_nn (snd pe) && fails_f (snd pe) = true
    | Some j => fp_nn (snd pe) && fails_f (snd pe) = false /\ tr j = jf (snd pe)
    end.

  Lemma all_entries (es : list (D.name * X.sout)) (ps : list (bytes * fplan)) :
    Forall2 ERel es ps ->
    match X.vals_of (map snd es) with
    | None => existsb (fun kf => fp_nn (snd kf) && fails_f (snd kf)) ps = true
    | Some js => existsb (fun kf => fp_nn (snd kf) && fails_f (snd kf)) ps = false /\
                 tr (D.JObj (combine (map fst es) js)) = JObj (map (fun kf => (fst kf, jf (snd kf))) ps)
    end.
  Proof.
    induction 1 as [|e pe es ps [K R] _ IH]; cbn [X.vals_of map existsb].
    - auto.
    - destruct (X.so_val (snd e)) as [j|].
      + destruct R as [F J]. destruct (X.vals_of (map snd es)) as [js|].
        * destruct IH as [F2 J2]. split; [now rewrite F, F2|].
          cbn [combine map fst snd BridgeC01.tr] in *. rewrite K, J. f_equal. f_equal. now injection J2.
        * rewrite IH. apply orb_true_r.
      + now rewrite R.
  Qed.

  Lemma fails_f_pos nn res t : fails_f (FP t nn res) = pos_fails nn res.
  Proof. unfold pos_fails. destruct res as [v|]; reflexivity. Qed.
  Lemma jf_pos nn res t : jf (FP t nn res) = pos_json res.
  Proof. unfold pos_json, jc. destruct res as [v|]; reflexivity. Qed.

  Lemma entry_rel children pchildren ot path kf :
    (forall n, CRel (children n) (pchildren n)) ->
    Forall2 ERel (X.s_entry S children ot path kf) (p_entry code S pchildren ot kf).
  Proof.
    intros C. unfold X.s_entry, p_entry. destruct (snd kf) as [|f fs]; [constructor|].
    destruct (X.s_field_kind S ot (D.fn_name f)) as [| |t|]; try (constructor; [|constructor]).
    - split; [reflexivity|]. simpl. split; reflexivity.
    - split; [reflexivity|]. simpl. split; reflexivity.
    - split; [reflexivity|]. cbn [fst snd].
      pose proof (position_rel t (path ++ [D.PKey (fst kf)]) _ _
                    (C (D.fn_name f) t (f :: fs) (path ++ [D.PKey (fst kf)]))) as P.
      unfold PRel in P. cbn [fp_nn]. rewrite fails_f_pos, jf_pos. unfold pos_fails, pos_json.
      set (res := pchildren (D.fn_name f) t (f :: fs)) in *.
      destruct (X.so_val (X.s_position t (path ++ [D.PKey (fst kf)]) (children (D.fn_name f) t (f :: fs) (path ++ [D.PKey (fst kf)])))) as [j|].
      + destruct P as [F J]. split; auto. destruct (is_nn t); simpl in *; auto.
        all: try (apply orb_false_iff in F; destruct F as [F1 F2]; now rewrite F1, F2).
      + destruct P as [N F]. rewrite N. simpl. apply orb_true_iff in F. destruct F as [F|F]; rewrite F; auto.
        apply orb_true_r.
    - constructor.
  Qed.

  Lemma Forall2_flat_map {A B C} (R : B -> C -> Prop) (f : A -> list B) (g : A -> list C) l :
    (forall a, Forall2 R (f a) (g a)) -> Forall2 R (flat_map f l) (flat_map g l).
  Proof. intros H. induction l as [|a l IH]; simpl; [constructor|]. apply Forall2_app; auto. Qed.

  (** the argument step in front of the resolvers *)
  Lemma with_args_rel children pchildren ot :
    (forall n, CRel (children n) (pchildren n)) ->
    forall n, CRel (X.s_with_args S Doc children ot n) (p_with_args S Doc pchildren ot n).
  Proof.
    intros C n ty fields path. unfold X.s_with_args, p_with_args.
    destruct fields as [|f fs]; [apply rel_throw0|].
    destruct (ArgArgs.coerce_field_args S Doc ot f); [apply C | apply rel_throw0 | apply rel_throw0].
  Qed.

  Lemma selection_set_rel children pchildren ot sels path :
    (forall n, CRel (children n) (pchildren n)) ->
    match X.so_val (X.s_selection_set S Doc E fuel children ot sels path) with
    | None => fails_inner (p_selection_set code S Doc E fuel pchildren ot sels) = true
    | Some j => fails_inner (p_selection_set code S Doc E fuel pchildren ot sels) = false /\
                tr j = jv (p_selection_set code S Doc E fuel pchildren ot sels)
    end.
  Proof.
    intros C0. pose proof (with_args_rel children pchildren ot C0) as C.
    unfold X.s_selection_set, X.s_selection_set_raw, p_selection_set.
    destruct (X.s_collect S Doc E fuel ot sels) as [groups|]; [|reflexivity].
    pose proof (all_entries _ _ (Forall2_flat_map ERel _ _ groups
                  (fun kf => entry_rel (X.s_with_args S Doc children ot) (p_with_args S Doc pchildren ot) ot path kf C))) as A.
    unfold X.s_all. rewrite fails_inner_obj, jv_obj.
    destruct (X.vals_of (map snd (flat_map (X.s_entry S (X.s_with_args S Doc children ot) ot path) groups))) as [js|]; simpl; exact A.
  Qed.

  (** ** list items *)
  Lemma items_rel t fields path (items : list X.scompleter) (pitems : list planner) :
    Forall2 CRel items pitems -> forall i,
    Forall2 (PRel (is_nn t)) (X.s_items t fields path items i) (map (fun c => unres (c t fields)) pitems).
  Proof.
    induction 1 as [|c pc items pitems R _ IH]; intros i; simpl; constructor.
    - apply position_rel. apply R.
    - apply IH.
  Qed.

  (** ** CompleteValue *)
  Lemma rel_ok_null ty : is_nn ty = false -> Rel ty (X.s_ok D.JNull) (Some VNull).
  Proof. intros N. unfold Rel, pos_fails, pos_json. simpl. rewrite N. split; reflexivity. Qed.

  Lemma rel_throw ty e : Rel ty (X.s_throw e) (Some VBad).
  Proof. unfold Rel, pos_fails. reflexivity. Qed.

  Lemma rel_leaf ty j : leafy j -> Rel ty (X.s_ok j) (Some (VLeaf (code j))).
  Proof.
    intros L. unfold Rel, pos_fails, pos_json. simpl. rewrite andb_false_r. split; [reflexivity | exact L].
  Qed.

  Lemma rel_object ty children pchildren ot sels path :
    is_nn ty = false -> (forall n, CRel (children n) (pchildren n)) ->
    Rel ty (X.s_selection_set S Doc E fuel children ot sels path)
        (Some (p_selection_set code S Doc E fuel pchildren ot sels)).
  Proof.
    intros N C. pose proof (selection_set_rel children pchildren ot sels path C) as R.
    unfold Rel, pos_fails, pos_json, jc. cbn [unres]. rewrite N, andb_false_l, orb_false_r.
    destruct (X.so_val (X.s_selection_set S Doc E fuel children ot sels path)) as [j|]; [|exact R].
    destruct R as [F J]. split; auto. now rewrite F.
  Qed.

  Lemma view_rel (v : X.sview) (pv : pview) :
    X.sv_null v = pv_null pv -> X.sv_leaf v = pv_leaf pv -> X.sv_tag v = pv_tag pv ->
    match X.sv_items v, pv_items pv with
    | Some a, Some b => Forall2 CRel a b
    | None, None => True
    | _, _ => False
    end ->
    (forall n, CRel (X.sv_field v n) (pv_field pv n)) ->
    CRel (X.s_complete_view S Doc E fuel v) (plan_view code S Doc E fuel pv).
  Proof.
    intros En El Et Ei Ef ty. induction ty as [n|t IH|t IH]; intros fields path.
    - (* named *)
      cbn [X.s_complete_view plan_view]. rewrite <- En, <- El, <- Et.
      destruct (X.sv_null v); [now apply rel_ok_null|].
      destruct (D.lookup_type S n) as [[k|vals|fs ifs|fs|ms|]|]; try apply rel_throw.
      + destruct (D.coerce_scalar true k (X.sv_leaf v)) as [j|] eqn:C; [|apply rel_throw].
        apply rel_leaf. eapply coerce_scalar_leafy; eauto.
      + destruct (D.coerce_enum vals (X.sv_leaf v)) as [j|] eqn:C; [|apply rel_throw].
        apply rel_leaf. eapply coerce_enum_leafy; eauto.
      + now apply rel_object.
      + destruct (X.s_resolve_abstract S n (X.sv_tag v)); [now apply rel_object | apply rel_throw].
      + destruct (X.s_resolve_abstract S n (X.sv_tag v)); [now apply rel_object | apply rel_throw].
    - (* list *)
      cbn [X.s_complete_view plan_view]. rewrite <- En.
      destruct (X.sv_null v); [now apply rel_ok_null|].
      destruct (X.sv_items v) as [items|], (pv_items pv) as [pitems|]; try contradiction; [|apply rel_throw].
      pose proof (all_items (is_nn t) _ _ (items_rel t fields path items pitems Ei 0%N)) as A.
      unfold Rel, pos_fails, pos_json, jc, X.s_all. cbn [unres is_nn].
      rewrite andb_false_l, orb_false_r, fails_inner_list, jv_list.
      destruct (X.vals_of (X.s_items t fields path items 0%N)) as [js|]; cbn [X.so_val]; [|exact A].
      destruct A as [F J]. split; auto. rewrite F. simpl. now rewrite J.
    - (* non-null *)
      cbn [X.s_complete_view plan_view]. apply nonnull_rel. apply IH.
  Qed.

  Lemma crel_resolver_error : CRel X.s_resolver_error (p_resolver_error).
  Proof. intros ty fields path. unfold Rel, pos_fails. reflexivity. Qed.

  Lemma outcome_ind2 (P : D.outcome -> Prop) :
    P D.ONil -> P D.OTypedNil -> P D.OErr -> (forall g, P (D.OLeaf g)) ->
    (forall l, Forall P l -> P (D.OList l)) ->
    (forall t fs, Forall (fun nf => P (snd nf)) fs -> P (D.OObj t fs)) ->
    forall o, P o.
  Proof.
    intros H1 H2 H3 H4 H5 H6. fix IH 1. intro o. destruct o as [| | |g|l|t fs].
    - exact H1. - exact H2. - exact H3. - apply H4.
    - apply H5. induction l as [|x l IHl]; constructor; [apply IH|exact IHl].
    - apply H6. induction fs as [|[n x] fs IHfs]; constructor; [apply IH|exact IHfs].
  Qed.

  Lemma field_of_rel (l : list (D.name * D.outcome)) (f : D.outcome -> X.scompleter) (g : D.outcome -> planner) :
    Forall (fun nf => CRel (f (snd nf)) (g (snd nf))) l ->
    forall n, CRel (X.s_field_of (map (fun p => (fst p, f (snd p))) l) n)
                   (p_field_of (map (fun p => (fst p, g (snd p))) l) n).
  Proof.
    intros H n. unfold X.s_field_of, p_field_of.
    induction H as [|[k o] l Ho _ IH]; cbn [map D.assoc fst snd]; [apply crel_resolver_error|].
    destruct (D.name_eqb n k); [exact Ho | exact IH].
  Qed.

  Lemma field_of_rel' (fs : list (D.name * D.outcome)) :
    Forall (fun nf => CRel (X.s_complete S Doc E fuel (snd nf)) (plan_complete code S Doc E fuel (snd nf))) fs ->
    forall n,
      CRel (X.s_field_of (map (fun p : D.name * D.outcome =>
                                 match p with
                                 | (n0, o') => (n0, match o' with
                                                    | D.OErr => X.s_resolver_error
                                                    | _ => X.s_complete S Doc E fuel o'
                                                    end)
                                 end) fs) n)
           (p_field_of (map (fun p : D.name * D.outcome =>
                               match p with
                               | (n0, o') => (n0, match o' with
                                                  | D.OErr => p_resolver_error
                                                  | _ => plan_complete code S Doc E fuel o'
                                                  end)
                               end) fs) n).
  Proof.
    intros H n. unfold X.s_field_of, p_field_of.
    induction H as [|[k o] l Ho _ IH]; cbn [map D.assoc]; [apply crel_resolver_error|].
    destruct (D.name_eqb n k); [|exact IH].
    cbn [snd] in Ho. destruct o; try exact Ho. apply crel_resolver_error.
  Qed.

  Lemma complete_rel o : CRel (X.s_complete S Doc E fuel o) (plan_complete code S Doc E fuel o).
  Proof.
    induction o as [| | |g|l IH|t fs IH] using outcome_ind2.
    - apply view_rel; try reflexivity; try exact I; intros n; apply crel_resolver_error.
    - apply view_rel; try reflexivity; try exact I; intros n; apply crel_resolver_error.
    - apply view_rel; try reflexivity; try exact I; intros n; apply crel_resolver_error.
    - apply view_rel; try reflexivity; try exact I; intros n; apply crel_resolver_error.
    - apply view_rel; try reflexivity; [|intros n; apply crel_resolver_error].
      cbn [X.sv_items pv_items]. induction IH as [|x l Hx _ IHl]; constructor; auto.
    - apply view_rel; try reflexivity; try exact I.
      cbn [X.sv_field pv_field]. now apply field_of_rel'.
  Qed.

  Lemma resolve_rel o : CRel (X.s_resolve S Doc E fuel o) (plan_resolve code S Doc E fuel o).
  Proof. destruct o; try apply complete_rel. apply crel_resolver_error. Qed.

  Lemma children_rel W n : CRel (X.s_children_of S Doc E fuel W n) (plan_children_of code S Doc E fuel W n).
  Proof.
    destruct W; cbn [X.s_children_of plan_children_of]; try apply crel_resolver_error.
    apply (field_of_rel fields (X.s_resolve S Doc E fuel) (plan_resolve code S Doc E fuel)).
    apply Forall_forall. intros nf _. apply resolve_rel.
  Qed.

  (** ** the response *)
  Theorem bridge_data W :
    ddata (plan_of code S Doc E fuel W) = tr_data code (X.data (X.exec_spec S Doc E fuel W)).
  Proof.
    unfold plan_of, X.exec_spec, tr_data.
    destruct (X.s_root_type S (D.op_kind Doc)) as [rt|]; [|reflexivity].
    pose proof (selection_set_rel (X.s_children_of S Doc E fuel W) (plan_children_of code S Doc E fuel W)
                                  rt (D.op_sels Doc) [] (children_rel W)) as R.
    assert (Sh : p_selection_set code S Doc E fuel (plan_children_of code S Doc E fuel W) rt (D.op_sels Doc) = VBad \/
                 exists fs, p_selection_set code S Doc E fuel (plan_children_of code S Doc E fuel W) rt (D.op_sels Doc) = VObj fs).
    { unfold p_selection_set. destruct (X.s_collect S Doc E fuel rt (D.op_sels Doc)); [right; eauto | now left]. }
    destruct (X.so_val (X.s_selection_set S Doc E fuel (X.s_children_of S Doc E fuel W) rt (D.op_sels Doc) [])) as [j|];
      cbn [X.data option_map].
    - destruct R as [F J]. destruct Sh as [Sh|[fs Sh]]; rewrite Sh in *.
      + discriminate.
      + unfold ddata. rewrite F. now rewrite J.
    - destruct Sh as [Sh|[fs Sh]]; rewrite Sh in *; [reflexivity|].
      unfold ddata. now rewrite R.
  Qed.
End BridgeProofs.
