(** * Fut/Acct.v — accounts: what a step of the executor may do to the shared state, stated
    relative to the ghost resources the stepping future holds before ([g]) and after ([g']).
    Landing sites fire at most once, promise ids are waited for by one future only, the number
    of promises still to be created is bounded. *)
From Coq Require Import List NArith ZArith Bool Lia Permutation.
From ApiFu Require Import Base.Sexp Fut.Plan Fut.Future Fut.ExecAsync Fut.ExecSync Fut.Denote Fut.SubPerm Fut.Live Fut.LiveFacts.
Import ListNotations.

Definition np (s : st) : nat := length (s_proms s).

Definition chans_wf (s : st) : Prop :=
  forall id ok, In (id, ok) (s_chans s) -> option_map p_ok (nth_error (s_proms s) id) = Some ok.

Lemma chans_wf_lt s id ok : chans_wf s -> In (id, ok) (s_chans s) -> id < np s.
Proof.
  intros W Hin. specialize (W id ok Hin). unfold np. apply nth_error_Some.
  destruct (nth_error (s_proms s) id); simpl in W; congruence.
Qed.

Definition ids_wf (s : st) (g : ghost) : Prop :=
  NoDup (g_ids g) /\ forall id, In id (g_ids g) -> id < np s.

Definition done_at (s : st) (id : nat) : bool :=
  match nth_error (s_proms s) id with Some pr => p_done pr | None => false end.

Record Acct (s s' : st) (g g' : ghost) : Prop := {
  ac_errs : exists de ls, s_errs s' = s_errs s ++ de /\ Forall2 lands de ls /\
                          sub_perm (ls ++ g_sites g') (g_sites g);
  ac_proms : exists new, s_proms s' = s_proms s ++ new /\
             forall k pr, nth_error new k = Some pr -> p_id pr = np s + k;
  ac_ids : forall id, In id (g_ids g') -> In id (g_ids g) \/ (np s <= id < np s');
  ac_nodup : ids_wf s g -> NoDup (g_ids g');
  ac_chans : forall x, In x (s_chans s') ->
             In x (s_chans s) \/
             (np s <= fst x /\ option_map p_ok (nth_error (s_proms s') (fst x)) = Some (snd x));
  ac_taken : chans_wf s -> ids_wf s g -> forall x, In x (s_chans s) -> ~ In x (s_chans s') ->
             In (fst x) (g_ids g) /\ ~ In (fst x) (g_ids g');
  ac_born : chans_wf s -> ids_wf s g -> forall id, In id (g_ids g') -> np s <= id ->
            done_at s' id = true -> exists ok, In (id, ok) (s_chans s');
  ac_pot : (np s' - np s) + g_pot g' <= g_pot g;
  ac_round : s_round s' = s_round s
}.

Lemma Acct_np s s' g g' : Acct s s' g g' -> np s <= np s'.
Proof. intros A. destruct (ac_proms _ _ _ _ A) as (new & E & _). unfold np. rewrite E, app_length. lia. Qed.

Lemma Acct_proms_le s s' g g' : Acct s s' g g' -> proms_le (s_proms s) (s_proms s').
Proof.
  intros A id pr H. destruct (ac_proms _ _ _ _ A) as (new & E & _).
  exists pr. split; auto. rewrite E. rewrite nth_error_app1; auto. apply nth_error_Some. congruence.
Qed.

Lemma Acct_ids_wf s s' g g' : Acct s s' g g' -> ids_wf s g -> ids_wf s' g'.
Proof.
  intros A W. split; [eapply ac_nodup; eauto|].
  intros id Hin. destruct (ac_ids _ _ _ _ A id Hin) as [H|H]; [|lia].
  pose proof (Acct_np _ _ _ _ A). destruct W as [_ W]. specialize (W id H). lia.
Qed.

Lemma Acct_chans_wf s s' g g' : Acct s s' g g' -> chans_wf s -> chans_wf s'.
Proof.
  intros A W id ok Hin. apply (ac_chans _ _ _ _ A) in Hin. destruct Hin as [Hin|[_ Hin]]; [|exact Hin].
  specialize (W id ok Hin).
  destruct (nth_error (s_proms s) id) as [pr|] eqn:E; simpl in W; [|discriminate].
  destruct (Acct_proms_le _ _ _ _ A id pr E) as (pr' & E' & Ok'). rewrite E'. simpl. congruence.
Qed.

(** states that differ only in the heap and the event log *)
Definition same_acct (s s' : st) : Prop :=
  s_errs s' = s_errs s /\ s_proms s' = s_proms s /\ s_chans s' = s_chans s /\ s_round s' = s_round s.

Lemma Acct_same s s' g : same_acct s s' -> Acct s s' g g.
Proof.
  intros (E1 & E2 & E3 & E4). constructor.
  - exists [], []. rewrite E1, app_nil_r. repeat split; [constructor | apply sub_perm_refl].
  - exists []. rewrite E2, app_nil_r. split; auto. intros [|k] pr X; discriminate.
  - intros id H. now left.
  - intros [H _]. exact H.
  - rewrite E3. auto.
  - intros _ _ x H1 H2. rewrite E3 in H2. contradiction.
  - intros _ [_ B] id H L. specialize (B id H). lia.
  - unfold np. rewrite E2. lia.
  - exact E4.
Qed.

Lemma Acct_refl s g : Acct s s g g.
Proof. apply Acct_same. repeat split. Qed.

Lemma chan_eq_dec (a b : nat * bool) : {a = b} + {a <> b}.
Proof. decide equality; [apply Bool.bool_dec | apply Nat.eq_dec]. Qed.

Lemma Acct_trans s s1 s2 g g1 g2 : Acct s s1 g g1 -> Acct s1 s2 g1 g2 -> Acct s s2 g g2.
Proof.
  intros A B.
  pose proof (Acct_np _ _ _ _ A) as NA. pose proof (Acct_np _ _ _ _ B) as NB.
  constructor.
  - destruct (ac_errs _ _ _ _ A) as (d1 & l1 & E1 & F1 & S1).
    destruct (ac_errs _ _ _ _ B) as (d2 & l2 & E2 & F2 & S2).
    exists (d1 ++ d2), (l1 ++ l2). rewrite E2, E1, app_assoc. split; auto. split.
    + now apply Forall2_app.
    + eapply sub_perm_trans; [|exact S1].
      rewrite <- app_assoc. apply sub_perm_app; [apply sub_perm_refl | exact S2].
  - destruct (ac_proms _ _ _ _ A) as (n1 & E1 & K1). destruct (ac_proms _ _ _ _ B) as (n2 & E2 & K2).
    exists (n1 ++ n2). rewrite E2, E1, app_assoc. split; auto.
    intros k pr X. destruct (lt_dec k (length n1)) as [Hlt|Hge].
    + rewrite nth_error_app1 in X by auto. now apply K1.
    + rewrite nth_error_app2 in X by lia. rewrite (K2 _ _ X). unfold np. rewrite E1, app_length. lia.
  - intros id H. destruct (ac_ids _ _ _ _ B id H) as [H1|H1]; [|right; lia].
    destruct (ac_ids _ _ _ _ A id H1) as [H2|H2]; [now left | right; lia].
  - intros W. eapply ac_nodup; [exact B|]. eapply Acct_ids_wf; eauto.
  - intros x H. destruct (ac_chans _ _ _ _ B x H) as [H1|[H1 H2]].
    + destruct (ac_chans _ _ _ _ A x H1) as [H3|[H3 H4]]; [now left | right]. split; auto.
      destruct (ac_proms _ _ _ _ B) as (n2 & E2 & _). rewrite E2.
      destruct (nth_error (s_proms s1) (fst x)) as [pr|] eqn:E; simpl in H4; [|discriminate].
      rewrite nth_error_app1; [now rewrite E | apply nth_error_Some; congruence].
    + right. split; auto. lia.
  - intros CW W x H1 H2.
    assert (W1 : ids_wf s1 g1) by (eapply Acct_ids_wf; eauto).
    assert (CW1 : chans_wf s1) by (eapply Acct_chans_wf; eauto).
    destruct (in_dec chan_eq_dec x (s_chans s1)) as [I1|I1].
    + destruct (ac_taken _ _ _ _ B CW1 W1 x I1 H2) as [T1 T2]. split; auto.
      destruct (ac_ids _ _ _ _ A _ T1) as [T|T]; auto.
      destruct x as [id ok]. simpl in *. pose proof (chans_wf_lt _ _ _ CW H1). lia.
    + destruct (ac_taken _ _ _ _ A CW W x H1 I1) as [T1 T2]. split; auto.
      intro T3. destruct (ac_ids _ _ _ _ B _ T3) as [T|T]; [contradiction|].
      destruct W as [_ W]. specialize (W _ T1). lia.
  - intros CW W id Hin Hge Hd.
    assert (W1 : ids_wf s1 g1) by (eapply Acct_ids_wf; eauto).
    assert (CW1 : chans_wf s1) by (eapply Acct_chans_wf; eauto).
    destruct (ac_ids _ _ _ _ B id Hin) as [H1|H1]; [|apply (ac_born _ _ _ _ B CW1 W1 id Hin); [lia | exact Hd]].
    assert (Hlt : id < np s1) by (apply W1; auto).
    assert (Hd1 : done_at s1 id = true).
    { unfold done_at in *. destruct (ac_proms _ _ _ _ B) as (n2 & E2 & _). rewrite E2 in Hd.
      rewrite nth_error_app1 in Hd by exact Hlt. exact Hd. }
    destruct (ac_born _ _ _ _ A CW W id H1 Hge Hd1) as [ok Hok]. exists ok.
    destruct (in_dec chan_eq_dec (id, ok) (s_chans s2)) as [X|X]; auto.
    destruct (ac_taken _ _ _ _ B CW1 W1 (id, ok) Hok X) as [_ T]. simpl in T. contradiction.
  - pose proof (ac_pot _ _ _ _ A). pose proof (ac_pot _ _ _ _ B). lia.
  - rewrite (ac_round _ _ _ _ B). apply (ac_round _ _ _ _ A).
Qed.

Lemma NoDup_app_intro {A} (a b : list A) :
  NoDup a -> NoDup b -> (forall x, In x a -> ~ In x b) -> NoDup (a ++ b).
Proof.
  induction a as [|x a IH]; simpl; intros Ha Hb Hd; auto.
  inversion Ha; subst. constructor.
  - intro Hin. apply in_app_or in Hin. destruct Hin; [contradiction|]. eapply Hd; eauto.
  - apply IH; auto.
Qed.

Lemma NoDup_app_l {A} (a b : list A) : NoDup (a ++ b) -> NoDup a.
Proof. intros H. eapply sub_perm_NoDup; [|exact H]. exists b. reflexivity. Qed.
Lemma NoDup_app_r {A} (a b : list A) : NoDup (a ++ b) -> NoDup b.
Proof. intros H. eapply sub_perm_NoDup; [|exact H]. exists a. apply Permutation_app_comm. Qed.
Lemma NoDup_app_disj {A} (a b : list A) x : NoDup (a ++ b) -> In x a -> ~ In x b.
Proof.
  induction a as [|y a IH]; simpl; intros H Ha Hb; [contradiction|].
  inversion H; subst. destruct Ha as [->|Ha].
  - apply H2. apply in_or_app. now right.
  - eapply IH; eauto.
Qed.

Lemma ids_wf_plus_l s a b : ids_wf s (gplus a b) -> ids_wf s a.
Proof. intros [N B]. simpl in *. split; [eapply NoDup_app_l; eauto|]. intros; apply B, in_or_app; now left. Qed.
Lemma ids_wf_plus_r s a b : ids_wf s (gplus a b) -> ids_wf s b.
Proof. intros [N B]. simpl in *. split; [eapply NoDup_app_r; eauto|]. intros; apply B, in_or_app; now right. Qed.

(** frame rules: resources held by somebody else are untouched *)
Lemma Acct_frame_r s s' a a' c : Acct s s' a a' -> Acct s s' (gplus a c) (gplus a' c).
Proof.
  intros A. pose proof (Acct_np _ _ _ _ A) as NA. constructor; simpl.
  - destruct (ac_errs _ _ _ _ A) as (d & l & E & F & S). exists d, l. repeat split; auto.
    rewrite app_assoc. apply sub_perm_app; [exact S | apply sub_perm_refl].
  - apply (ac_proms _ _ _ _ A).
  - intros id H. apply in_app_or in H. destruct H as [H|H].
    + destruct (ac_ids _ _ _ _ A id H); [left; apply in_or_app; now left | now right].
    + left. apply in_or_app. now right.
  - intros W. pose proof (ids_wf_plus_l _ _ _ W) as Wa. pose proof (ids_wf_plus_r _ _ _ W) as Wc.
    apply NoDup_app_intro; [eapply ac_nodup; eauto | apply Wc |].
    intros x Hx Hc. destruct (ac_ids _ _ _ _ A x Hx) as [H|H].
    + destruct W as [N _]. simpl in N. eapply NoDup_app_disj; eauto.
    + destruct Wc as [_ Bc]. specialize (Bc x Hc). lia.
  - apply (ac_chans _ _ _ _ A).
  - intros CW W x H1 H2. pose proof (ids_wf_plus_l _ _ _ W) as Wa.
    destruct (ac_taken _ _ _ _ A CW Wa x H1 H2) as [T1 T2]. split; [apply in_or_app; now left|].
    intro T. apply in_app_or in T. destruct T as [T|T]; [contradiction|].
    destruct W as [N _]. simpl in N. eapply NoDup_app_disj; eauto.
  - intros CW W id Hin Hge Hd. pose proof (ids_wf_plus_l _ _ _ W) as Wa. pose proof (ids_wf_plus_r _ _ _ W) as Wc.
    apply in_app_or in Hin. destruct Hin as [Hin|Hin]; [now apply (ac_born _ _ _ _ A CW Wa id Hin)|].
    destruct Wc as [_ Bc]. specialize (Bc id Hin). lia.
  - pose proof (ac_pot _ _ _ _ A). lia.
  - apply (ac_round _ _ _ _ A).
Qed.

Lemma Acct_frame_l s s' a a' c : Acct s s' a a' -> Acct s s' (gplus c a) (gplus c a').
Proof.
  intros A. pose proof (Acct_np _ _ _ _ A) as NA. constructor; simpl.
  - destruct (ac_errs _ _ _ _ A) as (d & l & E & F & S). exists d, l. repeat split; auto.
    eapply sub_perm_perm; [|apply sub_perm_app; [apply (sub_perm_refl (g_sites c)) | exact S]].
    rewrite !app_assoc. apply Permutation_app_tail. apply Permutation_app_comm.
  - apply (ac_proms _ _ _ _ A).
  - intros id H. apply in_app_or in H. destruct H as [H|H].
    + left. apply in_or_app. now left.
    + destruct (ac_ids _ _ _ _ A id H); [left; apply in_or_app; now right | now right].
  - intros W. pose proof (ids_wf_plus_l _ _ _ W) as Wc. pose proof (ids_wf_plus_r _ _ _ W) as Wa.
    apply NoDup_app_intro; [apply Wc | eapply ac_nodup; eauto |].
    intros x Hc Hx. destruct (ac_ids _ _ _ _ A x Hx) as [H|H].
    + destruct W as [N _]. simpl in N. eapply NoDup_app_disj; eauto.
    + destruct Wc as [_ Bc]. specialize (Bc x Hc). lia.
  - apply (ac_chans _ _ _ _ A).
  - intros CW W x H1 H2. pose proof (ids_wf_plus_r _ _ _ W) as Wa.
    destruct (ac_taken _ _ _ _ A CW Wa x H1 H2) as [T1 T2]. split; [apply in_or_app; now right|].
    intro T. apply in_app_or in T. destruct T as [T|T]; [|contradiction].
    destruct W as [N _]. simpl in N. eapply NoDup_app_disj; eauto.
  - intros CW W id Hin Hge Hd. pose proof (ids_wf_plus_l _ _ _ W) as Wc. pose proof (ids_wf_plus_r _ _ _ W) as Wa.
    apply in_app_or in Hin. destruct Hin as [Hin|Hin]; [|now apply (ac_born _ _ _ _ A CW Wa id Hin)].
    destruct Wc as [_ Bc]. specialize (Bc id Hin). lia.
  - pose proof (ac_pot _ _ _ _ A). lia.
  - apply (ac_round _ _ _ _ A).
Qed.

Lemma Acct_par s s1 s2 a a' b b' :
  Acct s s1 a a' -> Acct s1 s2 b b' -> Acct s s2 (gplus a b) (gplus a' b').
Proof.
  intros A B. eapply Acct_trans; [apply Acct_frame_r; exact A | apply Acct_frame_l; exact B].
Qed.

(** giving resources up *)
Lemma Acct_drop s s' g g' : Acct s s' g g' -> Acct s s' g g0.
Proof.
  intros A. constructor; simpl.
  - destruct (ac_errs _ _ _ _ A) as (d & l & E & F & S). exists d, l. repeat split; auto.
    rewrite app_nil_r. eapply sub_perm_app_l; eauto.
  - apply (ac_proms _ _ _ _ A).
  - intros id [].
  - intros _. constructor.
  - apply (ac_chans _ _ _ _ A).
  - intros CW W x H1 H2. destruct (ac_taken _ _ _ _ A CW W x H1 H2). split; auto.
  - intros _ _ id [].
  - pose proof (ac_pot _ _ _ _ A). lia.
  - apply (ac_round _ _ _ _ A).
Qed.

Lemma gplus_g0_l g : gplus g0 g = g.
Proof. destruct g; reflexivity. Qed.
Lemma gplus_g0_r g : gplus g g0 = g.
Proof. destruct g; unfold gplus; simpl. now rewrite !app_nil_r, Nat.add_0_r. Qed.

(** a landing site fires *)
Lemma Acct_fire s e x g : lands e x -> Acct s (add_err e s) (gsite x g) g.
Proof.
  intros L. constructor; simpl.
  - exists [e], [x]. repeat split; [repeat constructor; auto | apply sub_perm_refl].
  - exists []. rewrite app_nil_r. split; auto. intros [|k] pr X; discriminate.
  - intros id H. now left.
  - intros [H _]. exact H.
  - auto.
  - intros _ _ x0 H1 H2. contradiction.
  - intros _ [_ B] id H Lt. specialize (B id H). unfold np in *; simpl in *. lia.
  - unfold np; simpl. lia.
  - reflexivity.
Qed.

(** a site that can no longer fire is given up *)
Lemma Acct_unsite s x g : Acct s s (gsite x g) g.
Proof.
  constructor; simpl.
  - exists [], []. rewrite app_nil_r. repeat split; [constructor|]. apply sub_perm_cons_r, sub_perm_refl.
  - exists []. rewrite app_nil_r. split; auto. intros [|k] pr X; discriminate.
  - intros id H. now left.
  - intros [H _]. exact H.
  - auto.
  - intros _ _ x0 H1 H2. contradiction.
  - intros _ [_ B] id H Lt. specialize (B id H). lia.
  - lia.
  - reflexivity.
Qed.

(** weakening the starting account on sites / potential *)
Lemma Acct_pre s s' g1 g g' :
  sub_perm (g_sites g) (g_sites g1) -> g_ids g1 = g_ids g -> g_pot g <= g_pot g1 ->
  Acct s s' g g' -> Acct s s' g1 g'.
Proof.
  intros S I P A. constructor.
  - destruct (ac_errs _ _ _ _ A) as (d & l & E & F & S1). exists d, l. repeat split; auto.
    eapply sub_perm_trans; eauto.
  - apply (ac_proms _ _ _ _ A).
  - rewrite I. apply (ac_ids _ _ _ _ A).
  - intros [N B]. rewrite I in *. apply (ac_nodup _ _ _ _ A). split; auto.
  - apply (ac_chans _ _ _ _ A).
  - intros CW [N B]. rewrite I in *. apply (ac_taken _ _ _ _ A CW). split; auto.
  - intros CW [N B]. rewrite I in *. apply (ac_born _ _ _ _ A CW). split; auto.
  - pose proof (ac_pot _ _ _ _ A). lia.
  - apply (ac_round _ _ _ _ A).
Qed.

(** a step of the executor: ghost table and state grow, the heap invariant is kept, the account
    is respected *)
Definition Step (G : ghe) (s : st) (g : ghost) (G' : ghe) (s' : st) (g' : ghost) : Prop :=
  gle G G' /\ sle s s' /\ INV G' (s_maps s') /\ Acct s s' g g'.

Lemma Step_trans G s g G1 s1 g1 G2 s2 g2 :
  Step G s g G1 s1 g1 -> Step G1 s1 g1 G2 s2 g2 -> Step G s g G2 s2 g2.
Proof.
  intros (A1 & A2 & A3 & A4) (B1 & B2 & B3 & B4).
  split; [|split; [|split]]; [eapply gle_trans | eapply sle_trans | | eapply Acct_trans]; eauto.
Qed.

Lemma Step_refl G s g : INV G (s_maps s) -> Step G s g G s g.
Proof. intros I. split; [|split; [|split]]; [apply gle_refl | apply sle_refl | exact I | apply Acct_refl]. Qed.

(** a pending future is blocked: one of the promises it waits for has nothing in its channel *)
Definition Blocked (s : st) (g : ghost) : Prop :=
  exists id, In id (g_ids g) /\ id < np s /\ forall ok, ~ In (id, ok) (s_chans s).

(** channels of a later state: what was there, or entries of promises created since *)
Definition chans_later (s s' : st) : Prop :=
  np s <= np s' /\ forall x, In x (s_chans s') -> In x (s_chans s) \/ np s <= fst x.

Lemma Acct_chans_later s s' g g' : Acct s s' g g' -> chans_later s s'.
Proof.
  intros A. split; [eapply Acct_np; eauto|]. intros x H.
  destruct (ac_chans _ _ _ _ A x H) as [H1|[H1 _]]; auto.
Qed.

Lemma Blocked_mono s s' g g1 g2 :
  chans_later s s' ->
  Blocked s g -> Blocked s' (gplus g1 (gplus g g2)).
Proof.
  intros [Np C] (id & Hin & Hlt & Hno). exists id. split; [|split].
  - simpl. apply in_or_app. right. apply in_or_app. now left.
  - lia.
  - intros ok H. destruct (C _ H) as [H1|H1]; [exact (Hno ok H1) | simpl in H1; lia].
Qed.
