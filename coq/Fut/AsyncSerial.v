(** * Fut/AsyncSerial.v — executeSelections with forceSerial = true (the root of a mutation). *)
From Coq Require Import List NArith ZArith Bool Lia Permutation.
From ApiFu Require Import Base.Sexp Fut.Plan Fut.Future Fut.ExecAsync Fut.ExecSync Fut.Denote Fut.SubPerm
     Fut.Live Fut.LiveFacts Fut.Acct Fut.AsyncWrap Fut.AsyncField Fut.AsyncList Fut.AsyncSel Fut.AsyncMain
     Fut.AsyncRun.
Import ListNotations.

Lemma World_shift ALL N G s a b :
  World ALL N G s g0 (gplus a b) -> g_ids a = [] -> World ALL N G s a b.
Proof.
  intros W Ha. constructor.
  - apply W.
  - apply W.
  - unfold ids_wf. rewrite Ha. split; [constructor | intros id []].
  - rewrite Ha. intros id [].
  - apply W.
  - apply W.
  - destruct (w_errs _ _ _ _ _ _ W) as (ls & F & S). exists ls. split; auto.
  - pose proof (w_pot _ _ _ _ _ _ W). simpl in *. lia.
Qed.

Lemma World_dropR ALL N G s R : World ALL N G s g0 R -> World ALL N G s g0 g0.
Proof.
  intros W. constructor.
  - apply W.
  - apply W.
  - apply W.
  - apply W.
  - apply W.
  - apply W.
  - destruct (w_errs _ _ _ _ _ _ W) as (ls & F & S). exists ls. split; auto. simpl in *.
    rewrite app_nil_r. eapply sub_perm_app_l; eauto.
  - pose proof (w_pot _ _ _ _ _ _ W). simpl in *. lia.
Qed.

Lemma serial_loop_cons sigma fuel key fp tl m i p s :
  serial_loop FX sigma fuel ((key, fp) :: tl) m i p s =
  let '(f, s1) := exec_field FX fp (PKey key :: p) s in
  let '(f1, s2) := catch_if_nullable (fp_nn fp) f s1 in
  match wait FX sigma fuel f1 s2 with
  | Done (RErr e, s3) => Done (Some e, s3)
  | Done (ROk v, s3) => serial_loop FX sigma fuel tl m (S i) p (heap_set m i key v s3)
  | Stuck => Stuck
  | OutOfFuel => OutOfFuel
  end.
Proof. destruct fp. reflexivity. Qed.

Section Serial.
  Variable sigma : sched.
  Hypothesis Fair : fair sigma.
  Variables (ALL : list site) (N : nat).
  Variable fuel : nat.
  Hypothesis Hfuel : N <= fuel.
  Variables (p : rpath) (m : nat) (fields : selset).

  Lemma serial_ok :
    forall l pre i, fields = pre ++ l -> length pre = i ->
    forall G s, World ALL N G s g0 (budget_sel p l) -> MapOK G s m fields ->
      exists early s' G',
        serial_loop FX sigma fuel l m i p s = Done (early, s') /\
        World ALL N G' s' g0 g0 /\ MapOK G' s' m fields /\ gle G G' /\ sle s s' /\
        match early with
        | Some e => sel_fails l = true /\ In e (fst (cand_sel cand_field p l))
        | None => forall k key fp, i <= k -> nth_error fields k = Some (key, fp) ->
                    FieldDone s' m p k key fp
        end.
  Proof.
    induction l as [|[key fp] tl IH]; intros pre i Ef Lp G s W MO.
    - exists None, s, G. simpl. split; auto. split; auto. split; auto.
      split; [apply gle_refl|]. split; [apply sle_refl|].
      intros k key fp Hk Hn. exfalso. subst fields. rewrite app_nil_r in Hn.
      assert (k < length pre) by (apply nth_error_Some; congruence). lia.
    - rewrite serial_loop_cons.
      assert (Hn : nth_error fields i = Some (key, fp)).
      { subst fields. rewrite nth_error_app2 by lia. replace (i - length pre) with 0 by lia. reflexivity. }
      set (q := PKey key :: p).
      rewrite budget_sel_cons in W.
      apply World_shift in W; [|reflexivity].
      pose proof (CF_build fp q (proj1 (proj2 build_step_all fp) q)) as B.
      destruct (exec_field FX fp q s) as [f s1] eqn:E1.
      destruct (catch_if_nullable (fp_nn fp) f s1) as [f1 s2] eqn:E2.
      destruct (B G s f1 s2 (w_inv _ _ _ _ _ _ W) (w_chans _ _ _ _ _ _ W)) as (G1 & g1 & St1 & O1).
      { rewrite E1. exact E2. }
      pose proof (World_step _ _ _ _ _ _ _ _ _ W St1) as W1.
      destruct (wait_spec sigma Fair ALL N (budget_sel p tl)
                          (fun G s => LiveCF G s fp q) (spec_CF fp q)
                          (CF_step fp q (proj2 (proj2 build_step_all fp) q))
                          (fun G s G' s' c g Hg Hs => LiveCF_mono G s G' s' Hg Hs fp q c g)
                          fuel f1 s2 G1 g1 W1 O1) as (r & s3 & G3 & Ew & W3 & RO & Hg3 & Hs3); [lia|].
      rewrite Ew.
      assert (MO3 : MapOK G3 s3 m fields).
      { destruct St1 as (A1 & A2 & _). eapply (MapOK_mono G1 s2); [exact Hg3 | exact Hs3 |].
        eapply (MapOK_mono G s); eauto. }
      assert (Hg : gle G G3) by (destruct St1 as (A1 & _); eapply gle_trans; eauto).
      assert (Hs : sle s s3) by (destruct St1 as (_ & A2 & _); eapply sle_trans; eauto).
      destruct r as [v|e]; simpl in RO; [destruct RO as (Fl & X & Mu) | destruct RO as [Fl X]].
      + (* the field completed: store, next root field *)
        destruct (set_step G3 s3 m i key fp fields v g0 (w_inv _ _ _ _ _ _ W3) MO3 Hn X) as [St2 SS].
        set (s4 := heap_set m i key v s3) in *.
        pose proof (World_step _ _ _ _ _ _ _ _ _ W3 St2) as W4.
        assert (MO4 : MapOK G3 s4 m fields).
        { destruct St2 as (A1 & A2 & _). eapply MapOK_mono; eauto. }
        assert (Ef' : fields = (pre ++ [(key, fp)]) ++ tl) by (rewrite <- app_assoc; exact Ef).
        assert (Lp' : length (pre ++ [(key, fp)]) = S i) by (rewrite app_length; simpl; lia).
        destruct (IH (pre ++ [(key, fp)]) (S i) Ef' Lp' G3 s4 W4 MO4)
          as (early & s' & G' & El & W' & MO' & Hg' & Hs' & M).
        exists early, s', G'. split; auto. split; auto. split; auto.
        split; [eapply gle_trans; eauto|].
        split; [eapply sle_trans; [exact Hs|]; eapply sle_trans; [|exact Hs']; destruct St2 as (_ & A2 & _); exact A2|].
        destruct early as [e|].
        * destruct M as [SF In]. split.
          -- unfold sel_fails in *. simpl. rewrite SF. apply orb_true_r.
          -- rewrite cand_sel_cons_fst. apply in_or_app. now right.
        * intros k key0 fp0 Hk Hnk. destruct (Nat.eq_dec k i) as [->|Hne].
          -- rewrite Hn in Hnk. injection Hnk as <- <-.
             eapply FieldDone_mono; [exact Hs'|]. split; [exact SS|]. split.
             ++ intros Nn. rewrite Nn in Fl. exact Fl.
             ++ destruct St2 as (_ & B2 & _). eapply Forall_impl; [|exact Mu]. intros a. now apply Fired_mono.
          -- apply (M k key0 fp0); auto. lia.
      + (* the field failed and cannot absorb it: executeSelections returns *)
        exists (Some e), s3, G3. split; auto. split; [eapply World_dropR; eauto|].
        split; auto. split; auto. split; auto. split.
        * unfold sel_fails. simpl. rewrite Fl. reflexivity.
        * rewrite cand_sel_cons_fst. apply in_or_app. now left.
  Qed.
End Serial.

Theorem run_mutation_ok sigma fuel jfuel root :
  fair sigma -> count_async root <= fuel -> jdepth (jv (VObj root)) < jfuel ->
  exists r, run FX sigma Mutation fuel jfuel root = Done r /\ resp_ok root r.
Proof.
  intros Fair Hf Hj. unfold run, exec_sel_serial, alloc_map.
  set (m := length (s_maps st0)).
  set (s0 := with_maps (s_maps st0 ++ [repeat None (length root)]) st0).
  set (G0 := [entries root]).
  assert (Le : length (entries root) = length root) by (unfold entries; apply map_length).
  assert (I0 : INV G0 (s_maps s0)).
  { unfold G0, s0. simpl. rewrite <- Le. apply (INV_alloc [] [] (entries root)).
    split; auto. intros k slots kvs H. destruct k; discriminate. }
  assert (MO : MapOK G0 s0 m root).
  { split; [reflexivity|]. exists (repeat None (length root)). split; [reflexivity | apply repeat_length]. }
  assert (W0 : World (root_sites root) (count_async root) G0 s0 g0 (budget_sel [] root)).
  { constructor.
    - exact I0.
    - intros id ok [].
    - split; [constructor | intros id []].
    - intros id [].
    - intros i pr H. destruct i; discriminate.
    - unfold ndone. simpl. lia.
    - exists []. split; [constructor|]. simpl. apply sub_perm_refl.
    - unfold np, count_async. rewrite count_async_obj. simpl. lia. }
  destruct (serial_ok sigma Fair (root_sites root) (count_async root) fuel Hf [] m root
                      root [] 0 eq_refl eq_refl G0 s0 W0 MO)
    as (early & s' & G' & El & W' & MO' & _ & _ & M).
  rewrite El. destruct early as [e|].
  - simpl. apply (finish_ok root G' s' (RErr e) jfuel W'); auto.
    unfold ResOK, spec_I. cbn [ps_fails ps_esc]. destruct M as [SF In]. split; auto.
    rewrite fails_inner_obj. exact SF.
  - simpl. apply (finish_ok root G' s' (ROk (GMap m)) jfuel W'); auto.
    apply sel_done; auto. intros k key fp Hk. apply (M k key fp); auto. lia.
Qed.
