(** * Fut/ExecSync.v — the reference for C02: the same plan tree executed with every resolver
    answering synchronously, and the vocabulary in which "same error for every null" is said.

    [run_sync] is GraphQL's ExecuteSelectionSet / CompleteValue over a plan tree, evaluated
    left to right, a selection set stopping at the first field whose failure it cannot absorb
    (June 2018 spec 6.4.4: "If the field returns null because of an error which has already been
    added to the errors list, … the errors list must not be further affected"): data plus
    the errors in the order they arise.  No futures, no heap, no state but the error list.

    [sites] lists, for a plan, every position that can absorb a failure (a nullable field or list
    item, and the root, whose absorption is "data": null) together with the errors that may
    land there — the errors a position's inner value can raise through non-null positions only.
    An error *lands* at the site that lists it; the null a failure leaves in the data sits at its
    landing site. *)
From Coq Require Import List NArith ZArith Bool.
From ApiFu Require Import Base.Sexp Fut.Plan.
Import ListNotations.

Inductive sres := SOk (j : json) | SFail (e : err).

(** non-null wrapper *)
Definition sync_nn (nn : bool) (p : rpath) (r : sres) : sres :=
  if nn then match r with SOk JNull => SFail (err_at p KNullNN) | _ => r end else r.

(** a nullable position absorbs a failure: the error is recorded, the position is null *)
Definition sync_catch (nn : bool) (r : sres) (errs : list err) : sres * list err :=
  if nn then (r, errs)
  else match r with SFail e => (SOk JNull, errs ++ [e]) | SOk _ => (r, errs) end.

Fixpoint first_fail (rs : list sres) : option err :=
  match rs with
  | [] => None
  | SFail e :: _ => Some e
  | SOk _ :: tl => first_fail tl
  end.
Definition oks (rs : list sres) : list json :=
  flat_map (fun r => match r with SOk j => [j] | SFail _ => [] end) rs.

(** the list branch: every item is completed *)
Definition sync_items (f : vplan -> rpath -> list err -> sres * list err) (inn : bool) (p : rpath) :=
  fix sync_items (l : list vplan) (i : nat) (errs : list err) {struct l} : list sres * list err :=
  match l with
  | [] => ([], errs)
  | x :: tl =>
      let q := PIdx i :: p in
      let '(r, e1) := f x q errs in
      let '(r1, e2) := sync_catch inn (sync_nn inn q r) e1 in
      let '(rs, e3) := sync_items tl (S i) e2 in
      (r1 :: rs, e3)
  end.

(** a selection set: stops at the first failure it cannot absorb *)
Definition sync_sel (f : fplan -> rpath -> list err -> sres * list err) (p : rpath) :=
  fix sync_sel (l : selset) (acc : list (bytes * json)) (errs : list err) {struct l} : sres * list err :=
  match l with
  | [] => (SOk (JObj (rev acc)), errs)
  | (key, fp) :: tl =>
      let q := PKey key :: p in
      let '(r, e1) := f fp q errs in
      match sync_catch (match fp with FP _ nn _ => nn end) r e1 with
      | (SFail e, e2) => (SFail e, e2)            (* the rest of the set is not executed *)
      | (SOk j, e2) => sync_sel tl ((key, j) :: acc) e2
      end
  end.

Fixpoint sync_inner (v : vplan) (p : rpath) (errs : list err) {struct v} : sres * list err :=
  match v with
  | VNull => (SOk JNull, errs)
  | VBad => (SFail (err_at p KBad), errs)
  | VLeaf z => (SOk (JInt z), errs)
  | VList inn items =>
      let '(rs, errs1) := sync_items sync_inner inn p items 0 errs in
      (* the list fails with the first failing item *)
      (match first_fail rs with Some e => SFail e | None => SOk (JList (oks rs)) end, errs1)
  | VObj fields => sync_sel sync_field p fields [] errs
  end
with sync_field (fp : fplan) (p : rpath) (errs : list err) {struct fp} : sres * list err :=
  match fp with
  | FP _ nn res =>
      match res with
      | None => (SFail (err_at p KResolve), errs)
      | Some v => let '(r, e1) := sync_inner v p errs in (sync_nn nn p r, e1)
      end
  end.

Record sresp := { sr_data : option json; sr_errors : list err }.

Definition run_sync (root : selset) : sresp :=
  match sync_inner (VObj root) [] [] with
  | (SOk j, errs) => {| sr_data := Some j; sr_errors := errs |}
  | (SFail e, errs) => {| sr_data := None; sr_errors := errs ++ [e] |}
  end.

(** ** Landing sites *)
Definition site := (list pelem * list err)%type.    (* response path of the site, errors that may land there *)

(** [cand_* …] = (errors that may escape this position upwards, sites strictly inside it) *)
Definition cand_nn (nn : bool) (p : rpath) (v : vplan) (c : list err * list site) : list err * list site :=
  if nn then match v with VNull => ([err_at p KNullNN], snd c) | _ => c end else c.

Definition cand_catch (nn : bool) (p : rpath) (c : list err * list site) : list err * list site :=
  if nn then c else ([], (slice p, fst c) :: snd c).

Definition cand_items (f : vplan -> rpath -> list err * list site) (inn : bool) (p : rpath) :=
  fix cand_items (l : list vplan) (i : nat) {struct l} : list err * list site :=
  match l with
  | [] => ([], [])
  | x :: tl =>
      let q := PIdx i :: p in
      let c := cand_catch inn q (cand_nn inn q x (f x q)) in
      let r := cand_items tl (S i) in
      (fst c ++ fst r, snd c ++ snd r)
  end.

Definition cand_sel (f : fplan -> rpath -> list err * list site) (p : rpath) :=
  fix cand_sel (l : selset) {struct l} : list err * list site :=
  match l with
  | [] => ([], [])
  | (key, fp) :: tl =>
      let q := PKey key :: p in
      let c := cand_catch (match fp with FP _ nn _ => nn end) q (f fp q) in
      let r := cand_sel tl in
      (fst c ++ fst r, snd c ++ snd r)
  end.

Fixpoint cand_inner (v : vplan) (p : rpath) {struct v} : list err * list site :=
  match v with
  | VNull => ([], [])
  | VBad => ([err_at p KBad], [])
  | VLeaf _ => ([], [])
  | VList inn items => cand_items cand_inner inn p items 0
  | VObj fields => cand_sel cand_field p fields
  end
with cand_field (fp : fplan) (p : rpath) {struct fp} : list err * list site :=
  match fp with
  | FP _ nn res =>
      match res with
      | None => ([err_at p KResolve], [])
      | Some v => cand_nn nn p v (cand_inner v p)
      end
  end.

(** an error lands at a site that lists it *)
Definition lands (e : err) (x : site) : Prop := In e (snd x).

(** all sites of a request; the root site has the empty path *)
Definition sites (root : selset) : list site :=
  let c := cand_inner (VObj root) [] in ([], fst c) :: snd c.

Definition all_errors (root : selset) : list err := flat_map snd (sites root).

(** the site at which an error with response path [ep] lands *)
Definition lands_at (ss : list site) (ep : list pelem) : option (list pelem) :=
  match find (fun s => existsb (fun e => path_eqb (e_path e) ep) (snd s)) ss with
  | Some s => Some (fst s)
  | None => None
  end.

(** the value found in the data at a response path ([None]: the path does not exist in it) *)
Fixpoint json_at (j : json) (p : list pelem) : option json :=
  match p with
  | [] => Some j
  | PKey k :: tl =>
      match j with
      | JObj kvs => match find (fun kv => bytes_eqb (fst kv) k) kvs with
                    | Some (_, x) => json_at x tl
                    | None => None
                    end
      | _ => None
      end
  | PIdx i :: tl =>
      match j with
      | JList l => match nth_error l i with Some x => json_at x tl | None => None end
      | _ => None
      end
  end.

Definition data_at (d : option json) (p : list pelem) : option json :=
  match d with
  | Some j => json_at j p
  | None => match p with [] => Some JNull | _ => None end
  end.

(** a failure-null left visible in the data: a site whose inner value can fail and where the data
    shows null *)
Definition visible_failure_null (d : option json) (s : site) : bool :=
  match snd s with
  | [] => false
  | _ => match data_at d (fst s) with Some JNull => true | _ => false end
  end.
