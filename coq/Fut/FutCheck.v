(** * Fut/FutCheck.v — C02 correspondence: decode a case, run the async model (repaired flags)
    under the case's schedule and the synchronous reference, apply the oracle to what the
    implementation did, compare.  Executable only (extracted / vm_compute). *)
From Coq Require Import List NArith ZArith Bool String.
From ApiFu Require Import Base.Sexp Fut.Plan Fut.Future Fut.ExecAsync Fut.ExecSync Fut.FutSpec Fut.NoIdle.
Import ListNotations.
Open Scope string_scope.

(** ** Decoding *)
Fixpoint dec_v (s : sexp) {struct s} : option vplan :=
  match s with
  | SSym x => if String.eqb x "null" then Some VNull else if String.eqb x "bad" then Some VBad else None
  | SL (SSym t :: args) =>
      if String.eqb t "leaf" then
        match args with [SZ z] => Some (VLeaf z) | _ => None end
      else if String.eqb t "list" then
        match args with
        | nn :: items =>
            match as_bool nn,
                  (fix go (l : list sexp) : option (list vplan) :=
                     match l with
                     | [] => Some []
                     | x :: tl => match dec_v x, go tl with
                                  | Some v, Some vs => Some (v :: vs)
                                  | _, _ => None
                                  end
                     end) items with
            | Some b, Some vs => Some (VList b vs)
            | _, _ => None
            end
        | _ => None
        end
      else if String.eqb t "obj" then
        match (fix go (l : list sexp) : option (list (bytes * fplan)) :=
                 match l with
                 | [] => Some []
                 | SL [SStr k; f] :: tl => match dec_f f, go tl with
                                           | Some fp, Some fs => Some ((k, fp) :: fs)
                                           | _, _ => None
                                           end
                 | _ => None
                 end) args with
        | Some fs => Some (VObj fs)
        | None => None
        end
      else None
  | _ => None
  end
with dec_f (s : sexp) {struct s} : option fplan :=
  match s with
  | SL [SSym f; tg; nn; res] =>
      if String.eqb f "f" then
        match (if is_sym "none" tg then Some None else match as_N tg with Some n => Some (Some n) | None => None end),
              as_bool nn,
              (if is_sym "err" res then Some None else match dec_v res with Some v => Some (Some v) | None => None end) with
        | Some t, Some b, Some r => Some (FP t b r)
        | _, _, _ => None
        end
      else None
  | _ => None
  end.

Definition dec_sel (s : sexp) : option selset :=
  match s with
  | SL l => match dec_v (SL (SSym "obj" :: l)) with Some (VObj fs) => Some fs | _ => None end
  | _ => None
  end.

Fixpoint dec_json (s : sexp) {struct s} : option json :=
  match s with
  | SSym x => if String.eqb x "null" then Some JNull else None
  | SL (SSym t :: args) =>
      if String.eqb t "int" then match args with [SZ z] => Some (JInt z) | _ => None end
      else if String.eqb t "list" then
        match (fix go (l : list sexp) : option (list json) :=
                 match l with
                 | [] => Some []
                 | x :: tl => match dec_json x, go tl with
                              | Some v, Some vs => Some (v :: vs)
                              | _, _ => None
                              end
                 end) args with
        | Some js => Some (JList js)
        | None => None
        end
      else if String.eqb t "obj" then
        match (fix go (l : list sexp) : option (list (bytes * json)) :=
                 match l with
                 | [] => Some []
                 | SL [SStr k; x] :: tl => match dec_json x, go tl with
                                           | Some v, Some vs => Some ((k, v) :: vs)
                                           | _, _ => None
                                           end
                 | _ => None
                 end) args with
        | Some kvs => Some (JObj kvs)
        | None => None
        end
      else None
  | _ => None
  end.

Definition dec_pelem (s : sexp) : option pelem :=
  match s with
  | SStr k => Some (PKey k)
  | SZ z => if Z.ltb z 0 then None else Some (PIdx (Z.to_nat z))
  | _ => None
  end.
Definition dec_path (s : sexp) : option (list pelem) := as_list_of dec_pelem s.

Definition dec_err (s : sexp) : option (list pelem * nat) :=
  match s with
  | SL [p; m] => match dec_path p, as_nat m with Some pp, Some mm => Some (pp, mm) | _, _ => None end
  | _ => None
  end.

Definition dec_event (s : sexp) : option event :=
  match untag s with
  | Some (t, [p]) =>
      match dec_path p with
      | Some pp => if String.eqb t "start" then Some (EStart pp)
                   else if String.eqb t "fulfil" then Some (EFulfil pp) else None
      | None => None
      end
  | _ => None
  end.

Record obs := {
  o_status : string;
  o_data : option json;                   (* None = null *)
  o_errors : list (list pelem * nat);     (* path, index of the message text *)
  o_rounds : nat;
  o_promises : nat;
  o_events : list event
}.

Definition dec_data (s : sexp) : option (option json) :=
  if is_sym "null" s then Some None
  else match dec_json s with Some j => Some (Some j) | None => None end.

Definition dec_obs (s : sexp) : option obs :=
  match tagged "obs" s with
  | Some l =>
      match field1 "status" l, field1 "rounds" l, field1 "promises" l, field "events" l with
      | Some (SSym stt), Some r, Some pr, Some evs =>
          match as_nat r, as_nat pr, map_opt dec_event evs with
          | Some rr, Some pp, Some es =>
              if String.eqb stt "ok" then
                match field1 "data" l, field "errors" l with
                | Some d, Some errs =>
                    match dec_data d, map_opt dec_err errs with
                    | Some dd, Some ee =>
                        Some {| o_status := stt; o_data := dd; o_errors := ee; o_rounds := rr;
                                o_promises := pp; o_events := es |}
                    | _, _ => None
                    end
                | _, _ => None
                end
              else Some {| o_status := stt; o_data := None; o_errors := []; o_rounds := rr;
                           o_promises := pp; o_events := es |}
          | _, _, _ => None
          end
      | _, _, _, _ => None
      end
  | None => None
  end.

Definition dec_mode (s : sexp) : option mode :=
  if is_sym "query" s then Some Query else if is_sym "mutation" s then Some Mutation else None.

Record tcase := { c_mode : mode; c_plan : selset; c_ranks : list nat; c_pre : list bool;
                  c_feat : list string; c_noidle : bool; c_obs : obs }.

Definition dec_case (c : sexp) : option tcase :=
  match tagged "case" c with
  | Some l =>
      match field1 "mode" l, field1 "plan" l, field1 "ranks" l, field "obs" l with
      | Some m, Some p, Some r, Some o =>
          match dec_mode m, dec_sel p, as_list_of as_nat r, dec_obs (SL (SSym "obs" :: o)),
                (match field1 "pre" l with Some x => as_list_of as_bool x | None => Some [] end),
                (match field "feat" l with Some x => map_opt as_sym x | None => Some [] end) with
          | Some mm, Some pp, Some rr, Some oo, Some pre, Some ft =>
              Some {| c_mode := mm; c_plan := pp; c_ranks := rr; c_pre := pre; c_feat := ft;
                      c_noidle := match field1 "noidle" l with Some x => is_sym "true" x | None => false end;
                      c_obs := oo |}
          | _, _, _, _, _, _ => None
          end
      | _, _, _, _ => None
      end
  | None => None
  end.

(** ** Equalities *)
Fixpoint json_eqb (a b : json) {struct a} : bool :=
  match a, b with
  | JNull, JNull => true
  | JInt x, JInt y => Z.eqb x y
  | JList x, JList y =>
      (fix go (x y : list json) : bool :=
         match x, y with
         | [], [] => true
         | p :: ps, q :: qs => json_eqb p q && go ps qs
         | _, _ => false
         end) x y
  | JObj x, JObj y =>
      (fix go (x y : list (bytes * json)) : bool :=
         match x, y with
         | [], [] => true
         | (k, p) :: ps, (k', q) :: qs => bytes_eqb k k' && json_eqb p q && go ps qs
         | _, _ => false
         end) x y
  | _, _ => false
  end.

Definition data_eqb (a b : option json) : bool :=
  match a, b with
  | None, None => true
  | Some x, Some y => json_eqb x y
  | _, _ => false
  end.

Fixpoint remove_path (p : list pelem) (l : list (list pelem)) : option (list (list pelem)) :=
  match l with
  | [] => None
  | q :: tl => if path_eqb p q then Some tl
               else match remove_path p tl with Some r => Some (q :: r) | None => None end
  end.
Fixpoint paths_perm (a b : list (list pelem)) : bool :=
  match a with
  | [] => match b with [] => true | _ => false end
  | p :: tl => match remove_path p b with Some b' => paths_perm tl b' | None => false end
  end.

Definition event_eqb (a b : event) : bool :=
  match a, b with
  | EStart p, EStart q => path_eqb p q
  | EFulfil p, EFulfil q => path_eqb p q
  | _, _ => false
  end.
Fixpoint events_eqb (a b : list event) : bool :=
  match a, b with
  | [], [] => true
  | x :: xs, y :: ys => event_eqb x y && events_eqb xs ys
  | _, _ => false
  end.

(** ** The oracle: what C02 demands of the implementation's output, given the plan *)
(** [has_blank_key] is Fut/FutSpec.v's *)
Fixpoint has_dup_err (l : list (list pelem * nat)) : bool :=
  match l with
  | [] => false
  | (p, m) :: tl => existsb (fun q => path_eqb p (fst q) && Nat.eqb m (snd q)) tl || has_dup_err tl
  end.

Fixpoint has_dup_path (l : list (list pelem)) : bool :=
  match l with
  | [] => false
  | p :: tl => existsb (path_eqb p) tl || has_dup_path tl
  end.

Definition of_path (p : list pelem) : sexp :=
  SL (map (fun e => match e with PKey k => SStr k | PIdx i => of_nat i end) p).

Definition oracle (root : selset) (o : obs) : option sexp :=
  if negb (String.eqb (o_status o) "ok") then Some (v_oracle_fail (o_status o) [])
  else
    let ss := sites root in
    let ref := run_sync root in
    let epaths := map fst (o_errors o) in
    let landed := map (lands_at ss) epaths in
    if match o_data o with Some j => has_blank_key j | None => false end then Some (v_oracle_fail "blank-key" [])
    else if match o_data o, o_errors o with None, [] => true | _, _ => false end
         then Some (v_oracle_fail "null-data-without-error" [])
    else if negb (data_eqb (o_data o) (sr_data ref)) then Some (v_oracle_fail "data-differs" [])
    else if has_dup_err (o_errors o) then Some (v_oracle_fail "duplicate-error" [])
    else if existsb (fun x => match x with None => true | Some _ => false end) landed
         then Some (v_oracle_fail "spurious-error" [])
    else if has_dup_path (flat_map (fun x => match x with Some p => [p] | None => [] end) landed)
         then Some (v_oracle_fail "two-errors-one-null" [])
    else match find (fun s => visible_failure_null (o_data o) s &&
                              negb (existsb (fun x => match x with Some p => path_eqb p (fst s) | None => false end) landed)) ss with
         | Some s => Some (v_oracle_fail "missing-error" [of_path (fst s)])
         | None =>
             if Nat.ltb (o_promises o) (o_rounds o) then Some (v_oracle_fail "too-many-rounds" [])
             else None
         end.

(** the literal reading of "the same error for every null left visible": the error reported for a
    visible failure-null is the one the synchronous reference reports for it.  The code does not
    guarantee this when several errors are admissible at one site (known finding
    admissible-error-differs); evaluated after the correspondence comparison. *)
Definition soft_oracle (root : selset) (o : obs) : option sexp :=
  let ss := sites root in
  let ref := run_sync root in
  let at_site (paths : list (list pelem)) (s : site) : option (list pelem) :=
      find (fun ep => match lands_at ss ep with Some p => path_eqb p (fst s) | None => false end) paths in
  let ip := map fst (o_errors o) in
  let rp := map e_path (sr_errors ref) in
  match find (fun s => visible_failure_null (o_data o) s &&
                       Nat.leb 2 (List.length (snd s)) &&     (* several errors are admissible here *)
                       match at_site ip s, at_site rp s with
                       | Some a, Some b => negb (path_eqb a b)
                       | _, _ => false
                       end) ss with
  | Some s => Some (v_oracle_fail "admissible-error-differs" [of_path (fst s)])
  | None => None
  end.

(** ** Evidence classes (computed from the plan and the schedule) *)
Definition distinct_ranks (l : list nat) : bool :=
  match l with
  | [] => false
  | r :: tl => existsb (fun x => negb (Nat.eqb x r)) tl
  end.

Definition direct_ranks (ranks : list nat) (fs : list (bytes * fplan)) : list nat :=
  flat_map (fun kf => match snd kf with FP (Some t) _ _ => [rank_of ranks t] | _ => [] end) fs.

Fixpoint v_exists (P : vplan -> bool) (Q : fplan -> bool) (v : vplan) {struct v} : bool :=
  P v ||
  match v with
  | VList _ items => (fix go (l : list vplan) : bool := match l with [] => false | x :: tl => v_exists P Q x || go tl end) items
  | VObj fs => (fix go (l : list (bytes * fplan)) : bool :=
                  match l with [] => false | (_, f) :: tl => f_exists P Q f || go tl end) fs
  | _ => false
  end
with f_exists (P : vplan -> bool) (Q : fplan -> bool) (f : fplan) {struct f} : bool :=
  Q f || match f with FP _ _ (Some v) => v_exists P Q v | _ => false end.

Definition has_async_v (v : vplan) : bool :=
  v_exists (fun _ => false) (fun f => match f with FP (Some _) _ _ => true | _ => false end) v.

Definition item_fails (v : vplan) : bool := match v with VNull | VBad => true | _ => false end.

Definition classes (md : mode) (root : selset) (ranks : list nat) (pre : list bool) (feat : list string) (ref : sresp) : list string :=
  let rv := VObj root in
  let split := v_exists (fun v => match v with VObj fs => distinct_ranks (direct_ranks ranks fs) | _ => false end)
                        (fun _ => false) rv in
  let fail_nn := v_exists (fun _ => false)
                          (fun f => match f with
                                    | FP (Some _) true None | FP (Some _) true (Some VNull) | FP (Some _) true (Some VBad) => true
                                    | _ => false end) rv in
  let fail_list := v_exists (fun _ => false)
                            (fun f => match f with
                                      | FP (Some _) _ (Some v) =>
                                          v_exists (fun x => match x with VList true items => existsb item_fails items | _ => false end)
                                                   (fun _ => false) v
                                      | _ => false end) rv in
  let pip := v_exists (fun _ => false)
                      (fun f => match f with
                                | FP (Some _) _ (Some (VList _ items)) => existsb has_async_v items
                                | _ => false end) rv in
  let nested := v_exists (fun _ => false)
                         (fun f => match f with FP (Some _) _ (Some v) => has_async_v v | _ => false end) rv in
  (if has_async_v rv then ["async"] else ["sync-only"]) ++
  (if v_exists (fun _ => false) (fun f => match f with FP (Some t) _ _ => tag_prefilled t | _ => false end) rv
   then ["prefilled-promise"] else []) ++ feat ++
  (match md with Mutation => ["mutation"] | Query => [] end) ++
  (if split then ["split-rounds"] else []) ++
  (if fail_nn then ["promise-fails-under-nonnull"] else []) ++
  (if fail_list then ["failure-in-nonnull-list-under-promise"] else []) ++
  (if pip then ["promise-in-list-in-promise"] else []) ++
  (if nested then ["promise-in-promise"] else []) ++
  (match sr_data ref with None => ["data-null"] | Some _ => [] end) ++
  (match sr_errors ref with [] => [] | _ => ["errors"] end) ++
  (if split || fail_nn || pip then ["nontrivial"] else []).

(** ** check *)
(** [true] once known_findings.txt carries the line for key admissible-error-differs (./check then prints
    KNOWN-FINDING and exits 0); until then such cases are counted as a class of their own *)
Definition report_known_as_failure : bool := true.

Fixpoint vsize (v : vplan) : nat :=
  match v with
  | VList _ items => S ((fix go (l : list vplan) : nat := match l with [] => 0 | x :: tl => vsize x + go tl end) items)
  | VObj fs => S ((fix go (l : list (bytes * fplan)) : nat :=
                     match l with [] => 0 | (_, FP _ _ (Some v)) :: tl => S (vsize v) + go tl | _ :: tl => 1 + go tl end) fs)
  | _ => 1
  end.

(** a request WITHOUT an idle handler (executor.go wait(): "No idle handler defined."): the model is
    [NoIdle.run_nil]; the C02 oracle does not apply (the premise "every round fulfils a promise"
    is void), what is demanded instead: no crash, no hang, no idle round, and null data only with
    an error *)
Definition check_noidle (c : tcase) : sexp :=
  let root := c_plan c in
  let o := c_obs c in
  if negb (String.eqb (o_status o) "ok") then v_oracle_fail (o_status o) []
  else if negb (Nat.eqb (o_rounds o) 0) then v_oracle_fail "idle-round-without-handler" []
  else if match o_data o, o_errors o with None, [] => true | _, _ => false end
       then v_oracle_fail "null-data-without-error" []
  else
    match run_nil fixed_flags (c_mode c) (S (S (vsize (VObj root)))) root with
    | Done r =>
        if negb (data_eqb (r_data r) (o_data o)) then v_mismatch "data" []
        else if negb (paths_perm (map e_path (r_errors r)) (map fst (o_errors o))) then
               v_mismatch "errors" [of_list of_path (map e_path (r_errors r))]
        else if negb (Nat.eqb (r_promises r) (o_promises o)) then v_mismatch "promises" [of_nat (r_promises r)]
        else if negb (events_eqb (r_events r) (o_events o)) then v_mismatch "events" []
        else v_ok ("no-idle-handler" ::
                   (if existsb (fun e => match e_path e with [] => true | _ => false end) (r_errors r)
                    then ["no-idle-handler-error"; "nontrivial"] else ["no-idle-handler-not-needed"]) ++ c_feat c)
    | Stuck => v_mismatch "model-stuck" []
    | OutOfFuel => v_mismatch "model-out-of-fuel" []
    end.

Definition check_case (c : tcase) : sexp :=
  if c_noidle c then check_noidle c else
  let root := c_plan c in
  let o := c_obs c in
  match oracle root o with
  | Some v => v
  | None =>
      let fuel := S (count_async root) in
      let jfuel := S (S (vsize (VObj root))) in
      let pre := c_pre c in
      match run fixed_flags (sigma_ranks (c_ranks c)) (c_mode c) fuel jfuel root with
      | Done r =>
          if negb (data_eqb (r_data r) (o_data o)) then v_mismatch "data" []
          else if negb (paths_perm (map e_path (r_errors r)) (map fst (o_errors o))) then
                 v_mismatch "errors" [of_list of_path (map e_path (r_errors r))]
          else if negb (Nat.eqb (r_rounds r) (o_rounds o)) then v_mismatch "rounds" [of_nat (r_rounds r)]
          else if negb (Nat.eqb (r_promises r) (o_promises o)) then v_mismatch "promises" [of_nat (r_promises r)]
          else if negb (events_eqb (r_events r) (o_events o)) then v_mismatch "events" []
          else match soft_oracle root o with
               | Some v =>
                   if report_known_as_failure then v
                   else v_ok ("admissible-error-differs" :: classes (c_mode c) root (c_ranks c) pre (c_feat c) (run_sync root))
               | None => v_ok (classes (c_mode c) root (c_ranks c) pre (c_feat c) (run_sync root))
               end
      | Stuck => v_mismatch "model-stuck" []
      | OutOfFuel => v_mismatch "model-out-of-fuel" []
      end
  end.

Definition check (c : sexp) : sexp :=
  match dec_case c with
  | Some tc => check_case tc
  | None => v_bad "decode"
  end.
