(** * Fut/BridgeC01.v — from C01's world (schema, document, variables, resolver-outcome tree) to a
    C02 plan tree, such that the data the plan denotes ([ddata], which is the data of [run_sync] and
    of every asynchronous run) is the data of C01's reference [exec_spec] — and hence, by
    C01_exec_data_eq, of C01's model of the synchronous executor.

    [plan_of] follows C01's reference step by step: CollectFields ([s_collect], used as it is),
    the field kinds, ResolveAbstractType, result coercion ([coerce_scalar] / [coerce_enum], used
    as they are) decide which plan node a position gets:
      a resolver error -> [FP _ nn None]; nil -> [VNull]; an un-coercible leaf, a non-list
      for a list type, an unresolvable abstract type, a non-output type -> [VBad];
      a coerced leaf j -> [VLeaf (code j)] for an arbitrary coding [code] of leaf values into Z
      (C02's plans carry integers as leaves); lists and objects recursively.
    C01 and C02 both define json / outcome / run …: C01's names are used qualified here. *)
From Coq Require Import List NArith ZArith Bool Lia.
From ApiFu Require Import Base.Sexp Fut.Plan Fut.ExecSync Fut.Denote Fut.FutSpec.
From ApiFu Require ExeA.ArgData ExeA.ArgArgs ExeA.ArgSpec Val.Values.
Import ListNotations.

Module D := ArgData.
Module X := ArgSpec.

Section Bridge.
  Variable code : D.json -> Z.                     (* any coding of leaf values *)
  Variables (S : D.schema) (Doc : D.document) (E : D.env) (fuel : nat).

  (** translation of C01's response values *)
  Fixpoint tr (j : D.json) : json :=
    match j with
    | D.JNull => JNull
    | D.JArr xs => JList (map tr xs)
    | D.JObj kvs => JObj (map (fun kv => (fst kv, tr (snd kv))) kvs)
    | _ => JInt (code j)
    end.

  Definition is_nn (t : D.sty) : bool := match t with D.StNonNull _ => true | _ => false end.

  (** the plan of a position, given its type and the field nodes that selected it; [None]: the
      resolver failed *)
  Definition planner := D.sty -> list D.fnode -> option vplan.
  Definition p_resolver_error : planner := fun _ _ => None.

  Record pview := { pv_null : bool; pv_leaf : D.gval; pv_items : option (list planner);
                    pv_tag : option D.name; pv_field : D.name -> planner }.

  Definition unres (r : option vplan) : vplan := match r with Some v => v | None => VBad end.

  Definition p_entry (children : D.name -> planner) (ot : D.name) (kf : D.name * list D.fnode)
    : list (bytes * fplan) :=
    let key := fst kf in
    match snd kf with
    | [] => []
    | f :: _ =>
        match X.s_field_kind S ot (D.fn_name f) with
        | X.SFTypename => [(key, FP None false (Some (VLeaf (code (D.JStr ot)))))]
        | X.SFMeta => [(key, FP None false (Some (VLeaf (code D.JMeta))))]
        | X.SFUndefined => []
        | X.SFType t => [(key, FP None (is_nn t) (children (D.fn_name f) t (snd kf)))]
        end
    end.

  (** ExecuteField's argument step, as C01's reference does it ([s_with_args]): C05's
      CoerceArgumentValues for the first field node; if it raises, the field fails (a [VBad]);
      otherwise the resolver answers with the entry [field_key fieldName arguments] of the object
      value's outcome table *)
  Definition p_with_args (children : D.name -> planner) (ot : D.name) : D.name -> planner :=
    fun fname t fields =>
      match fields with
      | [] => Some VBad
      | f :: _ =>
          match ArgArgs.coerce_field_args S Doc ot f with
          | Values.Ok A => children (ArgArgs.field_key fname A) t fields
          | _ => Some VBad
          end
      end.

  Definition p_selection_set (children : D.name -> planner) (ot : D.name) (sels : list D.selection) : vplan :=
    match X.s_collect S Doc E fuel ot sels with
    | None => VBad                                  (* out of fuel: the reference fails here *)
    | Some groups => VObj (flat_map (p_entry (p_with_args children ot) ot) groups)
    end.

  Definition plan_view (v : pview) : planner :=
    fix pty (ty : D.sty) (fields : list D.fnode) {struct ty} : option vplan :=
      match ty with
      | D.StNonNull t => pty t fields
      | D.StList t =>
          if pv_null v then Some VNull
          else match pv_items v with
               | None => Some VBad
               | Some items => Some (VList (is_nn t) (map (fun c => unres (c t fields)) items))
               end
      | D.StNamed n =>
          if pv_null v then Some VNull
          else
            let object (ot : D.name) :=
              Some (p_selection_set (pv_field v) ot (X.s_merge_selection_sets fields)) in
            match D.lookup_type S n with
            | Some (D.NScalar k) =>
                match D.coerce_scalar true k (pv_leaf v) with
                | Some j => Some (VLeaf (code j))
                | None => Some VBad
                end
            | Some (D.NEnum vals) =>
                match D.coerce_enum vals (pv_leaf v) with
                | Some j => Some (VLeaf (code j))
                | None => Some VBad
                end
            | Some (D.NObject _ _) => object n
            | Some (D.NInterface _) | Some (D.NUnion _) =>
                match X.s_resolve_abstract S n (pv_tag v) with
                | Some ot => object ot
                | None => Some VBad
                end
            | Some D.NInput | None => Some VBad
            end
      end.

  Definition p_field_of (l : list (D.name * planner)) (n : D.name) : planner :=
    match D.assoc n l with Some c => c | None => p_resolver_error end.

  Fixpoint plan_complete (o : D.outcome) : planner :=
    plan_view
      {| pv_null := D.is_nil o;
         pv_leaf := D.leaf_of o;
         pv_items := match o with D.OList l => Some (map plan_complete l) | _ => None end;
         pv_tag := match o with D.OObj t _ => Some t | _ => None end;
         pv_field := match o with
                     | D.OObj _ fs =>
                         p_field_of (map (fun p => match p with
                                                   | (n, o') => (n, match o' with
                                                                    | D.OErr => p_resolver_error
                                                                    | _ => plan_complete o'
                                                                    end)
                                                   end) fs)
                     | _ => fun _ => p_resolver_error
                     end |}.

  Definition plan_resolve (o : D.outcome) : planner :=
    match o with D.OErr => p_resolver_error | _ => plan_complete o end.
  Definition plan_children_of (o : D.outcome) : D.name -> planner :=
    match o with
    | D.OObj _ fs => p_field_of (map (fun p => (fst p, plan_resolve (snd p))) fs)
    | _ => fun _ => p_resolver_error
    end.

  (** a plan whose data is null: what a request without root type / out of fuel at the root denotes *)
  Definition failing_plan : selset := [([], FP None true None)].

  Definition plan_of (W : D.outcome) : selset :=
    match X.s_root_type S (D.op_kind Doc) with
    | None => failing_plan
    | Some rt =>
        match p_selection_set (plan_children_of W) rt (D.op_sels Doc) with
        | VObj fs => fs
        | _ => failing_plan
        end
    end.

  Definition tr_data (d : option D.json) : option json := option_map tr d.
End Bridge.
