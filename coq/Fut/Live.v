(** * Fut/Live.v — the invariant of the asynchronous executor (repaired flags).

    [val_ok]/[INV]: every value ever stored in a result-map slot, or returned by a future, is the
    right one for its plan position (relative to a ghost table [G] that remembers, for each
    allocated result map, the entries the plan expects in it).

    [Live…]: the shapes a not-yet-complete future of each plan position can have, together with
    a ghost account of the resources it still holds: the landing sites that have not fired, the
    promise ids it waits for, and a bound on the promises it may still create. *)
From Coq Require Import List NArith ZArith Bool Lia Permutation.
From ApiFu Require Import Base.Sexp Fut.Plan Fut.Future Fut.ExecAsync Fut.ExecSync Fut.Denote Fut.SubPerm.
Import ListNotations.

Notation FX := fixed_flags.
Notation clo := (Future.clo st).
Notation fut := (Future.fut st).

(** ** induction on Go values *)
Section GvalInd.
  Variable P : gval -> Prop.
  Hypothesis HNil : P GNil.
  Hypothesis HInt : forall z, P (GInt z).
  Hypothesis HList : forall l, Forall P l -> P (GList l).
  Hypothesis HMap : forall m, P (GMap m).
  Hypothesis HNilMap : P GNilMap.
  Hypothesis HUnit : P GUnit.
  Fixpoint gval_ind2 (v : gval) : P v :=
    match v with
    | GNil => HNil
    | GInt z => HInt z
    | GList l => HList l ((fix go (l : list gval) : Forall P l :=
                             match l with
                             | [] => Forall_nil _
                             | x :: tl => Forall_cons x (gval_ind2 x) (go tl)
                             end) l)
    | GMap m => HMap m
    | GNilMap => HNilMap
    | GUnit => HUnit
    end.
End GvalInd.

(** ** The heap of result maps against the plan *)
Definition ghe := list (list (bytes * json)).
Definition heap := list (list slot).

Definition entries (fields : selset) : list (bytes * json) :=
  map (fun kf => (fst kf, jf (snd kf))) fields.

Definition full (slots : list slot) : Prop := Forall (fun sl => sl <> None) slots.

Inductive val_ok (G : ghe) (H : heap) : gval -> json -> Prop :=
| VO_nil : val_ok G H GNil JNull
| VO_int z : val_ok G H (GInt z) (JInt z)
| VO_list vs js : Forall2 (val_ok G H) vs js -> val_ok G H (GList vs) (JList js)
| VO_map m kvs slots :
    nth_error G m = Some kvs -> nth_error H m = Some slots -> full slots ->
    val_ok G H (GMap m) (JObj kvs).

Definition INV (G : ghe) (H : heap) : Prop :=
  length G = length H /\
  forall m slots kvs, nth_error H m = Some slots -> nth_error G m = Some kvs ->
    length slots = length kvs /\
    forall i k v, nth_error slots i = Some (Some (k, v)) ->
      exists j, nth_error kvs i = Some (k, j) /\ val_ok G H v j.

Definition hle (H H' : heap) : Prop :=
  forall m slots, nth_error H m = Some slots ->
    exists slots', nth_error H' m = Some slots' /\ length slots' = length slots /\
      forall i x, nth_error slots i = Some (Some x) -> exists y, nth_error slots' i = Some (Some y).

Definition gle (G G' : ghe) : Prop := exists X, G' = G ++ X.

Definition proms_le (ps ps' : list promise) : Prop :=
  forall id pr, nth_error ps id = Some pr ->
    exists pr', nth_error ps' id = Some pr' /\ p_ok pr' = p_ok pr.

Definition sle (s s' : st) : Prop :=
  hle (s_maps s) (s_maps s') /\ proms_le (s_proms s) (s_proms s') /\ incl (s_errs s) (s_errs s').

(** an error landing at this site has been appended to executor.Errors *)
Definition Fired (s : st) (x : site) : Prop := exists e, In e (s_errs s) /\ lands e x.

(** ** Ghost accounts *)
Record ghost := { g_sites : list site; g_ids : list nat; g_pot : nat }.
Definition g0 : ghost := {| g_sites := []; g_ids := []; g_pot := 0 |}.
Definition gplus (a b : ghost) : ghost :=
  {| g_sites := g_sites a ++ g_sites b; g_ids := g_ids a ++ g_ids b; g_pot := g_pot a + g_pot b |}.
Definition gsite (x : site) (g : ghost) : ghost :=
  {| g_sites := x :: g_sites g; g_ids := g_ids g; g_pot := g_pot g |}.

Definition count_async_r (res : option vplan) : nat :=
  match res with Some v => count_async_v v | None => 0 end.
Definition is_some {A} (o : option A) : bool := match o with Some _ => true | None => false end.

(** ** Live futures *)
Section Live.
  Variable G : ghe.
  Variable s : st.

  Inductive LiveI : vplan -> rpath -> clo -> ghost -> Prop :=
  | LI_list inn items p fs res g :
      LiveItems inn p items 0 fs res g ->
      Exists (fun f => match f with Pending _ => True | Ready _ => False end) fs ->
      LiveI (VList inn items) p (CMapOkToAny (CJoin fs res)) g
  | LI_obj fields p c g :
      LiveS fields p c g ->
      LiveI (VObj fields) p (CMapOkToAny c) g

  (** the future of executeSelections: MapOkValue(After(futures...), resultMap) *)
  with LiveS : selset -> rpath -> clo -> ghost -> Prop :=
  | LS_intro fields p m futs idxs g slots :
      nth_error (s_maps s) m = Some slots ->
      length slots = length fields ->
      nth_error G m = Some (entries fields) ->
      LiveSel m p fields futs idxs g ->
      (forall i key fp, nth_error fields i = Some (key, fp) ->
         In i idxs \/
         ((exists x, nth_error slots i = Some (Some x)) /\ (fp_nn fp = true -> fails_f fp = false) /\
          Forall (Fired s) (must_CF fp (PKey key :: p)))) ->
      idxs <> [] ->
      LiveS fields p (CMapOkValue (GMap m) (CAfter futs)) g

  with LiveSel : nat -> rpath -> selset -> list fut -> list nat -> ghost -> Prop :=
  | LSel_nil m p fields : LiveSel m p fields [] [] g0
  | LSel_done m p fields fs idxs g :
      LiveSel m p fields fs idxs g ->
      LiveSel m p fields (Ready (ROk GNil) :: fs) idxs g
  | LSel_pending m p fields i key fp c fs idxs g1 g :
      nth_error fields i = Some (key, fp) ->
      LiveCF fp (PKey key :: p) c g1 ->
      LiveSel m p fields fs idxs g ->
      LiveSel m p fields (Pending (CMapOk (set_slot m i key) c) :: fs) (i :: idxs) (gplus g1 g)

  with LiveItems : bool -> rpath -> list vplan -> nat -> list fut -> list gval -> ghost -> Prop :=
  | LIt_nil inn p i res : length res = i -> LiveItems inn p [] i [] res g0
  | LIt_ready inn p x tl i v fs res g :
      (inn = true -> fails_w true x = false) ->
      val_ok G (s_maps s) v (jc x) ->
      Forall (Fired s) (must_CI inn x (PIdx i :: p)) ->
      nth_error res i = Some v ->
      LiveItems inn p tl (S i) fs res g ->
      LiveItems inn p (x :: tl) i (Ready (ROk v) :: fs) res g
  | LIt_pending inn p x tl i c fs res g1 g :
      LiveCI inn x (PIdx i :: p) c g1 ->
      LiveItems inn p tl (S i) fs res g ->
      LiveItems inn p (x :: tl) i (Pending c :: fs) res (gplus g1 g)

  (** catchErrorIfNullable around a list item / a field *)
  with LiveCI : bool -> vplan -> rpath -> clo -> ghost -> Prop :=
  | LCI_nn x q c g : LiveW true x q c g -> LiveCI true x q c g
  | LCI_catch x q c g :
      LiveW false x q c g ->
      LiveCI false x q (CMap (catch_error) c) (gsite (slice q, fst (cand_inner x q)) g)

  with LiveCF : fplan -> rpath -> clo -> ghost -> Prop :=
  | LCF_nn fp q c g : fp_nn fp = true -> LiveF fp q c g -> LiveCF fp q c g
  | LCF_catch fp q c g :
      fp_nn fp = false -> LiveF fp q c g ->
      LiveCF fp q (CMap (catch_error) c) (gsite (slice q, fst (cand_field fp q)) g)

  (** completeValue with its non-null wrapper *)
  with LiveW : bool -> vplan -> rpath -> clo -> ghost -> Prop :=
  | LW_nn v p c g : LiveI v p c g -> LiveW true v p (CMap (nn_check p) c) g
  | LW_plain v p c g : LiveI v p c g -> LiveW false v p c g

  (** executeField's promise adapter *)
  with LiveF : fplan -> rpath -> clo -> ghost -> Prop :=
  | LF_sync tag nn v p c g :
      LiveW nn v p c g ->
      LiveF (FP tag nn (Some v)) p c g
  | LF_wait tag nn res p id :
      option_map p_ok (nth_error (s_proms s) id) = Some (is_some res) ->
      LiveF (FP tag nn res) p
            (CThen (field_k FX nn res p) (CNew (promise_poll id)) None)
            {| g_sites := snd (cand_field (FP tag nn res) p); g_ids := [id]; g_pot := count_async_r res |}
  | LF_then tag nn v p id c2 g :
      LiveW nn v p c2 g ->
      LiveF (FP tag nn (Some v)) p
            (CThen (field_k FX nn (Some v) p) (CNew (promise_poll id)) (Some (Pending c2))) g.
End Live.
