(** * Fut/AsyncMain.v — every plan position meets its specification, at construction and at each
    poll (the mutual induction over plan trees), and the resulting invariant of whole requests. *)
From Coq Require Import List NArith ZArith Bool Lia Permutation.
From ApiFu Require Import Base.Sexp Fut.Plan Fut.Future Fut.ExecAsync Fut.ExecSync Fut.Denote Fut.SubPerm
     Fut.Live Fut.LiveFacts Fut.Acct Fut.AsyncWrap Fut.AsyncField Fut.AsyncList Fut.AsyncSel.
Import ListNotations.

Lemma leaf_build v p r :
  (forall s, complete_inner FX v p s = (Ready r, s)) ->
  (forall G s, ResOK G s (spec_I v p) r) ->
  BuildSpec (complete_inner FX v p) (budget_I v p) (fun G s => LiveI G s v p) (spec_I v p).
Proof.
  intros Hc Hr G s f s' I C E. rewrite Hc in E. injection E as <- <-.
  exists G, g0. split.
  - split; [apply gle_refl|]. split; [apply sle_refl|]. split; [exact I|].
    eapply Acct_drop, Acct_refl.
  - simpl. split; auto.
Qed.

Theorem build_step_all :
  (forall v, BuildI v /\ StepI v) /\ (forall f, BuildF f /\ StepF f).
Proof.
  apply plan_ind.
  - split.
    + intros p. apply leaf_build with (r := ROk GNil); [reflexivity|].
      intros G s. simpl. split; auto. split; constructor.
    + intros p G s c g c' ro s' I C L. inversion L.
  - intros z. split.
    + intros p. apply leaf_build with (r := ROk (GInt z)); [reflexivity|].
      intros G s. simpl. split; auto. split; constructor.
    + intros p G s c g c' ro s' I C L. inversion L.
  - split.
    + intros p. apply leaf_build with (r := RErr (err_at p KBad)); [reflexivity|].
      intros G s. simpl. split; auto.
    + intros p G s c g c' ro s' I C L. inversion L.
  - intros inn items F. split.
    + intros p. apply list_build. eapply Forall_impl; [|exact F]. intros x [A _]. exact A.
    + intros p. apply list_step. eapply Forall_impl; [|exact F]. intros x [_ B]. exact B.
  - intros fields F. split.
    + intros p. apply obj_build. rewrite Forall_forall in *. intros kf Hin. apply (F kf Hin).
    + intros p. apply obj_step. rewrite Forall_forall in *. intros kf Hin. apply (F kf Hin).
  - intros tag nn. split.
    + intros q. apply F_build; intros v E; discriminate.
    + intros q. apply F_step; intros v E; discriminate.
  - intros tag nn v [Bv Sv]. split.
    + intros q. apply F_build; intros v0 E; injection E as <-; auto.
    + intros q. apply F_step; intros v0 E; injection E as <-; auto.
Qed.

Lemma sel_build_all (fields : selset) : Forall (fun kf => BuildF (snd kf)) fields.
Proof. apply Forall_forall. intros kf _. apply build_step_all. Qed.
Lemma sel_step_all (fields : selset) : Forall (fun kf => StepF (snd kf)) fields.
Proof. apply Forall_forall. intros kf _. apply build_step_all. Qed.
